"""HX - explicit-state breadth-first exploration of operation histories on real objects.

A check supplies a *spec* object (module-level factory `get_spec(name)`), with
    spec.initials()            -> list of (label, state)            fresh objects every call
    spec.ops                   -> list of Op(name, arg, fn)         fn(state) -> (state_after, observation)
    spec.invariant(state, obs, op, hist_names) -> list of dict(clause=..., observed=..., ...)   ([] = fine)
    spec.expandable(state)     -> bool  (optional) do not expand further (e.g. state inside a known-finding band)
    spec.state_key(state)      -> (sig, vals)  (optional; default canon.flatten)
States are snapshotted with pickle; transitions call the real methods on an unpickled private copy.
"""
import pickle
import time

import numpy as np

from mc import canon
from mc.pool import HarnessError, shards


class Op:
    __slots__ = ("name", "arg", "fn")

    def __init__(self, name, arg, fn):
        self.name, self.arg, self.fn = name, arg, fn

    def label(self):
        return {"op": self.name, "arg": canon.jsonable(self.arg)}


def _spec(mod, name):
    import importlib
    m = importlib.import_module(mod)
    return m.get_spec(name)


def _flat(spec, st):
    f = getattr(spec, "state_key", None)
    return f(st) if f else canon.flatten(st)


def hist_labels(spec, hist):
    init = hist[0]
    return [{"init": init}] + [spec.ops[i].label() for i in hist[1:]]


def apply_history(spec, hist):
    """From-scratch execution of a history: (state, [observations])."""
    st = dict(spec.initials())[hist[0]] if not isinstance(hist[0], int) else spec.initials()[hist[0]][1]
    obs = []
    for i in hist[1:]:
        st, o = spec.ops[i].fn(st)
        obs.append(o)
    return st, obs


def expand_worker(payload):
    mod, name, items, last, opsel = payload
    spec = _spec(mod, name)
    ops = spec.ops
    out_new, viols, obs_keys = [], [], set()
    local = set()
    ntrans = 0
    nexc = 0
    for blob, hist in items:
        for oi, op in enumerate(ops):
            if opsel is not None and not opsel(op):
                continue
            st = pickle.loads(blob)
            ntrans += 1
            names = None
            try:
                st2, obs = op.fn(st)
                bad = spec.invariant(st2, obs, op, hist)
            except Exception as e:  # a public call that raises on a valid history is itself reportable
                nexc += 1
                bad = spec.on_exception(e, op, hist) if hasattr(spec, "on_exception") else [
                    {"clause": "raised", "observed": "%s: %s" % (type(e).__name__, str(e)[:200])}]
                st2, obs = None, None
            h2 = hist + [oi]
            for b in bad:
                b = dict(b)
                b["case"] = {"spec": name, "history": hist_labels(spec, h2), "hist": h2}
                viols.append(b)
            if st2 is None:
                continue
            osig, ovals = canon.flatten(obs)
            obs_keys.add(canon.key_of((op.name,) + osig, ovals, 7))
            if bad and not getattr(spec, "expand_violating", False):
                continue
            sig, vals = _flat(spec, st2)
            k = canon.key_of(sig, vals)
            if k in local:
                continue
            local.add(k)
            exp = spec.expandable(st2) if hasattr(spec, "expandable") else True
            out_new.append((k, h2, None if (last or not exp) else pickle.dumps(st2, protocol=4), exp))
    return out_new, viols, ntrans, nexc, obs_keys


def replay_worker(payload):
    mod, name, items = payload
    spec = _spec(mod, name)
    bad = []
    for k, hist in items:
        try:
            st, obs = apply_history(spec, hist)
            sig, vals = _flat(spec, st)
            k2 = canon.key_of(sig, vals)
        except Exception as e:
            bad.append((hist, "raised on replay: %r" % (e,)))
            continue
        if k2 != k:
            # the key is a rounded hash; a last-digit flip is not a divergence.  Re-derive the snapshot path
            # (pickle round trip between steps, as the search did) and compare numerically.
            st3 = spec.initials()[hist[0]][1] if isinstance(hist[0], int) else dict(spec.initials())[hist[0]]
            for i in hist[1:]:
                st3 = pickle.loads(pickle.dumps(st3, protocol=4))
                st3, _ = spec.ops[i].fn(st3)
            sig3, vals3 = _flat(spec, st3)
            if not canon.close(sig, vals, sig3, vals3, 1e-8):
                bad.append((hist_labels(spec, hist), "from-scratch execution differs from the snapshot path"))
    return len(items), bad


def explore(ctx, mod, name, depth, pool, replay_cap=None, chunk=None):
    """Breadth-first to `depth`.  Returns a result dict; violations are appended to ctx."""
    spec = _spec(mod, name)
    seen = {}
    frontier = []
    for label, st in spec.initials():
        sig, vals = _flat(spec, st)
        k = canon.key_of(sig, vals)
        if k not in seen:
            seen[k] = [label]
            frontier.append((pickle.dumps(st, protocol=4), [label]))
    ntrans = nexc = 0
    obs_keys = set()
    completed = 0
    nviol = 0
    per_depth = []
    unexpanded = 0
    for d in range(1, depth + 1):
        if not frontier:
            completed = depth
            break
        if ctx.timed_out():
            break
        last = d == depth
        nsh = max(1, min(len(frontier), pool.workers * 4))
        if chunk:
            nsh = max(nsh, (len(frontier) + chunk - 1) // chunk)
        payloads = [(mod, name, frontier[lo:hi], last, None) for lo, hi in shards(len(frontier), nsh)]
        res = pool.map("mc.explorer", "expand_worker", payloads, deadline=ctx.deadline)
        if len(res) < len(payloads):
            break
        nxt = []
        for new, viols, nt, ne, ok in res:
            ntrans += nt
            nexc += ne
            obs_keys |= ok
            for v in viols:
                v.setdefault("quantities", {})
                ctx.extend([v])
                nviol += 1
            for k, h2, blob, exp in new:
                if k in seen:
                    continue
                seen[k] = h2
                if not exp:
                    unexpanded += 1
                if blob is not None:
                    nxt.append((blob, h2))
        frontier = nxt
        completed = d
        per_depth.append({"depth": d, "states_total": len(seen), "transitions_total": ntrans})
        ctx.log("HX %s depth %d: states=%d transitions=%d violations=%d" % (name, d, len(seen), ntrans, nviol))
    # from-scratch replay of every distinct state's shortest history
    items = [(k, h) for k, h in seen.items() if len(h) > 1]
    if replay_cap and len(items) > replay_cap:
        stride = len(items) // replay_cap + 1
        items = items[::stride]
    validated = 0
    if items and not ctx.timed_out():
        nsh = max(1, min(len(items), pool.workers * 4))
        payloads = [(mod, name, items[lo:hi]) for lo, hi in shards(len(items), nsh)]
        res = pool.map("mc.explorer", "replay_worker", payloads)
        bad = []
        for n, b in res:
            validated += n
            bad += b
        if bad:
            raise HarnessError("NONDETERMINISM: %d of %d histories did not reproduce their state when re-run from scratch; first: %r"
                               % (len(bad), validated, bad[0]))
    samples = []
    for k, h in list(seen.items())[:: max(1, len(seen) // 4)][:5]:
        samples.append(hist_labels(spec, h))
    return {"states": len(seen), "transitions": ntrans, "traces_validated_against_impl": validated,
            "max_depth_completed": completed, "alphabet_size": len(spec.ops), "distinct_observations": len(obs_keys),
            "exceptions": nexc, "unexpanded_states": unexpanded, "per_depth": per_depth, "samples": samples,
            "exhaustive": completed >= depth}


def merge(results):
    """Sum the coverage of several explorations (e.g. one per arm or per geometry)."""
    out = {"states": 0, "transitions": 0, "traces_validated_against_impl": 0, "distinct_observations": 0,
           "exceptions": 0, "samples": [], "exhaustive": True, "max_depth_completed": None, "runs": []}
    for name, r in results:
        for k in ("states", "transitions", "traces_validated_against_impl", "distinct_observations", "exceptions"):
            out[k] += r[k]
        out["samples"] += r["samples"][:2]
        out["exhaustive"] = out["exhaustive"] and r["exhaustive"]
        m = r["max_depth_completed"]
        out["max_depth_completed"] = m if out["max_depth_completed"] is None else min(out["max_depth_completed"], m)
        out["runs"].append({"spec": name, "states": r["states"], "transitions": r["transitions"],
                            "alphabet_size": r["alphabet_size"], "depth": r["max_depth_completed"]})
    out["samples"] = out["samples"][:8]
    return out
