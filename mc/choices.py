"""CX - stateless choice-sequence explorer for loops that consume environment answers.

The code under test asks its environment questions (a random draw, a receive that may time out ...).  A `Script`
answers the i-th question with `menu[choice[i]]`: the choices of a *prefix* first, choice 0 (the default answer)
afterwards.  `explore` runs the real function for the empty prefix, and then - prefix replay, no snapshots -
branches on every question asked at or after the end of the prefix: for position j and every alternative c >= 1
the child prefix is `taken[:j] + (c,)`.  Every complete choice sequence is therefore executed exactly once, in
lexicographic order.  A *deviation* is a non-default choice; `bound_deviations=k` keeps only sequences with at most
k of them (None = all sequences up to the horizon).

    runner = getattr(import_module(mod), factory)(cfg)      # built once per worker process
    outcome = runner.run(script)                             # asks script.ask(menu, label) as often as it likes
    outcome = {"key": hashable canonical final state,  "violations": [dict, ...],
               "stats": {name: int}, "sample": jsonable (optional)}

* Menus may differ from question to question (a one-element menu is no branching point).
* `HorizonReached` is raised by `ask` when `horizon` answers have been consumed: it ends that execution, which is
  counted (`horizon_hits`) and still branched on - it is how "only spinners enabled" is kept from hanging a search.
  A runner may catch it and return a partial outcome: its violations and stats are kept, its key is not a state.
* A replayed prefix must meet the same questions as the execution it was derived from (same menu size and label
  at every position, every prefix choice in range, the whole prefix consumed).  Anything else is un-owned
  nondeterminism: `ReplayDivergence`, a harness error, never a violation.
* Every `validate_stride`-th execution is re-run from scratch with its complete choice sequence and must give the
  identical outcome key (`traces_validated_against_impl`).
* Every execution runs under a wall-clock guard (interval timer); a hang is a harness error.
* Work is sharded by prefix: the first levels are expanded one execution per item (in parallel) until there are
  `target_tasks` pending sub-trees, which are then explored depth-first by the workers.  Counts and the set of
  outcome keys do not depend on the number of workers.  `explore_many` runs several explorations through the same
  few pool barriers.
"""
import importlib
import json
import signal
import threading
import time

from mc.pool import HarnessError

MOD = "mc.choices"


class HorizonReached(BaseException):
    """The script has no answers left (BaseException so that a bare `except Exception` in the code under test
    cannot swallow it; `Script.ask` keeps raising it on every later question anyway)."""


class ExecutionHung(BaseException):
    pass


class ReplayDivergence(HarnessError):
    pass


class Script:
    """Scripted environment: answers question i with menu[prefix[i]] (menu[0] beyond the prefix)."""

    __slots__ = ("prefix", "horizon", "expect", "taken", "shape", "horizon_hit")

    def __init__(self, prefix=(), horizon=None, expect=None):
        self.prefix = tuple(prefix)
        self.horizon = horizon
        self.expect = expect
        self.taken = []
        self.shape = []       # (menu size, label) per question
        self.horizon_hit = False
        if horizon is not None and len(self.prefix) > horizon:
            raise ReplayDivergence("prefix %r is longer than the horizon %d" % (self.prefix, horizon))

    def ask(self, menu, label=None):
        i = len(self.taken)
        if self.horizon_hit or (self.horizon is not None and i >= self.horizon):
            self.horizon_hit = True
            raise HorizonReached()
        n = len(menu)
        if n < 1:
            raise HarnessError("empty menu at question %d" % i)
        if i < len(self.prefix):
            c = self.prefix[i]
            if not (isinstance(c, int) and 0 <= c < n):
                raise ReplayDivergence("choice %r out of range for a menu of %d at position %d of prefix %r"
                                       % (c, n, i, self.prefix))
        else:
            c = 0
        if self.expect is not None and i < len(self.expect) and tuple(self.expect[i]) != (n, label):
            raise ReplayDivergence("question %d of prefix %r was %r when first met, now %r"
                                   % (i, self.prefix, tuple(self.expect[i]), (n, label)))
        self.taken.append(c)
        self.shape.append((n, label))
        return menu[c]

    @property
    def asked(self):
        return len(self.taken)


class _Guard:
    """Wall-clock guard for one execution.  The interval timer keeps firing, so a handler exception swallowed by a
    bare `except:` inside the code under test is raised again a second later."""

    def __init__(self, seconds):
        self.seconds = seconds
        self.on = bool(seconds) and hasattr(signal, "setitimer") and threading.current_thread() is threading.main_thread()

    def _fire(self, signum, frame):
        raise ExecutionHung()

    def __enter__(self):
        if self.on:
            self.old = signal.signal(signal.SIGALRM, self._fire)
            signal.setitimer(signal.ITIMER_REAL, self.seconds, 1.0)
        return self

    def __exit__(self, *a):
        if self.on:
            signal.setitimer(signal.ITIMER_REAL, 0)
            signal.signal(signal.SIGALRM, self.old)
        return False


class Execution:
    __slots__ = ("taken", "shape", "outcome", "horizon_hit")

    def __init__(self, taken, shape, outcome, horizon_hit):
        self.taken, self.shape, self.outcome, self.horizon_hit = taken, shape, outcome, horizon_hit


def run_one(runner, prefix, horizon, expect=None, wall=30.0):
    """One execution of the real function under the script `prefix + defaults`."""
    s = Script(prefix, horizon, expect)
    out = None
    try:
        with _Guard(wall):
            out = runner.run(s)
    except HorizonReached:
        out = None
    except ExecutionHung:
        raise HarnessError("execution with prefix %r exceeded the %.0f s wall-clock guard after %d answers (hang)"
                           % (tuple(prefix), wall, s.asked))
    if s.horizon_hit and out is not None:
        out = dict(out, key=None, sample=None)   # an execution that met the horizon is never a complete outcome
    if s.asked < len(s.prefix):
        raise ReplayDivergence("execution consumed %d answers, fewer than its prefix %r: the question the prefix "
                               "branched on was not asked again" % (s.asked, s.prefix))
    return Execution(tuple(s.taken), tuple(s.shape), out, s.horizon_hit)


def deviations(seq):
    return sum(1 for c in seq if c != 0)


def children(ex, plen, bound):
    """Child prefixes of an execution that was started with a prefix of length `plen`, in lexicographic order of
    the sequences they stand for."""
    taken = ex.taken
    d0 = deviations(taken[:plen])
    if bound is not None and d0 + 1 > bound:
        return []
    out = []
    for j in range(len(taken) - 1, plen - 1, -1):
        n = ex.shape[j][0]
        for c in range(1, n):
            out.append((taken[:j] + (c,), ex.shape[:j]))
    return out


class Agg:
    """What a search (or a part of one) saw; mergeable."""

    def __init__(self, max_viol=40, max_samples=4):
        self.schedules = 0
        self.complete = 0
        self.horizon_hits = 0
        self.answers = 0
        self.validated = 0
        self.keys = set()
        self.stats = {}
        self.violations = []
        self.nviol = 0
        self.samples = []
        self.max_len = 0
        self.unexplored = 0
        self.cpu_s = 0.0
        self.max_viol, self.max_samples = max_viol, max_samples

    def add(self, ex):
        self.schedules += 1
        self.answers += len(ex.taken)
        self.max_len = max(self.max_len, len(ex.taken))
        o = ex.outcome or {}
        for k, v in (o.get("stats") or {}).items():
            self.stats[k] = self.stats.get(k, 0) + v
        for v in o.get("violations") or ():
            self.nviol += 1
            if len(self.violations) < self.max_viol:
                self.violations.append(v)
        if ex.horizon_hit:
            self.horizon_hits += 1
            return
        self.complete += 1
        if o.get("key") is not None:
            self.keys.add(o["key"])
        if len(self.samples) < self.max_samples and o.get("sample") is not None:
            self.samples.append({"choices": list(ex.taken), "outcome": o["sample"]})

    def merge(self, other):
        for k in ("schedules", "complete", "horizon_hits", "answers", "validated", "nviol", "unexplored", "cpu_s"):
            setattr(self, k, getattr(self, k) + getattr(other, k))
        self.max_len = max(self.max_len, other.max_len)
        self.keys |= other.keys
        for k, v in other.stats.items():
            self.stats[k] = self.stats.get(k, 0) + v
        self.violations += other.violations[: max(0, self.max_viol - len(self.violations))]
        self.samples += other.samples[: max(0, self.max_samples - len(self.samples))]
        return self


_RUNNERS = {}


def _runner(mod, factory, cfg):
    k = (mod, factory, json.dumps(cfg, sort_keys=True, default=repr))
    if k not in _RUNNERS:
        _RUNNERS[k] = getattr(importlib.import_module(mod), factory)(cfg)
    return _RUNNERS[k]


def _validate(runner, ex, horizon, wall):
    ex2 = run_one(runner, ex.taken, horizon, ex.shape, wall)
    k1 = None if ex.outcome is None else ex.outcome.get("key")
    k2 = None if ex2.outcome is None else ex2.outcome.get("key")
    if ex2.taken != ex.taken or ex2.horizon_hit != ex.horizon_hit or k1 != k2:
        raise HarnessError("NONDETERMINISM: choice sequence %r re-run from scratch gave a different outcome "
                           "(%r/%r, horizon %r/%r, consumed %d/%d)" % (ex.taken, k1, k2, ex.horizon_hit, ex2.horizon_hit,
                                                                     len(ex.taken), len(ex2.taken)))


def work(payload):
    """Worker: payload = dict(mod, factory, cfg, horizon, bound, items=[(prefix, expect)], one_level, stride,
    wall, deadline).  one_level: run each item once and hand its children back; otherwise depth-first to the end."""
    p = payload
    runner = _runner(p["mod"], p["factory"], p["cfg"])
    agg = Agg()
    horizon, bound, stride, wall, deadline = p["horizon"], p["bound"], p["stride"], p["wall"], p.get("deadline")
    handed_back = []
    n = p.get("offset", 0)
    c0 = time.process_time()
    if p["one_level"]:
        for it_no, (prefix, expect) in enumerate(p["items"]):
            if deadline and time.time() > deadline:
                agg.unexplored += len(p["items"]) - it_no
                break
            ex = run_one(runner, prefix, horizon, expect, wall)
            agg.add(ex)
            n += 1
            if stride and n % stride == 0:
                _validate(runner, ex, horizon, wall)
                agg.validated += 1
            handed_back += children(ex, len(prefix), bound)
        agg.cpu_s = time.process_time() - c0
        return agg, handed_back
    stack = [(tuple(a), b) for a, b in reversed(p["items"])]
    while stack:
        if deadline and time.time() > deadline:
            agg.unexplored += len(stack)
            break
        prefix, expect = stack.pop()
        ex = run_one(runner, prefix, horizon, expect, wall)
        agg.add(ex)
        n += 1
        if stride and n % stride == 0:
            _validate(runner, ex, horizon, wall)
            agg.validated += 1
        ch = children(ex, len(prefix), bound)
        stack.extend(reversed(ch))
    agg.cpu_s = time.process_time() - c0
    return agg, []


def _chunks(items, n):
    """n round-robin chunks (heavy sub-trees, which come first, are spread over the chunks)."""
    n = max(1, min(n, len(items)))
    return [items[i::n] for i in range(n)]


def explore_many(pool, mod, factory, specs, target_tasks=256, max_split_rounds=6, deadline=None, exec_wall=30.0,
                 log=None):
    """Several explorations at once (few pool barriers, all workers busy even when single explorations are small).

    specs: list of dict(cfg=..., horizon=..., bound_deviations=None, validate_stride=1), most valuable first: when
    `deadline` (absolute time) passes, the work not yet started is dropped from the END of the list and reported
    (`exhaustive: False`, `unexplored_subtrees`), never silently.  Returns one result dict per spec (see `explore`)."""
    n = len(specs)
    base = [{"mod": mod, "factory": factory, "cfg": sp["cfg"], "horizon": sp["horizon"],
             "bound": sp.get("bound_deviations"), "stride": sp.get("validate_stride", 1), "wall": exec_wall,
             "deadline": deadline} for sp in specs]
    total = [Agg() for _ in range(n)]
    pending = [[((), ())] for _ in range(n)]
    rounds = [0] * n
    pool_deadline = (deadline + exec_wall) if deadline else None

    def submit(tagged):
        payloads = [p for _, p in tagged]
        res = pool.map(MOD, "work", payloads, deadline=pool_deadline) if pool is not None else [work(x) for x in payloads]
        if len(res) < len(payloads):
            raise HarnessError("choice exploration: the pool returned %d of %d parts" % (len(res), len(payloads)))
        return [(i, r) for (i, _), r in zip(tagged, res)]

    while True:
        if deadline and time.time() > deadline:
            break
        tagged = []
        for i in range(n):
            if pending[i] and rounds[i] < max_split_rounds and len(pending[i]) < target_tasks:
                off = 0
                for part in _chunks(pending[i], target_tasks):
                    tagged.append((i, dict(base[i], items=part, one_level=True, offset=off)))
                    off += len(part)
                pending[i] = []
                rounds[i] += 1
        if not tagged:
            break
        for i, (agg, ch) in submit(tagged):
            total[i].merge(agg)
            pending[i] += ch
        for i in range(n):
            # heavy sub-trees (short prefixes) first; stable, so the order stays canonical
            pending[i].sort(key=lambda it: len(it[0]))
    tagged = []
    for i in range(n):
        if pending[i]:
            for part in _chunks(pending[i], target_tasks * 2):
                tagged.append((i, dict(base[i], items=part, one_level=False, offset=0)))
    if tagged:
        for i, (agg, _) in submit(tagged):
            total[i].merge(agg)
    out = []
    for i in range(n):
        t = total[i]
        out.append({"states": len(t.keys), "transitions": t.answers, "schedules": t.schedules, "complete": t.complete,
                    "horizon_hits": t.horizon_hits, "traces_validated_against_impl": t.validated,
                    "violations": t.violations, "n_violations": t.nviol, "stats": dict(t.stats), "samples": t.samples,
                    "keys": t.keys, "max_sequence_length": t.max_len, "split_rounds": rounds[i],
                    "unexplored_subtrees": t.unexplored, "cpu_s": round(t.cpu_s, 2), "exhaustive": t.unexplored == 0,
                    "horizon": specs[i]["horizon"], "bound_deviations": specs[i].get("bound_deviations"),
                    "validate_stride": specs[i].get("validate_stride", 1)})
        if log:
            cfg = specs[i]["cfg"]
            log("CX %s: schedules=%d complete=%d horizon_hits=%d states=%d answers=%d validated=%d violations=%d%s"
                % (cfg.get("name", factory) if isinstance(cfg, dict) else factory, t.schedules, t.complete,
                   t.horizon_hits, len(t.keys), t.answers, t.validated, t.nviol,
                   "" if t.unexplored == 0 else " UNEXPLORED=%d" % t.unexplored))
    return out


def explore(pool, mod, factory, cfg, horizon, bound_deviations=None, validate_stride=1, target_tasks=256,
            max_split_rounds=6, deadline=None, exec_wall=30.0, log=None):
    """Enumerate every choice sequence of `runner.run` within the horizon and the deviation bound.

    Returns a dict: states (distinct outcome keys of complete executions), transitions (environment answers
    consumed), schedules (choice sequences run), complete, horizon_hits, traces_validated_against_impl,
    violations (list, capped) / n_violations, stats, samples, keys (set), exhaustive, unexplored_subtrees."""
    return explore_many(pool, mod, factory, [{"cfg": cfg, "horizon": horizon, "bound_deviations": bound_deviations,
                                              "validate_stride": validate_stride}], target_tasks, max_split_rounds,
                        deadline, exec_wall, log)[0]


def enumerate_local(runner, horizon, bound_deviations=None, validate_stride=0, exec_wall=30.0):
    """In-process, single-threaded exploration on a live runner object (for self-tests and replays)."""
    agg = Agg(max_viol=10 ** 9, max_samples=10 ** 9)
    seqs = []
    stack = [((), ())]
    n = 0
    while stack:
        prefix, expect = stack.pop()
        ex = run_one(runner, prefix, horizon, expect, exec_wall)
        agg.add(ex)
        seqs.append((ex.taken, ex.horizon_hit))
        n += 1
        if validate_stride and n % validate_stride == 0:
            _validate(runner, ex, horizon, exec_wall)
            agg.validated += 1
        stack.extend(reversed(children(ex, len(prefix), bound_deviations)))
    return agg, seqs
