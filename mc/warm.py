"""Compile (and cache on disk, keyed by the tree) the kernels most checks touch, so quick runs start warm."""
import time

from mc import env


def main():
    t0 = time.time()
    env.setup()
    import numpy as np
    try:
        from basic_robotics.general import tm, fsr, fmr
        a = tm([1, 2, 3, 0.1, 0.2, 0.3])
        b = (a @ a.inv()) + a
        fsr.localToGlobal(a, b); fsr.globalToLocal(a, b)
        fmr.MatrixLog6(a.gTM()); fmr.Adjoint(a.gTM())
        from basic_robotics.kinematics import SP
    except Exception as e:  # a broken tree must not break setup; the checks will report it
        print("warm: library import/call failed:", repr(e))
    print("warm: %.1fs" % (time.time() - t0))


if __name__ == "__main__":
    main()
