"""Shared value palettes (DESIGN 4, 'Shared palettes').  Every value sits on or next to a comparison in the code.
VERIF_SEED adds exactly one generic element per palette, drawn deterministically."""
import itertools

import numpy as np

from oracles import se3

PI = np.pi


def _u(v):
    v = np.asarray(v, float)
    return v / np.linalg.norm(v)


def seed_rng(seed, salt):
    return np.random.default_rng([int(seed), int(salt)])


def axes(seed=0):
    A = [(1, 0, 0), (-1, 0, 0), (0, 1, 0), (0, -1, 0), (0, 0, 1), (0, 0, -1),
         _u((1, 1, 0)), _u((1, 0, 1)), _u((0, 1, 1)), _u((1, 1, 1)),
         _u((1, -2, 3)), _u((-0.3, 0.5, 0.81)), _u((1e-3, 1, 0)), _u((1, 1e-9, 0)),
         # coordinate axes tilted by 1e-5 .. 1e-4 rad: inside the sub-branches of the half-turn logarithm that are
         # selected by 1e-6 tests on 1 + R_ii (those quantities are ~tilt^2 there)
         _u((1, 1e-4, 3e-5)), _u((2e-5, 1, 1e-4)), _u((1e-4, -3e-5, 1))]
    A = [np.asarray(a, float) for a in A]
    g = seed_rng(seed, 11).normal(size=3)
    A.append(_u(g))
    return A


def axes6():
    return [np.array(a, float) for a in ((1, 0, 0), (0, 1, 0), (0, 0, 1))] + [_u((1, 1, 1)), _u((1, -2, 3)), _u((-0.3, 0.5, 0.81))]


def angles(refined=False):
    th = [0.0, 1e-12, 1e-9, 5e-7, 9.9e-7, 1e-6, 1.01e-6, 2e-6, 1e-5, 1e-3, 0.1, 1.0, PI / 2, 2.0, 3.0,
          PI - 1e-2, PI - 1e-3, PI - 1e-4, PI - 1e-5, PI - 1e-6, PI - 1e-7, PI - 1e-8, PI - 1e-9, PI - 1e-12,
          PI, PI + 1e-9, PI + 1e-6, PI + 1e-3, 4.0, 5.0, 2 * PI - 1e-3, 2 * PI - 1e-7, 2 * PI]
    if refined:
        th += [9.99e-7, 1.001e-6, 3e-6, 1e-4, 0.5, 2.5, PI - 3e-5, PI - 2e-5, PI - 4e-5, PI + 1e-4, 3.5, 6.0]
    return th


def angles_small():
    return [0.0, 5e-7, 2e-6, 0.3, PI / 2, 2.5, PI - 1e-3, PI, 4.0]


def translations(seed=0):
    V = [(0, 0, 0), (1e-7, 0, 0), (1, 2, 3), (-0.5, 0.25, 10), (1e3, -1e3, 5e2)]
    g = seed_rng(seed, 13).uniform(-5, 5, size=3)
    V.append(tuple(g))
    return [np.asarray(v, float) for v in V]


def poses_T(seed=0, n_axes=None, angs=None, trans=None):
    """SE(3) palette as 4x4 matrices with their (w, p) description: axes x small angles x 3 translations."""
    A = axes(seed) if n_axes is None else axes(seed)[:n_axes]
    TH = angs if angs is not None else angles_small()
    V = trans if trans is not None else [translations(seed)[i] for i in (0, 2, 3)]
    out = []
    seen = set()
    for a, th, p in itertools.product(A, TH, V):
        w = a * th
        k = (tuple(np.round(w, 12)), tuple(p))
        if k in seen:
            continue
        seen.add(k)
        out.append((w, np.asarray(p, float), se3.T_from(w, p)))
    return out


def well_conditioned_pose(seed, salt, max_angle=2.5, max_p=5.0):
    r = seed_rng(seed, salt)
    w = _u(r.normal(size=3)) * r.uniform(0.3, max_angle)
    p = r.uniform(-max_p, max_p, size=3)
    return w, p
