"""Process environment for every check: where the library is, JIT cache keyed by the tree, one thread per worker."""
import hashlib
import os
import shutil
import sys

VERIF = os.path.dirname(os.path.dirname(os.path.abspath(__file__)))
REPO = os.environ.get("VERIF_REPO", "/repo")
GUARD = "BASIC_ROBOTICS_VERIF"


def tree_sha(repo=None):
    """sha256 over the path and contents of every basic_robotics/**/*.py of the working tree."""
    repo = repo or REPO
    h = hashlib.sha256()
    root = os.path.join(repo, "basic_robotics")
    files = []
    for d, dn, fn in os.walk(root):
        dn[:] = sorted(x for x in dn if x != "__pycache__")
        for f in sorted(fn):
            if f.endswith(".py"):
                files.append(os.path.join(d, f))
    for p in sorted(files):
        h.update(os.path.relpath(p, repo).encode())
        with open(p, "rb") as fh:
            h.update(fh.read())
    return h.hexdigest()


def _prune(cache_root, keep, min_age_s=4 * 3600):
    """Remove old cache directories: beyond the `keep` most recent ones AND unused for hours, so a cache that a
    concurrently running check still uses is never taken away."""
    import time
    try:
        ds = [os.path.join(cache_root, d) for d in os.listdir(cache_root)]
        ds = [d for d in ds if os.path.isdir(d)]
        ds.sort(key=os.path.getmtime, reverse=True)
        now = time.time()
        for d in ds[keep:]:
            if now - os.path.getmtime(d) > min_age_s:
                shutil.rmtree(d, ignore_errors=True)
    except OSError:
        pass


def setup(mode="jit"):
    """Must run before numba is imported.  Idempotent; children inherit the variables."""
    if os.environ.get("VERIF_ENV_READY") == mode:
        _paths()
        return os.environ["VERIF_TREE_SHA"]
    sha = tree_sha()
    os.environ["VERIF_TREE_SHA"] = sha
    cache_root = os.path.join(VERIF, ".cache", "numba")
    cdir = os.path.join(cache_root, sha[:20] + ("" if mode == "jit" else "-" + mode))
    os.makedirs(cdir, exist_ok=True)
    os.utime(cdir, None)
    _prune(cache_root, keep=24)
    os.environ["NUMBA_CACHE_DIR"] = cdir
    os.environ[GUARD] = "1"
    for v in ("NUMBA_NUM_THREADS", "OMP_NUM_THREADS", "OPENBLAS_NUM_THREADS", "MKL_NUM_THREADS"):
        os.environ[v] = "1"
    os.environ["PYTHONHASHSEED"] = "0"
    os.environ["MPLBACKEND"] = "agg"
    os.environ["PYTHONWARNINGS"] = "ignore"
    os.environ["PYTHONDONTWRITEBYTECODE"] = "1"
    if mode == "boundscheck":
        os.environ["NUMBA_BOUNDSCHECK"] = "1"
    elif mode == "nojit":
        os.environ["NUMBA_DISABLE_JIT"] = "1"
    os.environ["VERIF_ENV_READY"] = mode
    _paths()
    return sha


def _paths():
    for p in (VERIF, REPO):
        if p in sys.path:
            sys.path.remove(p)
    sys.path.insert(0, VERIF)
    sys.path.insert(0, REPO)
    import warnings
    warnings.filterwarnings("ignore")
    _cache_jit()


_JIT_DONE = False


def _cache_jit():
    """A dozen kernels are declared without cache=True and would be recompiled by every worker process (7-40 s).
    Switching on Numba's on-disk cache for them from outside changes nothing they compute; the cache directory is
    keyed by the hash of the whole tree, so no stale code can be picked up."""
    global _JIT_DONE
    if _JIT_DONE or os.environ.get("NUMBA_DISABLE_JIT") == "1" or os.environ.get("VERIF_NO_JIT_CACHE"):
        return
    _JIT_DONE = True
    try:
        import importlib
        for mn in ("basic_robotics.modern_robotics_numba.modern_high_performance",
                   "basic_robotics.general.faser_high_performance"):
            m = importlib.import_module(mn)
            for k, v in vars(m).items():
                if hasattr(v, "enable_caching") and hasattr(v, "py_func") and getattr(v.py_func, "__module__", None) == mn:
                    try:
                        v.enable_caching()
                    except Exception:
                        pass
    except Exception:
        pass  # a tree that does not import is reported by the checks themselves
