"""Spawned worker pool.  Work items are (module, function, payload); results come back in submission order,
so the outcome of a search never depends on the number of workers."""
import importlib
import multiprocessing as mp
import os
import sys
import threading
import time
import traceback


class HarnessError(BaseException):
    """A fault of the harness itself (never a verdict about the library).  BaseException, so that the many
    `except Exception` blocks that turn a raising LIBRARY call into a `raised` violation cannot swallow it."""
    pass


def _init(verif, mode):
    sys.path.insert(0, verif)
    from mc import env
    env.setup(mode)


def _call(item):
    mod, fn, payload = item
    try:
        m = importlib.import_module(mod)
        return ("ok", getattr(m, fn)(payload))
    except BaseException as e:  # reported to the parent as a harness error
        return ("err", "%s.%s: %s\n%s" % (mod, fn, repr(e), traceback.format_exc()))


def ncpu():
    try:
        n = len(os.sched_getaffinity(0))
    except AttributeError:
        n = os.cpu_count() or 1
    cap = os.environ.get("VERIF_WORKERS")
    return max(1, min(n, int(cap))) if cap else n


class Pool:
    """Lazy spawn pool; `with Pool(n) as p: p.map(mod, fn, payloads)`.  n<=1 runs in-process."""

    def __init__(self, workers, mode=None):
        self.workers = max(1, min(workers, ncpu()))
        self.mode = mode or os.environ.get("VERIF_ENV_READY", "jit")
        self._pool = None
        self._lock = threading.Lock()
        # True: even a single item goes to a worker process (needed when several threads of the parent share the pool:
        # library code must then never run inside the parent, where stdout redirection is process-global)
        self.always_submit = False

    def __enter__(self):
        return self

    def __exit__(self, *a):
        self.close()

    def close(self):
        if self._pool is not None:
            try:
                self._pool.shutdown(wait=False, cancel_futures=True)
                for p in list(getattr(self._pool, "_processes", {}).values()):
                    p.terminate()
            except Exception:
                pass
            self._pool = None

    def map(self, mod, fn, payloads, deadline=None):
        payloads = list(payloads)
        items = [(mod, fn, p) for p in payloads]
        out = []
        if self.workers <= 1 or (len(items) <= 1 and not self.always_submit):
            for it in items:
                out.append(_call(it))
                if deadline and time.time() > deadline:
                    break
        else:
            import concurrent.futures as cf
            from concurrent.futures.process import BrokenProcessPool
            with self._lock:
                if self._pool is None:
                    from mc import env
                    # ProcessPoolExecutor: a worker that dies (killed, segfault in compiled code) breaks the pool loudly
                    # instead of leaving its task pending for ever
                    self._pool = cf.ProcessPoolExecutor(self.workers, mp_context=mp.get_context("spawn"),
                                                        initializer=_init, initargs=(env.VERIF, self.mode))
                res = [self._pool.submit(_call, it) for it in items]
            for r in res:
                while True:
                    try:
                        out.append(r.result(timeout=5))
                        break
                    except cf.TimeoutError:
                        if deadline and time.time() > deadline + 120:
                            self.close()
                            raise HarnessError("worker exceeded the wall-clock guard")
                    except BrokenProcessPool as e:
                        self.close()
                        raise HarnessError("a worker process died (%s)" % (e,))
        vals = []
        for st, v in out:
            if st != "ok":
                raise HarnessError(v)
            vals.append(v)
        return vals


def shards(n_items, n_shards):
    """Contiguous index ranges [(lo, hi)] covering range(n_items)."""
    n_shards = max(1, min(n_shards, n_items))
    q, r = divmod(n_items, n_shards)
    out, lo = [], 0
    for i in range(n_shards):
        hi = lo + q + (1 if i < r else 0)
        out.append((lo, hi))
        lo = hi
    return out
