"""Known findings: committed, never written at run time.  A violation record that matches a `known` entry is
reported as KNOWN-FINDING and does not fail the run; `fixed` entries suppress nothing."""
import json
import os

from mc import env

_CASE_LISTS = {}


def load():
    p = os.path.join(env.VERIF, "known_findings.jsonl")
    out = []
    if os.path.exists(p):
        for line in open(p):
            line = line.strip()
            if line and not line.startswith("#"):
                out.append(json.loads(line))
    return out


def _case_list(rel):
    if rel not in _CASE_LISTS:
        p = os.path.join(env.VERIF, rel)
        s = set()
        if os.path.exists(p):
            for line in open(p):
                line = line.split("#")[0].strip()
                if line:
                    s.add(line)
        _CASE_LISTS[rel] = s
    return _CASE_LISTS[rel]


def matches(entry, rec):
    """entry['match'] is a narrow structural predicate over a violation record:
       properties: list of property ids it may be reported under
       clauses:    list of clause names
       bands:      [{quantity, gt?, ge?, lt?, le?}] evaluated on rec['quantities']
       flags:      {name: bool} that must equal rec['flags'][name]
       case_list:  file of case ids, rec['case_id'] must be in it
    """
    if entry.get("status") != "known":
        return False
    m = entry.get("match", {})
    props = m.get("properties") or [entry.get("property")]
    if rec.get("property") not in props:
        return False
    if "clauses" in m and rec.get("clause") not in m["clauses"]:
        return False
    q = rec.get("quantities") or {}
    for b in m.get("bands", []):
        v = q.get(b["quantity"])
        if v is None:
            return False
        if "gt" in b and not v > b["gt"]:
            return False
        if "ge" in b and not v >= b["ge"]:
            return False
        if "lt" in b and not v < b["lt"]:
            return False
        if "le" in b and not v <= b["le"]:
            return False
    f = rec.get("flags") or {}
    for k, want in (m.get("flags") or {}).items():
        if f.get(k) != want:
            return False
    if "case_list" in m:
        if rec.get("case_id") is None or rec["case_id"] not in _case_list(m["case_list"]):
            return False
    return True


def classify(rec, entries):
    for e in entries:
        if matches(e, rec):
            return e
    return None
