"""Canonical form of a live object graph: every mutable field, floats rounded, containers ordered.

flatten(obj) -> (signature, values): `signature` is a tuple describing types/shapes/keys and all discrete
content, `values` a flat float64 vector of every number met, in a fixed traversal order.
key(obj) hashes the signature and the values rounded to `digits` significant decimals relative to max(1,|x|).
Two objects with the same key agree in every field to ~1e-9; see DESIGN 3.1 for why merging them is sound.
"""
import hashlib
import numpy as np

_SKIP_TYPES = ()


def _walk(o, sig, vals, seen, depth):
    if depth > 12:
        sig.append("<deep>")
        return
    if o is None or isinstance(o, (bool, np.bool_)):
        sig.append(("c", None if o is None else bool(o)))
    elif isinstance(o, (int, np.integer)):
        sig.append(("i", int(o)))
    elif isinstance(o, (float, np.floating)):
        sig.append("f")
        vals.append(float(o))
    elif isinstance(o, str):
        sig.append(("s", o))
    elif isinstance(o, bytes):
        sig.append(("b", hashlib.sha1(o).hexdigest()))
    elif isinstance(o, np.ndarray):
        if o.dtype == object:
            sig.append(("ao", o.shape))
            for x in o.flat:
                _walk(x, sig, vals, seen, depth + 1)
        elif o.dtype.kind in "fc":
            sig.append(("af", o.shape))
            vals.extend(np.asarray(o, dtype=float).ravel(order="C").tolist())
        elif o.dtype.kind in "iub":
            sig.append(("ai", o.shape, o.dtype.kind, hashlib.sha1(np.ascontiguousarray(o).tobytes()).hexdigest()))
        else:
            sig.append(("ax", o.shape, str(o.dtype), hashlib.sha1(np.ascontiguousarray(o).tobytes()).hexdigest()))
    elif isinstance(o, (list, tuple)):
        sig.append(("L" if isinstance(o, list) else "T", len(o)))
        for x in o:
            _walk(x, sig, vals, seen, depth + 1)
    elif isinstance(o, dict):
        ks = sorted(o.keys(), key=repr)
        sig.append(("D", tuple(repr(k) for k in ks)))
        for k in ks:
            _walk(o[k], sig, vals, seen, depth + 1)
    elif isinstance(o, (set, frozenset)):
        ks = sorted(o, key=repr)
        sig.append(("S", tuple(repr(k) for k in ks)))
    elif hasattr(o, "__dict__") and not callable(o):
        if id(o) in seen:
            sig.append(("ref", type(o).__name__))
            return
        seen.add(id(o))
        d = vars(o)
        ks = sorted(d.keys())
        sig.append(("O", type(o).__name__, tuple(ks)))
        for k in ks:
            _walk(d[k], sig, vals, seen, depth + 1)
        seen.discard(id(o))
    elif callable(o):
        sig.append(("fn", getattr(o, "__qualname__", type(o).__name__)))
    else:
        sig.append(("?", type(o).__name__))


def flatten(obj):
    sig, vals = [], []
    _walk(obj, sig, vals, set(), 0)
    return tuple(sig), np.array(vals, dtype=float)


def round_rel(v, digits=9):
    v = np.asarray(v, dtype=float)
    out = v.copy()
    fin = np.isfinite(v)
    big = fin & (np.abs(v) > 1.0)
    small = fin & ~big
    out[small] = np.round(v[small], digits)
    if big.any():
        e = np.floor(np.log10(np.abs(v[big])))
        s = 10.0 ** (digits - e)
        out[big] = np.round(v[big] * s) / s
    return out + 0.0  # -0.0 -> 0.0


def key_of(sig, vals, digits=9):
    h = hashlib.blake2b(digest_size=16)
    h.update(repr(sig).encode())
    h.update(round_rel(vals, digits).tobytes())
    return h.hexdigest()


def key(obj, digits=9):
    sig, vals = flatten(obj)
    return key_of(sig, vals, digits)


def close(sig_a, vals_a, sig_b, vals_b, tol=1e-7):
    """Replay comparison: same structure and every number equal to tol (abs on unit scale, rel above)."""
    if sig_a != sig_b or vals_a.shape != vals_b.shape:
        return False
    if vals_a.size == 0:
        return True
    fa, fb = np.isfinite(vals_a), np.isfinite(vals_b)
    if not np.array_equal(fa, fb):
        return False
    if not np.array_equal(vals_a[~fa], vals_b[~fb], equal_nan=True):
        return False
    a, b = vals_a[fa], vals_b[fb]
    return bool(np.all(np.abs(a - b) <= tol * np.maximum(1.0, np.abs(a))))


def jsonable(o):
    """Best-effort conversion of case descriptions to JSON."""
    if isinstance(o, dict):
        return {str(k): jsonable(v) for k, v in o.items()}
    if isinstance(o, (list, tuple)):
        return [jsonable(x) for x in o]
    if isinstance(o, np.ndarray):
        return jsonable(o.tolist())
    if isinstance(o, (np.floating, float)):
        f = float(o)
        return f if np.isfinite(f) else repr(f)
    if isinstance(o, (np.integer,)):
        return int(o)
    if isinstance(o, (np.bool_,)):
        return bool(o)
    if o is None or isinstance(o, (int, str, bool)):
        return o
    return repr(o)
