import sys

if __name__ == "__main__":
    from mc import runner
    sys.exit(runner.main())
