"""LX - bounded-exhaustive enumeration of a finite input lattice (a complete Cartesian product of palettes).

A check provides a worker `fn(payload)` with payload = {"lo":..,"hi":.., ...} evaluating the index range [lo,hi) of
its fixed enumeration order and returning an Acc().result().  run() shards the range, merges, and fills coverage.
"""
import hashlib
import itertools
import time

import numpy as np

from mc import canon
from mc.pool import shards


class Acc:
    """Per-shard accumulator."""

    def __init__(self, max_viol=200):
        self.evals = 0
        self.keys = set()
        self.nontrivial_count = 0   # used instead of keys when cases are distinct by construction
        self.viols = []
        self.worst = {}
        self.outcomes = {}
        self.samples = []
        self.max_viol = max_viol
        self.nviol = 0
        self.skipped = {}

    def case(self, key=None, nontrivial=True):
        self.evals += 1
        if nontrivial:
            if key is None:
                self.nontrivial_count += 1
            else:
                self.keys.add(key if isinstance(key, (int, bytes, str)) else hash_key(key))

    def resid(self, clause, value):
        if value is None:
            return
        v = float(value)
        if not (v <= self.worst.get(clause, -1.0)):
            self.worst[clause] = v

    def outcome(self, name, n=1):
        self.outcomes[name] = self.outcomes.get(name, 0) + n

    def skip(self, why):
        self.skipped[why] = self.skipped.get(why, 0) + 1

    def violation(self, clause, case, observed=None, tolerance=None, quantities=None, flags=None, case_id=None):
        self.nviol += 1
        if len(self.viols) < self.max_viol:
            self.viols.append({"clause": clause, "case": canon.jsonable(case), "observed": canon.jsonable(observed),
                               "tolerance": tolerance, "quantities": canon.jsonable(quantities or {}),
                               "flags": flags or {}, "case_id": case_id})

    def sample(self, s, cap=3):
        if len(self.samples) < cap:
            self.samples.append(canon.jsonable(s))

    def result(self):
        return {"evals": self.evals, "keys": self.keys, "ntc": self.nontrivial_count, "viols": self.viols,
                "nviol": self.nviol, "worst": self.worst, "outcomes": self.outcomes, "samples": self.samples,
                "skipped": self.skipped}


def hash_key(obj):
    if isinstance(obj, np.ndarray):
        b = canon.round_rel(obj, 9).tobytes()
    else:
        sig, vals = canon.flatten(obj)
        b = repr(sig).encode() + canon.round_rel(vals, 9).tobytes()
    return hashlib.blake2b(b, digest_size=8).digest()


def merge(results):
    out = {"evals": 0, "keys": set(), "ntc": 0, "viols": [], "nviol": 0, "worst": {}, "outcomes": {}, "samples": [],
           "skipped": {}}
    for r in results:
        out["evals"] += r["evals"]
        out["keys"] |= r["keys"]
        out["ntc"] += r["ntc"]
        out["viols"] += r["viols"]
        out["nviol"] += r["nviol"]
        for k, v in r["worst"].items():
            if not (v <= out["worst"].get(k, -1.0)):
                out["worst"][k] = v
        for k, v in r["outcomes"].items():
            out["outcomes"][k] = out["outcomes"].get(k, 0) + v
        for k, v in r["skipped"].items():
            out["skipped"][k] = out["skipped"].get(k, 0) + v
        if len(out["samples"]) < 6:
            out["samples"] += r["samples"][:2]
    return out


def run(ctx, pool, mod, fn, total, extra=None, nshards=None, part=None):
    """Evaluate indices [0,total) of the check's enumeration with worker mod.fn; returns the merged dict."""
    nsh = nshards or max(1, min(total, pool.workers * 3))
    payloads = []
    for lo, hi in shards(total, nsh):
        p = {"lo": lo, "hi": hi, "seed": ctx.seed, "tier": ctx.tier}
        if extra:
            p.update(extra)
        payloads.append(p)
    res = pool.map(mod, fn, payloads, deadline=ctx.deadline)
    m = merge(res)
    m["complete"] = len(res) == len(payloads)
    m["total"] = total
    if part:
        ctx.log("LX %s: evals=%d distinct_nontrivial=%d violations=%d" % (part, m["evals"], len(m["keys"]) + m["ntc"], m["nviol"]))
    return m


def fill(ctx, parts, rule, palettes=None):
    """parts: list of (name, merged).  Fills ctx.coverage / violations for an exploration-level check."""
    ev = nt = 0
    worst, outcomes, samples, skipped, per = {}, {}, [], {}, {}
    exhaustive = True
    for name, m in parts:
        ev += m["evals"]
        d = len(m["keys"]) + m["ntc"]
        nt += d
        per[name] = {"evaluations": m["evals"], "distinct_nontrivial": d, "violations": m["nviol"]}
        exhaustive = exhaustive and m.get("complete", True)
        for k, v in m["worst"].items():
            worst[name + "." + k] = v
        for k, v in m["outcomes"].items():
            outcomes[name + "." + k] = v
        for k, v in m["skipped"].items():
            skipped[name + "." + k] = v
        samples += m["samples"][:2]
        ctx.extend(m["viols"])
    ctx.coverage.update({"evaluations": ev, "distinct_nontrivial": nt, "rule": rule, "samples": samples[:10],
                         "exhaustive": exhaustive, "worst_residuals": worst, "outcomes": outcomes, "parts": per,
                         "skipped": skipped})
    if palettes:
        ctx.coverage["palettes"] = palettes
    ctx.level = "exploration"
