"""Common driver: run one check, classify its violations against the known findings, write replay artefacts
and the evidence file, print the interface lines, choose the exit status."""
import argparse
import hashlib
import importlib
import json
import os
import subprocess
import sys
import time
import traceback

from mc import env, findings
from mc.canon import jsonable
from mc.pool import HarnessError, Pool, ncpu

LEVELS = {"HX": "model_checking", "CX": "model_checking", "LX": "exploration"}
MAX_REPLAYS = 12


class Ctx:
    def __init__(self, prop, tier, seed):
        self.prop = prop
        self.tier = tier
        self.seed = seed
        self.t0 = time.time()
        self.coverage = {}
        self.assumptions = []
        self.violations = []
        self.level = "exploration"
        self.notes = []
        budget = float(os.environ.get("VERIF_BUDGET_S", "0") or 0)
        self.deadline = self.t0 + budget if budget > 0 else None
        self.workers = ncpu()

    def pool(self, n=None):
        return Pool(n or self.workers)

    def violation(self, clause, case, observed=None, tolerance=None, quantities=None, flags=None,
                  case_id=None, detail=None):
        rec = {"property": self.prop, "clause": clause, "case": jsonable(case), "observed": jsonable(observed),
               "tolerance": tolerance, "quantities": jsonable(quantities or {}), "flags": flags or {},
               "case_id": case_id, "detail": detail, "seed": self.seed, "tier": self.tier}
        self.violations.append(rec)
        return rec

    def extend(self, recs):
        for r in recs:
            r.setdefault("property", self.prop)
            for k, dv in (("observed", None), ("tolerance", None), ("quantities", {}), ("flags", {}), ("case_id", None), ("case", {})):
                r.setdefault(k, dv)
            r.setdefault("seed", self.seed)
            r.setdefault("tier", self.tier)
            self.violations.append(r)

    def timed_out(self):
        return self.deadline is not None and time.time() > self.deadline

    def log(self, *a):
        # to the process's real stdout: a check may silence the library with redirect_stdout while another thread logs
        print("[%s %6.1fs]" % (self.prop, time.time() - self.t0), *a, flush=True, file=sys.__stdout__)


def _rec_hash(rec):
    s = json.dumps({"p": rec["property"], "c": rec["clause"], "case": rec["case"]}, sort_keys=True)
    return hashlib.sha1(s.encode()).hexdigest()[:10]


def write_replay(rec, sha):
    d = os.path.join(env.VERIF, "replays", rec["property"])
    os.makedirs(d, exist_ok=True)
    h = _rec_hash(rec)
    p = os.path.join(d, h + ".json")
    body = dict(rec)
    body["tree_sha"] = sha
    with open(p, "w") as f:
        json.dump(body, f, indent=1, sort_keys=True)
    t = os.path.join(d, "test_%s.py" % h)
    with open(t, "w") as f:
        f.write(
            '"""Plain replay of one recorded violation of %s (clause %s); no explorer involved."""\n'
            "import json, os, sys\n"
            "sys.path.insert(0, %r)\n"
            "from mc import env\nenv.setup()\n"
            "import importlib\n\n\n"
            "def test_replay():\n"
            "    rec = json.load(open(os.path.join(os.path.dirname(os.path.abspath(__file__)), %r)))\n"
            "    mod = importlib.import_module('checks.%s')\n"
            "    found = mod.replay(rec)\n"
            "    assert not found, found\n\n\n"
            "if __name__ == '__main__':\n    test_replay()\n"
            % (rec["property"], rec["clause"], env.VERIF, h + ".json", rec["property"].lower()))
    return p


def validate_evidence(path):
    """Validated with jsonschema from the tooling interpreter when it is there; structural fallback otherwise."""
    schema = os.path.join(env.VERIF, "selftest", "EVIDENCE.schema.json")
    code = ("import json,sys,jsonschema;"
            "jsonschema.validate(json.load(open(sys.argv[1])), json.load(open(sys.argv[2])))")
    for py in ("python3-vt", "/opt/veriftools/pyvenv/bin/python"):
        try:
            r = subprocess.run([py, "-c", code, path, schema], capture_output=True, text=True, timeout=60)
        except (OSError, subprocess.TimeoutExpired):
            continue
        if r.returncode != 0:
            raise HarnessError("evidence file does not validate: " + r.stderr[-800:])
        return True
    ev = json.load(open(path))
    for k in ("property_id", "tier", "seed", "level", "coverage", "wall_s"):
        if k not in ev:
            raise HarnessError("evidence lacks " + k)
    return False


def write_evidence(ctx, n_viol, kf_hits):
    cov = dict(ctx.coverage)
    if kf_hits:
        cov["known_finding_hits"] = kf_hits
    cov.setdefault("exhaustive", False)
    ev = {"property_id": ctx.prop, "tier": ctx.tier, "seed": ctx.seed, "level": ctx.level,
          "coverage": jsonable(cov), "assumptions": ctx.assumptions,
          "wall_s": round(time.time() - ctx.t0, 2), "violations": n_viol,
          "tree_sha": os.environ.get("VERIF_TREE_SHA", ""), "notes": ctx.notes}
    d = os.path.join(env.VERIF, "evidence")
    os.makedirs(d, exist_ok=True)
    p = os.path.join(d, ctx.prop + ".json")
    tmp = p + ".tmp"
    with open(tmp, "w") as f:
        json.dump(ev, f, indent=1, sort_keys=True)
    os.replace(tmp, p)
    validate_evidence(p)
    return p


def main(argv=None):
    ap = argparse.ArgumentParser()
    ap.add_argument("prop")
    ap.add_argument("--tier", default=os.environ.get("VERIF_TIER", "quick"), choices=["quick", "thorough"])
    ap.add_argument("--replay", default=None)
    ap.add_argument("--workers", type=int, default=None)
    a = ap.parse_args(argv)
    prop = a.prop.upper()
    seed = int(os.environ.get("VERIF_SEED", "0") or 0)
    if a.workers:
        os.environ["VERIF_WORKERS"] = str(a.workers)
    os.environ["VERIF_TIER"] = a.tier
    os.environ["VERIF_SEED"] = str(seed)
    sha = env.setup()
    ctx = Ctx(prop, a.tier, seed)
    try:
        mod = importlib.import_module("checks." + prop.lower())
        if a.replay:
            rec = json.load(open(a.replay))
            found = mod.replay(rec)
            if found:
                print("replayed: violation reproduced: %s" % json.dumps(jsonable(found))[:2000])
                print("VIOLATION property=%s replay=%s" % (prop, a.replay))
                return 1
            print("replayed: no violation on this tree")
            return 0
        mod.run(ctx)
        if os.environ.get("VERIF_DUMP"):
            with open(os.environ["VERIF_DUMP"], "w") as f:
                for rec in ctx.violations:
                    f.write(json.dumps(jsonable(rec)) + "\n")
        entries = findings.load()
        kf_hits, kf_msgs, fresh = {}, {}, []
        for rec in ctx.violations:
            e = findings.classify(rec, entries)
            if e is not None:
                kf_hits[e["key"]] = kf_hits.get(e["key"], 0) + 1
                kf_msgs[e["key"]] = e["what"]
            else:
                fresh.append(rec)
        # one artefact per distinct (clause, case).  Every reported violation is confirmed by two plain re-executions of its
        # case; a candidate that does not reproduce (e.g. it depended on what the enumeration did before it) is set aside
        # and the next one is tried.  If nothing reproduces although something was observed, that is a harness error.
        seen, distinct = set(), []
        for rec in fresh:
            h = _rec_hash(rec)
            if h not in seen:
                seen.add(h)
                distinct.append(rec)
        reported, unreproduced = [], []
        if hasattr(mod, "replay") and not os.environ.get("VERIF_NO_CONFIRM"):
            # prefer one candidate per clause first, then the rest, so that a reproducible clause is found quickly
            order, clause_seen = [], set()
            for rec in distinct:
                if rec["clause"] not in clause_seen:
                    clause_seen.add(rec["clause"])
                    order.append(rec)
            order += [r for r in distinct if r not in order]
            for rec in order[:MAX_REPLAYS * 6]:
                if len(reported) >= MAX_REPLAYS:
                    break
                try:
                    ok = bool(mod.replay(rec)) and bool(mod.replay(rec))
                except Exception as e:
                    ok = False
                    rec = dict(rec, replay_error=repr(e)[:200])
                (reported if ok else unreproduced).append(rec)
            if distinct and not reported:
                rec = unreproduced[0]
                raise HarnessError("NONDETERMINISM: %d observed violation(s), none reproduced on re-execution; first: %s/%s %s"
                                   % (len(distinct), prop, rec["clause"], json.dumps(rec["case"])[:600]))
        else:
            reported = distinct[:MAX_REPLAYS]
        if unreproduced:
            ctx.coverage["unreproduced_candidates"] = [{"clause": r["clause"], "case": r["case"]} for r in unreproduced[:5]]
            print("(%d observed violation(s) did not reproduce from a plain re-execution of their case and were set aside)" % len(unreproduced))
        for k in sorted(kf_hits):
            print("KNOWN-FINDING: property=%s %s [%s, %d case(s) this run]" % (prop, kf_msgs[k], k, kf_hits[k]))
        ctx.coverage.setdefault("violation_clauses", sorted({r["clause"] for r in fresh}))
        write_evidence(ctx, len(seen), kf_hits)
        for rec in reported:
            p = write_replay(rec, sha)
            print("  clause=%s observed=%s tol=%s case=%s" % (rec["clause"], json.dumps(rec["observed"])[:200],
                                                           rec["tolerance"], json.dumps(rec["case"])[:400]))
            print("VIOLATION property=%s replay=%s" % (prop, p))
        if len(seen) > len(reported):
            print("(%d further distinct violations not written out)" % (len(seen) - len(reported)))
        cov = ctx.coverage
        brief = {k: cov[k] for k in ("states", "transitions", "traces_validated_against_impl", "evaluations",
                                     "distinct_nontrivial", "max_depth_completed", "exhaustive") if k in cov}
        print("%s %s seed=%d %s wall=%.1fs violations=%d" % (prop, a.tier, seed, json.dumps(brief), time.time() - ctx.t0, len(seen)))
        return 1 if seen else 0
    except HarnessError as e:
        print("HARNESS-ERROR property=%s %s" % (prop, e))
        return 2
    except Exception:
        print("HARNESS-ERROR property=%s unexpected exception\n%s" % (prop, traceback.format_exc()))
        return 2
