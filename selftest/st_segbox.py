import itertools
import numpy as np
from oracles.segbox_exact import segbox_fraction, segbox_int_vec


def t_segbox_int_equals_fraction():
    rng = np.random.default_rng(5)
    boxes = [(lo, hi) for lo in itertools.product(range(-2, 3), repeat=3) for hi in itertools.product(range(-2, 3), repeat=3)
             if all(l <= h for l, h in zip(lo, hi))]
    LO = np.array([b[0] for b in boxes]); HI = np.array([b[1] for b in boxes])
    assert len(boxes) == 3375
    for _ in range(60):
        a = rng.integers(-3, 4, 3); b = rng.integers(-3, 4, 3)
        if _ % 7 == 0:
            b = a.copy()
        if _ % 5 == 0:
            b[0] = a[0]
        c, s = segbox_int_vec(a, b, LO, HI)
        idx = rng.integers(0, len(boxes), 150)
        for j in idx:
            assert bool(c[j]) == segbox_fraction(a, b, LO[j], HI[j]), (a, b, LO[j], HI[j])
            assert (not s[j]) or c[j]
    # hand cases: touching a face, an edge, a corner; piercing; contained; degenerate box
    assert segbox_fraction((0, 0, 3), (0, 0, 1), (-1, -1, -1), (1, 1, 1))
    assert not segbox_fraction((0, 0, 3), (0, 0, 2), (-1, -1, -1), (1, 1, 1))
    assert segbox_fraction((2, 0, 1), (0, 2, 1), (-1, -1, -1), (1, 1, 1))       # touches the edge x=y=1
    assert not segbox_fraction((3, 0, 1), (0, 3, 2), (-1, -1, -1), (1, 1, 1))
    assert segbox_fraction((0, 0, 0), (0, 0, 0), (0, 0, 0), (0, 0, 0))
