"""The HX engine on a toy object with a known reachable state count, a planted invariant violation and planted
nondeterminism: the engine must count exactly, find the shortest violating history, and refuse nondeterminism."""
import itertools

from mc import explorer
from mc.explorer import Op
from mc.pool import HarnessError, Pool
from mc.runner import Ctx

_COUNTER = itertools.count()


class Toy:
    def __init__(self):
        self.v = [0, 0]


class ToySpec:
    def __init__(self, bug=False, nondet=False):
        self.bug, self.nondet = bug, nondet

        def inc(i):
            def f(s):
                s.v[i] = (s.v[i] + 1) % 4
                if self.nondet and s.v == [2, 1]:
                    s.v[1] += next(_COUNTER) % 2          # un-owned nondeterminism
                return s, {"v": list(s.v)}
            return f
        self.ops = [Op("inc", 0, inc(0)), Op("inc", 1, inc(1))]

    def initials(self):
        return [("zero", Toy())]

    def invariant(self, s, obs, op, hist):
        if self.bug and s.v == [3, 2]:
            return [{"clause": "planted", "observed": list(s.v)}]
        return []


def get_spec(name):
    return ToySpec(bug=name == "bug", nondet=name == "nondet")


def t_explorer_counts_and_finds():
    with Pool(1) as pool:
        ctx = Ctx("T00", "quick", 0)
        r = explorer.explore(ctx, "selftest.st_explorer", "plain", 8, pool)
        assert r["states"] == 16 and r["transitions"] == 32 and r["exhaustive"], r      # 4 x 4 torus, every state expanded once
        assert r["traces_validated_against_impl"] == 15
        ctx = Ctx("T00", "quick", 0)
        r = explorer.explore(ctx, "selftest.st_explorer", "bug", 8, pool)
        assert ctx.violations and ctx.violations[0]["clause"] == "planted"
        assert len(ctx.violations[0]["case"]["hist"]) == 1 + 5                          # shortest history: 3 + 2 increments
        ctx = Ctx("T00", "quick", 0)
        r = explorer.explore(ctx, "selftest.st_explorer", "plain", 2, pool)
        assert r["states"] == 6 and r["max_depth_completed"] == 2


def t_explorer_refuses_nondeterminism():
    with Pool(1) as pool:
        ctx = Ctx("T00", "quick", 0)
        try:
            explorer.explore(ctx, "selftest.st_explorer", "nondet", 4, pool)
        except HarnessError as e:
            assert "NONDETERMINISM" in str(e)
            return
    raise AssertionError("nondeterminism was not detected")
