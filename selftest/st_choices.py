"""Self-tests of the CX choice-sequence explorer (mc/choices.py) on toy functions whose sequence counts are known."""
import itertools
from math import comb

from mc import choices
from mc.choices import HorizonReached, ReplayDivergence, Script
from mc.pool import HarnessError, Pool


class Fixed:
    """asks exactly n questions with a menu of m values; outcome = the tuple of answers"""

    def __init__(self, cfg):
        self.n, self.m = cfg["n"], cfg["m"]

    def run(self, s):
        got = tuple(s.ask(list(range(10, 10 + self.m)), "q") for _ in range(self.n))
        return {"key": got, "stats": {"runs": 1}, "sample": list(got), "violations": []}


class Rejection:
    """a rejection loop: `budget` accepted answers are needed, answers >= acc are rejected and asked again"""

    def __init__(self, cfg):
        self.b, self.m, self.acc = cfg["budget"], cfg["m"], cfg["acc"]

    def run(self, s):
        kept = []
        while len(kept) < self.b:
            a = s.ask(list(range(self.m)), "draw")
            if a < self.acc:
                kept.append(a)
        return {"key": tuple(kept), "violations": []}


class Varying:
    """menu size depends on the previous answer; a one-element menu is not a branching point"""

    def run(self, s):
        a = s.ask([0, 1, 2], "first")
        b = s.ask(list(range(a + 1)), "second")
        c = s.ask(["only"], "third")
        return {"key": (a, b, c), "violations": [{"clause": "toy"}] if (a, b) == (2, 1) else []}


class Flaky:
    def __init__(self):
        self.calls = 0

    def run(self, s):
        self.calls += 1
        a = s.ask([0, 1], "a")
        if self.calls > 1:
            s.ask([0, 1, 2], "b")      # the second question changes shape between executions
        else:
            s.ask([0, 1], "b")
        s.ask([0, 1], "c")
        return {"key": a}


class Hang:
    def run(self, s):
        s.ask([0], "x")
        while True:
            try:
                while True:
                    pass
            except BaseException:      # even a swallowed guard exception must not keep the search waiting
                if getattr(self, "swallowed", 0) >= 1:
                    raise
                self.swallowed = 1


def toy_factory(cfg):
    return {"fixed": Fixed, "rejection": Rejection}[cfg["kind"]](cfg)


def _brute_rejection(b, m, acc, h):
    """count complete sequences / horizon hits / distinct outcomes by plain enumeration"""
    complete, hits, keys = 0, 0, set()

    def rec(kept, used):
        nonlocal complete, hits
        if len(kept) == b:
            complete += 1
            keys.add(tuple(kept))
            return
        if used == h:
            hits += 1
            return
        for a in range(m):
            rec(kept + [a] if a < acc else kept, used + 1)
    rec([], 0)
    return complete, hits, len(keys)


def t_choices_full_enumeration():
    for n, m in ((1, 1), (1, 4), (3, 3), (4, 2)):
        agg, seqs = choices.enumerate_local(Fixed({"n": n, "m": m}), horizon=n + 2, validate_stride=1)
        assert agg.schedules == m ** n == len(agg.keys) == agg.complete, (n, m, agg.schedules)
        assert agg.horizon_hits == 0 and agg.validated == agg.schedules and agg.answers == n * m ** n
        want = sorted(itertools.product(range(m), repeat=n))
        assert [s for s, _ in seqs] == want, "sequences must come in lexicographic order, each exactly once"


def t_choices_deviation_bound():
    n, m = 5, 3
    for k in (0, 1, 2, 3):
        agg, seqs = choices.enumerate_local(Fixed({"n": n, "m": m}), horizon=n, bound_deviations=k)
        want = sum(comb(n, i) * (m - 1) ** i for i in range(k + 1))
        assert agg.schedules == want, (k, agg.schedules, want)
        assert all(choices.deviations(s) <= k for s, _ in seqs)
        assert len(set(s for s, _ in seqs)) == want
    agg, _ = choices.enumerate_local(Fixed({"n": n, "m": m}), horizon=n, bound_deviations=None)
    assert agg.schedules == m ** n


def t_choices_horizon():
    for b, m, acc, h in ((2, 3, 2, 4), (2, 3, 1, 5), (1, 2, 0, 3), (3, 4, 2, 6)):
        agg, seqs = choices.enumerate_local(Rejection({"budget": b, "m": m, "acc": acc}), horizon=h)
        c, hh, k = _brute_rejection(b, m, acc, h)
        assert (agg.complete, agg.horizon_hits, len(agg.keys)) == (c, hh, k), (b, m, acc, h, agg.complete, agg.horizon_hits)
        assert agg.schedules == c + hh
        assert all(len(s) == h for s, hit in seqs if hit) and all(len(s) <= h for s, _ in seqs)
    # nothing can ever be accepted: every execution is a horizon hit, none a violation, the search terminates
    agg, _ = choices.enumerate_local(Rejection({"budget": 1, "m": 2, "acc": 0}), horizon=3)
    assert (agg.complete, agg.horizon_hits, agg.nviol) == (0, 8, 0)
    # a horizon exception swallowed by the code under test still ends the execution as a horizon hit

    class Swallow:
        def run(self, s):
            try:
                while True:
                    s.ask([0], "x")
            except BaseException:
                pass
            return {"key": "completed-anyway"}
    agg, _ = choices.enumerate_local(Swallow(), horizon=3)
    assert (agg.complete, agg.horizon_hits, len(agg.keys)) == (0, 1, 0)


def t_choices_varying_menus_and_violations():
    agg, seqs = choices.enumerate_local(Varying(), horizon=5)
    assert [s for s, _ in seqs] == [(0, 0, 0), (1, 0, 0), (1, 1, 0), (2, 0, 0), (2, 1, 0), (2, 2, 0)]
    assert agg.nviol == 1 and len(agg.keys) == 6


def t_choices_divergence_is_a_hard_error():
    for bad in ((5,), (0, 7), (-1,)):
        try:
            choices.run_one(Fixed({"n": 2, "m": 3}), bad, horizon=4)
        except ReplayDivergence:
            pass
        else:
            raise AssertionError("out-of-range prefix %r accepted" % (bad,))
    try:   # prefix longer than the execution consumes
        choices.run_one(Fixed({"n": 2, "m": 3}), (1, 1, 1), horizon=4)
    except ReplayDivergence:
        pass
    else:
        raise AssertionError("unconsumed prefix accepted")
    try:
        choices.enumerate_local(Flaky(), horizon=4)
    except ReplayDivergence:
        pass
    else:
        raise AssertionError("a run whose questions change between executions was accepted")
    s = Script((1,), horizon=1)
    assert s.ask(["a", "b"]) == "b"
    for _ in range(2):
        try:
            s.ask(["a", "b"])
        except HorizonReached:
            pass
        else:
            raise AssertionError("horizon not enforced")

    class Nondet:
        n = 0

        def run(self, s):
            s.ask([0, 1], "q")
            Nondet.n += 1
            return {"key": Nondet.n}
    try:
        choices.enumerate_local(Nondet(), horizon=2, validate_stride=1)
    except HarnessError as e:
        assert "NONDETERMINISM" in str(e)
    else:
        raise AssertionError("a non-reproducible outcome was accepted")


def t_choices_wall_guard():
    try:
        choices.run_one(Hang(), (), horizon=3, wall=0.3)
    except HarnessError as e:
        assert "hang" in str(e)
    else:
        raise AssertionError("hang not detected")


def t_choices_sharded_equals_local():
    cases = [({"kind": "rejection", "budget": 3, "m": 4, "acc": 2, "name": "toy-rejection"}, 6, None),
             ({"kind": "fixed", "n": 6, "m": 3, "name": "toy-fixed"}, 6, 2),
             ({"kind": "fixed", "n": 1, "m": 2, "name": "toy-tiny"}, 3, None)]
    with Pool(3) as pool:
        for cfg, h, k in cases:
            agg, _ = choices.enumerate_local(toy_factory(cfg), horizon=h, bound_deviations=k)
            for p, tt in ((None, 7), (pool, 5), (pool, 64)):
                r = choices.explore(p, "selftest.st_choices", "toy_factory", cfg, h, bound_deviations=k,
                                    validate_stride=3, target_tasks=tt)
                assert (r["schedules"], r["complete"], r["horizon_hits"], r["states"], r["transitions"]) == \
                    (agg.schedules, agg.complete, agg.horizon_hits, len(agg.keys), agg.answers), (cfg, tt, r["schedules"], agg.schedules)
                assert r["keys"] == agg.keys and r["exhaustive"]
                assert r["traces_validated_against_impl"] >= r["schedules"] // 3 - 2 * tt - 1
        # several explorations through the same barriers give the same per-exploration results
        specs = [{"cfg": c, "horizon": h, "bound_deviations": k, "validate_stride": 2} for c, h, k in cases]
        many = choices.explore_many(pool, "selftest.st_choices", "toy_factory", specs, target_tasks=9)
        for (cfg, h, k), r in zip(cases, many):
            agg, _ = choices.enumerate_local(toy_factory(cfg), horizon=h, bound_deviations=k)
            assert (r["schedules"], r["complete"], r["horizon_hits"], r["keys"]) == (agg.schedules, agg.complete, agg.horizon_hits, agg.keys)
    # an expired deadline is reported, never silently treated as complete
    r = choices.explore(None, "selftest.st_choices", "toy_factory", cases[0][0], 6, deadline=1.0)
    assert not r["exhaustive"]
