"""Self-tests of oracles/fingerprint.py on hand-made object graphs (no library import)."""
import numpy as np

from oracles import fingerprint as fp


class _Frame:
    def __init__(self, v):
        self.TAA = np.array(v, float).reshape(6, 1)
        self.TM = np.eye(4)


class _Screw:
    def __init__(self, data, frame):
        self.data = data
        self.frame_applied = frame
        self.shape = (6, 1)


def t_extent_matches_numpy():
    from numpy.lib.array_utils import byte_bounds
    base = np.arange(60.0).reshape(6, 10)
    views = [base, base[1:4, 2:7], base[::-1], base[:, ::-2], base.T, base[2], base[2:3, 5:6], base[::2, ::3].T,
             np.broadcast_to(base[0], (4, 10)), np.zeros((0, 3)), np.float64(3.0) * np.ones(())]
    for v in views:
        if v.size == 0:
            lo, hi = fp.extent(v)
            assert lo == hi
            continue
        assert fp.extent(v) == byte_bounds(v), (v.shape, v.strides)


def t_traversal_finds_every_array_and_respects_meta():
    f = _Frame([1, 2, 3, 0, 0, 0])
    s = _Screw(np.arange(6.0).reshape(6, 1), f)
    box = {"k": [s, (np.ones(3), "txt")], "o": np.array([f, None], dtype=object)}
    paths = [p for p, _ in fp.arrays(box, "x")]
    assert paths == ["x{'k'}[0].data", "x{'k'}[0].frame_applied.TAA", "x{'k'}[0].frame_applied.TM", "x{'k'}[1][0]",
                     "x{'o'}[0].TAA", "x{'o'}[0].TM"], paths
    nometa = [p for p, _ in fp.arrays(s, "s", skip_meta=True)]
    assert nometa == ["s.data"], nometa
    # cycles terminate
    a = [1]
    a.append(a)
    assert len(fp.nodes(a)) == 2


def t_diff_detects_bytes_identity_extent_scalar_structure():
    f = _Frame([1, 2, 3, 0, 0, 0])
    s = _Screw(np.arange(6.0).reshape(6, 1), f)
    lst = [1.0, 2.0]
    b = fp.take([s, lst])
    assert b.diff(fp.take([s, lst])) == []
    assert b.n_arrays() == 3
    s.data[2, 0] = -1.0
    d = b.diff(fp.take([s, lst]))
    assert [(x["path"], x["what"]) for x in d] == [("op0.data", "bytes")], d
    s.data[2, 0] = 2.0
    assert b.diff(fp.take([s, lst])) == []
    old = s.data
    s.data = old.copy()                       # same bytes, another object
    d = b.diff(fp.take([s, lst]))
    assert [(x["path"], x["what"]) for x in d] == [("op0.data", "identity")], d
    s.data = old
    s.frame_applied = _Frame([1, 2, 3, 0, 0, 0])     # equal-valued replacement object
    w = sorted((x["path"], x["what"]) for x in b.diff(fp.take([s, lst])))
    assert ("op0.frame_applied", "identity") in w and ("op0.frame_applied.TAA", "identity") in w, w
    s.frame_applied = f
    lst[1] = 2.5
    assert [(x["path"], x["what"]) for x in b.diff(fp.take([s, lst]))] == [("op1[1]", "scalar")]
    lst[1] = 2.0
    lst.append(3.0)
    w = [(x["path"], x["what"]) for x in b.diff(fp.take([s, lst]))]
    assert ("op1", "structure") in w and ("op1[2]", "structure") in w, w
    lst.pop()
    # -0.0 versus 0.0 and NaN payloads are byte differences
    z = np.zeros(2)
    bz = fp.take([z])
    z[0] = -0.0
    assert [x["what"] for x in bz.diff(fp.take([z]))] == ["bytes"]
    # a view that moved inside the same buffer: same object id is impossible, so emulate extent change via attribute
    base = np.arange(10.0)
    h = _Screw(base[0:3], f)
    bh = fp.take([h])
    h.data = base[1:4]
    w = [x["what"] for x in bh.diff(fp.take([h])) if x["path"] == "op0.data"]
    assert "bytes" in w and "identity" in w, w


def t_overlaps_is_exact_not_bounds_based():
    base = np.arange(12.0).reshape(3, 4)
    even, odd = base[:, ::2], base[:, 1::2]
    assert fp.extent(even)[1] > fp.extent(odd)[0]                 # byte ranges overlap ...
    assert fp.overlaps([("e", even)], [("o", odd)]) == []          # ... but no element is shared
    assert fp.overlaps([("r", base[1])], [("b", base)]) == [("r", "b")]
    assert fp.overlaps([("t", base.T)], [("c", base[:, 3])]) == [("t", "c")]
    assert fp.overlaps([("x", base.copy())], [("b", base)]) == []
    assert fp.overlaps([("z", np.zeros(0))], [("b", base)]) == []
    r = base.reshape(12)
    assert fp.overlaps([("r", r[5:6])], [("b", base[1, 1:2])]) == [("r", "b")]


def t_scribble_changes_every_element_and_reaches_views():
    a = np.array([7.5, 1.0, 8.5])
    v = a[1:]
    assert fp.scribble(v)
    assert a[0] == 7.5 and a[1] == a[2] and a[1] not in (1.0, 8.5)
    s = fp.sentinel(np.array([7.5, 8.5]))
    assert s not in (7.5, 8.5)
    i = np.array([75, 76])
    assert fp.scribble(i) and i[0] == i[1] == 77
    b = np.array([True, False])
    assert fp.scribble(b) and b.tolist() == [False, True]
    ro = np.zeros(3)
    ro.flags.writeable = False
    assert not fp.scribble(ro)
    assert not fp.scribble(np.zeros(0))
    assert not fp.scribble("x")


def t_fingerprint_keeps_ids_alive():
    # ids recorded in a fingerprint cannot be recycled while it exists
    holder = [np.zeros(3)]
    b = fp.take([holder])
    old_id = id(holder[0])
    holder[0] = np.zeros(3)
    assert id(holder[0]) != old_id
    assert [x["what"] for x in b.diff(fp.take([holder])) if x["path"] == "op0[0]"] == ["identity"]
