"""Self-test of the C12 oracle helpers (oracles/wrench_ref.py) and of the C12 palettes - no library import."""
import numpy as np
from scipy.linalg import expm

from oracles import se3
from oracles import wrench_ref as wr


def _frames(rng, n):
    out = []
    for _ in range(n):
        w = se3.unit(rng.normal(size=3)) * rng.uniform(0, np.pi - 1e-3)
        out.append(se3.T_from(w, rng.uniform(-10, 10, 3) / np.sqrt(3)))
    return out


def t_twist_change_is_conjugation_and_rigid_body_velocity():
    rng = np.random.default_rng(1)
    for TA, TB in zip(_frames(rng, 40), _frames(rng, 40)):
        V = rng.normal(size=6)
        a = wr.twist_change(TA, TB, V)
        assert np.abs(a - wr.twist_change_conj(TA, TB, V)).max() < 1e-10
        # physical meaning: the motion exp([V] t) described in A-coordinates is X_B(t) = T_BA X_A(t) T_BA^-1
        T = wr.rel(TB, TA)
        XA = expm(se3.hat6(V) * 0.3)
        XB = expm(se3.hat6(a) * 0.3)
        assert np.abs(XB - T @ XA @ se3.tinv(T)).max() < 1e-9
        # hand case (MR ordering, angular first): frame B shifted by d along x, pure rotation about z in A
    TA, TB = np.eye(4), se3.T_from([0, 0, 0], [2.0, 0, 0])
    got = wr.twist_change(TA, TB, [0, 0, 1.0, 0, 0, 0])
    # the point at B's origin (x=2) moves with w x r = (0,0,1)x(2,0,0) = (0,2,0)
    assert np.abs(got - np.array([0, 0, 1.0, 0, 2.0, 0])).max() < 1e-15


def t_wrench_change_is_dual_and_matches_statics():
    rng = np.random.default_rng(2)
    for TA, TB in zip(_frames(rng, 40), _frames(rng, 40)):
        F, V = rng.normal(size=6), rng.normal(size=6)
        FB, VB = wr.wrench_change(TA, TB, F), wr.twist_change(TA, TB, V)
        assert abs(wr.pairing(FB, VB) - wr.pairing(F, V)) < 1e-9 * (1 + np.linalg.norm(FB) * np.linalg.norm(VB))
        # a wrench is a point force through the origin plus a couple: elementary statics gives the same numbers
        m, f = F[:3], F[3:]
        want = wr.point_force_about(TA, np.zeros(3), f, TB) + wr.pure_couple_about(TA, m, TB)
        assert np.abs(FB - want).max() < 1e-9 * (1 + np.abs(want).max())
        # force applied at a point p
        p = rng.normal(size=3) * 3
        W = wr.wrench_from_point_force(p, f)
        assert np.abs(W[:3] - np.cross(p, f)).max() < 1e-12
        assert np.abs(wr.wrench_change(TA, TB, W) - wr.point_force_about(TA, p, f, TB)).max() < 1e-8 * (1 + np.abs(W).max() * 20)
        # zero moment about its own point of application
        TO = TA.copy()
        TO[:3, 3] = TA[:3, :3] @ p + TA[:3, 3]
        assert np.abs(wr.point_force_about(TA, p, f, TO)[:3]).max() < 1e-12
        assert np.abs(wr.wrench_change(TA, TO, W)[:3]).max() < 1e-9 * (1 + np.abs(W).max() * 20)
    # hand case: 1 N along +y applied at x = 2: moment +2 about z
    assert np.abs(wr.wrench_from_point_force([2.0, 0, 0], [0, 1.0, 0]) - np.array([0, 0, 2.0, 0, 1.0, 0])).max() == 0
    # seen from a frame shifted to x = 2 the moment vanishes
    got = wr.wrench_change(np.eye(4), se3.T_from([0, 0, 0], [2.0, 0, 0]), [0, 0, 2.0, 0, 1.0, 0])
    assert np.abs(got - np.array([0, 0, 0, 0, 1.0, 0])).max() < 1e-15


def t_group_laws_of_the_reference():
    rng = np.random.default_rng(3)
    fr = _frames(rng, 12)
    for i in range(0, 12, 3):
        TA, TB, TC = fr[i], fr[i + 1], fr[i + 2]
        x = rng.normal(size=6)
        for ch in (wr.twist_change, wr.wrench_change):
            assert np.abs(ch(TB, TA, ch(TA, TB, x)) - x).max() < 1e-9
            assert np.abs(ch(TB, TC, ch(TA, TB, x)) - ch(TA, TC, x)).max() < 1e-8
            assert np.abs(ch(TA, TA, x) - x).max() < 1e-13
    # the two rules differ (a check that mixes them up must fail) as soon as there is a translation
    TA, TB = np.eye(4), se3.T_from([0, 0, 0.4], [1.0, 2.0, 3.0])
    assert np.abs(wr.twist_change(TA, TB, np.ones(6)) - wr.wrench_change(TA, TB, np.ones(6))).max() > 0.5


def t_c12_palettes():
    from checks import c12
    for tier in ("quick", "thorough"):
        for seed in range(0, 8):
            fr = c12.frames(tier, seed)
            assert len(fr) == (9 if tier == "quick" else 14)
            Ts = [se3.T_from_taa(t) for _, t in fr]
            for a in Ts:
                for b in Ts:
                    assert wr.pi_margin(a, b) > c12.KF1_BAND
            names = [n for n, _ in fr]
            assert len(set(names)) == len(names)
            assert abs(np.linalg.norm(dict(fr)["far"][:3]) - 10.0) < 1e-12
            assert abs(np.linalg.norm(dict(fr)["near_pi"][3:]) - (np.pi - 1e-3)) < 1e-12
            assert c12.frames(tier, seed) is fr           # memoised, hence identical in every worker
        n = len(c12.frames(tier, 0))
        nv = len(c12.vectors(tier))
        assert len(c12.cases("frames", tier, 0)) == n ** 3 * nv * 2
        assert len(c12.cases("pairing", tier, 0)) == n ** 3
        assert len(c12.cases("arith", tier, 0)) == 2 * n * nv * (len(c12.SCALARS) + len(c12.ARRAYS) + n)
    # every operand form of the arith part is constructible and distinct in type/shape
    forms = {f for f, _ in c12.SCALARS + c12.ARRAYS}
    assert forms == {"int", "float", "npf64", "npf32", "npi64", "arr6", "arr61", "arr6i", "arr61i"}
    for f, v in c12.SCALARS:
        assert v != 0 and float(np.float32(v)) == float(v)      # exactly representable, usable as divisor
    for f, v in c12.ARRAYS:
        assert all(x != 0 for x in v)


def t_c12_res_accounting():
    """The comparison helper flags NaN, wrong shapes and errors above 1e-8 relative, and nothing below."""
    from checks import c12
    r = c12.Res()
    r.check("x", np.ones(6), np.ones(6) + 0.9e-8, 1.0)
    assert not r.f
    r.check("x", np.ones(6), np.ones(6) + 1.1e-8, 1.0)
    assert len(r.f) == 1
    r.check("x", np.full(6, np.nan), np.ones(6), 1.0)
    assert len(r.f) == 2
    r.check("x", None, np.ones(6), 1.0)
    assert len(r.f) == 3
    r.check("x", None, np.ones(6), 1.0, alt=(np.ones((6, 6)), np.ones((6, 6))))
    assert len(r.f) == 3
    r.check("x", None, np.ones(6), 1.0, alt=(np.ones((6, 6)), np.zeros((6, 6))))
    assert len(r.f) == 4
