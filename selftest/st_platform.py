"""Self-tests of the platform oracle (oracles/platform_geometry.py) and of the shared factory's pure parts
(checks/splib.py: family, ids, pose grid).  No library call is made here."""
import itertools

import numpy as np

from oracles import platform_geometry as pg
from oracles import se3


def _random_platform(rng):
    bl, tl = pg.nominal_layout(1.0, 0.6, 9, 25, 0.1, -0.05, 1)
    Tb = se3.T_from(rng.normal(size=3) * 0.4, rng.normal(size=3))
    Tt = Tb @ se3.T_from(rng.normal(size=3) * 0.2, [0.1, -0.05, 1.2])
    return Tb, Tt, bl, tl


def t_hand_computed_lengths():
    # bottom joints on the unit circle in the plane z=0, top joints straight above them at height 2: all legs = 2
    a = np.deg2rad([0, 60, 120, 180, 240, 300])
    bl = np.vstack([np.cos(a), np.sin(a), np.zeros(6)])
    tl = bl.copy()
    Tb, Tt = np.eye(4), se3.T_from([0, 0, 0], [0, 0, 2.0])
    assert np.abs(pg.leg_lengths(Tb, Tt, bl, tl) - 2.0).max() < 1e-15
    # shift the top plate by 1.5 along x: l^2 = 4 + 2.25
    Tt2 = se3.T_from([0, 0, 0], [1.5, 0, 2.0])
    assert np.abs(pg.leg_lengths(Tb, Tt2, bl, tl) - 2.5).max() < 1e-15
    # rotate the top plate by 180 deg about z: joint i lands above joint i+3, horizontal distance 2 -> l = sqrt(8)
    Tt3 = se3.T_from([0, 0, np.pi], [0, 0, 2.0])
    assert np.abs(pg.leg_lengths(Tb, Tt3, bl, tl) - np.sqrt(8.0)).max() < 1e-14
    # a 3-4-5 leg
    b = np.zeros((3, 6)); t = np.zeros((3, 6)); t[0] = 3.0
    assert np.abs(pg.leg_lengths(np.eye(4), se3.T_from([0, 0, 0], [0, 0, 4.0]), b, t) - 5.0).max() < 1e-15


def t_rigid_motion_and_frames():
    rng = np.random.default_rng(3)
    for _ in range(20):
        Tb, Tt, bl, tl = _random_platform(rng)
        G = se3.T_from(rng.normal(size=3), rng.normal(size=3) * 3)
        assert np.abs(pg.leg_lengths(G @ Tb, G @ Tt, bl, tl) - pg.leg_lengths(Tb, Tt, bl, tl)).max() < 1e-13
        P = rng.normal(size=(3, 6))
        assert np.abs(pg.to_plate(Tb, pg.to_space(Tb, P)) - P).max() < 1e-13


def t_inverse_jacobian_is_derivative():
    rng = np.random.default_rng(4)
    for _ in range(10):
        Tb, Tt, bl, tl = _random_platform(rng)
        J = pg.inverse_jacobian(Tb, Tt, bl, tl)
        b, t, n, L = pg.leg_units(Tb, Tt, bl, tl)
        for k in range(6):
            e = np.zeros(6); e[k] = 1.0
            d = pg.richardson(lambda h: pg.leg_lengths(Tb, se3.exp6(e * h) @ Tt, bl, tl), 1e-4)
            assert np.abs(d - J[:, k]).max() < 1e-9, (k, d, J[:, k])
        # bottom-joint and top-joint moment arms agree (same line of action)
        for i in range(6):
            assert np.abs(pg.cross(b[:, i], n[:, i]) - J[i, :3]).max() < 1e-13
        # statics is the transpose: J^T tau = summed leg wrench; power balance tau . (J V) = F . V
        tau = rng.normal(size=6)
        F = pg.legs_wrench_on_top(Tb, Tt, bl, tl, tau)
        assert np.abs(J.T @ tau - F).max() < 1e-13
        V = rng.normal(size=6)
        assert abs(tau @ (J @ V) - F @ V) < 1e-12


def t_wrench_and_cog_points():
    assert np.allclose(pg.point_force_wrench([1, 0, 0], [0, 0, -2.0]), [0, 2.0, 0, 0, 0, -2.0])   # x cross -z = +y
    assert np.allclose(pg.point_force_wrench([0, 3, 0], [1.0, 0, 0]), [0, 0, -3.0, 1.0, 0, 0])
    b = np.zeros((3, 6)); t = np.zeros((3, 6))
    Tb, Tt = np.eye(4), se3.T_from([0, 0, 0], [0, 0, 2.0])
    assert np.allclose(pg.shaft_cog(Tb, Tt, b, t, 0.5)[:, 0], [0, 0, 1.5])
    assert np.allclose(pg.motor_cog(Tb, Tt, b, t, 0.25)[:, 3], [0, 0, 0.25])
    # a vertical leg under a plate carrying weight w pushes with tau = w: legs_wrench = (0,0,0, 0,0,tau)
    assert np.allclose(pg.legs_wrench_on_top(Tb, Tt, b, t, [1, 0, 0, 0, 0, 0]), [0, 0, 0, 0, 0, 1.0])


def t_spin_and_layout():
    assert np.allclose(pg.rotz(np.pi / 2) @ [1, 0, 0], [0, 1, 0])
    P = np.arange(18, dtype=float).reshape(3, 6)
    Q = pg.spin_points(P, 0.4)
    assert np.allclose(Q[2], P[2]) and np.allclose(np.hypot(Q[0], Q[1]), np.hypot(P[0], P[1]))
    assert np.allclose(pg.spin_points(Q, -0.4), P)
    bl, tl = pg.nominal_layout(2.0, 1.0, 10, 30, 0.2, -0.1, 1)
    assert np.allclose(np.hypot(bl[0], bl[1]), 2.0) and np.allclose(np.hypot(tl[0], tl[1]), 1.0)
    assert np.allclose(bl[2], 0.2) and np.allclose(tl[2], -0.1)
    ang = np.rad2deg(np.arctan2(bl[1], bl[0]))
    assert np.allclose(ang[:4], [-5, 5, 115, 125])
    angt = np.rad2deg(np.arctan2(tl[1], tl[0]))
    assert np.allclose(angt[:3], [-45, 45, 75])
    bl2, tl2 = pg.nominal_layout(2.0, 1.0, 10, 10, 0.2, -0.1, -1)
    assert np.allclose(np.rad2deg(np.arctan2(tl2[1], tl2[0]))[:2], [-5, 5])     # patterns swapped
    # three-fold symmetry: all six neutral legs equal
    L = pg.leg_lengths(np.eye(4), se3.T_from([0, 0, 0], [0, 0, 1.5]), bl, tl)
    assert np.ptp(L) < 1e-13


def t_splib_family_and_grid():
    from checks import splib
    F = splib.family()
    assert len(F) == 432 and len({g.gid for g in F}) == 432
    assert {g.ctor for g in F} == {"new", "json", "make"}
    assert all(g.bs == g.ts for g in F if g.ctor == "make")
    assert [g.idx for g in F] == list(range(432))
    for q in splib.QUICK_GIDS:
        splib.geo(q)
    q = [splib.geo(x) for x in splib.QUICK_GIDS]
    assert {g.r for g in q} == set(splib.R_VALUES) and {g.ratio for g in q} == set(splib.RATIOS)
    assert {(g.bs, g.ts) for g in q} == set(splib.SPACINGS) and {g.ctor for g in q} == {"new", "json", "make"}
    assert {g.hand for g in q} == {1, -1} and {g.thick for g in q} == set(splib.THICKS)
    # all nominal geometries have a real neutral height with legs at mid-stroke
    for g in F:
        n = splib.nominal(g)
        assert np.isfinite(n["h"]) and n["lmin"] < 0.5 * (n["lmin"] + n["lmax"]) < n["lmax"]
        Tt = se3.T_from([0, 0, 0], [0, 0, n["h"]])
        assert np.abs(pg.leg_lengths(np.eye(4), Tt, n["bl"], n["tl"]) - 0.5 * (n["lmin"] + n["lmax"])).max() < 1e-12
    # pose grid: 729 distinct poses, index 0 neutral, within the stated box; sub-grid is a subset of 81
    h = 1.7
    keys = set()
    for i in range(splib.GRID_N):
        T = splib.rel_pose(h, i)
        keys.add(tuple(np.round(T.ravel(), 12)))
        w = se3.rlog(T[:3, :3])
        assert np.abs(w).max() <= 0.3 + 1e-12 and abs(T[0, 3]) <= 0.2 * h + 1e-12 and abs(T[1, 3]) <= 0.2 * h + 1e-12
        assert abs(T[2, 3] - h) <= 0.15 * h + 1e-12
    assert len(keys) == 729
    assert np.allclose(splib.rel_pose(h, 0), se3.T_from([0, 0, 0], [0, 0, h]))
    assert len(splib.FK_SUBGRID) == 81 and len(set(splib.FK_SUBGRID)) == 81 and 0 in splib.FK_SUBGRID
    for i in splib.FK_SUBGRID:
        T = splib.rel_pose(h, i)
        assert T[1, 3] == 0.0 and np.hypot(T[0, 3], T[1, 3]) <= 0.2 * h + 1e-12
    assert splib.case_id("g", "I", "s0", 7, 1) == "g/I/s0/p007/m1"
    for seed in range(8):
        g = splib.seed_geo(seed)
        assert g == splib.seed_geo(seed) == splib.geo("seedgeo%d" % seed) and g.gid not in {x.gid for x in F}
        assert 0.2 <= g.r <= 2 and 0.3 <= g.ratio <= 1 and 5 <= g.bs <= 40 and 5 <= g.ts <= 40 and 0 <= g.thick <= 0.1
        assert 0.8 <= g.lmin <= 1.5 and 1.5 <= g.stroke <= 2 and np.isfinite(splib.nominal(g)["h"])
    assert abs(splib.spin_angle("s-60d") + np.pi / 3) < 1e-15 and splib.spin_angle("s0.4") == 0.4 and splib.spin_angle("s0") == 0.0
    assert np.allclose(splib.base_T("I"), np.eye(4)) and se3.is_so3(splib.base_T("BS", 3)[:3, :3], 1e-12)


def t_known_list_matching():
    """A listed case id suppresses exactly that case; an unlisted one does not; passing listed cases produce nothing."""
    from mc import findings
    e = {"property": "C09", "key": "KF2", "status": "known", "what": "w",
         "match": {"properties": ["C09"], "clauses": ["fk_roundtrip"], "case_list": "known_findings/c09_fk_cases.txt"}}
    findings._CASE_LISTS["known_findings/c09_fk_cases.txt"] = {"a/I/s0/p001/m1", "fsolve-zero-rotation-start"}
    try:
        assert findings.matches(e, {"property": "C09", "clause": "fk_roundtrip", "case_id": "a/I/s0/p001/m1"})
        assert findings.matches(e, {"property": "C09", "clause": "fk_roundtrip", "case_id": "fsolve-zero-rotation-start"})
        assert not findings.matches(e, {"property": "C09", "clause": "fk_roundtrip", "case_id": "a/I/s0/p002/m1"})
        assert not findings.matches(e, {"property": "C09", "clause": "ik_distance", "case_id": "a/I/s0/p001/m1"})
        assert not findings.matches(e, {"property": "C09", "clause": "fk_roundtrip", "case_id": None})
    finally:
        findings._CASE_LISTS.pop("known_findings/c09_fk_cases.txt", None)
