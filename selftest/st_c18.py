"""Self-tests of the C18 oracles (oracles/helpers_geom.py) and palette builders against hand-computed values,
scipy and finite differences.  Nothing of the library under test is imported here."""
import math

import numpy as np
from scipy.linalg import expm, logm
from scipy.spatial.transform import Rotation, Slerp

from oracles import helpers_geom as hg
from oracles import se3

PI = math.pi


def _rand_T(rng, max_angle=3.0):
    w = se3.unit(rng.normal(size=3)) * rng.uniform(0.05, max_angle)
    return se3.T_from(w, rng.uniform(-4, 4, 3))


def t_c18_reflection():
    # plane z = 1 (frame at (0,0,1), un-rotated): (0,0,3) -> (0,0,-1); NOT (0,0,-5), which a wrong offset sign gives
    T = se3.T_from([0, 0, 0], [0, 0, 1])
    assert np.allclose(hg.reflect_across_frame_xy(T, [0, 0, 3]), [0, 0, -1], atol=1e-15)
    assert np.allclose(hg.reflect_across_frame_xy(T, [2, -1, 1]), [2, -1, 1], atol=1e-15)      # on the plane
    # frame at (0,2,0) turned a quarter about x: local z = world -y, so the local XY plane is y = 2
    T = se3.T_from([PI / 2, 0, 0], [0, 2, 0])
    assert np.allclose(T[:3, 2], [0, -1, 0], atol=1e-15)
    assert np.allclose(hg.reflect_across_frame_xy(T, [1, 5, 7]), [1, -1, 7], atol=1e-14)
    assert abs(hg.plane_offset(T) - (-2.0)) < 1e-15
    rng = np.random.default_rng(3)
    for _ in range(200):
        T = _rand_T(rng)
        p = rng.uniform(-6, 6, 3)
        m = hg.reflect_across_frame_xy(T, p)
        lo, lm = hg.local_coords(T, p), hg.local_coords(T, m)
        assert np.allclose(lm, [lo[0], lo[1], -lo[2]], atol=1e-12)
        assert np.allclose(hg.reflect_across_frame_xy(T, m), p, atol=1e-12)
        assert np.allclose(hg.from_local(T, lo), p, atol=1e-12)
        # the same through homogeneous matrices: T diag(1,1,-1,1) T^-1
        H = T @ np.diag([1.0, 1.0, -1.0, 1.0]) @ np.linalg.inv(T)
        assert np.allclose((H @ np.append(p, 1.0))[:3], m, atol=1e-11)


def t_c18_planes():
    assert abs(hg.plane_point_distance(0, 0, 1, 2, [5, 5, 5]) - 3.0) < 1e-15
    assert abs(hg.plane_point_distance(0, 0, 2, 4, [5, 5, 5]) - 3.0) < 1e-15          # scale invariant
    # the repository's pinned example: points (1,-2,0), (3,1,4), (0,-1,2) -> -2x + 8y - 5z = -18
    for p in ([1, -2, 0], [3, 1, 4], [0, -1, 2]):
        assert abs(hg.plane_point_distance(-2, 8, -5, -18, p)) < 1e-15
    assert abs(hg.plane_point_distance(-2, 8, -5, 18, [1, -2, 0])) > 1.0                # wrong sign of d is seen
    assert hg.collinearity([0, 0, 0], [1, 1, 1], [2, 2, 2]) < 1e-15
    assert abs(hg.collinearity([0, 0, 0], [1, 0, 0], [0, 3, 0]) - 1.0) < 1e-15
    assert hg.collinearity([1, 2, 3], [1, 2, 3], [0, 0, 0]) == 0.0


def t_c18_geodesic_midpoint():
    Rm = hg.geodesic_mid_rotation(se3.rexp([0, 0, 0.2]), se3.rexp([0, 0, 1.0]))
    assert np.allclose(Rm, se3.rexp([0, 0, 0.6]), atol=1e-14)
    rng = np.random.default_rng(4)
    n = 0
    while n < 200:
        R1 = se3.rexp(se3.unit(rng.normal(size=3)) * rng.uniform(0, 3.1))
        R2 = se3.rexp(se3.unit(rng.normal(size=3)) * rng.uniform(0, 3.1))
        if se3.rangle(R2 @ R1.T) > PI - 1e-3:
            continue
        n += 1
        Rm = hg.geodesic_mid_rotation(R1, R2)
        S = Slerp([0.0, 1.0], Rotation.from_matrix(np.array([R1, R2])))(0.5).as_matrix()
        assert np.abs(Rm - S).max() < 1e-10
        # defining relation and symmetry
        assert np.abs((Rm @ R1.T) @ (Rm @ R1.T) - R2 @ R1.T).max() < 1e-10
        assert np.abs(hg.geodesic_mid_rotation(R2, R1) - Rm).max() < 1e-10
        assert abs(se3.rangle(Rm @ R1.T) - 0.5 * se3.rangle(R2 @ R1.T)) < 1e-10
    assert hg.so3_defect(Rm) < 1e-12
    assert hg.so3_defect(np.diag([1.0, 1.0, -1.0])) >= 2.0 - 1e-12                       # improper
    assert hg.so3_defect(np.full((3, 3), np.nan)) == float("inf")


def t_c18_relative_pose():
    # the repository's pinned example: sqrt(4 + (pi/6)^2)
    Ta = se3.T_from([0, 0, 0], [-1, 0, 0])
    Tb = se3.T_from([0, PI / 6, 0], [1, 0, 0])
    assert abs(hg.arc_norm(Ta, Tb) - math.sqrt(4 + (PI / 6) ** 2)) < 1e-14
    rng = np.random.default_rng(5)
    n = 0
    while n < 100:
        Ta, Tb = _rand_T(rng), _rand_T(rng)
        if se3.rangle(Ta[:3, :3].T @ Tb[:3, :3]) > PI - 1e-2:
            continue
        n += 1
        rel = np.linalg.inv(Ta) @ Tb
        v = hg.rel_pose_vector(Ta, Tb)
        assert np.allclose(v[:3], rel[:3, 3], atol=1e-11)
        assert np.allclose(se3.skew(v[3:]), np.real(logm(rel[:3, :3])), atol=1e-8)
        assert abs(hg.arc_norm(Ta, Ta)) < 1e-12
    assert np.allclose(hg.look_direction([1, 1, 1], [1, 1, 4]), [0, 0, 1])


def t_c18_wrap_residual():
    two_pi = 2 * PI
    assert hg.wrap_residual(10 - two_pi, 10) < 1e-14
    assert hg.wrap_residual(-7 % two_pi, -7) < 1e-14
    assert abs(hg.wrap_residual(10 % PI, 10) - PI) < 1e-12            # reduction modulo pi is NOT angle preserving
    assert abs(hg.wrap_residual(7 % two_pi, -7) - min((14 % two_pi), two_pi - (14 % two_pi))) < 1e-12
    assert hg.wrap_residual([1.0, 2.0 + 3 * two_pi, -5.0], [1.0, 2.0, -5.0 - two_pi]) < 1e-13
    assert hg.wrap_residual([], []) == 0.0


def _fd_space_jacobian(S, th):
    """Richardson-extrapolated central differences of the product of exponentials built with scipy's expm."""
    def fk(t):
        T = np.eye(4)
        for i in range(len(t)):
            T = T @ expm(se3.hat6(S[:, i] * t[i]))
        return T

    def col(i, h):
        e = np.zeros(len(th))
        e[i] = h
        return (fk(th + e) - fk(th - e)) / (2 * h)

    Tinv = np.linalg.inv(fk(th))
    J = np.zeros((6, len(th)))
    for i in range(len(th)):
        d = (4 * col(i, 5e-4) - col(i, 1e-3)) / 3
        M = d @ Tinv
        J[:, i] = [M[2, 1], M[0, 2], M[1, 0], M[0, 3], M[1, 3], M[2, 3]]
    return J


def t_c18_space_jacobian():
    from checks import c18
    S = np.array(c18.EXSCREW, float)
    J = hg.space_jacobian(S, [0, 1, 2, 3, 4, 5])
    ref = np.array([[0, 0, 0, -0.98999, 0.019915, 0.54137], [0, 1, 1, 0, -0.98999, -0.1068],
                    [1, 0, 0, -0.14112, -0.13971, 0.83397], [0, -2, -0.73779, 0, 0.50688, 0.054682],
                    [0, 0, 0, -0.61604, -0.097872, 0.92229], [0, 0, 0.81045, 0, 0.76579, 0.082613]])
    assert np.abs(J - ref).max() < 1e-4, np.abs(J - ref).max()          # the published 5-digit table
    rng = np.random.default_rng(6)
    pal = np.array(c18.screw_palette(0), float).T
    for _ in range(12):
        n = int(rng.integers(1, 5))
        Sx = pal[:, rng.integers(0, pal.shape[1], n)]
        th = rng.uniform(-2.5, 2.5, n)
        assert np.abs(hg.space_jacobian(Sx, th) - _fd_space_jacobian(Sx, th)).max() < 1e-8
        assert np.abs(hg.poe(Sx, th) - np.linalg.multi_dot([np.eye(4)] + [expm(se3.hat6(Sx[:, i] * th[i])) for i in range(n)] + [np.eye(4)])).max() < 1e-11
    # screw_from_axis: a point on the axis does not move
    s = hg.screw_from_axis([1, -2, 3], [0.4, -0.1, 0.7])
    assert np.allclose((se3.exp6(s * 1.3) @ np.array([0.4, -0.1, 0.7, 1.0]))[:3], [0.4, -0.1, 0.7], atol=1e-12)
    assert abs(np.linalg.norm(s[:3]) - 1.0) < 1e-15


def t_c18_test_maps():
    rng = np.random.default_rng(7)
    for name, m in hg.MAPS.items():
        for _ in range(20):
            x = rng.uniform(-1.6, 1.6, m["n"])
            J = m["J"](x)
            assert J.shape == (m["m"], m["n"]) and m["f"](x).shape == (m["m"],)
            for j in range(m["n"]):
                cd = lambda h: (m["f"](x + h * np.eye(m["n"])[j]) - m["f"](x - h * np.eye(m["n"])[j])) / (2 * h)
                rich = (4 * cd(5e-4) - cd(1e-3)) / 3
                assert np.abs(rich - J[:, j]).max() < 1e-9, (name, j)
                # the declared third-derivative bound really bounds the central-difference truncation error
                for h in (1e-2, 1e-3):
                    assert np.abs(cd(h) - J[:, j]).max() <= hg.central_truncation_bound(name, h) * 1.001 + 1e-10, (name, h)
    assert hg.central_truncation_bound("quad_2to3", 0.1) == 0.0


def t_c18_palettes():
    from checks import c18
    for seed in range(10):
        P = c18.pose_palette(seed)
        assert len(P) == 11 and P[:10] == c18.pose_palette(0)[:10]
        assert P == c18.pose_palette(seed)                                  # deterministic
        assert max(np.linalg.norm(p[:3]) for p in P) <= 10 + 1e-12
        assert abs(max(np.linalg.norm(p[:3]) for p in P) - 10.0) < 1e-12    # one member on the |p| bound
        assert abs(max(np.linalg.norm(p[3:]) for p in P) - (PI - 1e-3)) < 1e-12   # one on the angle bound
        for a in P:
            for b in P:
                if a is not b:
                    assert se3.rangle(se3.rexp(b[3:]) @ se3.rexp(a[3:]).T) <= PI - 1e-3
    # exactly one exactly-vertical ordered pair family (poses 2 and 3) so that lookAt's fallback is exercised
    P = c18.pose_palette(0)
    vert = [(i, j) for i in range(11) for j in range(11) if i != j and P[i][0] == P[j][0] and P[i][1] == P[j][1]]
    assert vert == [(2, 3), (3, 2)]
    G = c18.angle_palette(0)
    assert len(G) == len(set(G)) and -50.0 in G and 50.0 in G and 0.0 in G
    for k in range(1, 8):
        for s in (1, -1):
            for e in (0.0, 1e-9, -1e-9):
                assert float(s * 2 * PI * k + e) in G
    assert sum(1 for g in G if abs(g) > 2 * PI) > 200
    assert c18.sphere_counts("thorough") == list(range(1, 2001))
    q = c18.sphere_counts("quick")
    assert q[:300] == list(range(1, 301)) and q[-1] == 2000 and len(q) == len(set(q))
    assert all(b - a <= 17 for a, b in zip(q, q[1:]))
    assert len(c18.screw_palette(3)) == 7
    # every case description is JSON-clean and dispatchable
    import json
    for name, fn in c18.PARTS:
        cs = fn(0, "quick")
        assert cs and all(c["rel"] in c18.RELS for c in cs)
        json.dumps(cs[:50])
