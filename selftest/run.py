"""Harness self-tests: the oracles against closed-form values and scipy, the canonicaliser, the findings matcher."""
import sys
import numpy as np


def t_se3():
    from oracles import se3
    from scipy.linalg import expm
    rng = np.random.default_rng(0)
    for th in [0, 1e-9, 1e-5, 1e-3, 0.5, 2, 3.1, np.pi - 1e-5, np.pi - 1e-9, np.pi]:
        for _ in range(10):
            w = se3.unit(rng.normal(size=3)) * th
            R = se3.rexp(w)
            assert np.abs(R - expm(se3.skew(w))).max() < 1e-12
            assert np.abs(se3.rexp(se3.rlog(R)) - R).max() < 1e-9
            V = np.concatenate([w, rng.normal(size=3) * 3])
            T = se3.exp6(V)
            assert np.abs(T - expm(se3.hat6(V))).max() < 1e-11
            assert np.abs(se3.exp6(se3.log6(T)) - T).max() < 1e-8
            assert np.abs(se3.adj(T) @ se3.adj(se3.tinv(T)) - np.eye(6)).max() < 1e-9
    assert abs(se3.rangle(se3.rexp([0, 0, np.pi - 1e-7])) - (np.pi - 1e-7)) < 1e-12


def t_canon():
    from mc import canon
    a = {"x": np.array([1.0, 2.0]), "y": [1, 2.0000000001]}
    b = {"y": [1, 2.0], "x": np.array([1.0, 2.0])}
    assert canon.key(a) == canon.key(b)
    assert canon.key(a) != canon.key({"x": np.array([1.0, 2.1]), "y": [1, 2.0]})
    assert canon.key(-0.0) == canon.key(0.0)


def t_findings():
    from mc import findings
    e = {"property": "C01", "key": "K", "status": "known", "what": "w",
         "match": {"properties": ["C01"], "clauses": ["a"], "bands": [{"quantity": "q", "gt": 0, "lt": 1}]}}
    assert findings.matches(e, {"property": "C01", "clause": "a", "quantities": {"q": 0.5}})
    assert not findings.matches(e, {"property": "C01", "clause": "a", "quantities": {"q": 1.5}})
    assert not findings.matches(e, {"property": "C01", "clause": "b", "quantities": {"q": 0.5}})
    assert not findings.matches(dict(e, status="fixed"), {"property": "C01", "clause": "a", "quantities": {"q": 0.5}})


def main():
    sys.path.insert(0, __file__.rsplit("/selftest", 1)[0])
    n = 0
    for name, f in sorted(globals().items()):
        if name.startswith("t_") and callable(f):
            f()
            n += 1
    import glob, importlib, os
    for p in sorted(glob.glob(os.path.join(os.path.dirname(__file__), "st_*.py"))):
        m = importlib.import_module("selftest." + os.path.basename(p)[:-3])
        for name in sorted(dir(m)):
            if name.startswith("t_"):
                getattr(m, name)()
                n += 1
    print("selftest: %d groups ok" % n)


if __name__ == "__main__":
    main()
