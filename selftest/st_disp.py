"""Self-tests of the C20 oracle (oracles/disp_parse.py) and of the C20 palettes.  The library is never imported:
renderings are typed by hand or produced by a small reference renderer written here from the published format."""
import itertools
import json
from decimal import Decimal

import numpy as np

from oracles import disp_parse as dp


def t_disp_parse_handwritten_tables():
    s = ("╔     1.000,   -2.500,    3.000 ╗\n"
         "╚    -4.000,    5.125,   -6.000 ╝")
    assert dp.table_rows(s) == [["1.000", "-2.500", "3.000"], ["-4.000", "5.125", "-6.000"]]
    # titled 2-D block: the bars are decoration even though they are delimited like rows
    s2 = "╔═ Tb BEGIN ╗\n" + s + "\n╚══ Tb END ═╝"
    assert dp.table_rows(s2) == dp.table_rows(s)
    # 1-D with a title prefix; a title that itself looks like a number or holds digits
    assert dp.table_rows("J_1: ║      1.00,    22.50 ║", "J_1") == [["1.00", "22.50"]]
    assert dp.table_rows("7: ║      1.00 ║", "7") == [["1.00"]]
    assert dp.table_rows("║      1.00 ║", "MATRIX") == [["1.00"]]
    assert dp.table_rows(": ║ 5 ║", "") == [["5"]]
    assert dp.table_rows("J_1: ║      1.00 ║") == []          # prefix unknown to the caller -> not a row
    # empty rows, empty renderings, nd = 0 fields, a row that overflows its width, inf / nan
    assert dp.table_rows("╔  ╗\n╚  ╝") == [[], []]
    assert dp.table_rows("") == [] and dp.table_rows("║  ║") == [[]]
    assert dp.table_rows("║     -7,     0,  9998 ║") == [["-7", "0", "9998"]]
    assert dp.table_rows("║ 100000.000,      inf,     -inf,      nan ║") == [["100000.000", "inf", "-inf", "nan"]]
    # 3-D frame with captions
    s3 = ("╔═════ MATRIX BEGIN ═════╗\nDIM 0:\n╔     1.0,    2.0 ╗\n╚     3.0,    4.0 ╝\nDIM 1:\n"
          "╔     5.0,    6.0 ╗\n╚     7.0,    8.0 ╝\n╚══════ MATRIX END ══════╝")
    rows = dp.table_rows(s3)
    assert dp.flatten(rows) == ["1.0", "2.0", "3.0", "4.0", "5.0", "6.0", "7.0", "8.0"]
    assert dp.layout_ok(rows, (2, 2, 2)) and not dp.layout_ok(rows, (2, 4, 1)) and not dp.layout_ok(rows[:-1], (2, 2, 2))
    # things that must NOT be read as rows
    for junk in ("╔══ 7 BEGIN ══╗", "║Xm║     0.000,    1.000 ║", "╠══╦══════════╣", "DIM 0:", "1.0, 2.0", "║ 1.0; 2.0 ║",
                 "║ 1.0,, 2.0 ║", "║ 1.0 2.0 ║", "║ 1.0, abc ║", "3.5"):
        assert dp.table_rows(junk) == [], junk


def _fmt(x, nd):
    return ("{:%d.%df}" % (nd + 6, nd)).format(x)


def _ref_render(a, nd, title="MATRIX", pdims=True, top=True):
    """Reference renderer of the published table format (independent re-statement, lists of lines)."""
    a = np.asarray(a)
    if a.ndim == 1:
        pre = (title + ": ") if (top and title != "MATRIX") else ""
        return [pre + "║ " + ",".join(_fmt(v, nd) for v in a.tolist()) + " ║"]
    if a.ndim == 2:
        out = []
        for i in range(a.shape[0]):
            l, r = ("╔ ", " ╗") if i == 0 else (("╚ ", " ╝") if i == a.shape[0] - 1 else ("║ ", " ║"))
            out.append(l + ",".join(_fmt(v, nd) for v in a[i].tolist()) + r)
        if title != "MATRIX":
            out = ["╔═ " + title + " BEGIN ═╗"] + out + ["╚═ " + title + " END ═╝"]
        return out
    out = ["╔══ " + title + " BEGIN ══╗"]
    for i in range(a.shape[0]):
        if a.ndim == 3:
            if pdims:
                out.append("DIM %d:" % i)
            out += _ref_render(a[i], nd, "MATRIX", pdims, False)
        else:
            out += _ref_render(a[i], nd, title + " d:%d" % i, pdims, False)
    return out + ["╚══ " + title + " END ══╝"]


def t_disp_parse_reads_back_reference_renderer():
    n = 0
    for rank in range(1, 5):
        for shape in itertools.product(range(0, 4), repeat=rank):
            size = int(np.prod(shape))
            k = np.arange(size)
            a = (np.where(k % 3 == 1, -1.0, 1.0) * (k + 1 + 0.123456789)).reshape(shape)
            for nd in (0, 2, 8):
                for title in ("MATRIX", "J_1", "7", ""):
                    for pd in (True, False):
                        s = "\n".join(_ref_render(a, nd, title, pd))
                        rows = dp.table_rows(s, title if rank == 1 else None)
                        toks = dp.flatten(rows)
                        assert toks == [_fmt(v, nd).strip() for v in a.ravel().tolist()], (shape, nd, title, s)
                        assert dp.compare(toks, a.ravel().tolist(), nd) is None
                        if size and rank >= 2:
                            assert dp.layout_ok(rows, shape)
                        if size >= 2:
                            # every way of losing, repeating or swapping one field is noticed
                            assert dp.compare(toks[:-1], a.ravel().tolist(), nd)["kind"] == "count"
                            assert dp.compare(toks + toks[-1:], a.ravel().tolist(), nd)["kind"] == "count"
                            sw = [toks[1], toks[0]] + toks[2:]
                            assert dp.compare(sw, a.ravel().tolist(), nd)["kind"] == "value"
                            dup = toks[:1] + toks[:-1]
                            assert dp.compare(dup, a.ravel().tolist(), nd)["kind"] == "value"
                        n += 1
    assert n > 5000


def t_disp_compare_tolerance_is_half_a_unit():
    C = dp.compare
    assert C(["1.235"], [1.2345678], 3) is None
    assert C(["1.234"], [1.2345678], 3)["kind"] == "value"        # a whole unit off the rounded value
    assert C(["1.2355"], [1.2345678], 3)["kind"] == "decimals"     # exactly half a unit away in value, but 4 decimals
    assert C(["1.2345678"], [1.2345678], 3)["kind"] == "decimals"
    assert C(["1.2345678"], [1.2345678], 3, check_decimals=False) is None
    assert C(["1.23"], [1.2345678], 3)["kind"] == "value"          # fewer decimals than asked: 0.005 off
    assert C(["1.2"], [1.2], 3) is None and C(["1.200"], [1.2], 3) is None and C(["1.0"], [1.2], 0) is None
    assert C(["2"], [1.2], 0)["kind"] == "value"
    assert C(["0"], [0.5], 0) is None and C(["1"], [0.5], 0)["kind"] == "value"      # round(0.5) = 0 (half-even)
    assert C(["2"], [2.5], 0) is None and C(["4"], [2.5], 0)["kind"] == "value"
    assert C(["-0.000"], [-0.0], 3) is None and C(["0.000"], [-1e-9], 3) is None
    assert C(["9999.00000000"], [9998.999999999], 8) is None
    assert C(["-9998.5"], [-9998.5], 1) is None and C(["9998.5"], [-9998.5], 1)["kind"] == "value"
    assert C(["1.000", "0.000"], [True, False], 3) is None and C(["True", "False"], [True, False], 3) is None
    assert C(["1.000"], [False], 3)["kind"] == "value"
    assert C(["7"], [7], 5) is None and C(["7.00000"], [7], 5) is None
    assert C(["7.4"], [7], 0)["kind"] == "decimals" and C(["7.4"], [7], 0, check_decimals=False) is None
    assert C(["7.6"], [7], 0)["kind"] == "value"
    assert C(["abc"], [1.0], 3)["kind"] == "unparsed" and C(["inf"], [1.0], 3)["kind"] == "unparsed"
    assert C([], [], 3) is None and C([], [1.0], 3)["kind"] == "count"
    assert C(["1e-05"], [1e-5], 5) is None and C(["1e-05"], [1e-5], 4)["kind"] == "decimals"
    # the bound is exact: just inside / just outside half a unit
    assert C(["1.0005"], [1.0], 3, check_decimals=False) is None
    assert C(["1.00050000000000000001"], [1.0], 3, check_decimals=False)["kind"] == "value"
    assert dp.want_decimal(2.675, 2) == Decimal("2.67")             # Python's correctly rounded round, not x*100
    assert dp.decimals_shown("1.500") == 3 and dp.decimals_shown("1.500", True) == 1 and dp.decimals_shown("12") == 0
    assert dp.decimals_shown("nan") == 0 and dp.decimals_shown("True") == 0 and dp.decimals_shown("1e+300") == 0


def t_disp_parse_latex_and_scalar():
    s = ("\\begin{table}\n\\centering\n\\begin{tabular}{| c  c |}\n\\hline\n\\toprule\n%INSERT CAPTIONS HERE\n\\midrule\n"
         "1.0 & -2.5\\\\\n3 & 4\\\\\n\\bottomrule\n\\end{tabular}\n\\caption{12 & 3}\n\\end{table}")
    assert dp.latex_rows(s) == [["1.0", "-2.5"], ["3", "4"]]
    assert dp.latex_rows(s.replace("1.0 & -2.5\\\\\n3 & 4\\\\\n", "")) == []
    assert dp.latex_rows(s.replace("1.0 & -2.5\\\\\n3 & 4\\\\\n", "\\\\\n\\\\\n")) == [[], []]
    assert dp.latex_rows(s.replace("\\midrule\n", "")) is None
    assert dp.latex_rows(s.replace("3 & 4\\\\", "3 & 4")) is None
    assert dp.latex_rows(s.replace("3 & 4", "3 & "))[1] == ["3", ""]          # a lost cell stays visible as a hole
    assert dp.compare(["3", ""], [3, 4], 0)["kind"] == "unparsed"
    assert dp.scalar_token("J_1: 2.5", "J_1") == "2.5" and dp.scalar_token("2.5", "MATRIX") == "2.5"
    assert dp.scalar_token("True", "Tb") == "True" and dp.to_decimal("True") == 1 and dp.to_decimal("x") is None


def t_c20_palettes_are_what_the_rule_says():
    from checks import c20
    sh = c20.all_shapes()
    assert len(sh) == 3906 == sum(5 ** r for r in range(6)) and len(set(sh)) == 3906
    assert sorted(c20.shape_of_unit(u) for u in range(c20.N_SHAPES)) == sorted(sh)      # the stride is a bijection
    # ramp: elements pairwise distinguishable already at nd = 0, a non-zero digit at each of the 9 places,
    # no element within 0.05 units of a rounding tie at any nd
    a = c20.make_array((4, 4, 4, 4, 4), "float64", "ramp", 0).ravel()
    assert len({round(v) for v in a.tolist()}) == a.size and np.abs(a).max() < 9999
    for nd in range(9):
        f = np.abs(a) * 10 ** nd
        assert np.all(np.abs((f % 1.0) - 0.5) > 0.04), nd
        assert np.all(np.round(f) % 10 != 0) or nd == 0
    i = c20.make_array((4, 4, 4, 4, 4), "int64", "ramp", 0).ravel()
    assert len(set(i.tolist())) == i.size and np.abs(i).max() < 9999
    for dt in c20.DTYPES:
        for fill in ("ramp", "zero", "edge", "seeded"):
            assert c20.in_scope(c20.make_array((4, 4, 4, 4), dt, fill, 5)), (dt, fill)
        assert c20.make_array((3, 0, 2), dt, "ramp", 0).shape == (3, 0, 2)
        assert c20.make_array((), dt, "ramp", 0).shape == ()
    assert not c20.in_scope(c20.make_array((2, 2), "float64", "special", 0))
    assert not c20.in_scope(c20.make_array((2, 2), "int64", "special", 0))
    assert not c20.in_scope(np.array([9999.0])) and c20.in_scope(np.array([-9998.999])) and not c20.in_scope(np.array([np.nan]))
    assert not c20.in_scope(np.zeros((1, 1, 1, 1, 1)))
    assert np.array_equal(c20.make_array((2, 3), "float64", "seeded", 4), c20.make_array((2, 3), "float64", "seeded", 4))
    assert not np.array_equal(c20.make_array((2, 3), "float64", "seeded", 4), c20.make_array((2, 3), "float64", "seeded", 5))
    # nested trees: counts, all distinct, depth bound
    t2 = c20.Trees(c20.LEAF2)
    assert [t2.count(d) for d in range(4)] == [2, 16, 548, 601708]
    t4 = c20.Trees(c20.LEAF4)
    assert [t4.count(d) for d in range(3)] == [4, 46, 4330]
    all2 = [json.dumps(t2.get(2, i)) for i in range(548)]
    assert len(set(all2)) == 548 and max(c20.depth(json.loads(x)) for x in all2) == 2
    all4 = [json.dumps(t4.get(2, i)) for i in range(4330)]
    assert len(set(all4)) == 4330
    tl = c20.trees("leaf2L")
    some = {json.dumps(tl.get(3, i)) for i in range(tl.count(3))}
    assert len(some) == tl.count(3) == 8745
    assert sum(1 for x in some if c20.depth(json.loads(x)) == 3) == 8745 - 93
    # depth-3 trees never coincide with the 4-leaf depth-2 family (so the two families are disjoint by construction)
    assert not ({x for x in some if c20.depth(json.loads(x)) == 3} & set(all4))
    # sequences over an alphabet: complete and distinct
    seqs = [json.dumps(c20._seq(c20.TM_PAL, i, 0)) for i in range(85)]
    assert len(set(seqs)) == 85 and sorted(len(json.loads(x)) for x in seqs) == [0] + [1] * 4 + [2] * 16 + [3] * 64
    seqs = [json.dumps(c20._seq(c20.MIX_ALPHA, i, 1)) for i in range(819)]
    assert len(set(seqs)) == 819
    # spec -> object for the library-free kinds
    assert c20.build(["L", [["i", 1], ["T", [["s", "a"], ["N"]]], ["f", "2.5"]]]) == [1, ("a", None), 2.5]
    assert c20.build(["np", "bool_", "1"]) is np.True_ and c20.build(["c", "1.0", "2.0"]) == 1 + 2j
