"""Self-test of the independent URDF interpreter (oracles/urdf_semantics.py) against hand-computed poses.

Every expected matrix below was worked out by hand from the URDF specification (origin = translate xyz, then
R = Rz(yaw) Ry(pitch) Rx(roll); then the joint rotation about its axis), not produced by the code under test or by
the library.  A cross-check against scipy's fixed-axis Euler convention and oracles/se3.py closes the loop.
"""
import math

import numpy as np

from oracles import urdf_semantics as US

S2 = math.sqrt(0.5)


def _robot(body, links=("a", "b")):
    return '<robot name="t">' + "".join('<link name="%s"/>' % l for l in links) + body + "</robot>"


def _close(A, B, tol=1e-14):
    assert np.abs(np.asarray(A, float) - np.asarray(B, float)).max() <= tol, (A, B)


def t_urdf_rpy_convention():
    # roll only: x stays, y -> z
    _close(US.rot_rpy(math.pi / 2, 0, 0), [[1, 0, 0], [0, 0, -1], [0, 1, 0]])
    # pitch only: z -> x
    _close(US.rot_rpy(0, math.pi / 2, 0), [[0, 0, 1], [0, 1, 0], [-1, 0, 0]])
    # yaw only: x -> y
    _close(US.rot_rpy(0, 0, math.pi / 2), [[0, -1, 0], [1, 0, 0], [0, 0, 1]])
    # roll 90 then yaw 90 about the FIXED axes: R = Rz Rx.  x -> (Rx) x -> (Rz) y ; y -> z -> z ; z -> -y -> x
    _close(US.rot_rpy(math.pi / 2, 0, math.pi / 2), [[0, 0, 1], [1, 0, 0], [0, 1, 0]])
    # the other order (Rx Rz) would send x -> y -> z: make sure we are not that
    assert abs(US.rot_rpy(math.pi / 2, 0, math.pi / 2)[2, 0]) < 1e-15
    # roll 90, pitch 90: R = Ry Rx.  x -> x -> -z ; y -> z -> x ; z -> -y -> -y
    _close(US.rot_rpy(math.pi / 2, math.pi / 2, 0), [[0, 1, 0], [0, 0, -1], [-1, 0, 0]])
    from scipy.spatial.transform import Rotation
    from oracles import se3
    rng = np.random.default_rng(3)
    for _ in range(50):
        r, p, y = rng.uniform(-3.2, 3.2, 3)
        _close(US.rot_rpy(r, p, y), Rotation.from_euler("xyz", [r, p, y]).as_matrix(), 1e-13)   # lower case = extrinsic
        _close(US.rot_rpy(r, p, y), se3.rexp([0, 0, y]) @ se3.rexp([0, p, 0]) @ se3.rexp([r, 0, 0]), 1e-13)
        a = rng.normal(size=3)
        th = rng.uniform(-7, 7)
        _close(US.rot_axis(a, th), se3.rexp(a / np.linalg.norm(a) * th), 1e-13)
    _close(US.rot_axis([0, 0, 2.0], math.pi / 2), [[0, -1, 0], [1, 0, 0], [0, 0, 1]])    # axis is normalised


def t_urdf_one_joint():
    # joint frame at (1,2,3), yawed 90 degrees; joint turns about its own x axis (= parent y)
    x = _robot('<joint name="j" type="revolute"><parent link="a"/><child link="b"/>'
               '<origin xyz="1 2 3" rpy="0 0 1.5707963267948966"/><axis xyz="1 0 0"/>'
               '<limit lower="-1.5" upper="2.5" effort="1" velocity="1"/></joint>')
    m = US.Model(x)
    assert (m.num_dof, m.names, m.limits, m.root, m.tip) == (1, ["j"], [(-1.5, 2.5)], "a", "b")
    _close(m.fk([0.0]), [[0, -1, 0, 1], [1, 0, 0, 2], [0, 0, 1, 3], [0, 0, 0, 1]])
    # theta = 90 deg: R = Rz(90) Rx(90): x -> y ; y -> z -> z ; z -> -y -> x
    _close(m.fk([math.pi / 2]), [[0, 0, 1, 1], [1, 0, 0, 2], [0, 1, 0, 3], [0, 0, 0, 1]])
    # 45 degrees about parent y (columns: images of child x, y, z)
    _close(m.fk([math.pi / 4]), [[0, -S2, S2, 1], [1, 0, 0, 2], [0, S2, S2, 3], [0, 0, 0, 1]])


def t_urdf_defaults():
    # everything optional omitted: identity origin, x axis; continuous has no limits
    m = US.Model(_robot('<joint name="j" type="continuous"><parent link="a"/><child link="b"/></joint>'))
    assert m.limits == [(None, None)]
    _close(m.fk([math.pi / 2]), [[1, 0, 0, 0], [0, 0, -1, 0], [0, 1, 0, 0], [0, 0, 0, 1]])
    # xyz only / rpy only
    m = US.Model(_robot('<joint name="j" type="continuous"><parent link="a"/><child link="b"/><origin xyz="0 0 2"/></joint>'))
    _close(m.fk([0.0]), [[1, 0, 0, 0], [0, 1, 0, 0], [0, 0, 1, 2], [0, 0, 0, 1]])
    m = US.Model(_robot('<joint name="j" type="continuous"><parent link="a"/><child link="b"/>'
                        '<origin rpy="0 1.5707963267948966 0"/><axis xyz="0 0 -1"/></joint>'))
    # pitch 90: child z = parent x; rotating by +90 about child -z is -90 about parent x after the pitch:
    # R = Ry(90) Rz(-90): x -> -y -> -y ; y -> x -> -z ; z -> z -> x
    _close(m.fk([math.pi / 2]), [[0, 0, 1, 0], [-1, 0, 0, 0], [0, -1, 0, 0], [0, 0, 0, 1]])
    # a continuous joint that carries an effort/velocity-only limit still has no position limits
    m = US.Model(_robot('<joint name="j" type="continuous"><parent link="a"/><child link="b"/><limit effort="1" velocity="2"/></joint>'))
    assert m.limits == [(None, None)]


def t_urdf_two_joints_and_fixed():
    # planar 2R arm about z with unit links, a fixed tool offset after the last joint, a fixed riser before the first,
    # elements listed out of order and the root link called "world"
    x = ('<robot name="t">'
         '<joint name="tool" type="fixed"><parent link="l2"/><child link="tip"/><origin xyz="1 0 0"/></joint>'
         '<joint name="q2" type="revolute"><parent link="l1"/><child link="l2"/><origin xyz="1 0 0"/><axis xyz="0 0 1"/>'
         '<limit lower="-2" upper="2" effort="1" velocity="1"/></joint>'
         '<link name="tip"/><link name="l2"/><link name="l1"/><link name="riser"/><link name="world"/>'
         '<joint name="q1" type="revolute"><parent link="riser"/><child link="l1"/><axis xyz="0 0 1"/>'
         '<limit lower="-3" upper="3" effort="1" velocity="1"/></joint>'
         '<joint name="mount" type="fixed"><parent link="world"/><child link="riser"/><origin xyz="0 0 0.5"/></joint>'
         '</robot>')
    m = US.Model(x)
    assert (m.num_dof, m.names, m.root, m.tip) == (2, ["q1", "q2"], "world", "tip")
    assert [j.name for j in m.joints] == ["mount", "q1", "q2", "tool"]
    _close(m.fk([0, 0]), [[1, 0, 0, 2], [0, 1, 0, 0], [0, 0, 1, 0.5], [0, 0, 0, 1]])
    # q1 = 90, q2 = -90: elbow at (0,1), tool points along +x again: tip = (0,1) + (1,0) = (1,1)
    _close(m.fk([math.pi / 2, -math.pi / 2]), [[1, 0, 0, 1], [0, 1, 0, 1], [0, 0, 1, 0.5], [0, 0, 0, 1]])
    # q1 = 90, q2 = 90: tip = (0,1) + (-1,0); orientation 180 about z
    _close(m.fk([math.pi / 2, math.pi / 2]), [[-1, 0, 0, -1], [0, -1, 0, 1], [0, 0, 1, 0.5], [0, 0, 0, 1]])
    fr = m.joint_frames_home()
    _close(fr[0], [[1, 0, 0, 0], [0, 1, 0, 0], [0, 0, 1, 0.5], [0, 0, 0, 1]])
    _close(fr[1], [[1, 0, 0, 1], [0, 1, 0, 0], [0, 0, 1, 0.5], [0, 0, 0, 1]])
    # non-commuting axes: q1 about z, then an origin rolled 90 so that q2 (about its own z) turns about parent -y
    x = _robot('<joint name="q1" type="continuous"><parent link="a"/><child link="b"/><axis xyz="0 0 1"/></joint>'
               '<joint name="q2" type="continuous"><parent link="b"/><child link="c"/>'
               '<origin xyz="0 0 1" rpy="1.5707963267948966 0 0"/><axis xyz="0 0 1"/></joint>'
               '<joint name="t" type="fixed"><parent link="c"/><child link="d"/><origin xyz="1 0 0"/></joint>',
               links=("a", "b", "c", "d"))
    m = US.Model(x)
    # home: tool at (1,0,1).  q2 = 90 swings the tool from +x to child +y = parent +z: tool at (0,0,2).
    _close(m.fk([0, math.pi / 2])[:3, 3], [0, 0, 2])
    # q1 = 90, q2 = 0: tool at (0,1,1); q1 = 90, q2 = 90: still (0,0,2)
    _close(m.fk([math.pi / 2, 0])[:3, 3], [0, 1, 1])
    _close(m.fk([math.pi / 2, math.pi / 2])[:3, 3], [0, 0, 2])
    # orientation at (90, 0): Rz(90) Rx(90) -> columns y, z, x
    _close(m.fk([math.pi / 2, 0])[:3, :3], [[0, 0, 1], [1, 0, 0], [0, 1, 0]])


def t_urdf_rotation_angle_and_rejects():
    assert abs(US.rotation_angle(US.rot_rpy(3.14159, 0, 0)) - 3.14159) < 1e-12
    assert abs((math.pi - US.rotation_angle(US.rot_rpy(0, 3.1416, 0))) - (3.1416 - math.pi)) < 1e-12
    assert US.rotation_angle(np.eye(3)) == 0.0
    for bad in (
        # side branch
        _robot('<joint name="p" type="fixed"><parent link="a"/><child link="b"/></joint>'
               '<joint name="q" type="fixed"><parent link="a"/><child link="c"/></joint>', links=("a", "b", "c")),
        # two roots
        _robot('<joint name="p" type="fixed"><parent link="a"/><child link="b"/></joint>', links=("a", "b", "c")),
        # joint type outside the family
        _robot('<joint name="p" type="prismatic"><parent link="a"/><child link="b"/></joint>'),
    ):
        try:
            US.Model(bad)
        except US.URDFSemanticsError:
            continue
        raise AssertionError("accepted a file outside the interpreted family")


def t_urdf_generator_roundtrip():
    """The C13 generator and the interpreter agree on what was generated (kinds, counts, names, defaults)."""
    from checks import c13
    for fam in ("n1", "n2", "sched", "halfturn", "contlim"):
        total = c13.family_size(fam, "quick")
        for idx in sorted({0, 1, total // 3, total // 2, total - 1}):
            spec = c13.spec_at(fam, idx, 0, "quick")
            m = US.Model(c13.build(spec))
            mv = [j for j in spec["joints"] if j["kind"] == "m"]
            assert m.num_dof == len(mv) and m.names == [j["name"] for j in mv]
            assert len(m.joints) == len(spec["joints"])
            for js, jm in zip(spec["joints"], m.joints):
                want_xyz = [float(v) for v in js["xyz"].split()] if js["o"] in ("full", "norpy") else [0, 0, 0]
                want_rpy = [float(v) for v in js["rpy"].split()] if js["o"] in ("full", "noxyz") else [0, 0, 0]
                assert jm.xyz == want_xyz and jm.rpy == want_rpy
                if js["kind"] == "m":
                    assert jm.axis == ([1, 0, 0] if js["a"] == "omitted" else [float(v) for v in js["axis"].split()])
                    assert abs(np.linalg.norm(jm.axis) - 1) < 1e-15
                    assert (jm.lower, jm.upper) == ((float(js["lim"][0]), float(js["lim"][1])) if js["t"] == "revolute" else (None, None))
            assert (m.root == "world") == bool(spec["world"])
    assert len(c13.slot_patterns(3)) == 33 and len(c13.slot_patterns(8)) == 163
    # the thinner quick schedule still meets every origin kind, axis kind and type for every n, and all 40 variants
    seen_all = set()
    for n in c13.SCHED_N:
        vs = {(s + 7 * k) % c13.NVAR for (m, s, _) in c13.sched_table("quick") if m == n for k in range(n)}
        seen_all |= vs
        kinds = [c13.variant(v) for v in vs]
        assert {k[0] for k in kinds} == set(c13.ORIGIN_KINDS) and {k[1] for k in kinds} == set(c13.AXIS_KINDS)
        assert {k[2] for k in kinds} == set(c13.TYPE_KINDS)
    assert seen_all == set(range(c13.NVAR))
    for n in c13.SCHED_N:   # thorough: every variant at every position
        for k in range(n):
            assert {(s + 7 * k) % c13.NVAR for (m, s, _) in c13.sched_table("thorough") if m == n} == set(range(c13.NVAR))
    assert max(sum(p) for p in c13.slot_patterns(8)) == 4
