"""Self-test of oracles/dynamics.py against the vendored reference Modern Robotics 1.1.1 on a few fixed chains.

The three identities the C08 check relies on are validated here on the *reference* implementation, so that a failure
of one of them on the library later points at the library and not at the oracle:
  M = sum_i J_i^T G_i J_i,  g(q) = grad_q sum_i m_i (-g).p_cm,i(q),  qd.c = 1/2 qd^T Mdot qd  (and c = Christoffel form),
plus the tip-wrench convention, hand values for a pendulum, the centre-of-mass bookkeeping of offset inertias and the
integrator.  No import of the library under test.
"""
import numpy as np

from oracles import dynamics as dyn
from oracles import se3
from vendor import modern_robotics_ref as ref


def _chain(n, k, offset=False):
    """Fixed chain number k with n joints (deterministic)."""
    r = np.random.default_rng([n, k, 7])
    S = np.zeros((6, n))
    for i in range(n):
        w = se3.unit(r.normal(size=3))
        S[:, i] = np.concatenate([w, np.cross(r.normal(size=3), w)])
    Ml = np.array([se3.T_from(r.normal(size=3) * 0.5, r.normal(size=3) * 0.5) for _ in range(n + 1)])
    Gl = []
    for i in range(n):
        A = r.normal(size=(3, 3))
        m = r.uniform(0.1, 50)
        Gl.append(dyn.spatial_inertia(A @ A.T + 0.1 * np.eye(3), m, r.normal(size=3) * 0.2 if offset else (0, 0, 0)))
    q = r.uniform(-np.pi, np.pi, n)
    qd = r.normal(size=n) * 3
    return S, Ml, np.array(Gl), q, qd, r


def _ur5():
    """The 3-link example of the reference's docstrings."""
    M01 = np.array([[1, 0, 0, 0], [0, 1, 0, 0], [0, 0, 1, 0.089159], [0, 0, 0, 1.0]])
    M12 = np.array([[0, 0, 1, 0.28], [0, 1, 0, 0.13585], [-1, 0, 0, 0], [0, 0, 0, 1.0]])
    M23 = np.array([[1, 0, 0, 0], [0, 1, 0, -0.1197], [0, 0, 1, 0.395], [0, 0, 0, 1.0]])
    M34 = np.array([[1, 0, 0, 0], [0, 1, 0, 0], [0, 0, 1, 0.14225], [0, 0, 0, 1.0]])
    G = np.array([np.diag([0.010267, 0.010267, 0.00666, 3.7, 3.7, 3.7]), np.diag([0.22689, 0.22689, 0.0151074, 8.393, 8.393, 8.393]),
                  np.diag([0.0494433, 0.0494433, 0.004095, 2.275, 2.275, 2.275])])
    S = np.array([[1, 0, 1, 0, 1, 0], [0, 1, 0, -0.089, 0, 0], [0, 1, 0, -0.089, 0, 0.425]]).T
    return S, np.array([M01, M12, M23, M34]), G


def t_docstring_example_of_the_reference():
    S, Ml, G = _ur5()
    q, qd, qdd = np.array([0.1, 0.1, 0.1]), np.array([0.1, 0.2, 0.3]), np.array([2, 1.5, 1])
    g, F = np.array([0, 0, -9.8]), np.ones(6)
    tau, terms = dyn.inverse_dynamics(Ml, G, S, q, qd, qdd, g, F)
    assert np.abs(tau - np.array([74.69616155, -33.06766016, -3.23057314])).max() < 1e-7
    assert np.abs(terms[1] - np.array([0.26453118, -0.05505157, -0.00689132])).max() < 1e-7
    assert np.abs(terms[2] - np.array([28.40331262, -37.64094817, -5.4415892])).max() < 1e-7
    assert np.abs(terms[3] - np.array([1.40954608, 1.85771497, 1.392409])).max() < 1e-7
    assert np.abs(dyn.mass_matrix(Ml, G, S, q) - ref.MassMatrix(q, Ml, G, S)).max() < 1e-13


def t_mass_matrix_is_sum_JGJ_on_the_reference():
    worst = 0.0
    for n in (1, 2, 3, 5, 7):
        for k in range(3):
            S, Ml, Gl, q, qd, r = _chain(n, k, offset=(k == 2))
            M = ref.MassMatrix(q, Ml, Gl, S)
            Mo = dyn.mass_matrix(Ml, Gl, S, q)
            worst = max(worst, np.abs(M - Mo).max() / np.abs(M).max())
            assert np.abs(Mo - Mo.T).max() <= 1e-12 * np.abs(Mo).max()
            assert np.linalg.eigvalsh(Mo).min() > 0
    assert worst < 1e-12, worst


def t_gravity_is_the_gradient_of_the_potential_on_the_reference():
    worst = 0.0
    for n in (1, 2, 3, 5, 7):
        for k in range(3):
            S, Ml, Gl, q, qd, r = _chain(n, k, offset=(k == 2))
            g = np.array([1.0, -2.0, -9.8]) * (1 + 4 * k)
            gf = ref.GravityForces(q, g, Ml, Gl, S)
            want = dyn.gravity_torque(Ml, Gl, S, q, g)
            worst = max(worst, np.abs(gf - want).max() / max(1.0, np.abs(gf).max()))
            # the potential itself: -g . sum m p, link by link, with the reference's FK
            P = 0.0
            H = np.eye(4)
            for i in range(n):
                H = H @ Ml[i]
                m, c = dyn.mass_and_com(Gl[i])
                T = ref.FKinSpace(H, S[:, :i + 1], q[:i + 1])
                P += -m * g @ (T @ np.r_[c, 1.0])[:3]
            assert abs(P - dyn.potential(Ml, Gl, S, q, g)) < 1e-9 * max(1.0, abs(P))
    assert worst < 1e-9, worst


def t_passivity_and_christoffel_form_on_the_reference():
    worst_p = worst_c = 0.0
    for n in (1, 2, 3, 5, 7):
        for k in range(3):
            S, Ml, Gl, q, qd, r = _chain(n, k, offset=(k == 2))
            c = ref.VelQuadraticForces(q, qd, Ml, Gl, S)
            Md = dyn.mdot_along(lambda x: ref.MassMatrix(x, Ml, Gl, S), q, qd)
            lhs, rhs = qd @ c, 0.5 * qd @ Md @ qd
            worst_p = max(worst_p, abs(lhs - rhs) / max(1.0, np.abs(qd * c).sum()))
            co = dyn.coriolis(Ml, Gl, S, q, qd)
            worst_c = max(worst_c, np.abs(c - co).max() / max(1.0, np.abs(c).max()))
    assert worst_p < 1e-8, worst_p
    assert worst_c < 1e-8, worst_c


def t_tip_wrench_convention():
    """Ftip is expressed in the end-effector frame {n+1}: torque = Jb_tip^T Ftip, with Jb_tip the reference's body
    Jacobian for the home pose M_0,n+1."""
    for n in (1, 3, 6):
        S, Ml, Gl, q, qd, r = _chain(n, 1)
        F = r.normal(size=6) * 10
        Mtip = dyn.home_frames(Ml)[-1]
        B = np.array([ref.Adjoint(ref.TransInv(Mtip)) @ S[:, i] for i in range(n)]).T
        Jb = ref.JacobianBody(B, q)
        want = Jb.T @ F
        assert np.abs(dyn.tip_torque(Ml, S, q, F) - want).max() < 1e-10 * max(1, np.abs(want).max())
        assert np.abs(ref.EndEffectorForces(q, F, Ml, Gl, S) - want).max() < 1e-10 * max(1, np.abs(want).max())
        # and the full decomposition of the reference
        qdd, g = r.normal(size=n), np.array([0.5, -1.0, -9.8])
        tau = ref.InverseDynamics(q, qd, qdd, g, F, Ml, Gl, S)
        tau_o, _ = dyn.inverse_dynamics(Ml, Gl, S, q, qd, qdd, g, F)
        assert np.abs(tau - tau_o).max() < 1e-8 * max(1, np.abs(tau).max())


def t_pendulum_by_hand():
    """One revolute joint about y through the origin, point-like bob of mass m on a rod of length l along -z."""
    m, l, gz = 2.0, 0.7, 9.81
    S = np.array([[0, 1, 0, 0, 0, 0.0]]).T
    Ml = np.array([se3.T_from([0, 0, 0], [0, 0, -l]), np.eye(4)])
    Gl = np.array([dyn.spatial_inertia(np.diag([1e-3, 1e-3, 1e-3]), m)])
    g = np.array([0, 0, -gz])
    for th in (0.0, 0.3, -1.2, np.pi / 2):
        q = np.array([th])
        assert abs(dyn.mass_matrix(Ml, Gl, S, q)[0, 0] - (m * l * l + 1e-3)) < 1e-12
        # rotation by th about +y moves the bob from (0,0,-l) to (-l sin th, 0, -l cos th); P = m gz z
        assert abs(dyn.potential(Ml, Gl, S, q, g) - (-m * gz * l * np.cos(th))) < 1e-12
        assert abs(dyn.gravity_torque(Ml, Gl, S, q, g)[0] - (m * gz * l * np.sin(th))) < 1e-8
        assert abs(ref.GravityForces(q, g, Ml, Gl, S)[0] - (m * gz * l * np.sin(th))) < 1e-10
    assert np.abs(dyn.coriolis(Ml, Gl, S, np.array([0.4]), np.array([3.0]))).max() < 1e-9


def t_offset_inertia_is_the_same_body():
    """A link described in a frame away from its centre of mass (full 6x6 inertia) and the same link described in
    the centred frame give the same mass matrix, gravity and velocity-product torques."""
    for n in (2, 4):
        S, Ml, Gl, q, qd, r = _chain(n, 2, offset=True)
        Ml2, Gl2 = [], []
        prev_shift = np.eye(4)
        for i in range(n):
            m, c = dyn.mass_and_com(Gl[i])
            X = se3.T_from([0, 0, 0], c)                      # centred frame in the link frame
            Ml2.append(se3.tinv(prev_shift) @ Ml[i] @ X)
            A = se3.adj(X)
            Gc = A.T @ Gl[i] @ A
            assert np.abs(Gc[:3, 3:]).max() < 1e-12 * m       # centred: no coupling block
            Gl2.append(Gc)
            prev_shift = X
        Ml2.append(se3.tinv(prev_shift) @ Ml[n])
        Ml2, Gl2 = np.array(Ml2), np.array(Gl2)
        g = np.array([1.0, 2.0, -9.0])
        assert np.abs(ref.MassMatrix(q, Ml2, Gl2, S) - dyn.mass_matrix(Ml, Gl, S, q)).max() < 1e-10
        assert np.abs(ref.GravityForces(q, g, Ml2, Gl2, S) - dyn.gravity_torque(Ml, Gl, S, q, g)).max() < 1e-7
        assert np.abs(ref.VelQuadraticForces(q, qd, Ml2, Gl2, S) - dyn.coriolis(Ml, Gl, S, q, qd)).max() < 1e-6
        assert abs(dyn.potential(Ml2, Gl2, S, q, g) - dyn.potential(Ml, Gl, S, q, g)) < 1e-10


def t_energy_is_conserved_by_the_reference_under_rk4():
    S, Ml, Gl, q, qd, r = _chain(3, 0)
    g = np.array([0.3, -0.2, -9.81])
    z, zF = np.zeros(3), np.zeros(6)
    traj = dyn.rk4(lambda a, b: ref.ForwardDynamics(a, b, z, g, zF, Ml, Gl, S), q, qd / 3, 2e-3, 50)
    E = [dyn.energy(Ml, Gl, S, a, b, g) for a, b in traj]
    assert (max(E) - min(E)) / max(1.0, abs(E[0])) < 1e-8
    # and a wrong sign of the velocity-product term is seen by the same measurement
    bad = dyn.rk4(lambda a, b: np.linalg.solve(ref.MassMatrix(a, Ml, Gl, S), +ref.VelQuadraticForces(a, b, Ml, Gl, S)
                                               - ref.GravityForces(a, g, Ml, Gl, S)), q, qd / 3, 2e-3, 50)
    Eb = [dyn.energy(Ml, Gl, S, a, b, g) for a, b in bad]
    assert (max(Eb) - min(Eb)) / max(1.0, abs(Eb[0])) > 1e-4


def t_richardson_order():
    f = lambda x: np.array([np.sin(x[0]) * np.cos(2 * x[1])])
    x = np.array([0.3, -0.7])
    d = dyn.richardson(f, x, np.array([1.0, 0.5]))
    want = np.cos(0.3) * np.cos(-1.4) - 0.5 * 2 * np.sin(0.3) * np.sin(-1.4)
    assert abs(d[0] - want) < 1e-11
