"""Self-test of the C17 comparison logic (checks/c17.py::compare, values_differ) and of the driver's layout / digest /
sharding / source-enumeration helpers - no library import, no subprocess."""
import os
import tempfile

import numpy as np

from checks import c17, c17_driver as drv
from mc.pool import HarnessError


def _ok(cid, vals, sig="L2|a(2,)|N", dt="f", **kw):
    r = {"id": cid, "st": "ok", "sig": sig, "v": list(vals), "dt": dt}
    r.update(kw)
    return r


def _exc(cid, exc, nb=False):
    return {"id": cid, "st": "exc", "exc": exc, "msg": "m", "nb": nb}


K = "k|FKinSpace|3|P"
E = "e|arm:6R@I|g1|FKLink|2"


def _clauses(J, B, N, died=None):
    v, st = c17.compare({r["id"]: r for r in J}, {r["id"]: r for r in B}, {r["id"]: r for r in N}, died)
    return sorted((x["clause"], x["case"].get("pair")) for x in v), st, v


def t_values_differ_tolerance_and_specials():
    a = _ok(K, [1.0, 2.0, 1000.0])
    assert c17.values_differ(a, _ok(K, [1.0, 2.0, 1000.0])) is None
    assert c17.values_differ(a, _ok(K, [1.0 + 5e-13, 2.0, 1000.0 + 5e-10])) is None        # 5e-13 abs at unit scale, 5e-13 rel at 1e3
    d = c17.values_differ(a, _ok(K, [1.0 + 2e-12, 2.0, 1000.0]))
    assert d and d["what"] == "value" and d["index"] == 0
    d = c17.values_differ(a, _ok(K, [1.0, 2.0, 1000.0 + 5e-9]))
    assert d and d["index"] == 2
    assert c17.values_differ(_ok(K, [1e-20, 0.0]), _ok(K, [0.0, 1e-13])) is None           # absolute below unit scale
    assert c17.values_differ(_ok(K, ["nan", "inf", "-inf"]), _ok(K, ["nan", "inf", "-inf"])) is None
    assert c17.values_differ(_ok(K, ["nan"]), _ok(K, [1.0]))["what"] == "non-finite"
    assert c17.values_differ(_ok(K, ["inf"]), _ok(K, ["-inf"]))["what"] == "non-finite"
    assert c17.values_differ(a, _ok(K, [1.0, 2.0]))["what"] == "length"
    assert c17.values_differ(a, _ok(K, [1.0, 2.0, 1000.0], sig="L2|a(3,)|b1"))["what"] == "structure"   # a flipped boolean is structure
    assert c17.worst_rel(a, _ok(K, [1.0, 2.0, 1001.0])) == 1.0 / 1001.0


def t_compare_silent_when_modes_agree():
    for cid in (K, E):
        cl, st, _ = _clauses([_ok(cid, [1.0, 2.0], key="aa")], [_ok(cid, [1.0, 2.0])], [_ok(cid, [1.0, 2.0 + 1e-13], k=["FKinSpace"])])
        assert cl == [] and st["outcomes"] == {"accepted": 1} and st["evaluations"] == 1 and len(st["keys"]) == 1
    # dtype differs but the values are equal: counted, not a violation
    cl, st, _ = _clauses([_ok(K, [1.0], dt="i")], [_ok(K, [1.0], dt="i")], [_ok(K, [1.0], dt="f")])
    assert cl == [] and st["dtype_differs"] == {"FKinSpace": 1}


def t_compare_d09_shape():
    """normal mode returns (silently reads the neighbour), both checked modes raise IndexError."""
    cl, st, v = _clauses([_ok(E, [1.0])], [_exc(E, "IndexError")], [_exc(E, "IndexError")])
    assert cl == [("index_error_under_boundscheck", "jit/boundscheck"), ("interpreter_raises", "jit/nojit")]
    assert v[0]["case"]["entry"] == "FKLink" and v[0]["case"]["index"] == 2 and v[0]["case"]["object"] == "arm:6R@I"
    # any other exception class in a checked mode counts as well
    cl, _, _ = _clauses([_ok(K, [1.0])], [_ok(K, [1.0])], [_exc(K, "ValueError")])
    assert cl == [("interpreter_raises", "jit/nojit")]


def t_compare_value_differences():
    cl, _, v = _clauses([_ok(K, [1.0, 2.0])], [_ok(K, [1.0, 2.5])], [_ok(K, [1.0, 2.0])])
    assert cl == [("value_differs", "jit/boundscheck")] and v[0]["observed"]["index"] == 1 and v[0]["tolerance"] == 1e-12
    cl, _, _ = _clauses([_ok(K, [1.0, 2.0])], [_ok(K, [1.0, 2.0])], [_ok(K, [1.0, 2.0 + 1e-11])])
    assert cl == [("value_differs", "jit/nojit")]
    cl, _, _ = _clauses([_ok(K, ["nan"])], [_ok(K, ["nan"])], [_ok(K, [0.0])])
    assert cl == [("value_differs", "jit/nojit")]


def t_compare_rejections_are_not_failures():
    # explicit signature: TypeError in both compiled modes, the interpreter accepts -> rejected, interpreter not compared
    cl, st, _ = _clauses([_exc(K, "TypeError")], [_exc(K, "TypeError")], [_ok(K, [3.0])])
    assert cl == [] and st["outcomes"] == {"rejected": 1} and list(st["rejected"]) == ["FKinSpace:P (TypeError)"]
    # numba typing error (flagged by the driver) likewise, whatever its class name
    cl, st, _ = _clauses([_exc(K, "TypingError", nb=True)], [_exc(K, "TypingError", nb=True)], [_exc(K, "ValueError")])
    assert cl == [] and st["outcomes"] == {"rejected": 1}
    # the two compiled modes must agree on it
    cl, _, _ = _clauses([_exc(K, "TypeError")], [_ok(K, [1.0])], [_ok(K, [1.0])])
    assert cl == [("modes_disagree", "jit/boundscheck")]
    # a non-type exception of the compiled code where the interpreter returns is a divergence
    cl, _, _ = _clauses([_exc(K, "ZeroDivisionError")], [_exc(K, "ZeroDivisionError")], [_ok(K, ["inf"])])
    assert cl == [("compiled_raises", "jit/nojit")]
    # the same exception everywhere is outside the property
    cl, st, _ = _clauses([_exc(E, "ValueError")], [_exc(E, "ValueError")], [_exc(E, "ValueError")])
    assert cl == [] and st["same_exception"] == {"arm.FKLink:ValueError": 1}


def t_compare_duplicates_missing_and_dead_modes():
    dup = {"id": K, "st": "dup"}
    cl, st, _ = _clauses([dup], [dup], [dup])
    assert cl == [] and st["evaluations"] == 0 and st["outcomes"] == {"duplicate_layout": 1}
    try:
        _clauses([_ok(K, [1.0])], [], [_ok(K, [1.0])])
        raise AssertionError("a case missing from a finished mode must be a harness error")
    except HarnessError:
        pass
    cl, st, _ = _clauses([_ok(K, [1.0])], [], [_exc(K, "IndexError")], {"boundscheck": True})
    assert cl == [("interpreter_raises", "jit/nojit")] and st["not_run"] == 1
    cl, st, _ = _clauses([], [_ok(K, [1.0])], [_ok(K, [1.0])], {"jit": True})
    assert cl == [] and st["not_run"] == 1 and st["evaluations"] == 0


def t_entry_reach_is_measured():
    a = "e|tm|p0|inv|-"
    b = "e|arm:6R@I|zero|getEEPos|-"
    J = [_ok(a, [1.0]), _ok(b, [1.0])]
    _, st, _ = _clauses(J, J, [_ok(a, [1.0], k=["TransInv", "TransToRp"]), _ok(b, [1.0], k=[])])
    assert st["reach"] == {"tm.inv": {"TransInv", "TransToRp"}} and st["trivial_entries"] == {"arm.getEEPos"}
    assert st["keys"] == {a}


def t_layouts():
    a = np.arange(12.0).reshape(3, 4)
    for L in drv.LAYOUTS:
        v, big = drv.lay(a, L, salt=1)
        assert v.shape == a.shape
        assert np.array_equal(v, np.rint(a).astype(np.int64) if L == "I" else a)
    v, big = drv.lay(a, "F")
    assert v.flags.f_contiguous and not v.flags.c_contiguous
    v, big = drv.lay(a, "S")
    assert not v.flags.c_contiguous and not v.flags.f_contiguous and big.shape == (5, 6) and np.shares_memory(v, big)
    assert big[1, 5] != 0 and np.isfinite(big).all()                       # the neighbour an overrun would read is plausible data
    v, big = drv.lay(a, "P")
    assert big.shape == (3, 6) and np.shares_memory(v, big) and not v.flags.c_contiguous
    v, big = drv.lay(np.arange(4.0), "S")
    assert v.strides == (16,) and big.shape == (11,)
    v, big = drv.lay(np.arange(4.0), "P")
    assert v.flags.c_contiguous and big.shape == (6,) and np.shares_memory(v, big)
    v, _ = drv.lay(np.array([0.4, 0.6, -1.5]), "I")
    assert v.dtype == np.int64 and list(v) == [0, 1, -2]
    # the signature separates memory pictures that NumPy flags alone do not (same 1-D view, larger parent)
    c, cp = drv.lay(np.arange(4.0), "C")
    p, pp = drv.lay(np.arange(4.0), "P")
    assert drv.arg_signature([c], [cp]) != drv.arg_signature([p], [pp])
    f, fp = drv.lay(np.arange(4.0), "F")
    assert drv.arg_signature([c], [cp]) == drv.arg_signature([f], [fp])   # Fortran order means nothing for a vector: duplicate


def t_digest():
    class T:
        def __init__(self):
            self.TM = np.eye(2)
            self.TAA = np.array([[1], [2]])
    sig, vals, dts = drv.digest(((np.array([1.0, float("nan")]), True), {"b": 3, "a": T()}, None, "x", [np.float64(2.5), np.int64(4)]))
    assert vals == [1.0, "nan", 1.0, 2.0, 1.0, 0.0, 0.0, 1.0, 3.0, 2.5, 4.0]
    assert sig.startswith("L5|L2|a(2,)|b1|D'a','b'|O:T:TAA,TM|a(2, 1)|a(2, 2)|n|N|s:x|L2|n|n") and dts == "fifiifi"[:0] + "fifi" + "fi"
    s2, v2, _ = drv.digest(((np.array([1.0, float("nan")]), False), {"b": 3, "a": T()}, None, "x", [2.5, 4]))
    assert s2 != sig and v2 == vals


def t_sharding_partitions_the_units():
    class D(drv.Driver):
        def __init__(self, shard, mode="jit", tier="quick"):
            self.shard, self.mode, self.tier = shard, mode, tier
            self.src = [("m", "K%d" % i) for i in range(40)] + [("m", "IKinSpace"), ("m", "SPFKinSpaceR")]
    kernels = ["K%d" % i for i in range(40)] + ["IKinSpace", "SPFKinSpaceR"]
    for mode, tier in (("jit", "quick"), ("boundscheck", "thorough"), ("nojit", "quick"), ("nojit", "thorough")):
        units = kernels + D(None, mode, tier).entry_units()
        assert ("entries" in units) == (mode != "nojit") and (len(units) > 50) == (mode == "nojit")
        for n in (1, 2, 3, 6):
            owners = {u: [i for i in range(n) if D((i, n), mode, tier).mine(u)] for u in units}
            assert all(len(o) == 1 for o in owners.values()), owners
            assert n == 1 or len({o[0] for o in owners.values()}) == n           # every process gets work
    assert D(None).mine("anything")
    assert [i for i in range(6) if D((i, 6)).mine("IKinSpace")] != [i for i in range(6) if D((i, 6)).mine("SPFKinSpaceR")]
    # a compiled mode keeps all entry points in the process that owns "entries"; the interpreter deals them out per object
    assert D((2, 6)).mine_entries("arm:6R@I") == D((2, 6)).mine("entries")
    own = [i for i in range(3) if D((i, 3), "nojit").mine_entries("tm")]
    assert len(own) == 1 and len({tuple(D((i, 3), "nojit").mine_entries(o) for i in range(3)) for o in ("tm", "arm:6R@I", "arm:6R@B0", "sp:std@I", "arm:gen:3R@I")}) > 1


def t_source_enumeration():
    with tempfile.TemporaryDirectory() as d:
        for mn in drv.KERNEL_MODULES:
            p = os.path.join(d, *mn.split(".")) + ".py"
            os.makedirs(os.path.dirname(p), exist_ok=True)
            with open(p, "w") as f:
                f.write("from numba import jit\nimport numba\n@jit(nopython=True)\ndef A(x):\n    return x\n\n"
                        "@jit('float64(float64)', nopython=True, cache=True)\ndef B(x):\n    return x\n\n"
                        "#@jit(nopython=True)\ndef C(x):\n    return x\n\n@numba.njit\ndef D(x):\n    return x\n")
        got = drv.jit_functions_from_source(d)
        assert [fn for _, fn in got] == ["A", "B", "D"] * 2 and got[0][0] == drv.KERNEL_MODULES[0]


def t_describe_and_groups():
    assert c17.describe(K) == {"id": K, "kind": "kernel", "kernel": "FKinSpace", "input": 3, "layout": "P"}
    assert c17.describe("e|sp:std@B|g1|getActuatorLoc_t|5")["index"] == 5 and c17.describe("e|tm|p3|inv|-")["index"] is None
    assert c17.group_of(K) == "FKinSpace" and c17.group_of(E) == "arm.FKLink" and c17.group_of("e|sp:std@B|g1|FK|-") == "sp.FK"


def t_solver_entry_points_compare_values_between_the_compiled_modes_only():
    e = "e|arm:6R@I|g1|IK|-"
    J, B = _ok(e, [1.0, 2.0]), _ok(e, [1.0, 2.0])
    # measured to reach a Newton kernel: the interpreter's values are iteration noise, its exceptions are not
    cl, st, _ = _clauses([J], [B], [_ok(e, [1.0, -4.0], k=["FKinSpace", "IKinSpaceConstrained"])])
    assert cl == [] and st["worst"]["jit/nojit.solver_entry:arm.IK"] == 1.5
    assert st["outcomes"]["solver_entry_values_not_compared_with_interpreter"] == 1
    cl, _, _ = _clauses([J], [B], [_exc(e, "IndexError")])
    assert cl == [("interpreter_raises", "jit/nojit")]
    # the two compiled modes are held to 1e-12 regardless
    cl, _, v = _clauses([J], [_ok(e, [1.0, 2.0 + 2e-8])], [_ok(e, [1.0, 2.0], k=["IKinSpaceConstrained"])])
    assert cl == [("value_differs", "jit/boundscheck")] and v[0]["tolerance"] == c17.REL
    # an entry point that reaches no solver kernel gets no allowance, nor does a direct kernel case
    f = "e|arm:6R@I|g1|jacobian|-"
    cl, _, _ = _clauses([_ok(f, [1.0])], [_ok(f, [1.0])], [_ok(f, [1.0 + 2e-8], k=["JacobianSpace"])])
    assert cl == [("value_differs", "jit/nojit")]
    k = "k|IKinSpace|0|C"                      # direct call of an iterative kernel: 1e-9 against the interpreter, 1e-12 between compiled modes
    cl, _, v = _clauses([_ok(k, [1.0])], [_ok(k, [1.0])], [_ok(k, [1.0 + 2e-8])])
    assert cl == [("value_differs", "jit/nojit")] and v[0]["tolerance"] == c17.SOLVER_KERNEL_REL
    cl, _, _ = _clauses([_ok(k, [1.0])], [_ok(k, [1.0])], [_ok(k, [1.0 + 2e-11])])
    assert cl == []
    cl, _, _ = _clauses([_ok(k, [1.0])], [_ok(k, [1.0 + 2e-11])], [_ok(k, [1.0])])
    assert cl == [("value_differs", "jit/boundscheck")]
    k2 = "k|FKinSpace|0|C"
    cl, _, _ = _clauses([_ok(k2, [1.0])], [_ok(k2, [1.0])], [_ok(k2, [1.0 + 2e-11])])
    assert cl == [("value_differs", "jit/nojit")]
    g = "e|arm:6R@I|g1|IKFree|0"
    cl, _, _ = _clauses([_ok(g, [1.0])], [_ok(g, [1.0])], [_ok(g, [1.0 + 2e-8], k=["FKinSpace", "Norm6"])])
    assert cl == []


def t_failed_construction_is_charged_to_every_case_of_the_object():
    """SP / Arm constructors call kernels: when construction raises in a checked mode only the build record exists there."""
    b = "e|sp:std@I|*|build|-"
    c1, c2 = "e|sp:std@I|g0|IK_top|-", "e|sp:std@I|g0|getActuatorLoc_m|3"
    J = [_ok(b, []), _ok(c1, [1.0]), _ok(c2, [2.0])]
    cl, st, v = _clauses(J, [_exc(b, "IndexError")], [_exc(b, "IndexError")])
    assert cl == sorted([("index_error_under_boundscheck", "jit/boundscheck"), ("interpreter_raises", "jit/nojit")] * 3)
    assert {x["case"]["id"] for x in v} == {b, c1, c2} and "constructing" in [x for x in v if x["case"]["id"] == c2][0]["observed"]["msg"]
    # construction fine everywhere: nothing substituted, a genuinely missing case is still a harness error
    try:
        _clauses(J, [_ok(b, []), _ok(c1, [1.0])], J)
        raise AssertionError("missing case must be a harness error")
    except HarnessError:
        pass
