"""Self-tests of the C19 machinery: the reference router model against hand-computed cases, the TLA+ value / dot
readers, the sensitivity of the judge (a toy hub with seeded faults must be caught, the fault-free one must not), and
- when `tlc` is installed - the Python model and the toy hub against TLC's graph of tla/Router.tla (tiny constants).
Nothing here needs the library."""
import functools
import os
import pickle
import shutil
from collections import Counter

from oracles import router_model as rm
from oracles import tlc_bridge as tb


def t_router_model_hand_cases():
    m = rm.RouterModel(("a", "b"), ("k1", "k2"), ("s1",))
    assert m.step(("fwd", "a", "b"))["changed"] is True
    assert m.step(("fwd", "a", "b"))["changed"] is False            # already there: nothing changed
    assert m.step(("fwd", "a", "zz"))["changed"] is False           # unknown port
    assert m.step(("fwd", "zz", "a"))["changed"] is False
    assert m.step(("fwd", "a", "a"))["changed"] is True
    assert m.step(("sink", "a", "k1"))["changed"] is True
    assert m.step(("sink", "a", None))["changed"] is False
    assert m.step(("sink", "b", "k1"))["changed"] is True
    e = m.step(("recv", "a", "hello"))
    assert e["returns"] == ("msg", "hello") and not e["nodata"]
    assert e["sent"] == Counter({("b", "hello"): 1, ("a", "hello"): 1}) and e["sunk"] == Counter({("k1", "hello"): 1})
    e = m.step(("recv", "a", None))                                 # time-out
    assert e["returns"] == ("none",) and e["nodata"] and not e["sent"] and not e["sunk"]
    e = m.step(("recv", "zz", "hello"))                             # unknown port
    assert e["returns"] == ("none",) and not e["sent"] and not e["sunk"]
    assert m.step(("close", "a"))["changed"] is True and m.step(("close", "a"))["changed"] is False
    e = m.step(("recv", "a", "hello"))                              # closed port
    assert e["returns"] == ("none",) and not e["sent"] and not e["sunk"]
    assert m.step(("open", "a"))["changed"] is True
    assert m.step(("del", "a", "b"))["changed"] is True and m.step(("del", "a", "b"))["changed"] is False
    e = m.step(("recv", "a", ""))                                   # the empty message is a message
    assert e["sent"] == Counter({("a", ""): 1}) and e["sunk"] == Counter({("k1", ""): 1})
    assert m.step(("src", "b", "s1"))["changed"] is True and m.step(("src", "b", "s1"))["changed"] is False
    e = m.step(("spin", 2, {"a": ["x0", None], "b": [None, "y1"]}))
    assert e["sent"] == Counter({("b", "src:s1"): 2, ("a", "x0"): 1}), e["sent"]
    assert e["sunk"] == Counter({("k1", "x0"): 1, ("k1", "y1"): 1}) and e["src_calls"] == Counter({"s1": 2})
    e = m.step(("send", "b", "d"))
    assert e["sent"] == Counter({("b", "d"): 1}) and not m.step(("send", "zz", "d"))["sent"]
    assert m.tables()["fwd"] == Counter({("a", "a"): 1}) and m.tables()["open"] == {"a", "b"}
    m2 = pickle.loads(pickle.dumps(m))
    assert m2.key() == m.key()


def t_router_tla_values():
    P = tb.parse_value
    assert P('{}') == frozenset() and P('<<>>') == ()
    assert P('{<<"a", "b">>, <<"b", "a">>}') == frozenset({("a", "b"), ("b", "a")})
    r = P('[act |-> <<"recv", "a", "m">>, ret |-> "msg", sent |-> {<<"b", <<"m", "a">>, 1>>}, sunk |-> {}]')
    assert r["act"] == ("recv", "a", "m") and r["sent"] == frozenset({("b", ("m", "a"), 1)}) and r["sunk"] == frozenset()
    assert P('("a" :> TRUE @@ "b" :> FALSE)') == {"a": True, "b": False}
    assert P('<<"spin", {"a", "b"}>>') == ("spin", frozenset({"a", "b"}))
    assert P(r'"q\"uo\\te"') == 'q"uo\\te' and P("-12") == -12
    s = tb.parse_state('/\\ fwd = {<<"a", "a">>}\n/\\ open = {"a",\n      "b"}\n/\\ obs = [act |-> <<"init">>, ret |-> "none"]')
    assert s["fwd"] == frozenset({("a", "a")}) and s["open"] == frozenset({"a", "b"}) and s["obs"]["act"] == ("init",)
    assert tb.cstr(P('{"b", "a"}')) == tb.cstr(P('{"a", "b"}')) == '{"a","b"}'
    assert tb.cstr(P('[x |-> 1, y |-> {2, 1}]')) == tb.cstr(P('[y |-> {1, 2}, x |-> 1]'))
    assert tb.digest(P('{<<"a", 1>>}')) != tb.digest(P('{<<"a", 2>>}'))
    assert hash(r) == hash(P('[sunk |-> {}, ret |-> "msg", act |-> <<"recv", "a", "m">>, sent |-> {<<"b", <<"m", "a">>, 1>>}]'))
    for bad in ('{1, 2', '[a |-> ]', '<<1 2>>', '{} {}'):
        try:
            P(bad)
        except (Exception, tb.HarnessError):
            continue
        raise AssertionError("parser accepted %r" % bad)


_DOT = r'''strict digraph DiskGraph {
node [shape=box,style=rounded]
nodesep=0.35;
subgraph cluster_graph {
color="white";
11 [label="/\\ x = 0\n/\\ obs = [act |-> <<\"init\">>]",style = filled]
11 -> -22 [label="Inc(\"a\")",color="black",fontcolor="black"];
-22 [label="/\\ x = 1\n/\\ obs = [act |-> <<\"inc\", \"a\">>]",tooltip="/\\ x = 1\n/\\ obs = [act |-> <<\"inc\", \"a\">>]"];
11 -> 11 [label="Skip",color="black",fontcolor="black"];
-22 -> 33 [label="Inc(\"a\")",color="black",fontcolor="black"];
33 [label="/\\ x = 2\n/\\ obs = [act |-> <<\"inc\", \"a\">>]",tooltip="x"];
-22 -> 11 [label="Reset",color="black",fontcolor="black"];
{rank = same; 11;}
}
}
'''


def t_router_dot_reader():
    d = os.path.join(tb.CACHE, "selftest")
    os.makedirs(d, exist_ok=True)
    p = os.path.join(d, "tiny.dot")
    try:
        with open(p, "w") as f:
            f.write(_DOT)
        g = tb.read_graph(p)
    finally:
        shutil.rmtree(d, ignore_errors=True)
    assert len(g.states) == 3 and g.n_edges() == 4 and g.init == [0]
    assert [s["x"] for s in g.states] == [0, 1, 2] and g.states[2]["obs"]["act"] == ("inc", "a")
    assert list(zip(g.src, g.dst)) == [(0, 1), (0, 0), (1, 2), (1, 0)]
    assert [g.labels[i] for i in g.lab] == ["Inc", "Skip", "Inc", "Reset"]
    parent, order = tb.bfs_parents(g)
    assert parent == [-1, 0, 1] and order == [0, 1, 2]


def _bfs_toy(cfg, fault, depth):
    """Plain in-process BFS with the check's own world / alphabet / judge on a toy hub.  -> (clauses seen, states)."""
    from checks import c19
    acts = [a for _, a in c19.alphabet(cfg, 0)]
    w0 = c19.build_world(cfg, hub_cls=functools.partial(rm.ToyHub, fault))
    key = lambda w: repr(sorted(w.key_struct().items(), key=repr))
    seen = {key(w0)}
    frontier = [pickle.dumps(w0)]
    clauses = Counter()
    for _ in range(depth):
        nxt = []
        for blob in frontier:
            for a in acts:
                w, obs = c19.step(pickle.loads(blob), a)
                for b in obs["bad"]:
                    clauses[b["clause"]] += 1
                if obs["bad"]:
                    continue
                k = key(w)
                if k not in seen:
                    seen.add(k)
                    nxt.append(pickle.dumps(w))
        frontier = nxt
    return clauses, len(seen)


def t_router_judge_is_silent_on_a_correct_hub_and_catches_seeded_faults():
    clauses, n = _bfs_toy("dbl2", None, 3)
    assert not clauses and n > 300, (clauses, n)
    one = {"nodata_fanout": "nodata_delivered_endpoints", "dup_rule": "registration_return", "del_true": "registration_return",
           "src_twice": "delivery_bag_endpoints", "sinks_only": "delivery_bag_endpoints", "empty_dropped": "receive_return"}
    two = {"dest_sinks": "delivery_bag_sinks", "wrong_port_open": "open_state"}
    assert set(one) | set(two) == set(rm.ToyHub.FAULTS)
    for cfg, table in (("dbl1", one), ("dbl2", two)):
        for fault, clause in table.items():
            clauses, _ = _bfs_toy(cfg, fault, 3)
            # the observed rule set (a probe receive on every endpoint and a probe spin, on a copy) shows a delivery fault
            # one transition before the history itself delivers anything: either clause is a detection
            assert clauses.get(clause) or clauses.get("rule_table"), (fault, dict(clauses))
            if fault == "dup_rule":
                assert clauses.get("rule_table"), dict(clauses)
            if fault == "src_twice":
                assert clauses.get("spin_sources") or clauses.get("rule_table"), dict(clauses)


_TINY_CFG = """CONSTANTS
  E = {"a"}
  U = {"zz"}
  K = {"k1"}
  S = {"s1"}
  WithSend = TRUE
  WithSpin = TRUE
INIT Init
NEXT Next
INVARIANT TypeOK
INVARIANT NoDataDeliversNothing
INVARIANT ExactlyOncePerRule
INVARIANT SpinSendsEachSourceOnce
INVARIANT OnlyReceivesDeliver
"""


def t_router_tlc_graph_against_python_model_and_toy_hub():
    if not tb.tlc_available():
        print("selftest: tlc not on PATH - TLC conformance self-test skipped")
        return
    from mc.pool import Pool
    here = os.path.dirname(os.path.dirname(os.path.abspath(__file__)))
    d = os.path.join(tb.CACHE, "selftest-cfg-%d" % os.getpid())
    os.makedirs(d, exist_ok=True)
    try:
        cfg = os.path.join(d, "Tiny.cfg")
        with open(cfg, "w") as f:
            f.write(_TINY_CFG)
        info = tb.run_tlc(os.path.join(here, "tla", "Router.tla"), cfg, "selftest-%d" % os.getpid())
        try:
            g = tb.read_graph(info["dot"])
        finally:
            tb.cleanup(info)
    finally:
        shutil.rmtree(d, ignore_errors=True)
    assert len(g.states) == info["distinct"] == 385 and g.n_edges() == info["generated"] - 1 == 9240
    pool = Pool(1)
    res = tb.conformance(g, "checks.c19", "toy:dbl1:", pool)
    assert res["edges_validated"] == res["transitions"] == 9240 and not res["mismatches"], res["mismatches"][:1]
    assert res["model_disagreements"] == 0, res["model_mismatches"]
    assert res["abstract_states"] == 16 and res["executions"] == 16 * 24
    bad = tb.conformance(g, "checks.c19", "toy:dbl1:nodata_fanout", pool)
    assert bad["edges_mismatching"] > 0 and bad["model_disagreements"] == 0
    m = bad["mismatches"][0]
    assert m["action"][0] in ("recv", "spin") and m["expected"]["obs"]["sent"] != m["observed"]["obs"]["sent"] or \
        m["expected"]["obs"]["sunk"] != m["observed"]["obs"]["sunk"]
    bad = tb.conformance(g, "checks.c19", "toy:dbl1:del_true", pool)
    assert bad["edges_mismatching"] > 0 and bad["mismatches"][0]["action"][0] == "del"
