"""Self-tests of the C16 oracle (oracles/tree_invariants.py) on hand-built trees and insertion logs."""
import math

from oracles import tree_invariants as ti

O = (0.0,) * 6
A = (1.0, 0.0, 0.0, 0.0, 0.0, 0.0)
B = (0.0, 1.0, 0.0, 0.0, 0.0, 0.0)
C = (1.0, 1.0, 0.0, 0.0, 0.0, 0.0)
R = (1.0, 0.0, 0.0, 0.0, 0.0, 2.0)


def _clauses(found):
    return sorted({f["clause"] for f in found})


def t_tree_knn_and_distances():
    must, may, dk = ti.knn6([O, A, B, C], C, 1)
    assert may == {3} and dk == 0
    must, may, dk = ti.knn6([O, A, B], C, 1)           # A and B tie, O is farther
    assert must == set() and may == {1, 2} and abs(dk - 1) < 1e-15
    must, may, dk = ti.knn6([O, A, B], C, 2)
    assert must == set() and may == {1, 2}
    must, may, dk = ti.knn6([O, A, B], C, 3)
    assert must == may == {0, 1, 2}
    must, may, _ = ti.knn6([O, A, R], (1.0, 0.0, 0.0, 0.0, 0.0, 0.4), 1)    # rotation counts in the index metric
    assert may == {1}
    assert ti.euclid3(A, R) == 0.0 and abs(ti.arc6(A, R) - 2.0) < 1e-12
    assert abs(ti.arc6(O, (3.0, 4.0, 0.0, 0.0, 0.0, 0.0)) - 5.0) < 1e-12
    half = (0.0, 0.0, 0.0, 0.0, 0.0, math.pi - 0.25)
    assert abs(ti.arc6(half, (0, 0, 0, 0, 0, -(math.pi - 0.25))) - 0.5) < 1e-9      # angles wrap: relative rotation


def _node(pos, chain, cost):
    return {"pos": pos, "cost": cost, "chain": chain, "closed": True}


def t_tree_structure_clauses():
    free = lambda p, q: False
    good = [_node(O, [], 0.0), _node(A, [(O, 0.0)], 1.0), _node(C, [(A, 1.0), (O, 0.0)], 2.0)]
    assert ti.check_structure(good, O, 2, 3, ti.euclid3, free) == []
    assert _clauses(ti.check_structure(good, O, 3, 3, ti.euclid3, free)) == ["count"]
    assert _clauses(ti.check_structure(good, O, 2, 4, ti.euclid3, free)) == ["count"]
    assert _clauses(ti.check_structure(good, A, 2, 3, ti.euclid3, free)) == ["parent_chain", "root"]
    bad_cost = [good[0], good[1], _node(C, [(A, 1.0), (O, 0.0)], 1.0)]
    assert _clauses(ti.check_structure(bad_cost, O, 2, 3, ti.euclid3, free)) == ["cost"]
    assert _clauses(ti.check_structure(good, O, 2, 3, ti.euclid3, lambda p, q: {p, q} == {A, C})) == ["edge_free"]
    stale = [good[0], _node(A, [(O, 0.0)], 1.0), _node(C, [(A, 0.5), (O, 0.0)], 1.5)]     # copy of A disagrees with A
    assert "parent_copy" in _clauses(ti.check_structure(stale, O, 2, 3, ti.euclid3, free))
    cyc = [good[0], {"pos": A, "cost": 1.0, "chain": [(C, 2.0), (A, 1.0), (C, 2.0)], "closed": False}, good[2]]
    assert "parent_chain" in _clauses(ti.check_structure(cyc, O, 2, 3, ti.euclid3, free))
    orphan = [good[0], _node(A, [(B, 1.0), (O, 0.0)], 2.0)]
    assert "parent_chain" in _clauses(ti.check_structure(orphan, O, 1, 2, ti.euclid3, free))
    dup = good + [_node(A, [(O, 0.0)], 1.0)]
    assert "duplicate_node" in _clauses(ti.check_structure(dup, O, 3, 4, ti.euclid3, free))


def t_tree_insertion_replay():
    free = lambda p, q: False
    r2 = math.sqrt(2.0)
    # draw A (accepted), draw A again (rejected: distance 0), draw C: nearest A, examined A and O, cheapest via O
    ev = [("draw", A), ("dist", A, O, 1.0), ("coll", A, O, False), ("dist", A, O, 1.0), ("dist", A, O, 1.0), ("place", A),
          ("draw", A), ("dist", A, A, 0.0),
          ("draw", C), ("dist", C, A, 1.0), ("coll", C, A, False), ("dist", C, A, 1.0), ("dist", C, A, 1.0),
          ("dist", C, O, r2), ("coll", C, O, False), ("dist", C, O, r2), ("place", C)]
    nodes = [_node(O, [], 0.0), _node(A, [(O, 0.0)], 1.0), _node(C, [(O, 0.0)], r2)]
    found, st = ti.replay_insertions(O, ev, nodes, 0.25, 2.5, 20, ti.euclid3, free)
    assert found == [] and st["accepted"] == 2 and st["rejected_range"] == 1 and st["reparented"] == 1, (found, st)
    # the same log, but the node stayed with A although O is cheaper
    worse = [nodes[0], nodes[1], _node(C, [(A, 1.0), (O, 0.0)], 2.0)]
    assert _clauses(ti.replay_insertions(O, ev, worse, 0.25, 2.5, 20, ti.euclid3, free)[0]) == ["choose_parent"]
    # cheaper candidate O is blocked: staying with A is right, going to O is not
    blk = lambda p, q: {p, q} == {C, O}
    assert ti.replay_insertions(O, ev, worse, 0.25, 2.5, 20, ti.euclid3, blk)[0] == []
    assert _clauses(ti.replay_insertions(O, ev, nodes, 0.25, 2.5, 20, ti.euclid3, blk)[0]) == ["choose_parent"]
    # neighbour limit 1: examining O as well is too much
    assert _clauses(ti.replay_insertions(O, ev, nodes, 0.25, 2.5, 1, ti.euclid3, free)[0]) == ["neighbour_limit"]
    # acceptance outside [min, max]
    assert "accept_range" in _clauses(ti.replay_insertions(O, ev, nodes, 0.25, 0.9, 20, ti.euclid3, free)[0])
    assert "accept_range" in _clauses(ti.replay_insertions(O, ev, nodes, 1.5, 2.5, 20, ti.euclid3, free)[0])
    # measured against a node that is not nearest
    ev2 = [("draw", A), ("dist", A, O, 1.0), ("place", A), ("draw", C), ("dist", C, O, r2), ("place", C)]
    assert "nearest" in _clauses(ti.replay_insertions(O, ev2, nodes, 0.25, 2.5, 20, ti.euclid3, free)[0])
    # an acceptable sample that was rejected; a distance callback that lies
    ev3 = [("draw", A), ("dist", A, O, 1.0), ("coll", A, O, False), ("draw", B), ("dist", B, O, 1.0), ("place", B)]
    n3 = [_node(O, [], 0.0), _node(B, [(O, 0.0)], 1.0)]
    assert _clauses(ti.replay_insertions(O, ev3, n3, 0.25, 2.5, 20, ti.euclid3, free)[0]) == ["rejected_acceptable_sample"]
    ev4 = [("draw", B), ("dist", B, O, 3.0), ("place", B)]
    assert "distance_value" in _clauses(ti.replay_insertions(O, ev4, n3, 0.25, 2.5, 20, ti.euclid3, free)[0])
    # a node that was never placed
    assert "insertion_log" in _clauses(ti.replay_insertions(O, ev4, n3 + [_node(A, [(O, 0.0)], 1.0)], 0.25, 2.5, 20, ti.euclid3, free)[0])


def t_tree_path_clauses():
    nodes = [_node(O, [], 0.0), _node(A, [(O, 0.0)], 1.0), _node(C, [(A, 1.0), (O, 0.0)], 2.0), _node(B, [(O, 0.0)], 1.0)]
    goal = (1.0, 2.0, 0.0, 0.0, 0.0, 0.0)
    assert ti.check_path([O, A, C, goal], nodes, O, goal) == []
    assert "path_ends" in _clauses(ti.check_path([O, A, C], nodes, O, goal))
    assert _clauses(ti.check_path([A, C, goal], nodes, O, goal)) == ["path_ends"]
    assert _clauses(ti.check_path([O, C, goal], nodes, O, goal)) == ["path_links"]
    assert _clauses(ti.check_path([O, B, goal], nodes, O, goal)) == ["path_tail_nearest"]
    assert _clauses(ti.check_path([O, goal], nodes, O, goal)) == ["path_tail_nearest"]
    assert _clauses(ti.check_path([goal], nodes, O, goal)) == ["path_ends"]
