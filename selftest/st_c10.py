"""Self-test of the C10 oracle (oracles/sp_state.py) against hand-computed values - no library import.

The platform used here is the simplest one whose numbers can be done by hand: six vertical legs (every top joint sits
straight above its bottom joint at the neutral pose), joints on the plate surfaces (z = 0 in both plate frames).
"""
import numpy as np

from oracles import se3
from oracles import sp_state as sps

H = 2.0          # neutral height
LMIN, LMAX = 1.5, 2.5
DMAX = 0.6       # joint deflection limit (rad)
TLIM = 0.5       # tilt limit: cos(60 deg)


def _ref():
    ang = np.deg2rad([10, 50, 130, 170, 250, 290])
    P = np.vstack([np.cos(ang), np.sin(ang), np.zeros(6)])
    home = se3.T_from([0, 0, 0], [0, 0, H])
    return sps.Ref(P, P.copy(), home, LMIN, LMAX, DMAX, TLIM), P


def _pose(w, p):
    return se3.T_from(w, p)


def t_c10_derived_state_by_hand():
    ref, P = _ref()
    B = np.eye(4)
    # neutral: vertical legs of length H, no deflection, everything holds
    T = _pose([0, 0, 0], [0, 0, H])
    assert np.abs(ref.lengths(B, T) - H).max() < 1e-15
    assert np.abs(ref.deflections(B, T)).max() < 1e-15
    assert all(v[0] for v in ref.constraints(B, T).values())
    # pure lateral shift d: every leg has length sqrt(H^2+d^2) and leans by atan(d/H) at both ends
    d = 0.7
    T = _pose([0, 0, 0], [d, 0, H])
    assert np.abs(ref.lengths(B, T) - np.hypot(H, d)).max() < 1e-15
    assert np.abs(ref.deflections(B, T) - np.arctan2(d, H)).max() < 1e-15
    # joints in space under a generic pair of poses are pose applied to the table (spot value: first top joint)
    Bg, Tg = _pose([0.1, -0.2, 0.3], [1, 2, 3]), _pose([0.3, 0.2, -0.1], [1.5, 2.2, 5])
    bj, tj = ref.joints(Bg, Tg)
    assert np.abs(tj[:, 0] - (Tg[:3, :3] @ P[:, 0] + Tg[:3, 3])).max() < 1e-15
    assert np.abs(sps.rel(Bg, Tg) - np.linalg.inv(Bg) @ Tg).max() < 1e-14
    # moving both plates by one rigid motion changes nothing that is relative
    G = _pose([-0.4, 0.5, 0.2], [3, -1, 2])
    assert np.abs(ref.lengths(G @ Bg, G @ Tg) - ref.lengths(Bg, Tg)).max() < 1e-13
    assert np.abs(ref.deflections(G @ Bg, G @ Tg) - ref.deflections(Bg, Tg)).max() < 1e-13


def t_c10_constraint_boundaries():
    ref, _ = _ref()
    B = np.eye(4)

    def c(T):
        return {k: v[0] for k, v in ref.constraints(B, T).items()}
    # legs: closed interval, no margin
    assert c(_pose([0, 0, 0], [0, 0, LMAX]))["legs"] and not c(_pose([0, 0, 0], [0, 0, LMAX + 1e-6]))["legs"]
    assert c(_pose([0, 0, 0], [0, 0, LMIN]))["legs"] and not c(_pose([0, 0, 0], [0, 0, LMIN - 1e-6]))["legs"]
    # above: z >= 0 in the bottom frame, also for a moved bottom plate
    Bg = _pose([0.2, 0.1, 0.4], [5, 6, 7])
    up = ref.constraints(Bg, Bg @ _pose([0, 0, 0], [0.3, 0, 1e-7]))["above"]
    dn = ref.constraints(Bg, Bg @ _pose([0, 0, 0], [0.3, 0, -1e-7]))["above"]
    assert up[0] and not dn[0] and abs(dn[1] - 1e-7) < 1e-12
    # tilt by a about x: diagonal (1, cos a, cos a); invalid iff cos a <= limit - 1e-4
    a_edge = np.arccos(TLIM - 1e-4)
    assert c(_pose([a_edge - 1e-6, 0, 0], [0, 0, H]))["tilt"]
    assert not c(_pose([a_edge + 1e-6, 0, 0], [0, 0, H]))["tilt"]
    assert c(_pose([np.arccos(TLIM) + 1e-5, 0, 0], [0, 0, H]))["tilt"]          # inside the library's 1e-4 margin
    # rotation about z shows on the first two diagonal entries
    assert not c(_pose([0, 0, a_edge + 1e-6], [0, 0, H]))["tilt"]
    # deflection: lateral shift d leans every leg by atan(d/H)
    d_edge = H * np.tan(DMAX)
    assert c(_pose([0, 0, 0], [d_edge - 1e-6, 0, H]))["deflection"]
    assert not c(_pose([0, 0, 0], [d_edge + 1e-6, 0, H]))["deflection"]
    # a leg of zero length has no direction: counted as violated
    ref0, P = _ref()
    T0 = _pose([0, 0, 0], [0, 0, 0])
    assert np.isnan(ref0.deflections(B, T0)).all() and not ref0.constraints(B, T0)["deflection"][0]
    # slack only loosens
    assert ref.constraints(B, _pose([0, 0, 0], [0, 0, LMAX + 1e-10]), slack=1e-9)["legs"][0]


def t_c10_respin_is_a_relabelling():
    ref, P = _ref()
    spun, _ = _ref()
    a = 0.4
    spun.spin(a)
    assert spun.spins == 1
    # table rotated about z: first joint at 10 deg goes to 10 deg + a
    assert abs(np.arctan2(spun.bl[1, 0], spun.bl[0, 0]) - (np.deg2rad(10) + a)) < 1e-15
    assert np.abs(spun.bl[2] - ref.bl[2]).max() == 0
    # the same physical platform: plate frames turned back by a carry the spun tables to the same points
    Z = _pose([0, 0, a], [0, 0, 0])
    Bg, Tg = _pose([0.1, -0.2, 0.3], [1, 2, 3]), _pose([0.3, 0.2, -0.1], [1.4, 2.2, 5])
    Bs, Ts = Bg @ np.linalg.inv(Z), Tg @ np.linalg.inv(Z)
    for x, y in zip(ref.joints(Bg, Tg), spun.joints(Bs, Ts)):
        assert np.abs(x - y).max() < 1e-13
    assert np.abs(ref.lengths(Bg, Tg) - spun.lengths(Bs, Ts)).max() < 1e-13
    assert np.abs(ref.deflections(Bg, Tg) - spun.deflections(Bs, Ts)).max() < 1e-12
    # at the neutral pose a re-spun platform still has no deflection
    assert np.abs(spun.deflections(np.eye(4), _pose([0, 0, 0], [0, 0, H]))).max() < 1e-12


def t_c10_coherence_residuals():
    ref, P = _ref()
    B, T = _pose([0.1, -0.2, 0.3], [1, 2, 3]), _pose([0.3, 0.2, -0.1], [1.5, 2.2, 5])
    bj, tj = ref.joints(B, T)
    L = np.linalg.norm(tj - bj, axis=0)
    X = np.linalg.inv(B) @ T
    r = sps.coherence(ref, B, T, bj, tj, L.reshape(6, 1), X)
    assert max(r.values()) < 1e-14
    tj2 = tj.copy()
    tj2[1, 3] += 1e-6
    r = sps.coherence(ref, B, T, bj, tj2, L, X)
    assert abs(r["top_joints"] - 1e-6) < 1e-12 and r["bottom_joints"] < 1e-14 and r["leg_lengths"] > 1e-8
    L2 = L.copy()
    L2[2] *= 1.001          # lengths rescaled without recomputing the joints
    assert abs(sps.coherence(ref, B, T, bj, tj, L2, X)["leg_lengths"] - 1e-3 * L[2]) < 1e-12
    X2 = X.copy()
    X2[0, 3] += 1e-5
    assert abs(sps.coherence(ref, B, T, bj, tj, L, X2)["relative_transform"] - 1e-5) < 1e-12
    assert sps.coherence(ref, B, T, bj[:, :5], tj, L, X)["bottom_joints"] == float("inf")
    tj3 = tj.copy()
    tj3[0, 0] = np.nan
    assert sps.coherence(ref, B, T, bj, tj3, L, X)["top_joints"] == float("inf")


def t_c10_tiny_rotation_allowance():
    B = _pose([0.1, -0.2, 0.3], [1, 2, 3])
    assert sps.tiny_rotation_allowance(B, B @ _pose([0.2, 0, 0], [0, 0, 1])) == 0.0
    assert sps.tiny_rotation_allowance(np.eye(4), _pose([0, 0, 0], [0, 0, 1])) == 0.0        # exact identity: nothing cut
    T = _pose([0, 4e-7, 0], [0, 0, 3.0])         # top within the exponential's cut-off of the identity
    got = sps.tiny_rotation_allowance(np.eye(4), T)
    assert abs(got - 2 * 4e-7 * 3.0) < 1e-12      # enters through the top pose and through the result, lever 3
    assert sps.tiny_rotation_allowance(np.eye(4), _pose([0, 2e-6, 0], [0, 0, 3.0])) == 0.0


def t_c10_scripted_uniform_restores():
    from checks import c10
    old = np.random.uniform
    with c10.scripted_uniform([(0.0, 0.5, 1.0, 0.25, 0.75, 0.1)]) as n:
        v = np.random.uniform(1.0, 3.0, 6)
        assert np.abs(v - np.array([1.0, 2.0, 3.0, 1.5, 2.5, 1.2])).max() < 1e-15 and n[0] == 1
        try:
            np.random.uniform(1.0, 3.0, 6)
            raise AssertionError("an exhausted script must not answer")
        except c10.Horizon:
            pass
    assert np.random.uniform is old
    assert all(len(s) == c10.RAND_ATTEMPTS for s in c10.RAND.values())
    assert len(c10.ALL_SUBSETS) == 16 and set(c10.QUICK_SUBSETS) <= set(c10.ALL_SUBSETS)
