"""Self-test of the C02 argument generators and of its comparison rule (the port is never imported here; the
vendored reference is used only to show that the generated arguments are *valid* arguments)."""
import json

import numpy as np

from checks import c02
from oracles import se3


def _is_se3(T, tol=1e-12):
    return T.shape == (4, 4) and se3.is_so3(T[:3, :3], tol) and np.array_equal(T[3], [0, 0, 0, 1.0])


def t_c02_palettes_are_valid_objects():
    for seed in (0, 3):
        P = c02.pal("quick", seed)
        assert len(P["J"]) == 9
        for s in P["J"]:
            w, v = s[:3], s[3:]
            nw = np.linalg.norm(w)
            # unit revolute screw with v perpendicular to w (zero pitch), or unit prismatic
            assert (abs(nw - 1) < 1e-14 and abs(w @ v) < 1e-14) or (nw == 0 and abs(np.linalg.norm(v) - 1) < 1e-14)
        assert sum(np.linalg.norm(s[:3]) == 0 for s in P["J"]) == 2
        assert sorted(c02.W8) == list(range(8))
        for T in P["Mh"] + P["PT"] + c02.link_frames() + [t[2] for t in P["Tm"]]:
            assert _is_se3(np.asarray(T), 1e-9)
        # identical start/end pairs are part of the trajectory product (diagonal), and the half-turn is in the palette
        assert any(abs(se3.rangle(T[:3, :3]) - np.pi) < 1e-12 for T in P["PT"])
    for n in range(1, 8):
        for v in range(4):
            Ml, Gl = c02.link_params(n, v)
            assert Ml.shape == (n + 1, 4, 4) and Gl.shape == (n, 6, 6)
            assert Ml.flags["C_CONTIGUOUS"] and Gl.flags["C_CONTIGUOUS"] and Ml.dtype == np.float64
            for T in Ml:
                assert _is_se3(T, 1e-12)
            for G in Gl:
                assert np.array_equal(G, G.T) and np.linalg.eigvalsh(G).min() > 1e-3
                assert G[3, 3] in c02.MASSES and not G[:3, 3:].any()
    # over the four schedules every link position sees every frame, both inertias and both masses
    for i in range(3):
        frames = {c02.link_params(3, v)[0][i].tobytes() for v in range(4)}
        combos = {(c02.link_params(3, v)[1][i][0, 1] != 0, c02.link_params(3, v)[1][i][3, 3]) for v in range(4)}
        assert len(frames) == 4 and len(combos) == 4


def t_c02_vectors_and_index_arithmetic():
    assert np.array_equal(c02.vec(3, 0), [0, 0, 0]) and np.array_equal(c02.vec(3, 2), [0, 1, 0])
    assert np.array_equal(c02.vec(3, 4), c02.GEN_A[:3]) and not np.array_equal(c02.vec(3, 4), c02.vec(3, 4, c02.GEN_B))
    dims = [3, 4, 2, 5]
    seen = {tuple(c02.decode(i, dims)) for i in range(120)}
    assert len(seen) == 120 and c02.decode(119, dims) == [2, 3, 1, 4] and c02.decode(1, dims) == [0, 0, 0, 1]
    assert c02.pick_stride([9, 4, 4], 3) == 5 and c02.pick_stride([9, 4], 1) == 1 and c02.pick_stride([8, 3], 2) == 5
    assert c02._tie(np.array([1e-6, 0, 0])) and not c02._tie(np.array([1.01e-6, 0, 0])) and not c02._tie(np.zeros(3))


def t_c02_generators_cover_the_47_names_and_every_palette_value():
    """Every part, both tiers: every value of every axis is still taken after thinning; arguments are float64
    C-contiguous arrays / plain scalars; the names reached are exactly the 47 shared ones."""
    for tier in ("quick", "thorough"):
        PS = c02.parts(tier, 0)
        names = set()
        assert len({q.name for q in PS}) == len(PS)
        for q in PS:
            sel = q.selected(tier)
            assert len(sel) >= 1 and q.total == int(np.prod(q.dims))
            k = q.stride(tier)
            assert all(np.gcd(k, d) == 1 for d in q.dims if d > 1) or k == 1
            # axis coverage (mixed-radix digits of the selected indices), computed arithmetically
            idx = np.arange(0, q.total, k, dtype=np.int64)
            place = 1
            for a in range(len(q.dims) - 1, -1, -1):
                digits = (idx // place) % q.dims[a]
                assert len(np.unique(digits)) == q.dims[a], (tier, q.name, a, q.dims, k)
                place *= q.dims[a]
            for i in (sel[0], sel[len(sel) // 2], sel[-1]):
                for fname, args, opts in q.gen(c02.decode(i, q.dims)):
                    names.add(fname)
                    for x in args:
                        if isinstance(x, np.ndarray):
                            assert x.dtype == np.float64 and x.flags["C_CONTIGUOUS"] and np.all(np.isfinite(x)), (q.name, fname)
                        else:
                            assert isinstance(x, (int, float)) and not isinstance(x, bool), (q.name, fname, type(x))
                    # JSON round trip used by the replay artefacts is exact
                    back = c02.dec_args(json.loads(json.dumps(c02.enc_args(args))))
                    assert len(back) == len(args)
                    for x, y in zip(args, back):
                        assert type(y) is type(x) or (isinstance(x, np.ndarray) and isinstance(y, np.ndarray)), (fname, type(x), type(y))
                        assert np.array_equal(np.asarray(x), np.asarray(y)) and np.shape(x) == np.shape(y)
                    assert c02.case_key(fname, args) == c02.case_key(fname, back)
        assert names == set(c02.SHARED), (sorted(set(c02.SHARED) - names), sorted(names - set(c02.SHARED)))
    # seed changes exactly the generic elements, never the sizes
    a, b = c02.parts("quick", 0), c02.parts("quick", 4)
    assert [(q.name, q.dims) for q in a] == [(q.name, q.dims) for q in b]
    assert not np.array_equal(c02.pal("quick", 0)["J"][8], c02.pal("quick", 4)["J"][8])
    assert all(np.array_equal(x, y) for x, y in zip(c02.pal("quick", 0)["J"][:8], c02.pal("quick", 4)["J"][:8]))


def t_c02_generated_arguments_are_valid_for_the_reference():
    """One case of every part runs through the vendored reference without raising (so 'both raise' cannot silently
    swallow a generator slip), except where the reference is expected to return NaN."""
    from vendor import modern_robotics_ref as ref
    plt = c02._quiet_matplotlib()
    PS = c02.parts("quick", 0)
    for q in PS:
        sel = q.selected("quick")
        for fname, args, opts in q.gen(c02.decode(sel[len(sel) // 2], q.dims)):
            out = getattr(ref, fname)(*c02.fresh(args))
            plt.close("all")
            assert out is not None
    # physical sanity of the dynamics arguments: the reference mass matrix is symmetric positive definite
    for name in ("mm3", "mmw7"):
        q = [x for x in PS if x.name == name][0]
        fname, args, _ = q.gen(c02.decode(q.selected("quick")[3], q.dims))[0]
        M = ref.MassMatrix(*args)
        assert np.abs(M - M.T).max() < 1e-9 * np.abs(M).max() and np.linalg.eigvalsh((M + M.T) / 2).min() > 0


def t_c02_comparison_rule():
    A = np.arange(6.0).reshape(2, 3)
    assert c02.compare(A.copy(), A, 1e-9) == ("ok", 0.0)
    assert c02.compare(A.T.copy(), A, 1e-9)[0] == "shape"
    assert c02.compare(A.ravel(), A, 1e-9)[0] == "shape"
    assert c02.compare([A[0], A[1]], A, 1e-9)[0] == "ok"                    # a list of rows is the same shape as the stack
    assert c02.compare((A, 1.0), (A, 1.0), 1e-9)[0] == "ok"
    assert c02.compare((A, 1.0), (A, 1.0, 2.0), 1e-9)[0] == "shape"
    assert c02.compare(A, (A,), 1e-9)[0] == "shape"
    B = A.copy()
    B[1, 2] += 4e-9                                                        # relative to |ref| = 5: 8e-10
    assert c02.compare(B, A, 1e-9)[0] == "ok"
    B[1, 2] += 4e-9
    assert c02.compare(B, A, 1e-9)[0] == "value"
    B = A.copy()
    B[0, 0] = 2e-9                                                         # absolute on entries below 1
    assert c02.compare(B, A, 1e-9)[0] == "value"
    assert c02.compare(True, False, 1e-9)[0] == "value" and c02.compare(np.bool_(True), True, 1e-9)[0] == "ok"
    N = A.copy()
    N[0, 0] = np.nan
    assert c02.compare(N, A, 1e-9)[0] == "value"                           # port NaN where the reference is finite
    assert c02.compare(A, N, 1e-9)[0] == "ref_not_finite"
    assert c02.compare("x", A, 1e-9)[0] == "shape"
    assert c02._maxabs((A, np.array([-7.0]))) == 7.0


def t_c02_ik_oracle():
    """The independent error recomputation and sigma_min agree with hand cases."""
    S = np.array([[0, 0, 1.0, 0, 0, 0], [0, 0, 1.0, 0, -1.0, 0]]).T.copy()      # planar 2R, link length 1
    M = se3.T_from([0, 0, 0], [2.0, 0, 0])
    th = np.array([0.3, -1.2])
    from oracles import poe
    Tg = poe.poe(S, th) @ M
    eo, ev = c02.ik_errors(S, M, Tg, th, True)
    assert eo < 1e-14 and ev < 1e-14
    eo, ev = c02.ik_errors(S, M, Tg, th + np.array([0.0, 1e-3]), False)
    assert abs(eo - 1e-3) < 1e-12 and 0 < ev < 2e-3
    # sigma_min vanishes for two coaxial joints, is positive for the planar arm; n > 6 is never full column rank
    S0 = np.array([[0, 0, 1.0, 0, 0, 0], [0, 0, 1.0, 0, 0, 0]]).T.copy()
    assert c02.sigma_min(S0, np.array([0.2, 1.5])) < 1e-12 < 0.05 < c02.sigma_min(S, np.array([0.2, 1.5]))
    assert c02.sigma_min(np.zeros((6, 7)), np.zeros(7)) == 0.0
