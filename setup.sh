#!/bin/bash
# Offline setup after a fresh restore: byte-compile, self-test the oracles, pre-warm the JIT cache for /repo's tree.
set -e
cd "$(dirname "${BASH_SOURCE[0]}")"
export PYTHONHASHSEED=0
/venv/bin/python -m compileall -q mc checks oracles selftest tools >/dev/null
/venv/bin/python -m selftest.run
/venv/bin/python -m mc.warm
echo "setup ok"
