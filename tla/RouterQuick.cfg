\* quick tier: 2 endpoints + one unknown name, 1 sink, no source, no spin
CONSTANTS
  E = {"a", "b"}
  U = {"zz"}
  K = {"k1"}
  S = {}
  WithSend = FALSE
  WithSpin = FALSE
INIT Init
NEXT Next
INVARIANT TypeOK
INVARIANT NoDataDeliversNothing
INVARIANT ExactlyOncePerRule
INVARIANT SpinSendsEachSourceOnce
INVARIANT OnlyReceivesDeliver
