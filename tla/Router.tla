------------------------------- MODULE Router -------------------------------
(***************************************************************************)
(* Model of the message hub `basic_robotics.interfaces.comms_core.Comms`   *)
(* (property C19): rule tables as sets, and an observation variable that   *)
(* holds what the last call returned and the bags of deliveries it made.   *)
(*                                                                         *)
(* The complete state graph of this model is dumped by TLC and EVERY edge  *)
(* s --a--> s' is replayed against the real class by oracles/tlc_bridge.py *)
(* and checks/c19.py: the implementation is driven to s, `a` is applied,   *)
(* the result is abstracted (lists -> sets, call logs -> bags) and must    *)
(* equal s'.  The action with its arguments is the field obs.act of s'.    *)
(*                                                                         *)
(* Bags are sets of <<destination, payload, multiplicity>>.  Payloads are  *)
(* tagged tuples: <<"m", e>> is the message the environment hands to a     *)
(* receive on endpoint e, <<"src", s>> the value produced by source s,     *)
(* <<"x", e>> the datum of an explicit send on e.                          *)
(*                                                                         *)
(* Not modelled (covered by the direct exploration in checks/c19.py):      *)
(* the order of rules inside a table, which endpoints a spin polls when    *)
(* they have no rule left (a message consumed there is delivered to        *)
(* nothing either way), spin(k) for k > 1, a real UDP endpoint.            *)
(***************************************************************************)
EXTENDS Naturals, FiniteSets, TLC

CONSTANTS E,        \* names of the endpoints registered in the hub
          U,        \* names that are NOT registered (unknown ports)
          K,        \* sink callables
          S,        \* source callables
          WithSend, \* BOOLEAN: include the explicit-send action
          WithSpin  \* BOOLEAN: include spin(1)

VARIABLES fwd,      \* \subseteq E \X E : forwarding rules <<input, output>>
          sinks,    \* \subseteq E \X K : <<input, sink>>
          srcs,     \* \subseteq E \X S : <<output, source>>
          open,     \* \subseteq E      : endpoints whose channel is open
          obs       \* what the last action did (see Obs)

vars == <<fwd, sinks, srcs, open, obs>>

N       == E \cup U
NoData  == "nodata"
Answers == {"m", NoData}       \* what the environment answers at a receive position
Msg(e)    == <<"m", e>>
SrcVal(s) == <<"src", s>>
Datum(e)  == <<"x", e>>
B(b) == IF b THEN "true" ELSE "false"
Obs(a, r, se, su) == [act |-> a, ret |-> r, sent |-> se, sunk |-> su]

Init == /\ fwd = {} /\ sinks = {} /\ srcs = {} /\ open = E
        /\ obs = Obs(<<"init">>, "none", {}, {})

\* one delivery per active rule of endpoint e, and nothing else
FwdBag(e)  == {<<d, Msg(e), 1>> : d \in {o \in E : <<e, o>> \in fwd}}
SinkBag(e) == {<<k, Msg(e), 1>> : k \in {kk \in K : <<e, kk>> \in sinks}}

SetForward(i, o) ==
  LET ch == i \in E /\ o \in E /\ <<i, o>> \notin fwd IN
  /\ fwd' = IF ch THEN fwd \cup {<<i, o>>} ELSE fwd
  /\ obs' = Obs(<<"fwd", i, o>>, B(ch), {}, {})
  /\ UNCHANGED <<sinks, srcs, open>>

DelForward(i, o) ==
  LET ch == <<i, o>> \in fwd IN
  /\ fwd' = fwd \ {<<i, o>>}
  /\ obs' = Obs(<<"del", i, o>>, B(ch), {}, {})
  /\ UNCHANGED <<sinks, srcs, open>>

SetSink(i, k) ==
  LET ch == i \in E /\ <<i, k>> \notin sinks IN
  /\ sinks' = IF ch THEN sinks \cup {<<i, k>>} ELSE sinks
  /\ obs' = Obs(<<"sink", i, k>>, B(ch), {}, {})
  /\ UNCHANGED <<fwd, srcs, open>>

SetSource(o, s) ==
  LET ch == o \in E /\ <<o, s>> \notin srcs IN
  /\ srcs' = IF ch THEN srcs \cup {<<o, s>>} ELSE srcs
  /\ obs' = Obs(<<"src", o, s>>, B(ch), {}, {})
  /\ UNCHANGED <<fwd, sinks, open>>

\* a receive on e where the environment answers p
Recv(e, p) ==
  /\ obs' = IF e \in open /\ p # NoData
            THEN Obs(<<"recv", e, p>>, "msg", FwdBag(e), SinkBag(e))
            ELSE Obs(<<"recv", e, p>>, "none", {}, {})
  /\ UNCHANGED <<fwd, sinks, srcs, open>>

Send(e) ==
  /\ WithSend
  /\ obs' = Obs(<<"send", e>>, "none", IF e \in E THEN {<<e, Datum(e), 1>>} ELSE {}, {})
  /\ UNCHANGED <<fwd, sinks, srcs, open>>

Open(e) ==
  /\ open' = IF e \in E THEN open \cup {e} ELSE open
  /\ obs' = Obs(<<"open", e>>, B(e \in E /\ e \notin open), {}, {})
  /\ UNCHANGED <<fwd, sinks, srcs>>

Close(e) ==
  /\ open' = open \ {e}
  /\ obs' = Obs(<<"close", e>>, B(e \in open), {}, {})
  /\ UNCHANGED <<fwd, sinks, srcs>>

\* one spin; L = the endpoints whose receive position yields a message
Spin(L) ==
  LET live == L \cap open IN
  /\ WithSpin
  /\ obs' = Obs(<<"spin", L>>, "none",
                UNION {FwdBag(e) : e \in live} \cup {<<t[1], SrcVal(t[2]), 1>> : t \in srcs},
                UNION {SinkBag(e) : e \in live})
  /\ UNCHANGED <<fwd, sinks, srcs, open>>

Next == \/ \E i \in N, o \in N : SetForward(i, o)
        \/ \E i \in N, o \in N : DelForward(i, o)
        \/ \E i \in N, k \in K : SetSink(i, k)
        \/ \E o \in N, s \in S : SetSource(o, s)
        \/ \E e \in N, p \in Answers : Recv(e, p)
        \/ \E e \in N : Open(e)
        \/ \E e \in N : Close(e)
        \/ \E e \in N : Send(e)
        \/ \E L \in SUBSET E : Spin(L)

Spec == Init /\ [][Next]_vars

-----------------------------------------------------------------------------
\* model-level statements of the property (checked by TLC on every state)

TypeOK == /\ fwd \subseteq E \X E /\ sinks \subseteq E \X K /\ srcs \subseteq E \X S
          /\ open \subseteq E
          /\ obs.ret \in {"none", "true", "false", "msg"}

\* a receive that yields no data delivers nothing
NoDataDeliversNothing ==
  (obs.act[1] = "recv" /\ obs.ret = "none") => (obs.sent = {} /\ obs.sunk = {})

\* a received message goes exactly once to each active rule of its endpoint and to nothing else
ExactlyOncePerRule ==
  (obs.act[1] = "recv" /\ obs.ret = "msg") =>
     LET e == obs.act[2] IN
     /\ \A d \in E : (<<e, d>> \in fwd) <=> (<<d, Msg(e), 1>> \in obs.sent)
     /\ \A k \in K : (<<e, k>> \in sinks) <=> (<<k, Msg(e), 1>> \in obs.sunk)
     /\ Cardinality(obs.sent) = Cardinality({d \in E : <<e, d>> \in fwd})
     /\ Cardinality(obs.sunk) = Cardinality({k \in K : <<e, k>> \in sinks})

\* each spin sends each source's value once to its endpoint
SpinSendsEachSourceOnce ==
  (obs.act[1] = "spin") =>
     \A o \in E, s \in S : (<<o, s>> \in srcs) <=> (<<o, SrcVal(s), 1>> \in obs.sent)

\* registrations, deletions, open and close deliver nothing
OnlyReceivesDeliver ==
  (obs.act[1] \in {"fwd", "del", "sink", "src", "open", "close", "init"}) =>
     (obs.sent = {} /\ obs.sunk = {})
=============================================================================
