\* thorough tier: 2 endpoints, 2 sinks, 1 source, explicit send and spin(1)
CONSTANTS
  E = {"a", "b"}
  U = {}
  K = {"k1", "k2"}
  S = {"s1"}
  WithSend = TRUE
  WithSpin = TRUE
INIT Init
NEXT Next
INVARIANT TypeOK
INVARIANT NoDataDeliversNothing
INVARIANT ExactlyOncePerRule
INVARIANT SpinSendsEachSourceOnce
INVARIANT OnlyReceivesDeliver
