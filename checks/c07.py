"""C07 - arm inverse kinematics never claims a pose it has not reached (LX + CX restart scripts).

Complete product arms x states {fresh, moved, re-tooled, re-tooled+moved} x goals x starts x 3 tolerance settings x
2 solver paths, restarts off; plus, for the far starts, every restart-vector sequence of length <= 2 over a 3-vector
menu fed through a scripted random source (the explorer owns every draw).  Errors are recomputed independently.
"""
import copy
import itertools

import numpy as np

from checks import armlib, c05, c06
from mc import lattice
from oracles import poe, se3

MOD = "checks.c07"
TOLS = [(1e-4, 1e-5), (1e-2, 1e-6), (1e-6, 1e-2)]          # (position, orientation); the first is the default
STATES = [(), ("move:B1",), ("tool:X:g1",), ("tool:X:g1", "move:B2")]


def arms_for(tier, seed):
    return c06.arms_for(tier, seed)


def goal_palette(ref, seed):
    """name -> (theta_star or None, goal matrix builder kind)"""
    TH = c05.theta_palette(ref)
    lo, hi = np.maximum(ref.lo, -6.2), np.minimum(ref.hi, 6.2)
    n = ref.n
    out = {"g1": TH["g1"], "g2": TH["g2"]}
    near_hi = TH["g1"].copy()
    near_hi[0] = hi[0] - 0.15
    out["near_limit"] = near_hi
    on_hi = TH["g2"].copy()
    on_hi[-1] = hi[-1]
    out["on_limit"] = on_hi
    on_lo = TH["g1"].copy()
    on_lo[0] = lo[0]
    out["on_lower"] = on_lo
    if seed:
        out["seed"] = lo + (hi - lo) * (0.2 + 0.6 * np.random.default_rng([seed, 71]).random(n))
    return out


def sv_min(ref, th):
    J = poe.jac_space(poe.space_screws(ref.base, ref.S), th)
    if J.shape[1] > 6:
        return float(np.linalg.svd(J, compute_uv=False).min())
    return float(np.linalg.svd(J, compute_uv=False)[min(J.shape) - 1])


def errors(ref, th, G):
    """Independent recomputation of the solver's own error measure: space twist V with exp([V]) FK(th) = G."""
    T = ref.fk(th)
    V = se3.log6(G @ se3.tinv(T))
    return float(np.linalg.norm(V[:3])), float(np.linalg.norm(V[3:])), se3.pose_err(T, G)


def solve(arm, G, start, free, check, level, script=None, max_iters=30):
    from basic_robotics.general import tm
    fr = script if script is not None else [0.5]
    with armlib.scripted_random(fr) as sr, armlib.quiet():
        th, ok = arm.IK(tm(G.copy()), None if start is None else start.copy(), check=check, level=level,
                        max_iters=max_iters, protect=free)
    return np.asarray(th, float).reshape(-1), bool(ok), sr.i


def judge(acc, arm, ref, case, G, th, ok, free, reachable, expect_success, ptol, rtol):
    tha = armlib.joint_state(arm)
    sc = max(1.0, float(np.abs(G[:3, 3]).max()))
    # coherence of the arm after the call, success or not
    want = ref.fk(tha)
    e = float(np.abs(arm.getEEPos().gTM() - want).max())
    acc.resid("state_coherent", e)
    if not (e <= 1e-7 * sc):
        acc.violation("state_incoherent_after_solve", case, e, 1e-7 * sc, flags={"success": ok})
    if ok:
        if not reachable:
            acc.violation("unreachable_claimed", case, True)
        ew, ev, (ang, dist) = errors(ref, th, G)
        acc.resid("claimed_rot_over_tol", ew / rtol)
        acc.resid("claimed_pos_over_tol", ev / ptol)
        if not (ew <= rtol * (1 + 1e-6) + 1e-12):
            acc.violation("claimed_orientation_error", case, ew, rtol)
        if not (ev <= ptol * (1 + 1e-6) + 1e-12):
            acc.violation("claimed_position_error", case, ev, ptol)
        if not (dist <= ptol + rtol * float(np.linalg.norm(G[:3, 3])) + 1e-12):
            acc.violation("claimed_position_distance", case, dist, ptol)
        same, d = poe.mod2pi_equal(th, tha, 1e-9)
        if not same:
            acc.violation("state_is_not_solution", case, d, 1e-9)
        if not free:
            ex = float(max(0.0, (th - ref.hi).max(), (ref.lo - th).max()))
            if not (ex <= 1e-12):
                acc.violation("answer_outside_limits", case, ex, 0.0)
    else:
        if expect_success:
            acc.violation("local_convergence", case, {"returned": th}, None)
    acc.outcome("success" if ok else "failure")


def prepared(an, hist, seed):
    arm, ref = armlib.build(an, seed)
    TH = c05.theta_palette(ref)
    arm, ref = c06.apply_hist(arm, ref, hist, TH)
    return arm, ref


def starts_for(ref, name, ths):
    n = ref.n
    S = [("exact", ths.copy())]
    for i in range(n):
        for s in (+1, -1):
            v = ths.copy()
            v[i] += s * 0.02
            S.append(("near%+d@%d" % (s, i), v))
    far = ref.clamp(ths + np.linspace(1.3, -1.1, n))
    S.append(("far", far))
    S.append(("zeros", ref.clamp(np.zeros(n))))
    S.append(("current", None))
    # same pose, outside the limits: a revolute joint turned by a full revolution beyond its range (handed over unclamped)
    w = ths.copy()
    moved = False
    for i in range(n):
        if not ref.prismatic[i] and ths[i] + 2 * np.pi > ref.hi[i] + 1e-9:
            w[i] = ths[i] + 2 * np.pi
            moved = True
            break
    if moved:
        S.append(("full_turn_outside_limits", w))
    return S


def work(p):
    arms = arms_for(p["tier"], p["seed"])
    groups = [(a, s, t, f) for a in arms for s in range(len(STATES)) for t in range(len(TOLS)) for f in (False, True)]
    acc = lattice.Acc()
    for an, si, ti, free in groups[p["lo"]:p["hi"]]:
        try:
            arm0, ref0 = prepared(an, STATES[si], p["seed"])
        except Exception as e:
            acc.violation("raised", {"arm": an, "state": list(STATES[si])}, repr(e))
            continue
        ptol, rtol = TOLS[ti]
        arm0.pos_tolerance, arm0.rot_tolerance = ptol, rtol
        goals = goal_palette(ref0, p["seed"])
        base = {"arm": an, "state": list(STATES[si]), "tol": ti, "free": free}
        for gname, ths in goals.items():
            ths = ref0.clamp(ths)
            G = ref0.fk(ths)
            inside = bool(np.all(ths - ref0.lo >= 0.15 - 1e-12) and np.all(ref0.hi - ths >= 0.15 - 1e-12))
            wellc = sv_min(ref0, ths) >= 0.05 and ref0.n <= 6
            for sname, st in starts_for(ref0, gname, ths):
                case = dict(base, goal=gname, start=sname, restarts=None)
                arm = copy.deepcopy(arm0)
                ref = ref0
                try:
                    raw = free or sname == "full_turn_outside_limits"
                    th, ok, _ = solve(arm, G, None if st is None else (st if raw else ref.clamp(st)), free, False, 0)
                    near = sname == "exact" or sname.startswith("near")
                    expect = near and inside and wellc and (free or bool(np.all(ref.clamp(st) == st)))
                    judge(acc, arm, ref, case, G, th, ok, free, True, expect, ptol, rtol)
                except Exception as e:
                    acc.violation("raised", case, repr(e))
                acc.case((an, si, ti, free, gname, sname))
        # tolerance-boundary goals, started exactly at theta0: the only inputs on which a swap of the tolerances shows
        th0 = ref0.clamp(goals["g1"])
        T0 = ref0.fk(th0)
        for kind in ("rot", "pos"):
            for mag_name, mag in (("half_min", 0.5 * min(ptol, rtol)), ("geo_mean", float(np.sqrt(ptol * rtol))), ("twice_max", 2 * max(ptol, rtol))):
                d = se3.unit(np.array([0.3, -0.5, 0.8])) * mag
                V = np.concatenate([d, np.zeros(3)]) if kind == "rot" else np.concatenate([np.zeros(3), d])
                G = se3.exp6(V) @ T0
                case = dict(base, goal="boundary_%s_%s" % (kind, mag_name), start="exact", restarts=None)
                arm = copy.deepcopy(arm0)
                try:
                    th, ok, _ = solve(arm, G, th0, free, False, 0)
                    judge(acc, arm, ref0, case, G, th, ok, free, True, False, ptol, rtol)
                except Exception as e:
                    acc.violation("raised", case, repr(e))
                acc.case((an, si, ti, free, kind, mag_name))
        # a jog by a few position tolerances from where the arm stands, start vector DEFAULTED (a "you are already there"
        # shortcut compares poses with a tolerance of its own): 5 * ptol along the coordinate where the tool is farthest out
        if 5 * ptol <= 8e-6:
            ax = int(np.argmax(np.abs(T0[:3, 3])))
            G = T0.copy()
            G[ax, 3] += 5 * ptol * (1.0 if T0[ax, 3] >= 0 else -1.0)
            for check2 in (False, True):
                case = dict(base, goal="jog_5_ptol", start="current_defaulted", restarts=["on"] if check2 else None)
                arm = copy.deepcopy(arm0)
                try:
                    with armlib.quiet():
                        arm.FK(th0.copy())
                    th, ok, _ = solve(arm, G, None, free, check2, 1, [0.5] * (2 * ref0.n))
                    judge(acc, arm, ref0, case, G, th, ok, free, True, False, ptol, rtol)
                except Exception as e:
                    acc.violation("raised", case, repr(e))
                acc.case((an, si, ti, free, "jog", check2))
        # the same boundary goals through the restart policy: the first attempt (far start) and the restart are limited to
        # their entry test (max_iters=0) and the scripted restart vector is theta0 itself, so a restart call that judges
        # with the wrong tolerance accepts a pose the first call would refuse
        if True:
            # the limit-respecting path draws its restart vector between the joint limits, the free path in [-pi, pi]
            lo0, span0 = (-np.pi * np.ones(ref0.n), 2 * np.pi * np.ones(ref0.n)) if free else (
                ref0.lo, np.where(ref0.hi - ref0.lo > 0, ref0.hi - ref0.lo, 1.0))
            fr0 = list(np.clip((th0 - lo0) / span0, 0, 1))
            far0 = ref0.clamp(th0 + np.linspace(1.3, -1.1, ref0.n))
            if np.allclose(lo0 + np.array(fr0) * span0, th0, rtol=0, atol=1e-12):
                for kind in ("rot", "pos"):
                    for mag_name, mag in (("geo_mean", float(np.sqrt(ptol * rtol))), ("twice_max", 2 * max(ptol, rtol))):
                        d = se3.unit(np.array([0.3, -0.5, 0.8])) * mag
                        V = np.concatenate([d, np.zeros(3)]) if kind == "rot" else np.concatenate([np.zeros(3), d])
                        G = se3.exp6(V) @ T0
                        case = dict(base, goal="boundary_%s_%s" % (kind, mag_name), start="far", restarts=["theta0", "max_iters=0"])
                        arm = copy.deepcopy(arm0)
                        try:
                            th, ok, _ = solve(arm, G, far0, free, True, 1, fr0, max_iters=0)
                            judge(acc, arm, ref0, case, G, th, ok, free, True, False, ptol, rtol)
                        except Exception as e:
                            acc.violation("raised", case, repr(e))
                        acc.case((an, si, ti, free, "restart_boundary", kind, mag_name))
        # goals beyond reach (free solver on chains with prismatic joints excluded: it can extend them without bound)
        if not (free and any(ref0.prismatic)):
            G = ref0.base @ se3.T_from([0, 0, 0], ref0.unreach) @ ref0.M
            for sname, st in (("g1", ref0.clamp(goals["g1"])), ("current", None)):
                case = dict(base, goal="unreachable", start=sname, restarts=None)
                arm = copy.deepcopy(arm0)
                try:
                    th, ok, _ = solve(arm, G, st, free, False, 0)
                    judge(acc, arm, ref0, case, G, th, ok, free, False, False, ptol, rtol)
                except Exception as e:
                    acc.violation("raised", case, repr(e))
                acc.case((an, si, ti, free, "unreach", sname))
            # history on ONE arm: a solve that fails (goal beyond reach, restarts off), then an ordinary solve of a reachable goal
            # from a near start, with restarts off and on: the second answer and the arm's state are judged as usual
            for tname in ("g1", "g2"):
                ths2 = ref0.clamp(goals[tname])
                G2 = ref0.fk(ths2)
                for check2 in (False, True):
                    case = dict(base, goal=tname, start="near_after_failed_solve", restarts=["on"] if check2 else None)
                    arm = copy.deepcopy(arm0)
                    try:
                        solve(arm, G, ref0.clamp(goals["g1"]), free, False, 0)
                        th, ok, _ = solve(arm, G2, ref0.clamp(ths2 + 0.01), free, check2, 1, [0.5] * (2 * ref0.n))
                        judge(acc, arm, ref0, case, G2, th, ok, free, True, False, ptol, rtol)
                    except Exception as e:
                        acc.violation("raised", case, repr(e))
                    acc.case((an, si, ti, free, "after_failure", tname, check2))
        # restart policy on: every sequence of restart vectors of length <= 2 over a 3-vector menu (CX, full enumeration)
        if ti == 0:
            ths = ref0.clamp(goals["g2"])
            G = ref0.fk(ths)
            span = np.where(ref0.hi - ref0.lo > 0, ref0.hi - ref0.lo, 1.0)
            menu = {"near_solution": np.clip((ref0.clamp(ths + 0.01) - ref0.lo) / span, 0, 1),
                    "far": np.clip((ref0.clamp(ths + np.linspace(-1.4, 1.2, ref0.n)) - ref0.lo) / span, 0, 1),
                    "lower": np.zeros(ref0.n)}
            far = ref0.clamp(ths + np.linspace(1.3, -1.1, ref0.n))
            targets = [("g2", G, True)]
            if not (free and any(ref0.prismatic)):
                targets.append(("unreachable", ref0.base @ se3.T_from([0, 0, 0], ref0.unreach) @ ref0.M, False))
            for tname, Gt, reach in targets:
                for seq in itertools.product(menu, repeat=2):
                    script = list(np.concatenate([menu[s] for s in seq]))
                    case = dict(base, goal=tname, start="far", restarts=list(seq))
                    arm = copy.deepcopy(arm0)
                    try:
                        th, ok, used = solve(arm, Gt, far, free, True, 2, script)
                        judge(acc, arm, ref0, case, Gt, th, ok, free, reach, False, ptol, rtol)
                        acc.outcome("restart_draws_%d" % used)
                    except Exception as e:
                        acc.violation("raised", case, repr(e))
                    acc.case((an, si, ti, free, tname, seq))
        if si == 1 and ti == 1 and not free:
            acc.sample(dict(base, goals=list(goals), starts=[s for s, _ in starts_for(ref0, "g1", ref0.clamp(goals["g1"]))]))
    return acc.result()


def run(ctx):
    arms = arms_for(ctx.tier, ctx.seed)
    total = len(arms) * len(STATES) * len(TOLS) * 2
    with ctx.pool() as pool:
        m = lattice.run(ctx, pool, MOD, "work", total, nshards=min(total, pool.workers * 4), part="ik")
    lattice.fill(ctx, [("ik", m)],
                 "arms x states {fresh, moved, re-tooled, re-tooled+moved} x tolerance settings x solver paths x "
                 "{goals from in-limit joint vectors (generic, 0.15 rad from a limit, on a limit) x starts (exact, +-0.02 rad on every joint, far, zeros, current); "
                 "tolerance-boundary goals (rotation / translation offsets of half the smaller, the geometric mean, twice the larger tolerance) started exactly; "
                 "the same boundary goals through one scripted restart with max_iters=0; unreachable goals; all restart-vector sequences of length 2 over a 3-vector menu}; cases distinct by construction",
                 {"arms": len(arms), "states": len(STATES), "tolerance_settings": len(TOLS)})
    ctx.assumptions += ["success is judged with the solver's own error measure (space twist from the reached pose to the goal) recomputed independently, "
                        "orientation against the configured orientation tolerance and position against the position tolerance",
                        "local-convergence clause only for solutions >= 0.15 rad inside the limits with sigma_min(J) >= 0.05, chains of <= 6 joints, restarts off",
                        "every random draw of the restart policy is supplied by a scripted source"]


def replay(rec):
    c = rec["case"]
    seed = rec.get("seed", 0)
    arms = arms_for(rec.get("tier", "quick"), seed)
    if c["arm"] not in arms:
        arms = armlib.ALL_ARMS + ["gen:3S@BS"]
    groups = [(a, s, t, f) for a in arms for s in range(len(STATES)) for t in range(len(TOLS)) for f in (False, True)]
    idx = groups.index((c["arm"], STATES.index(tuple(c["state"])), c["tol"], c["free"]))
    r = work({"tier": "thorough" if c["arm"] not in armlib.QUICK_ARMS + ["gen:3S@BS"] else rec.get("tier", "quick"), "seed": seed, "lo": idx, "hi": idx + 1})
    out = []
    for v in r["viols"]:
        if v["clause"] == rec["clause"] and all(v["case"].get(k) == c.get(k) for k in ("goal", "start", "restarts")):
            out.append(v)
    return out
