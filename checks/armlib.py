"""Arm factories shared by the arm checks (C05-C08, C14, C17).  Construction data is copied *before* it is handed
to the library, and the reference description (base, local screws, local home, local joint homes, limits) is
built from those copies, never read back from the constructed object (URDF arms excepted: C13 covers the loader)."""
import contextlib
import io
import os

import numpy as np

from mc import env, palettes
from oracles import se3

URDF_DIR = os.path.join(env.REPO, "tests", "test_helpers")
URDFS = {"irb2400": "irb_2400.urdf", "ur5": "ur5.urdf", "puma560": "puma_560.urdf",
         "ur10d": os.path.join("ur_description", "ur10.urdf"), "ur5d": os.path.join("ur_description", "ur5.urdf")}

BASES = {"I": np.zeros(6), "B0": np.array([0.5, -1.0, 2.0, 0.3, 0.1, -0.2]), "B1": np.array([1.0, 2.0, 3.0, 0.2, 0.3, -0.4]),
         "B2": np.array([-1.0, 0.5, 2.0, 0.1, -0.2, 0.3])}


def base_T(name, seed=0):
    if name == "BS":
        w, p = palettes.well_conditioned_pose(seed, 41, max_angle=1.2, max_p=3.0)
        return se3.T_from(w, p)
    return se3.T_from_taa(BASES[name])


def six_r_data():
    L1, L2, L3, W = 4.5, 3.75, 3.75, 0.1
    axes = np.array([[0, 0, 1], [0, 1, 0], [0, 1, 0], [1, 0, 0], [0, 1, 0], [1, 0, 0]], float).T
    homes = np.array([[0, 0, 0], [0, 0, L1], [L2, 0, L1], [L2 + L3, 0, L1], [L2 + L3 + W, 0, L1], [L2 + L3 + 2 * W, 0, L1]], float).T
    S = np.zeros((6, 6))
    for i in range(6):
        S[:, i] = np.hstack((axes[:, i], np.cross(homes[:, i], axes[:, i])))
    M = se3.T_from([0, 0, 0], [L2 + L3 + 3 * W, 0, L1])
    lo, hi = -2 * np.pi * np.ones(6), 2 * np.pi * np.ones(6)
    return {"S": S, "M": M, "homes": homes, "axes": axes, "lo": lo, "hi": hi, "dims": (L1, L2, L3, W)}


def gen_chain_data(kind, seed=0):
    """Generated chains: kind in {'1R','2RP','3R','7R','3S'} (3S uses one seed-generic joint)."""
    J = {
        "rz0": ((0, 0, 1), (0, 0, 0)), "ry1": ((0, 1, 0), (0, 0, 1.0)), "rx2": ((1, 0, 0), (1.0, 0, 1.0)),
        "rg": (tuple(se3.unit((1, -2, 3))), (0.5, 0.2, 1.0)), "px": ((1, 0, 0), None), "pg": (tuple(se3.unit((0.2, 0.5, 1))), None),
        "ry3": ((0, 1, 0), (1.5, 0.1, 1.2)), "rz4": ((0, 0, 1), (2.0, 0, 1.0)), "rx5": ((1, 0, 0), (2.2, 0.3, 0.8)), "ry6": ((0, 1, 0), (2.5, 0, 0.7)),
    }
    seq = {"1R": ["rg"], "2RP": ["rz0", "px"], "3R": ["rz0", "ry1", "rg"], "7R": ["rz0", "ry1", "rx2", "ry3", "rz4", "rx5", "ry6"],
           "3S": ["rz0", "seed", "rx2"], "3RPR": ["ry1", "pg", "rx2"], "3N": ["rz0", "ry1", "rg"]}[kind]
    n = len(seq)
    S = np.zeros((6, n))
    homes = np.zeros((3, n))
    axes = np.zeros((3, n))
    prev = np.zeros(3)
    for i, name in enumerate(seq):
        if name == "seed":
            r = palettes.seed_rng(seed, 43)
            a, q = se3.unit(r.normal(size=3)), r.uniform(-1, 1, size=3) + np.array([0.5, 0, 1.0])
        else:
            a, q = J[name]
        a = np.asarray(a, float)
        if q is None:  # prismatic
            S[:, i] = np.hstack((np.zeros(3), a))
            homes[:, i] = prev
        else:
            q = np.asarray(q, float)
            S[:, i] = np.hstack((a, np.cross(q, a)))
            homes[:, i] = q
            prev = q
        axes[:, i] = a
    M = se3.T_from([0.2, -0.1, 0.3], prev + np.array([0.4, 0.1, 0.2]))
    lo = -np.array([2.0, 1.5, 2.5, 2.2, 3.0, 1.0, 2.8][:n])
    hi = np.array([2.5, 1.2, 2.0, 3.0, 2.6, 1.4, 2.9][:n])
    if kind == "3N":            # joint ranges that do not contain 0 (an elbow that cannot straighten, a wrist offset)
        lo, hi = np.array([-2.0, 0.35, -2.4]), np.array([2.5, 1.4, -0.3])
    unreach = {"2RP": (0, 0, 50.0), "3RPR": (50.0, 0, 0)}.get(kind, (50.0, 0, 0))
    return {"S": S, "M": M, "homes": homes, "axes": axes, "lo": lo, "hi": hi, "unreach": unreach}


class Ref:
    """The boring reference description of one arm."""

    def __init__(self, base, S_local, M_local, J_local, lo, hi, fixed_offset=None):
        self.base = np.array(base, float)
        self.S = np.array(S_local, float)
        self.M = np.array(M_local, float)
        self.M0 = self.M.copy()
        self.J = [np.array(j, float) for j in J_local]      # local joint home frames (4x4)
        self.lo = np.array(lo, float)
        self.hi = np.array(hi, float)
        self.th = np.zeros(self.S.shape[1])
        self.fixed_offset = fixed_offset
        self.frames_local = None     # URDF arms: frames reported by the fresh arm at theta=0, in base coordinates
        self.urdf = False
        self.unreach = np.array([50.0, 0.0, 0.0])
        self.L = []                  # local link frames (4x4), link i rides on joints 0..i
        self.prismatic = [bool(np.linalg.norm(self.S[:3, i]) < 1e-12) for i in range(self.S.shape[1])]

    @property
    def n(self):
        return self.S.shape[1]

    def clamp(self, th):
        return np.minimum(np.maximum(np.asarray(th, float), self.lo), self.hi)

    def fk(self, th=None):
        from oracles import poe
        th = self.th if th is None else th
        return self.base @ poe.poe(self.S, th) @ self.M

    def joint_frames(self, th=None):
        """base(@offset), joints 0..n-2 moved by their partial products, [last joint if distinct from tool], tool."""
        from oracles import poe
        th = self.th if th is None else th
        if self.frames_local is not None:
            L = self.frames_local
            out = [self.base @ L[0]]
            for i in range(self.n - 1):
                out.append(self.base @ poe.poe(self.S, th, upto=i + 1) @ L[i + 1])
            full = self.base @ poe.poe(self.S, th)
            # a loaded arm whose tool home coincides with its last joint reports no separate last-joint frame until the tool
            # is moved away from it; the joint itself then sits at the original tool home
            return out, full @ (L[self.n] if len(L) == self.n + 2 else self.M0), full @ self.M
        out = [self.base if self.fixed_offset is None else self.base @ self.fixed_offset]
        for i in range(self.n - 1):
            out.append(self.base @ poe.poe(self.S, th, upto=i + 1) @ self.J[i])
        full = self.base @ poe.poe(self.S, th)
        return out, full @ self.J[self.n - 1], full @ self.M


def joint_state(arm):
    """The arm's stored joint vector.  The library offers no getter; it keeps it in `_theta`.  Should a later version keep
    it elsewhere the harness has to be told - a harness error, never a verdict about the library."""
    from mc.pool import HarnessError
    if not hasattr(arm, "_theta"):
        raise HarnessError("the arm object has no attribute _theta any more: the harness reads the stored joint vector there")
    return np.asarray(arm._theta, float).reshape(-1)


def private(obj, name):
    """A private attribute the harness reads ONCE from a freshly built object to set up its reference description."""
    from mc.pool import HarnessError
    if not hasattr(obj, name):
        raise HarnessError("%s object has no attribute %s any more: the harness reads its reference description there"
                           % (type(obj).__name__, name))
    return getattr(obj, name)


def build(name, seed=0):
    """name = '<kind>@<base>' e.g. '6R@I', '6R@B0', 'urdf:ur5@I', 'gen:3R@B1'.  Returns (arm, Ref)."""
    from basic_robotics.general import tm
    from basic_robotics.kinematics import Arm, loadArmFromURDF
    kind, bname = name.split("@")
    B = base_T(bname, seed)
    if kind.startswith("urdf:"):
        path = os.path.join(URDF_DIR, URDFS[kind[5:]])
        with contextlib.redirect_stdout(io.StringIO()):
            arm = loadArmFromURDF(path)
        Bi = se3.tinv(arm.getBasePos().gTM())
        S_local = se3.adj(Bi) @ np.array(arm.screw_list, float)
        M_local = Bi @ private(arm, '_end_effector_home').gTM()
        J_local = [Bi @ j.gTM() for j in private(arm, '_joint_homes_global')]
        fo = None if private(arm, '_fixed_base_offset') is None else arm._fixed_base_offset.gTM()
        ref = Ref(arm.getBasePos().gTM(), S_local, M_local, J_local, arm.joint_mins.copy(), arm.joint_maxs.copy(), fo)
        ref.urdf = True
        ref.L = [Bi @ x.gTM() for x in (private(arm, '_link_homes_global') or [])]
        ref.frames_local = [Bi @ x.gTM() for x in arm.getJointTransforms()]
        if bname != "I":
            with contextlib.redirect_stdout(io.StringIO()):
                arm.move(tm(B.copy()))
            ref.base = B.copy()
        return arm, ref
    d = six_r_data() if kind == "6R" else gen_chain_data(kind[4:], seed)
    S_in, M_in, homes_in, axes_in = d["S"].copy(), d["M"].copy(), d["homes"].copy(), d["axes"].copy()
    arm = Arm(tm(B.copy()), S_in, tm(M_in), homes_in, axes_in)
    arm.setJointProperties(d["lo"].copy(), d["hi"].copy())
    J_local = [se3.T_from([0, 0, 0], d["homes"][:, i]) for i in range(d["S"].shape[1])]
    ref = Ref(B, d["S"], d["M"], J_local, d["lo"], d["hi"])
    # link frames: half way between consecutive joint origins (the last one half way to the tool), given in global coordinates
    n = d["S"].shape[1]
    pts = [d["homes"][:, i] for i in range(n)] + [d["M"][:3, 3]]
    ref.L = [se3.T_from([0, 0, 0], 0.5 * (pts[i] + pts[i + 1])) for i in range(n)]
    arm.setOrigins(link_homes_global=[tm(B @ L) for L in ref.L])
    ref.unreach = np.array(d.get("unreach", (50.0, 0, 0)), float)
    return arm, ref


QUICK_ARMS = ["6R@I", "6R@B0", "urdf:ur5@I", "urdf:irb2400@B1", "gen:2RP@B2", "gen:3R@I", "gen:3N@B1"]
ALL_ARMS = QUICK_ARMS + ["urdf:puma560@I", "urdf:ur10d@B0", "urdf:ur5d@I", "gen:1R@B1", "gen:7R@B0", "gen:3RPR@I", "gen:3S@BS", "gen:7R@I"]


class ScriptedRandom:
    """Stands in for the `random` module object inside arm_model / pathplanner: uniform(a,b) = a + f*(b-a) with f
    read from a script (cyclic), so every draw is owned by the explorer."""

    def __init__(self, fractions):
        self.f = list(fractions)
        self.i = 0

    def uniform(self, a, b):
        v = a + self.f[self.i % len(self.f)] * (b - a)
        self.i += 1
        return v

    def random(self):
        v = self.f[self.i % len(self.f)]
        self.i += 1
        return v


@contextlib.contextmanager
def scripted_random(fractions):
    from basic_robotics.kinematics import arm_model
    old = arm_model.random
    sr = ScriptedRandom(fractions)
    arm_model.random = sr
    try:
        yield sr
    finally:
        arm_model.random = old


@contextlib.contextmanager
def quiet():
    with contextlib.redirect_stdout(io.StringIO()):
        yield
