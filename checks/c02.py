"""C02 - the Numba port computes what the reference Modern Robotics library computes (LX, 47 programs).

For each of the 47 function names the port (basic_robotics.modern_robotics_numba.modern_high_performance) shares with
the pinned reference (vendor/modern_robotics_ref, Modern Robotics 1.1.1) an *argument generator* enumerates the
complete Cartesian product of small palettes that sit on the branch boundaries of the kernels (the 1e-6 cut-off, the
acos clamps, the half-turn sub-branches, the 1e-3 membership threshold, zero / basis / generic vectors, chain lengths
1..7, N = 2..12, both time scalings ...).  Every case is executed twice - port and reference, each on its own fresh
float64 C-contiguous copies of the arguments - and judged by

  shape   same structure and array shapes,
  value   |port - ref| <= 1e-9 * max(1, |ref|) element-wise (1e-7 for the integrated trajectories
          ForwardDynamicsTrajectory / SimulateControl),
  raised_where_reference_returns   the port raises where the reference returns normally.

Both raise -> counted, skipped.  Reference returns NaN/inf (AxisAng of a zero vector, MatrixLog6 when its unclipped
acos leaves the domain) -> counted as reference_not_finite, skipped.  An argument whose rotation part has norm within
1e-12 (relative) of the 1e-6 cut-off is a tie on a discontinuity of the shared algorithm (port: sqrt of a sum of
squares, reference: np.linalg.norm - they may round to different sides); a mismatch there is counted as cutoff_tie
and skipped, agreement is counted normally.

IKinBody / IKinSpace (iterative): `success => both error norms <= tolerances` recomputed with the independent
product-of-exponentials oracle; `both succeed from the same start => same theta`, judged as
|theta_port - theta_ref|_inf <= 1e-6 + (eomg+ev)/sigma_min(J) and only where sigma_min(J) >= 0.05 (full column rank at
the solution) and the port's own answer is stable under a 1e-12 perturbation of the start (otherwise the Newton
iteration is chaotic and rounding decides the branch; counted as ik_chaotic).  Under the same stability predicate the
two success flags must agree.

Outside the property (not generated): integer-typed screw tables, non-contiguous / Fortran layouts (C17),
ProjectToSO3/SE3 on matrices whose determinant is not positive.
"""
import hashlib
import math
import os
import time

import numpy as np

from mc import canon, lattice, palettes
from mc.pool import HarnessError, shards
from oracles import poe, se3

MOD = "checks.c02"
PI = np.pi
TOL = 1e-9
TOL_INT = 1e-7
INTEGRATED = ("ForwardDynamicsTrajectory", "SimulateControl")
SHARED = ['Adjoint', 'AxisAng3', 'AxisAng6', 'CartesianTrajectory', 'ComputedTorque', 'CubicTimeScaling',
          'DistanceToSE3', 'DistanceToSO3', 'EndEffectorForces', 'EulerStep', 'FKinBody', 'FKinSpace', 'ForwardDynamics',
          'ForwardDynamicsTrajectory', 'GravityForces', 'IKinBody', 'IKinSpace', 'InverseDynamics',
          'InverseDynamicsTrajectory', 'JacobianBody', 'JacobianSpace', 'JointTrajectory', 'MassMatrix', 'MatrixExp3',
          'MatrixExp6', 'MatrixLog3', 'MatrixLog6', 'NearZero', 'Normalize', 'ProjectToSE3', 'ProjectToSO3',
          'QuinticTimeScaling', 'RotInv', 'RpToTrans', 'ScrewToAxis', 'ScrewTrajectory', 'SimulateControl', 'TestIfSE3',
          'TestIfSO3', 'TransInv', 'TransToRp', 'VecTose3', 'VecToso3', 'VelQuadraticForces', 'ad', 'se3ToVec', 'so3ToVec']
assert len(SHARED) == 47 and len(set(SHARED)) == 47

CUTOFF = 1e-6
GEN_A = np.array([0.37, -0.81, 0.55, -0.23, 0.94, -0.66, 0.12])
GEN_B = np.array([-0.45, 0.62, 0.18, 0.77, -0.29, 0.51, -0.93])
GEN_C = np.array([0.21, 0.43, -0.64, 0.35, -0.52, 0.16, 0.71])
G_PAL = [np.zeros(3), np.array([0.0, 0.0, -9.81]), np.array([0.5, -1.0, -9.8])]
F_GEN = np.array([0.3, -0.7, 0.2, 1.5, -2.0, 0.4])
F_PAL = [np.zeros(6)] + [np.eye(6)[i] for i in range(6)] + [F_GEN]
TOLS_IK = [(1e-2, 1e-3), (1e-6, 1e-3), (1e-3, 1e-6)]
OFFS_IK = [0.02, 0.3, 2.0]
N_TRAJ = list(range(2, 13))
N_DYN = [2, 3, 5, 12]
INTRES = [1, 2, 8]
TH4 = [0.0, 1e-7, 0.3, -1.2]
TH2 = [0.3, -1.2]
EPS_NM = [0.0, 1e-4, 4.9e-4, 7.2e-4, 1e-2]      # one entry perturbed; 4.9e-4 / 7.2e-4 straddle the 1e-3 membership test
H_PAL = [0.0, 0.1, -2.0, 1e3]
W8 = [2, 1, 6, 0, 4, 3, 7, 5]                   # fixed 8-joint sequence (indices into the base joint palette)


# ----------------------------------------------------------------------------------------------- libraries

def _mr():
    from basic_robotics.modern_robotics_numba import modern_high_performance as mr
    return mr


def _ref():
    from vendor import modern_robotics_ref as ref
    return ref


def _quiet_matplotlib():
    """SimulateControl plots: force the non-interactive backend and make show() a no-op so that nothing can block."""
    import matplotlib
    matplotlib.use("agg", force=True)
    import matplotlib.pyplot as plt
    plt.show = lambda *a, **k: None
    return plt


# ----------------------------------------------------------------------------------------------- palettes

def unit(v):
    v = np.asarray(v, float)
    return v / np.linalg.norm(v)


def rev(axis, q):
    a = unit(axis)
    return np.concatenate([a, np.cross(np.asarray(q, float), a)])


def pris(axis):
    return np.concatenate([np.zeros(3), unit(axis)])


def joints(seed):
    J = [rev((1, 0, 0), (0, 0, 0)), rev((0, 1, 0), (0.3, 0, 0.2)), rev((0, 0, 1), (0, 0.4, 0)), rev((0, 0, 1), (0.5, 0, 0)),
         rev((0.6, 0, 0.8), (0.1, 0.2, 0.3)), rev((1, -2, 3), (-0.2, 0.1, 0.4)), pris((1, 0, 0)), pris((-0.3, 0.5, 0.81))]
    r = palettes.seed_rng(seed, 31)
    J.append(rev(r.normal(size=3), r.uniform(-0.5, 0.5, size=3)))
    return J


def home_poses(seed):
    H = [np.eye(4), se3.T_from([0.2, -0.1, 0.3], [0.5, 0.2, 1.0]),
         se3.T_from(unit((1, 1, 0)) * (PI - 1e-3), [1e3, -1e3, 5e2])]
    w, p = palettes.well_conditioned_pose(seed, 41)
    H.append(se3.T_from(w, p))
    return H


def link_frames():
    return [se3.T_from([0, 0, 0], [0, 0, 0.3]), se3.T_from([0.3, 0, 0], [0.1, 0, 0.2]),
            se3.T_from([0, 0, PI / 2], [0, 0.25, 0]), se3.T_from([-0.2, 0.4, 0.1], [0.05, -0.1, 0.15])]


def inertias():
    box = np.diag([0.01, 0.02, 0.03])
    full = np.array([[0.05, 0.01, -0.02], [0.01, 0.04, 0.015], [-0.02, 0.015, 0.06]])
    return [box, full]


MASSES = [0.1, 50.0]


def link_params(n, v):
    """Schedule v in 0..3: link i gets frame (i+v)%4, inertia/mass combination (i-v)%4; over the four schedules every
    link position sees every frame, both inertia kinds and both masses."""
    F, I = link_frames(), inertias()
    Ml = np.zeros((n + 1, 4, 4))
    Gl = np.zeros((n, 6, 6))
    for i in range(n + 1):
        Ml[i] = F[(i + v) % 4]
    for i in range(n):
        c = (i - v) % 4
        Gl[i, :3, :3] = I[c & 1]
        Gl[i, 3:, 3:] = MASSES[(c >> 1) & 1] * np.eye(3)
    return Ml, Gl


def traj_poses(seed):
    out, seen = [], set()
    for a in ((1, 0, 0), (0, 0, 1), unit((1, 1, 1)), unit((1, -2, 3))):
        for th in (0.0, 2e-6, 0.3, PI / 2, 2.5, PI - 1e-3, PI):
            for p in ((0, 0, 0), (1, 2, 3)):
                w = np.asarray(a, float) * th
                k = (tuple(np.round(w, 13)), p)
                if k not in seen:
                    seen.add(k)
                    out.append(se3.T_from(w, p))
    w, p = palettes.well_conditioned_pose(seed, 43)
    out.append(se3.T_from(w, p))
    return out


def scalars():
    Z = set()
    for t in palettes.angles(True):
        Z.add(t)
        Z.add(-t)
    for z in (1e-6, -1e-6):
        Z.add(float(np.nextafter(z, 0)))
        Z.add(float(np.nextafter(z, 10 * z)))
    Z |= {1e3, -1e3, 0.25}
    return sorted(Z)


_PAL = {}


def pal(tier, seed):
    k = (tier, seed)
    if k in _PAL:
        return _PAL[k]
    P = {}
    P["A"] = palettes.axes(seed)
    P["TH"] = palettes.angles(refined=(tier == "thorough"))
    P["V"] = palettes.translations(seed)
    P["Z"] = scalars()
    T = palettes.poses_T(seed)
    P["Tm"] = T
    Rm, seen = [], set()
    for w, _, Tm in T:
        kk = tuple(np.round(w, 12))
        if kk not in seen:
            seen.add(kk)
            Rm.append(np.ascontiguousarray(Tm[:3, :3]))
    P["Rm"] = Rm
    P["J"] = joints(seed)
    P["Mh"] = home_poses(seed)
    P["PT"] = traj_poses(seed)
    _PAL[k] = P
    return P


def vec(n, k, gen=GEN_A):
    """k = 0: zero, 1..n: basis vector e_k, n+1: generic."""
    if k == 0:
        return np.zeros(n)
    if k <= n:
        return np.eye(n)[k - 1].copy()
    return gen[:n].copy()


def slist(P, idx):
    return np.ascontiguousarray(np.array([P["J"][i] for i in idx]).T)


def window(n, k):
    return [W8[(k + j) % 8] for j in range(n)]


def goals4(n):
    return [np.full(n, 0.3), np.full(n, -1.2), np.array([TH2[j % 2] for j in range(n)]), np.array([TH2[(j + 1) % 2] for j in range(n)])]


def decode(i, dims):
    out = [0] * len(dims)
    for a in range(len(dims) - 1, -1, -1):
        i, out[a] = divmod(i, dims[a])
    return out


def pick_stride(dims, want):
    """Smallest k >= want coprime to every palette size (so that each axis still takes each of its values)."""
    if want <= 1:
        return 1
    k = int(want)
    while any(math.gcd(k, d) != 1 for d in dims if d > 1):
        k += 1
    return k


def matrices(N, n, kind):
    """Deterministic N x n sample matrices: kind 0 zero, 1 / 2 / 3 smooth generic families."""
    if kind == 0:
        return np.zeros((N, n))
    k = np.arange(N)[:, None]
    i = np.arange(n)[None, :]
    if kind == 1:
        return np.ascontiguousarray(0.8 * np.sin(0.7 * k + 1.3 * i + 0.2))
    if kind == 2:
        return np.ascontiguousarray(0.6 * np.cos(0.5 * k - 0.9 * i + 0.4))
    return np.ascontiguousarray(0.5 * np.sin(1.1 * k + 0.3 * i * i - 0.7))


# ----------------------------------------------------------------------------------------------- parts

class Part:
    def __init__(self, name, dims, gen, thin_quick=1, thin_thorough=1, tiers=("quick", "thorough"), weight=1.0):
        self.name, self.dims, self.gen = name, list(dims), gen
        self.thin = {"quick": thin_quick, "thorough": thin_thorough}
        self.tiers = tiers
        self.weight = weight          # rough cost of one index in ms (reference + port), only used to size the shards
        self.total = int(np.prod(self.dims)) if self.dims else 1

    def stride(self, tier):
        return pick_stride(self.dims, self.thin[tier])

    def selected(self, tier):
        return range(0, self.total, self.stride(tier))


def _chain_dims(nj, n, nth):
    return [nj] * n + [nth] * n


def parts(tier, seed):
    P = pal(tier, seed)
    A, TH, V, Z, J, Mh, PT = P["A"], P["TH"], P["V"], P["Z"], P["J"], P["Mh"], P["PT"]
    nJ = len(J)
    out = []

    # ---- rigid-body algebra -------------------------------------------------------------------------------------
    def g_scalar(mi):
        return [("NearZero", (float(Z[mi[0]]),), {})]
    out.append(Part("scalar", [len(Z)], g_scalar, weight=0.02))

    def g_so3(mi):
        a, th = A[mi[0]], TH[mi[1]]
        w = a * th
        W = se3.skew(w)
        R = np.ascontiguousarray(se3.rexp(w))
        tie = {"tie": _tie(w)}
        return [("VecToso3", (w,), {}), ("so3ToVec", (W,), {}), ("AxisAng3", (w,), {}), ("Normalize", (w,), {}),
                ("MatrixExp3", (W,), tie), ("MatrixLog3", (R,), {}), ("RotInv", (R,), {}), ("TestIfSO3", (R,), {}),
                ("DistanceToSO3", (R,), {}), ("ProjectToSO3", (R,), {})]
    out.append(Part("so3", [len(A), len(TH)], g_so3, weight=0.5))

    def g_se3(mi):
        a, th, v = A[mi[0]], TH[mi[1]], V[mi[2]]
        w = a * th
        V6 = np.concatenate([w, v])
        M = se3.hat6(V6)
        R = np.ascontiguousarray(se3.rexp(w))
        T = se3.T_from(w, v)
        tie = {"tie": _tie(w)}
        return [("VecTose3", (V6,), {}), ("se3ToVec", (M,), {}), ("MatrixExp6", (M,), tie), ("AxisAng6", (V6,), tie),
                ("ad", (V6,), {}), ("Normalize", (V6,), {}), ("MatrixLog6", (T,), {}), ("TransInv", (T,), {}),
                ("Adjoint", (T,), {}), ("TransToRp", (T,), {}), ("RpToTrans", (R, v.copy()), {}), ("TestIfSE3", (T,), {}),
                ("DistanceToSE3", (T,), {}), ("ProjectToSE3", (T,), {})]
    out.append(Part("se3", [len(A), len(TH), len(V)], g_se3, weight=0.8))

    def g_screw(mi):
        return [("ScrewToAxis", (V[mi[0]].copy(), A[mi[1]].copy(), float(H_PAL[mi[2]])), {})]
    out.append(Part("screwaxis", [len(V), len(A), len(H_PAL)], g_screw, weight=0.05))

    Rm, Tm = P["Rm"], P["Tm"]

    def g_nm3(mi):
        R = Rm[mi[0]].copy()
        r, c = divmod(mi[1], 3)
        R[r, c] += EPS_NM[mi[2]]
        return [("TestIfSO3", (R,), {}), ("DistanceToSO3", (R,), {}), ("ProjectToSO3", (R,), {})]
    out.append(Part("nonmember_so3", [len(Rm), 9, len(EPS_NM)], g_nm3, weight=0.15))

    def g_nm6(mi):
        T = Tm[mi[0]][2].copy()
        r, c = divmod(mi[1], 4)
        T[r, c] += EPS_NM[mi[2]]
        return [("TestIfSE3", (T,), {}), ("DistanceToSE3", (T,), {}), ("ProjectToSE3", (T,), {})]
    out.append(Part("nonmember_se3", [len(Tm), 16, len(EPS_NM)], g_nm6, weight=0.15))

    def g_nmx(mi):
        """far non-members: reflection (det < 0), singular, scaled, bottom row not (0,0,0,1)"""
        T = Tm[mi[0]][2].copy()
        R = np.ascontiguousarray(T[:3, :3])
        k = mi[1]
        if k == 0:
            R2 = R @ np.diag([1.0, 1.0, -1.0])
        elif k == 1:
            R2 = R.copy()
            R2[:, 2] = R2[:, 1]
        elif k == 2:
            R2 = 1.5 * R
        else:
            R2 = R.copy()
        R2 = np.ascontiguousarray(R2)
        T2 = T.copy()
        T2[:3, :3] = R2
        if k == 3:
            T2[3] = [0.0, 1e-2, 0.0, 1.0]
        res = [("TestIfSO3", (R2,), {}), ("DistanceToSO3", (R2,), {}), ("TestIfSE3", (T2,), {}), ("DistanceToSE3", (T2,), {})]
        if k >= 2:            # ProjectTo* only where the determinant is positive ("matrices close to SO(3)")
            res += [("ProjectToSO3", (R2,), {}), ("ProjectToSE3", (T2,), {})]
        return res
    out.append(Part("nonmember_far", [len(Tm), 4], g_nmx, weight=0.3))

    # ---- chains: forward kinematics and Jacobians --------------------------------------------------------------
    def mk_fk(n, th_pal, win):
        def g(mi):
            if win:
                idx = window(n, mi[0])
                th = np.array([TH2[b] for b in decode(mi[1], [2] * n)])
                M = Mh[mi[2]]
            else:
                idx = mi[:n]
                th = np.array([th_pal[k] for k in mi[n:2 * n]])
                M = Mh[mi[2 * n]]
            S = slist(P, idx)
            return [("FKinSpace", (M.copy(), S, th), {}), ("FKinBody", (M.copy(), S, th), {})]
        return g

    def mk_jac(n, th_pal, win):
        def g(mi):
            if win:
                idx = window(n, mi[0])
                th = np.array([TH2[b] for b in decode(mi[1], [2] * n)])
            else:
                idx = mi[:n]
                th = np.array([th_pal[k] for k in mi[n:2 * n]])
            S = slist(P, idx)
            return [("JacobianSpace", (S, th), {}), ("JacobianBody", (S, th), {})]
        return g
    for n in (1, 2, 3):
        out.append(Part("fk%d" % n, _chain_dims(nJ, n, 4) + [len(Mh)], mk_fk(n, TH4, False), thin_quick=(1, 1, 3)[n - 1], weight=0.13 * n + 0.08))
        out.append(Part("jac%d" % n, _chain_dims(nJ, n, 4), mk_jac(n, TH4, False), weight=0.15 * n + 0.07))
    # thorough: n = 4 complete over the 8 base joint screws (the seed-generic screw takes part for n <= 3)
    out.append(Part("fk4", _chain_dims(8, 4, 4) + [1], mk_fk(4, TH4, False), tiers=("thorough",), weight=0.6))
    out.append(Part("jac4", _chain_dims(8, 4, 4), mk_jac(4, TH4, False), tiers=("thorough",), weight=0.65))
    for n in (4, 5, 6, 7):
        out.append(Part("fkw%d" % n, [8, 2 ** n, len(Mh)], mk_fk(n, None, True), weight=0.12 * n + 0.1))
        out.append(Part("jacw%d" % n, [8, 2 ** n], mk_jac(n, None, True), weight=0.15 * n + 0.05))

    # ---- inverse kinematics -------------------------------------------------------------------------------------
    M_ik = Mh[1]
    AdMinv = se3.adj(se3.tinv(M_ik))

    # goal kinds: 0 = FK of an in-palette joint vector (reachable); 1 = the same pose displaced by a twist whose rotation part
    # (5e-3) and translation part (5e-4) lie *between* the tolerance levels 1e-6 < . < 1e-2 / 1e-3, so that for chains that cannot
    # absorb it exactly one of the two error norms decides the success flag
    D_GOAL = se3.exp6(np.concatenate([5e-3 * unit((0.4, -0.5, 0.77)), 5e-4 * unit((-0.6, 0.3, 0.74))]))

    def mk_ik(n, win):
        def g(mi):
            if win:
                idx = window(n, mi[0])
                thg = goals4(n)[mi[1]]
                gk, st, tl = mi[2], mi[3], mi[4]
            else:
                idx = mi[:n]
                thg = np.array([TH2[k] for k in mi[n:2 * n]])
                gk, st, tl = mi[2 * n], mi[2 * n + 1], mi[2 * n + 2]
            S = slist(P, idx)
            B = np.ascontiguousarray(AdMinv @ S)
            Tg = poe.poe(S, thg) @ M_ik
            if gk:
                Tg = Tg @ D_GOAL
            Tg = np.ascontiguousarray(Tg)
            th0 = thg.copy()
            if st > 0:
                j, o = divmod(st - 1, 3)
                th0[j] += OFFS_IK[o]
            eo, ev = TOLS_IK[tl]
            return [("IKinSpace", (S, M_ik.copy(), Tg, th0, eo, ev), {"kind": "ik"}),
                    ("IKinBody", (B, M_ik.copy(), Tg.copy(), th0.copy(), eo, ev), {"kind": "ik"})]
        return g
    out.append(Part("ik1", [nJ, 2, 2, 4, 3], mk_ik(1, False), weight=1.5))
    out.append(Part("ik2", [nJ, nJ, 2, 2, 2, 7, 3], mk_ik(2, False), weight=3.0))
    out.append(Part("ik3", [nJ] * 3 + [2] * 3 + [2, 10, 3], mk_ik(3, False), thin_quick=59, thin_thorough=5, weight=2.8))
    for n in (4, 5, 6, 7):
        out.append(Part("ikw%d" % n, [8, 4, 2, 1 + 3 * n, 3], mk_ik(n, True), thin_quick=11, weight=2.0 * n))

    # ---- dynamics -----------------------------------------------------------------------------------------------
    def chain_of(n, win, mi):
        """-> (Slist, theta, rest of the multi-index)"""
        if win:
            idx = window(n, mi[0])
            th = np.array([TH2[b] for b in decode(mi[1], [2] * n)])
            return slist(P, idx), th, mi[2:]
        thp = TH4 if n <= 2 else TH2
        idx = mi[:n]
        th = np.array([thp[k] for k in mi[n:2 * n]])
        return slist(P, idx), th, mi[2 * n:]

    def cdims(n, win):
        if win:
            return [8, 2 ** n]
        return [nJ] * n + [4 if n <= 2 else 2] * n

    def star(n):
        """(qdd | tau, g, Ftip) combinations: one factor at a time, plus three mixed ones."""
        c = [(0, 0, 0)]
        c += [(k, 0, 0) for k in range(1, n + 2)]
        c += [(0, k, 0) for k in (1, 2)]
        c += [(0, 0, k) for k in range(1, 8)]
        c += [(n + 1, 1, 7), (n + 1, 2, 7), (1, 1, 3)]
        return c

    def mk_dyn(fn, n, win, full):
        st = star(n)

        def g(mi):
            S, th, r = chain_of(n, win, mi)
            Ml, Gl = link_params(n, r[0])
            r = r[1:]
            if fn == "MassMatrix":
                return [(fn, (th, Ml, Gl, S), {})]
            if fn == "VelQuadraticForces":
                return [(fn, (th, vec(n, r[0]), Ml, Gl, S), {})]
            if fn == "GravityForces":
                return [(fn, (th, G_PAL[r[0]].copy(), Ml, Gl, S), {})]
            if fn == "EndEffectorForces":
                return [(fn, (th, F_PAL[r[0]].copy(), Ml, Gl, S), {})]
            if fn in ("InverseDynamics", "ForwardDynamics"):
                gen2 = GEN_B if fn == "InverseDynamics" else GEN_C
                if full:
                    a, gi, fi = r[1], r[2], r[3]
                else:
                    a, gi, fi = st[r[1]]
                return [(fn, (th, vec(n, r[0]), vec(n, a, gen2), G_PAL[gi].copy(), F_PAL[fi].copy(), Ml, Gl, S), {})]
            if fn == "ComputedTorque":
                qd = vec(n, (0, 1, n + 1)[r[0]])
                eint = vec(n, (0, n + 1)[r[1]], GEN_C)
                Kp, Ki, Kd = ((1.3, 1.2, 1.1), (20.0, 10.0, 18.0), (0.0, 0.0, 0.0))[r[3]]
                return [(fn, (th, qd, eint, G_PAL[r[2]].copy(), Ml, Gl, S, th + 0.1 * GEN_B[:n], GEN_C[:n].copy(),
                              GEN_A[:n] * 2.0, Kp, Ki, Kd), {})]
            raise HarnessError("unknown dynamics function " + fn)
        return g

    def dyn_dims(fn, n, win, full):
        d = cdims(n, win) + [4]
        if fn == "VelQuadraticForces":
            d += [n + 2]
        elif fn == "GravityForces":
            d += [3]
        elif fn == "EndEffectorForces":
            d += [8]
        elif fn in ("InverseDynamics", "ForwardDynamics"):
            d += [n + 2] + ([n + 2, 3, 8] if full else [len(star(n))])
        elif fn == "ComputedTorque":
            d += [3, 2, 3, 3]
        return d

    # thinning factors (quick, thorough) per function and chain class; cost of the reference grows ~ n (ID) .. n^2 (FD)
    THIN = {
        ("InverseDynamics", 1): (1, 1), ("InverseDynamics", 2): (37, 3), ("InverseDynamics", 3): (127, 6),
        ("MassMatrix", 1): (1, 1), ("MassMatrix", 2): (2, 1), ("MassMatrix", 3): (11, 1),
        ("VelQuadraticForces", 1): (1, 1), ("VelQuadraticForces", 2): (3, 1), ("VelQuadraticForces", 3): (23, 1),
        ("GravityForces", 1): (1, 1), ("GravityForces", 2): (2, 1), ("GravityForces", 3): (13, 1),
        ("EndEffectorForces", 1): (1, 1), ("EndEffectorForces", 2): (5, 1), ("EndEffectorForces", 3): (37, 2),
        ("ForwardDynamics", 1): (5, 1), ("ForwardDynamics", 2): (181, 29), ("ForwardDynamics", 3): (331, 67),
        ("ComputedTorque", 1): (1, 1), ("ComputedTorque", 2): (41, 3), ("ComputedTorque", 3): (331, 23),
    }
    THIN_W = {"InverseDynamics": (67, 11), "MassMatrix": (5, 1), "VelQuadraticForces": (7, 1), "GravityForces": (3, 1),
              "EndEffectorForces": (7, 1), "ForwardDynamics": (661, 131), "ComputedTorque": (151, 29)}
    W_ID = {1: 0.25, 2: 0.4, 3: 0.6, 4: 0.8, 5: 1.0, 6: 1.2, 7: 1.4}
    MULT = {"InverseDynamics": lambda n: 1, "MassMatrix": lambda n: n, "VelQuadraticForces": lambda n: 1,
            "GravityForces": lambda n: 1, "EndEffectorForces": lambda n: 1, "ForwardDynamics": lambda n: n + 3,
            "ComputedTorque": lambda n: n + 1}
    short = {"InverseDynamics": "id", "MassMatrix": "mm", "VelQuadraticForces": "vq", "GravityForces": "gf",
             "EndEffectorForces": "ef", "ForwardDynamics": "fd", "ComputedTorque": "ct"}
    for fn in short:
        for n in (1, 2, 3):
            full = fn in ("InverseDynamics", "ForwardDynamics") and n <= 2
            tq, tt = THIN[(fn, n)]
            out.append(Part("%s%d" % (short[fn], n), dyn_dims(fn, n, False, full), mk_dyn(fn, n, False, full), tq, tt,
                            weight=1.6 * W_ID[n] * MULT[fn](n)))
        for n in (4, 5, 6, 7):
            tq, tt = THIN_W[fn]
            out.append(Part("%sw%d" % (short[fn], n), dyn_dims(fn, n, True, False), mk_dyn(fn, n, True, False), tq, tt,
                            weight=1.6 * W_ID[n] * MULT[fn](n)))

    # ---- Euler step, time scalings, trajectories ---------------------------------------------------------------
    NE = [1, 2, 3, 7]
    DT = [0.0, 0.01, 0.1, 1.0]

    def g_euler(mi):
        n = NE[mi[0]]
        vs = [(np.zeros(n), GEN_A[:n], GEN_B[:n])[mi[1]], (np.zeros(n), GEN_B[:n], GEN_C[:n])[mi[2]],
              (np.zeros(n), GEN_C[:n], GEN_A[:n])[mi[3]]]
        return [("EulerStep", (vs[0].copy(), vs[1].copy(), vs[2].copy(), float(DT[mi[4]])), {})]
    out.append(Part("euler", [4, 3, 3, 3, 4], g_euler, weight=0.05))

    TF = [0.5, 2.0]

    def g_ts(mi):
        Tf = TF[mi[0]]
        t = Tf * mi[1] / 10.0 if mi[1] < 10 else Tf
        return [("CubicTimeScaling", (Tf, float(t)), {}), ("QuinticTimeScaling", (Tf, float(t)), {})]
    out.append(Part("timescale", [2, 11], g_ts, weight=0.02))

    def g_jt(mi):
        n = NE[mi[0]]
        s = (np.zeros(n), GEN_A[:n].copy(), np.full(n, -1.2))[mi[1]]
        e = (s.copy(), np.zeros(n), GEN_B[:n].copy(), np.full(n, 0.3))[mi[2]]
        return [("JointTrajectory", (s, e, TF[mi[3]], int(N_TRAJ[mi[4]]), (3, 5)[mi[5]]), {})]
    out.append(Part("jointtraj", [4, 3, 4, 2, 11, 2], g_jt, weight=0.15))

    def g_xt(mi):
        Xs, Xe = PT[mi[0]].copy(), PT[mi[1]].copy()
        a = (Xs, Xe, TF[mi[2]], int(N_TRAJ[mi[3]]), (3, 5)[mi[4]])
        return [("ScrewTrajectory", a, {}), ("CartesianTrajectory", tuple(x.copy() if isinstance(x, np.ndarray) else x for x in a), {})]
    out.append(Part("posetraj", [len(PT), len(PT), 2, 11, 2], g_xt, thin_quick=23, thin_thorough=1, weight=3.0))

    # ---- dynamics trajectories and simulated control -----------------------------------------------------------
    def tchain(n, win, mi):
        if win:
            return slist(P, window(n, mi[0])), mi[1:]
        return slist(P, mi[:n]), mi[n:]

    def tdims(n, win):
        return [8] if win else [nJ] * n

    def mk_idt(n, win):
        def g(mi):
            S, r = tchain(n, win, mi)
            Ml, Gl = link_params(n, r[0])
            N = N_DYN[r[5]]
            return [("InverseDynamicsTrajectory", (matrices(N, n, 1), matrices(N, n, (0, 2)[r[1]]), matrices(N, n, (0, 3)[r[2]]),
                                                   G_PAL[r[3]].copy(), matrices(N, 6, (0, 2)[r[4]]), Ml, Gl, S), {})]
        return g

    def mk_fdt(n, win):
        def g(mi):
            S, r = tchain(n, win, mi)
            Ml, Gl = link_params(n, r[0])
            N, ir = N_DYN[r[5]], INTRES[r[6]]
            return [("ForwardDynamicsTrajectory", (GEN_A[:n] * 0.5, (np.zeros(n), GEN_B[:n] * 0.5)[r[1]], matrices(N, n, (0, 1)[r[2]]),
                                                   G_PAL[r[3]].copy(), matrices(N, 6, (0, 3)[r[4]]), Ml, Gl, S, 0.01, int(ir)),
                     {"tol": TOL_INT})]
        return g

    def mk_sim(n, win):
        def g(mi):
            S, r = tchain(n, win, mi)
            Ml, Gl = link_params(n, r[0])
            # r[1] = 1: the controller's model differs mildly from the plant (inertias +10 %, other gravity estimate); a gross
            # mismatch (mass 0.1 <-> 50) makes the explicit Euler loop diverge to 1e+80 and the comparison meaningless
            Mt, Gt = Ml.copy(), Gl * (1.0, 1.1)[r[1]]
            gt = (G_PAL[r[3]] * (1.0, 0.9)[r[1]] + (0.0, 0.05)[r[1]]).copy()
            N, ir = N_DYN[r[5]], INTRES[r[6]]
            Kp, Ki, Kd = ((20.0, 10.0, 18.0), (1.3, 1.2, 1.1))[r[2]]
            return [("SimulateControl", (GEN_A[:n] * 0.5, GEN_B[:n] * 0.5, G_PAL[r[3]].copy(), matrices(N, 6, (0, 3)[r[4]]), Ml, Gl, S,
                                         matrices(N, n, 1), matrices(N, n, 2), matrices(N, n, 3), gt, Mt, Gt, Kp, Ki, Kd, 0.01, int(ir)),
                     {"tol": TOL_INT})]
        return g
    TT = {"idt": {1: (1, 1), 2: (5, 1), 3: (67, 7), "w": (23, 1)},
          "fdt": {1: (11, 1), 2: (211, 29), 3: (2801, 557), "w": (461, 61)},
          "sim": {1: (23, 5), 2: (307, 67), 3: (4201, 1151), "w": (613, 101)}}
    for key, mk, extra in (("idt", mk_idt, [4, 2, 2, 3, 2, 4]), ("fdt", mk_fdt, [4, 2, 2, 3, 2, 4, 3]), ("sim", mk_sim, [4, 2, 2, 3, 2, 4, 3])):
        for n in (1, 2, 3, 4, 5, 6, 7):
            win = n >= 4
            tq, tt = TT[key]["w" if win else n]
            steps = 5.5 if key == "idt" else 16.0
            mult = 1 if key == "idt" else (n + 3) * (2 if key == "sim" else 1)
            out.append(Part("%s%s%d" % (key, "w" if win else "", n), tdims(n, win) + extra, mk(n, win), tq, tt,
                            weight=1.6 * W_ID[n] * steps * mult))
    return [p for p in out if tier in p.tiers]


def _tie(w):
    n = float(np.linalg.norm(w))
    return abs(n - CUTOFF) <= 1e-12 * CUTOFF


# ----------------------------------------------------------------------------------------------- comparison

def enc_args(args):
    return [a.tolist() if isinstance(a, np.ndarray) else (int(a) if isinstance(a, (int, np.integer)) and not isinstance(a, bool) else float(a))
            for a in args]


def dec_args(js):
    return tuple(np.ascontiguousarray(np.array(a, dtype=np.float64)) if isinstance(a, list) else a for a in js)


def fresh(args):
    return [np.array(a, dtype=np.float64, order="C", copy=True) if isinstance(a, np.ndarray) else a for a in args]


def _rr(v):
    a = np.abs(v)
    if a.size and a.max() > 1.0:
        return canon.round_rel(v, 9)
    return np.round(v, 9) + 0.0


def case_key(fname, args):
    h = hashlib.blake2b(fname.encode(), digest_size=8)
    for a in args:
        if isinstance(a, np.ndarray):
            h.update(repr(a.shape).encode())
            h.update(_rr(a.ravel()).tobytes())
        elif isinstance(a, (int, np.integer)):
            h.update(b"i%d;" % int(a))
        else:
            h.update(_rr(np.array([a], float)).tobytes())
    return int.from_bytes(h.digest(), "little")


DIVERGED = 1e6


def _maxabs(x):
    return max([float(np.abs(v).max()) for sh, v in flatten_out(x) if sh != "tuple" and v.size] or [0.0])


class ShapeMismatch(Exception):
    pass


def flatten_out(x):
    """-> list of (shape, float vector): tuples are walked element-wise, lists of arrays are stacked."""
    if isinstance(x, tuple):
        out = []
        for y in x:
            out += flatten_out(y)
        return [("tuple", len(x))] + out
    try:
        a = np.asarray(x, dtype=float)
    except Exception as e:
        raise ShapeMismatch("result is not a numeric array: %r" % (e,))
    return [(a.shape, a.ravel())]


def compare(p, r, tol):
    """-> (status, value): status in ok / shape / value / ref_not_finite; value = worst relative error or a description."""
    try:
        fr = flatten_out(r)
    except ShapeMismatch as e:
        raise HarnessError("reference output not numeric: %s" % e)
    for item in fr:
        if item[0] != "tuple" and not np.all(np.isfinite(item[1])):
            return "ref_not_finite", None
    try:
        fp = flatten_out(p)
    except ShapeMismatch as e:
        return "shape", str(e)
    if len(fp) != len(fr):
        return "shape", {"port_parts": len(fp), "ref_parts": len(fr)}
    worst = 0.0
    for a, b in zip(fp, fr):
        if a[0] == "tuple" or b[0] == "tuple":
            if a != b:
                return "shape", {"port": list(a), "ref": list(b)}
            continue
        if a[0] != b[0]:
            return "shape", {"port": list(a[0]), "ref": list(b[0])}
        if a[1].size == 0:
            continue
        e = np.abs(a[1] - b[1]) / np.maximum(1.0, np.abs(b[1]))
        e = float(np.max(np.where(np.isfinite(e), e, np.inf)))
        worst = max(worst, e)
    return ("ok" if worst <= tol else "value"), worst


class Eval:
    def __init__(self, acc=None):
        self.acc = acc or lattice.Acc(max_viol=40)
        self.mr, self.ref = _mr(), _ref()
        self.plt = _quiet_matplotlib()
        self.keys = []
        self.per_fn = {}
        self.held = None       # (fname, enc args, [arrays of the port's previous result], [their snapshots])
        self.bufs = {}         # fname -> list of persistent argument arrays, overwritten in place from case to case
        self.shared_seen = {}  # fname -> cases already tried with one array object passed for two parameters

    def _count(self, fname, what):
        d = self.per_fn.setdefault(fname, {})
        d[what] = d.get(what, 0) + 1

    def _call(self, lib, fname, args):
        try:
            f = getattr(lib, fname)
        except AttributeError as e:
            return False, e
        try:
            return True, f(*fresh(args))
        except Exception as e:          # a library call that raises is an observation, not a harness crash
            if lib is self.ref or not isinstance(e, OSError):
                return False, e
        finally:
            if fname == "SimulateControl":
                self.plt.close("all")
        # An OSError out of a numeric kernel comes from Numba's on-disk cache (its directory is pruned by concurrent runs of
        # other trees, mc/env.py keeps the 6 newest): environment, not library.  One more attempt decides; a library defect
        # raises again and is reported, a transient one is counted.
        try:
            out = f(*fresh(args))
            self.acc.outcome("transient_oserror_in_port_retried")
            return True, out
        except Exception as e:
            return False, e
        finally:
            if fname == "SimulateControl":
                self.plt.close("all")

    @staticmethod
    def _arrays(out):
        if isinstance(out, np.ndarray):
            return [out]
        if isinstance(out, (tuple, list)):
            r = []
            for x in out:
                r += Eval._arrays(x)
            return r
        return []

    def _hold(self, fname, args, out):
        """A result is a value: the port's NEXT call (any function) must not change what the previous call returned.
        (A kernel that hands out a module-level scratch buffer as its result is only wrong for a caller who keeps it.)"""
        prev = self.held
        if prev is not None:
            for a, snap in zip(prev[2], prev[3]):
                if a.shape != snap.shape or not np.array_equal(a, snap, equal_nan=True):
                    self.acc.violation("earlier_result_overwritten",
                                       {"fn": prev[0], "args": prev[1], "then_fn": fname, "then_args": enc_args(args), "kind": "held"},
                                       float(np.abs(a - snap).max()) if a.shape == snap.shape else "shape changed", 0.0, {},
                                       {"fn_" + prev[0]: True})
                    break
        arrs = self._arrays(out)
        self.held = (fname, enc_args(args), arrs, [a.copy() for a in arrs]) if arrs else None

    def _reused_buffers(self, fname, args, p_fresh, case, fl):
        """The caller keeps ONE set of argument arrays per function (its robot description, its state vectors) and
        overwrites them in place from call to call.  The port must answer for the values the arrays hold now: exactly what
        it answers for fresh copies.  (A memo keyed on the identity of an argument array is only wrong here.)"""
        if fname in ("SimulateControl", "ForwardDynamicsTrajectory", "InverseDynamicsTrajectory"):
            return                                  # integrators: covered by the held-result check, too slow to run twice
        shapes = [a.shape if isinstance(a, np.ndarray) else None for a in args]
        b = self.bufs.get(fname)
        if b is None or [x.shape if isinstance(x, np.ndarray) else None for x in b] != shapes:
            b = self.bufs[fname] = [np.array(a, dtype=np.float64, order="C", copy=True) if isinstance(a, np.ndarray) else a for a in args]
            first = True
        else:
            first = False
            try:
                getattr(self.mr, fname)(*b)          # the buffers still hold the previous case: whatever the port remembers, it remembers now
            except Exception:
                pass
            for i, a in enumerate(args):
                if isinstance(a, np.ndarray):
                    b[i][...] = a
                else:
                    b[i] = a
        try:
            out = getattr(self.mr, fname)(*b)
        except Exception as e:
            self.acc.violation("reused_argument_buffers", dict(case, kind="reused", first=first), repr(e)[:200], None, {}, fl)
            return
        st, val = compare(out, p_fresh, 1e-12)
        if st not in ("ok", "ref_not_finite"):
            prev = self.bufs.get(("prev", fname))
            self.acc.violation("reused_argument_buffers", dict(case, kind="reused", prev_args=prev), val, 1e-12, {}, fl)
        self.bufs[("prev", fname)] = enc_args(args)

    def _shared_argument(self, fname, args, case, fl):
        """The caller passes ONE array object for two parameters of the same shape (a state whose velocity equals its
        position, a start that is also the goal): the port must answer what the reference answers for two separate arrays
        holding those values.  (A kernel that updates one argument in place and then reads the other is only wrong here.)
        First 8 cases of every function that has such a pair; integrators excepted (their step function is a case of its own)."""
        if fname in INTEGRATED or fname == "InverseDynamicsTrajectory":
            return
        idx = [i for i, a in enumerate(args) if isinstance(a, np.ndarray) and a.ndim >= 1]
        pair = next(((i, j) for k, i in enumerate(idx) for j in idx[k + 1:] if args[i].shape == args[j].shape), None)
        if pair is None:
            return
        n = self.shared_seen.get(fname, 0)
        if n >= 8:
            return
        self.shared_seen[fname] = n + 1
        i, j = pair
        sep = [np.array(a, dtype=np.float64, copy=True) if isinstance(a, np.ndarray) else a for a in args]
        sep[j] = sep[i].copy()
        try:
            want = getattr(self.ref, fname)(*sep)
        except Exception:
            return
        sh = [np.array(a, dtype=np.float64, copy=True) if isinstance(a, np.ndarray) else a for a in args]
        sh[j] = sh[i]
        c = dict(case, kind="shared_argument", shared=[i, j])
        self.acc.evals += 1
        try:
            out = getattr(self.mr, fname)(*sh)
        except Exception as e:
            self.acc.violation("one_array_for_two_parameters", c, repr(e)[:200], None, {}, fl)
            return
        st, val = compare(out, want, 1e-9)
        if st not in ("ok", "ref_not_finite"):
            self.acc.violation("one_array_for_two_parameters", c, val, 1e-9, {}, fl)

    def case(self, fname, args, opts, part=None, idx=None):
        if opts.get("kind") == "ik":
            return self.case_ik(fname, args, part, idx)
        acc = self.acc
        acc.evals += 1
        self._count(fname, "evaluations")
        tol = opts.get("tol", TOL)
        okr, r = self._call(self.ref, fname, args)
        okp, p = self._call(self.mr, fname, args)
        case = {"fn": fname, "args": enc_args(args), "tol": tol, "tie": bool(opts.get("tie")), "part": part, "idx": idx}
        fl = {"fn_" + fname: True}
        if not okr:
            acc.skip("both_raise" if not okp else "reference_raises_only")
            return
        if not okp:
            acc.violation("raised_where_reference_returns", case, repr(p)[:300], None, {}, fl)
            self._count(fname, "port_raised")
            return
        self._hold(fname, args, p)
        self._reused_buffers(fname, args, p, case, fl)
        self._shared_argument(fname, args, case, fl)
        st, val = compare(p, r, tol)
        if st == "ref_not_finite":
            acc.skip("reference_not_finite")
            return
        if fname in INTEGRATED and _maxabs(r) > DIVERGED:
            acc.skip("integration_diverged")         # explicit Euler blew up in the reference itself: rounding decides the digits
            return
        if st == "shape":
            acc.violation("shape", case, val, None, {}, fl)
            return
        if st == "value" and opts.get("tie"):
            acc.skip("cutoff_tie")
            return
        self.keys.append(case_key(fname, args))
        self._count(fname, "compared")
        acc.resid(fname, val)
        if st == "value":
            acc.violation("value", case, val, tol, {"rel_err": val}, fl)

    # --- iterative IK -------------------------------------------------------------------------------------------
    def case_ik(self, fname, args, part=None, idx=None):
        acc = self.acc
        acc.evals += 1
        self._count(fname, "evaluations")
        X, M, Tg, th0, eomg, ev = args
        space = fname == "IKinSpace"
        S = X if space else se3.adj(M) @ X
        n = len(th0)
        case = {"fn": fname, "args": enc_args(args), "kind": "ik", "part": part, "idx": idx}
        fl = {"fn_" + fname: True}
        okr, r = self._call(self.ref, fname, args)
        okp, p = self._call(self.mr, fname, args)
        if not okr:
            acc.skip("both_raise" if not okp else "reference_raises_only")
            return
        if not okp:
            acc.violation("raised_where_reference_returns", case, repr(p)[:300], None, {}, fl)
            return
        try:
            thr, sr = np.asarray(r[0], float), bool(r[1])
            thp, sp = np.asarray(p[0], float), bool(p[1])
            if len(p) != 2 or thp.shape != thr.shape:
                raise ShapeMismatch()
        except Exception:
            acc.violation("shape", case, {"port": repr(p)[:200], "ref": repr(r)[:200]}, None, {}, fl)
            return
        if not np.all(np.isfinite(thr)):
            acc.skip("reference_not_finite")
            return
        self.keys.append(case_key(fname, args))
        self._count(fname, "compared")
        acc.outcome("ik_%s_%s" % ("port_ok" if sp else "port_fail", "ref_ok" if sr else "ref_fail"))
        # (1) a claimed success meets the requested tolerances, recomputed with the independent PoE oracle
        if sp:
            rot = np.abs(thp) * np.linalg.norm(S[:3], axis=0)
            if np.all(np.isfinite(thp)) and np.any((rot > 0) & (rot < 2 * CUTOFF)):
                acc.skip("ik_recheck_inside_exp_cutoff")        # the port's FK replaces such a joint rotation by the identity
            else:
                eo_, ev_ = ik_errors(S, M, Tg, thp, space)
                acc.resid("ik_claimed_omg_over_tol", eo_ / eomg)
                acc.resid("ik_claimed_v_over_tol", ev_ / ev)
                if not (eo_ <= eomg * (1 + 1e-9) + 1e-12 and ev_ <= ev * (1 + 1e-9) + 1e-12):
                    acc.violation("ik_claimed_success_misses_tolerance", case, {"err_omg": eo_, "err_v": ev_, "theta": thp},
                                  max(eomg, ev), {"err_omg": eo_, "err_v": ev_}, fl)
        # (2) stability of the port's own answer under a 1e-12 perturbation of the start
        if not np.all(np.isfinite(thp)):
            if sr:
                acc.violation("value", case, {"theta_port": thp, "theta_ref": thr}, TOL, {}, fl)
            return
        sig = sigma_min(S, thp)
        bound = 1e-6 + (eomg + ev) / max(sig, 1e-300)
        a2 = list(args)
        a2[3] = th0 + 1e-12 * np.array([(-1.0) ** j for j in range(n)])
        ok2, p2 = self._call(self.mr, fname, a2)
        stable = bool(ok2 and bool(p2[1]) == sp and np.all(np.isfinite(p2[0])))
        if stable:
            d2 = float(np.abs(np.asarray(p2[0]) - thp).max())
            if sp:          # converged: the perturbed run must land on the same solution (where the solution is isolated)
                stable = sig < 0.05 or d2 <= bound
            else:           # not converged: the last iterate must depend continuously on the start
                stable = d2 <= 1e-6 * max(1.0, float(np.abs(thp).max()))
        if not stable:
            acc.skip("ik_chaotic")
            return
        if sp != sr:
            acc.violation("ik_success_flag_differs", case, {"port": sp, "ref": sr, "theta_port": thp, "theta_ref": thr}, None,
                          {"sigma_min": sig}, fl)
            return
        if sp and sr:
            if sig < 0.05:
                acc.skip("ik_rank_deficient_solution")
                return
            d = float(np.abs(thp - thr).max())
            acc.resid("ik_solution_diff_over_bound", d / bound)
            acc.outcome("ik_solutions_compared")
            if d > bound:
                acc.violation("ik_solution_differs", case, {"diff": d, "theta_port": thp, "theta_ref": thr}, bound,
                              {"sigma_min": sig, "diff": d}, fl)


def ik_errors(S, M, Tg, th, space):
    T = poe.poe(S, th) @ M
    Vb = se3.log6(se3.tinv(T) @ Tg)
    V = se3.adj(T) @ Vb if space else Vb
    return float(np.linalg.norm(V[:3])), float(np.linalg.norm(V[3:]))


def sigma_min(S, th):
    n = S.shape[1]
    if n > 6:
        return 0.0
    return float(np.linalg.svd(poe.jac_space(S, th), compute_uv=False)[n - 1])


# ----------------------------------------------------------------------------------------------- workers / run

def work(p):
    PS = {q.name: q for q in parts(p["tier"], p["seed"])}
    part = PS[p["part"]]
    E = Eval()
    sel = part.selected(p["tier"])
    t0 = time.process_time()
    for k in range(p["lo"], p["hi"]):
        i = sel[k]
        mi = decode(i, part.dims)
        for fname, args, opts in part.gen(mi):
            E.case(fname, args, opts, part.name, i)
        if k == p["lo"] and p["lo"] == 0:
            fname, args, opts = part.gen(mi)[-1]
            E.acc.sample({"part": part.name, "index": i, "fn": fname, "args": _brief(args)}, cap=1)
    res = E.acc.result()
    res["hk"] = np.unique(np.array(E.keys, dtype=np.uint64)).tobytes()
    res["per_fn"] = E.per_fn
    res["part"] = part.name
    res["cpu_s"] = time.process_time() - t0
    return res


def _brief(args):
    out = []
    for a in args:
        if isinstance(a, np.ndarray):
            out.append(np.round(a, 6).tolist() if a.size <= 42 else "array%s" % (a.shape,))
        else:
            out.append(a)
    return out


def rule_text(tier, PS):
    thinned = ["%s: every %dth of %d" % (q.name, q.stride(tier), q.total) for q in PS if q.stride(tier) > 1]
    return ("per shared function: complete row-major Cartesian product of its argument palettes (rotation axes x angles x translations; "
            "joint-screw chains J^n (6 revolute + 2 prismatic + 1 seed-generic screw), n<=3%s, x joint values {0,1e-7,0.3,-1.2}^n "
            "({0.3,-1.2}^3 for dynamics and IK goals at n=3); cyclic windows n=4..7 of a fixed 8-joint sequence x {0.3,-1.2}^n; IK goals = FK of "
            "such a joint vector, exact or displaced by a fixed (5e-3, 5e-4) twist, starts = that joint vector + {0,0.02,0.3,2.0} e_i, "
            "x 3 tolerance pairs; "
            "4 link-parameter schedules (4 link frames, 2 SPD inertias, masses 0.1/50); qd in {0,e_i,generic}; (qdd|tau, g, Ftip) complete "
            "product for n<=2 and one-factor-at-a-time star + 3 mixed for n>=3; N=2..12 x both scalings; N in {2,3,5,12} x intRes in {1,2,8}); "
            "each case = one port call and one reference call on equal float64 C-contiguous arguments. Parts too costly for this tier are "
            "thinned deterministically to every k-th multi-index, k the smallest integer >= the target coprime to every palette size, so "
            "that every value of every palette still occurs [%s]. A case is non-trivial when both libraries returned and the reference "
            "result is finite (it was actually compared); distinct = distinct blake2b key of (function name, arguments rounded to 9 "
            "significant digits)." % (" (n=4 over the 8 base screws for FK/Jacobians)" if tier == "thorough" else "", "; ".join(thinned) or "none"))


def run(ctx):
    PS = parts(ctx.tier, ctx.seed)
    only = [x for x in os.environ.get("C02_PARTS", "").split(",") if x]     # debugging aid: restrict to parts by name prefix
    if only:
        PS = [q for q in PS if any(q.name.startswith(o) for o in only)]
        ctx.notes.append("PARTIAL RUN: C02_PARTS=%s" % ",".join(only))
    names = set()
    # which functions the part table reaches (generated from one index per part, no library call)
    for q in PS:
        for fname, _, _ in q.gen(decode(0, q.dims)):
            names.add(fname)
    if names != set(SHARED) and not only:
        raise HarnessError("argument generators do not cover the 47 shared names: missing %s extra %s"
                           % (sorted(set(SHARED) - names), sorted(names - set(SHARED))))
    ref = _ref()
    missing = [f for f in SHARED if not hasattr(ref, f)]
    if missing:
        raise HarnessError("vendored reference lacks " + ", ".join(missing))
    payloads = []
    W = ctx.workers
    for q in PS:
        nsel = len(q.selected(ctx.tier))
        est_ms = nsel * q.weight
        target_ms = 4000.0 if ctx.tier == "quick" else 15000.0
        nsh = int(max(1, min(nsel, math.ceil(est_ms / target_ms))))
        for lo, hi in shards(nsel, nsh):
            payloads.append(({"part": q.name, "lo": lo, "hi": hi, "seed": ctx.seed, "tier": ctx.tier}, (hi - lo) * q.weight))
    order = sorted(range(len(payloads)), key=lambda i: -payloads[i][1])      # heavy shards first, results keyed by part
    ctx.log("C02: %d parts, %d shards, %d selected multi-indices" % (len(PS), len(payloads), sum(len(q.selected(ctx.tier)) for q in PS)))
    with ctx.pool() as pool:
        res = pool.map(MOD, "work", [payloads[i][0] for i in order], deadline=ctx.deadline)
    complete = len(res) == len(payloads) and not only
    by = {}
    for r in res:
        by.setdefault(r["part"], []).append(r)
    merged, allk, per_fn, cpu = [], [], {}, {}
    for q in PS:
        rs = by.get(q.name, [])
        m = lattice.merge(rs)
        hk = [np.frombuffer(r["hk"], dtype=np.uint64) for r in rs]
        u = np.unique(np.concatenate(hk)) if hk else np.zeros(0, np.uint64)
        allk.append(u)
        m["ntc"] = int(u.size)
        m["keys"] = set()
        m["complete"] = complete
        merged.append((q.name, m))
        cpu[q.name] = round(sum(r["cpu_s"] for r in rs), 1)
        for r in rs:
            for f, d in r["per_fn"].items():
                t = per_fn.setdefault(f, {})
                for k, v in d.items():
                    t[k] = t.get(k, 0) + v
    lattice.fill(ctx, merged, rule_text(ctx.tier, PS),
                 {"axes": len(pal(ctx.tier, ctx.seed)["A"]), "angles": len(pal(ctx.tier, ctx.seed)["TH"]),
                  "translations": len(pal(ctx.tier, ctx.seed)["V"]), "joint_screws": len(pal(ctx.tier, ctx.seed)["J"]),
                  "home_poses": len(pal(ctx.tier, ctx.seed)["Mh"]), "trajectory_poses": len(pal(ctx.tier, ctx.seed)["PT"]),
                  "member_poses": len(pal(ctx.tier, ctx.seed)["Tm"]), "link_parameter_schedules": 4,
                  "parts": {q.name: {"dims": q.dims, "stride": q.stride(ctx.tier)} for q in PS}})
    # report one violation per (clause, function) first, so that no defect hides behind a flood from another one
    buckets = {}
    for v in ctx.violations:
        buckets.setdefault((v["clause"], v["case"].get("fn")), []).append(v)
    ordered = []
    for rank in range(max([len(b) for b in buckets.values()] or [0])):
        for k in sorted(buckets):
            if rank < len(buckets[k]):
                ordered.append(buckets[k][rank])
    ctx.violations[:] = ordered
    ctx.coverage["violations_by_function"] = {"%s/%s" % k: len(b) for k, b in sorted(buckets.items())}
    glob = int(np.unique(np.concatenate(allk)).size) if allk else 0
    ctx.coverage["distinct_nontrivial"] = glob
    ctx.coverage["programs"] = len(SHARED)
    # worst residual and counts per function, aggregated over the parts
    wf = {}
    for name, m in merged:
        for k, v in m["worst"].items():
            if not (v <= wf.get(k, -1.0)):
                wf[k] = v
    for f in SHARED:
        per_fn.setdefault(f, {})["worst_rel_err"] = wf.get(f)
    ctx.coverage["per_function"] = per_fn
    ctx.coverage["cpu_s_per_part"] = cpu
    sk = {}
    for name, m in merged:
        for k, v in m["skipped"].items():
            sk[k] = sk.get(k, 0) + v
    ctx.coverage["skipped_total"] = sk
    smp = []
    for name, m in merged:
        smp += m["samples"][:1]
    step = max(1, len(smp) // 12)
    ctx.coverage["samples"] = smp[::step][:12]
    never = [f for f in SHARED if per_fn.get(f, {}).get("evaluations", 0) == 0]
    if never and complete and not only:
        raise HarnessError("no case was generated for: " + ", ".join(never))
    ctx.assumptions += ["reference = vendored modern_robotics 1.1.1 core.py (never the site-packages copy)",
                        "float64 C-contiguous arguments only; each library gets its own fresh copies",
                        "1e-9 relative to max(1,|ref|) element-wise; 1e-7 for ForwardDynamicsTrajectory and SimulateControl",
                        "a mismatch on an argument whose rotation norm is within 1e-12 relative of the 1e-6 cut-off is a tie on a "
                        "discontinuity of the shared algorithm and is skipped (counted as cutoff_tie)",
                        "IK: solutions compared only where sigma_min(J) >= 0.05 and the port's answer is stable under a 1e-12 start perturbation"]
    ctx.log("C02: evaluations=%d distinct=%d skipped=%s" % (ctx.coverage["evaluations"], glob, sk))


# ----------------------------------------------------------------------------------------------- replay

def replay(rec):
    c = rec["case"]
    args = dec_args(c["args"])
    E = Eval(lattice.Acc())
    if c.get("kind") == "reused":
        fn = getattr(E.mr, c["fn"])
        prev = dec_args(c["prev_args"]) if c.get("prev_args") else None
        if prev is None:
            return []
        bufs = fresh(prev)
        try:
            fn(*bufs)
            for i, a in enumerate(args):
                if isinstance(a, np.ndarray):
                    bufs[i][...] = a
                else:
                    bufs[i] = a
            out = fn(*bufs)
            want = fn(*fresh(args))
        except Exception as e:
            return [{"clause": rec["clause"], "observed": repr(e)}]
        st, val = compare(out, want, 1e-12)
        return [{"clause": rec["clause"], "observed": val}] if st not in ("ok", "ref_not_finite") else []
    if c.get("kind") == "held":
        ok1, first = E._call(E.mr, c["fn"], args)
        if not ok1:
            return []
        E._hold(c["fn"], args, first)
        ok2, second = E._call(E.mr, c["then_fn"], dec_args(c["then_args"]))
        if ok2:
            E._hold(c["then_fn"], dec_args(c["then_args"]), second)
        return [v for v in E.acc.viols if v["clause"] == rec["clause"]]
    opts = {"kind": c.get("kind"), "tol": c.get("tol", TOL), "tie": c.get("tie", False)}
    E.case(c["fn"], args, opts, c.get("part"), c.get("idx"))
    return [v for v in E.acc.viols if v["clause"] == rec["clause"]]
