"""C13 - loading a URDF preserves the kinematics the file describes (LX over generated programs, exploration).

Every program is a URDF *file*: it is written to disk, loaded with the real `loadArmFromURDF`, and the resulting
`Arm` is compared with an independent XML -> forward-kinematics interpreter (oracles/urdf_semantics.py, written from
the URDF specification, no library import): num_dof, joint order and names, limits as written, and FK at
{0 (clipped into the limits), lower, upper, two interior vectors} to 1e-6 (max abs matrix entry difference scaled by
max(1,|p|)).

Families (each a complete product or a complete stated schedule; decoded from a running index, sharded by range):
  bundled   the 5 URDF files shipped under tests/
  n1, n2    1 and 2 moving joints: FULL product of per-joint variants {origin: full, no rpy, no xyz, omitted} x
            {axis: x, z, -z, generic unit, omitted} x {revolute with limits, continuous} (40 per joint) x fixed joint
            present/absent before, between, after (2^(n+1)) x {world link, none} x {inertial data, none}
  sched     n = 3..8 moving joints: variants by a rotating schedule (joint k gets variant (s + 7k) mod 40; thorough:
            every offset s = 0..39, so every variant is met at every position; quick: s = 0, 5, .., 35) x every
            fixed-joint placement pattern that uses <= 2 of the n+1 slots with 1 or 2 fixed joints in each (0..4 fixed
            joints) x world x inertial
  halfturn  the hand-typed half-turn spellings "3.14159265359", "3.1416", "3.14159" in each rpy component, on the
            first / second moving joint or a leading fixed joint, x axis {x, z, generic} x world x companion yaw
  contlim   continuous joints that carry <limit effort=.. velocity=../> (no lower/upper: valid URDF), n = 1, 2
  n2s       (thorough only) the n2 product once more with the value/layout rotation shifted by 5
Values (xyz, rpy, limits, generic axes, fixed-joint origin kinds, element order in the file) are not part of the
product; they rotate through fixed palettes keyed on the running index, so every palette value meets every variant
somewhere.  VERIF_SEED adds ONE generic element to the rpy, xyz and generic-axis palettes.

KF1: the loader rotates each joint axis into the space frame through the rotation *vector* of the accumulated joint
frame (MatrixLog3).  When that frame's rotation angle is within 3e-5 of pi (and not in the exact-pi branch, i.e. more
than 1e-8 away) the angle of that vector is inexact and FK is off by ~1e-5.  An fk_vs_file violation carries
quantities.pi_minus_angle (= pi - angle of the accumulated origin frame of the joint whose loaded screw deviates most
from the file's) ONLY when every deviating screw shows exactly that signature (see attribute()); the committed KF1
entry matches on it.  Everything else - including any other failure on the same files - is a plain violation.
"""
import contextlib
import hashlib
import io
import itertools
import math
import os
import shutil

import numpy as np

from mc import env, lattice
from oracles import urdf_semantics as US

MOD = "checks.c13"
TOL = 1e-6
PI = math.pi

ORIGIN_KINDS = ("full", "norpy", "noxyz", "omitted")
AXIS_KINDS = ("x", "z", "-z", "generic", "omitted")
TYPE_KINDS = ("revolute", "continuous")
NVAR = len(ORIGIN_KINDS) * len(AXIS_KINDS) * len(TYPE_KINDS)   # 40
AXIS_TEXT = {"x": "1 0 0", "z": "0 0 1", "-z": "0 0 -1"}
H = "1.5707963267948966"
HALF = "3.14159265359"
RPY = ["0.3 -1.1 2.0", H + " 0 0", "0 0 -" + H, HALF + " 0 0.3", "0 " + H + " 0", "-1.1 0.3 " + HALF,
       "2.0 -" + H + " -1.1", "0 " + HALF + " 0", "-" + H + " 2.0 " + H, "0 0 0"]
XYZ = ["0.25 0 1.5", "0 -0.25 1.5", "1.5 0.25 0", "-0.25 1.5 0.25", "0 0 0"]
GENERIC_AXES = ["0.36 0.48 0.8", "-0.48 0.6 -0.64"]
LIMITS = [("-2.5", "2.0"), ("-3.14159", "3.14159"), ("0", "1.57"), ("-6.28", "6.28"), ("-1.0472", "-0.2")]
NAMES = ["shoulder_pan", "elbow", "wrist_3", "base_yaw", "forearm_roll", "wrist_1", "tool_roll", "upper_arm",
         "wrist_2", "aux_b", "aux_a", "zeta", "alpha"]
FRACS = [0.81, 0.23, 0.64, 0.12, 0.5, 0.93, 0.41, 0.05]
SPELLINGS = [HALF, "3.1416", "3.14159"]
BUNDLED = ["tests/test_helpers/irb_2400.urdf", "tests/test_helpers/puma_560.urdf", "tests/test_helpers/ur5.urdf",
           "tests/test_helpers/ur_description/ur10.urdf", "tests/test_helpers/ur_description/ur5.urdf"]
SCHED_N = (3, 4, 5, 6, 7, 8)
QUICK_OFFSETS = (0, 5, 10, 15, 20, 25, 30, 35)
LOG_BAND = (1e-8, 3e-5)   # pi - angle where MatrixLog3 takes its arccos branch and is inexact (below: the exact pi branch)


# ---------------------------------------------------------------------------------------------- palettes / seed

def seed_elements(seed):
    """One generic rpy triple, xyz triple and unit axis, drawn by rejection away from every special value."""
    rng = np.random.default_rng(130000 + int(seed))
    special = [0.0, PI / 2, -PI / 2, PI, -PI]
    while True:
        r = rng.uniform(-3.0, 3.0, 3)
        if all(min(abs(x - s) for s in special) > 0.1 for x in r):
            break
    while True:
        p = rng.uniform(-2.0, 2.0, 3)
        if all(abs(x) > 0.05 for x in p):
            break
    while True:
        a = rng.normal(size=3)
        a = a / np.linalg.norm(a)
        if all(abs(x) > 0.15 for x in a):
            break
    a = a / np.linalg.norm(a)
    return (" ".join("%.4f" % x for x in r), " ".join("%.4f" % x for x in p), " ".join(repr(float(x)) for x in a))


_PAL = {}


def pal(seed):
    if seed not in _PAL:
        r, p, a = seed_elements(seed)
        _PAL[seed] = {"rpy": RPY + [r], "xyz": XYZ + [p], "gen": GENERIC_AXES + [a], "lim": LIMITS}
    return _PAL[seed]


def variant(v):
    return ORIGIN_KINDS[v % 4], AXIS_KINDS[(v // 4) % 5], TYPE_KINDS[v // 20]


# ---------------------------------------------------------------------------------------------- generator

def mk_joint(P, c, ji, kind, okind, akind="x", jtype="fixed"):
    """Explicit joint spec; values rotate through the palettes with the running index c and the joint number ji."""
    rp, xp, gp, lp = P["rpy"], P["xyz"], P["gen"], P["lim"]
    return {"kind": kind, "o": okind, "a": akind, "t": jtype,
            "rpy": rp[(c + 3 * ji) % len(rp)], "xyz": xp[(c + ji) % len(xp)],
            "axis": AXIS_TEXT.get(akind) or gp[(c + ji) % len(gp)],
            "lim": lp[(c + 2 * ji) % len(lp)],
            "name": "%s_%d" % (NAMES[(5 * ji + c) % len(NAMES)], ji)}


def chain_spec(P, c, variants, slots, world, inertial):
    """variants: per moving joint (origin kind, axis kind, type); slots: n+1 counts of fixed joints before joint k
    (last entry: after the last moving joint)."""
    js, ji = [], 0
    for k in range(len(variants) + 1):
        for _ in range(slots[k]):
            js.append(mk_joint(P, c, ji, "f", ORIGIN_KINDS[(c + ji) % 4]))
            ji += 1
        if k < len(variants):
            o, a, t = variants[k]
            js.append(mk_joint(P, c, ji, "m", o, a, t))
            ji += 1
    return {"joints": js, "world": world, "inertial": inertial, "layout": c % 3}


def origin_xml(j):
    if j["o"] == "full":
        return '<origin xyz="%s" rpy="%s"/>' % (j["xyz"], j["rpy"])
    if j["o"] == "norpy":
        return '<origin xyz="%s"/>' % j["xyz"]
    if j["o"] == "noxyz":
        return '<origin rpy="%s"/>' % j["rpy"]
    return ""


def build(spec):
    """URDF text of a strictly serial chain."""
    js = spec["joints"]
    lnames = ["world" if spec["world"] else "base_link"] + ["link_%d" % (i + 1) for i in range(len(js))]
    links = []
    for i, ln in enumerate(lnames):
        if spec["inertial"] and ln != "world":
            links.append('<link name="%s"><inertial><origin xyz="0 %s 0.1" rpy="0 0 %s"/><mass value="%s"/>'
                         '<inertia ixx="0.1" ixy="0" ixz="0.01" iyy="0.2" iyz="0" izz="0.15"/></inertial></link>'
                         % (ln, "0.05" if i % 2 else "0", "0.2" if i % 3 == 0 else "0", 1.5 + 0.25 * i))
        else:
            links.append('<link name="%s"/>' % ln)
    joints = []
    for i, j in enumerate(js):
        body = '<parent link="%s"/><child link="%s"/>%s' % (lnames[i], lnames[i + 1], origin_xml(j))
        if j["kind"] == "f":
            joints.append('<joint name="%s" type="fixed">%s</joint>' % (j["name"], body))
            continue
        if j["a"] != "omitted":
            body += '<axis xyz="%s"/>' % j["axis"]
        if j["t"] == "revolute":
            body += '<limit lower="%s" upper="%s" effort="10" velocity="3"/>' % j["lim"]
            t = "revolute"
        elif j["t"] == "continuous_ev":
            body += '<limit effort="10" velocity="3"/>'
            t = "continuous"
        else:
            t = "continuous"
        joints.append('<joint name="%s" type="%s">%s</joint>' % (j["name"], t, body))
    if spec["layout"] == 0:
        items = links + joints
    elif spec["layout"] == 1:
        items = [x for pair in itertools.zip_longest(links, joints) for x in pair if x is not None]
    else:
        items = joints[::-1] + links[::-1]
    return '<?xml version="1.0"?>\n<robot name="generated">\n' + "\n".join(items) + "\n</robot>\n"


def label(spec):
    js = spec["joints"]
    return "%s world=%d inertial=%d layout=%d" % (
        " ".join("F(%s)" % j["o"] if j["kind"] == "f" else "M(%s,%s,%s)" % (j["o"], j["a"], j["t"]) for j in js),
        spec["world"], spec["inertial"], spec["layout"])


# ---------------------------------------------------------------------------------------------- families

def slot_patterns(n):
    """Every placement of fixed joints that uses <= 2 of the n+1 slots, 1 or 2 fixed joints per used slot."""
    out = [tuple([0] * (n + 1))]
    for a in range(n + 1):
        for ca in (1, 2):
            s = [0] * (n + 1)
            s[a] = ca
            out.append(tuple(s))
    for a in range(n + 1):
        for b in range(a + 1, n + 1):
            for ca in (1, 2):
                for cb in (1, 2):
                    s = [0] * (n + 1)
                    s[a], s[b] = ca, cb
                    out.append(tuple(s))
    return out


_SCHED = {}


def sched_table(tier):
    """[(n, s, pattern)] in enumeration order.  quick: offsets s in {0, 5, .., 35} (every origin kind, axis kind and
    type still occurs for every n, all 40 variants over the family - asserted by the self-test); thorough: all 40."""
    if tier not in _SCHED:
        offs = range(NVAR) if tier == "thorough" else QUICK_OFFSETS
        _SCHED[tier] = [(n, s, pat) for n in SCHED_N for s in offs for pat in slot_patterns(n)]
    return _SCHED[tier]


def family_size(fam, tier):
    if fam == "bundled":
        return len(BUNDLED)
    if fam == "n1":
        return NVAR * 4 * 4
    if fam in ("n2", "n2s"):
        return NVAR * NVAR * 8 * 4
    if fam == "sched":
        return len(sched_table(tier)) * 4
    if fam == "halfturn":
        return len(SPELLINGS) * 3 * 4 * 3 * 2 * 2
    if fam == "contlim":
        return 20 * 4 * 4 + 20 * 20 * 8
    raise ValueError(fam)


def spec_at(fam, idx, seed, tier):
    """Explicit chain spec of program number idx of a family (pure function of its arguments)."""
    P = pal(seed)
    if fam in ("n1", "n2", "n2s"):
        n = 1 if fam == "n1" else 2
        r, inertial = divmod(idx, 2)
        r, world = divmod(r, 2)
        r, mask = divmod(r, 2 ** (n + 1))
        vs = []
        for _ in range(n):
            r, v = divmod(r, NVAR)
            vs.append(variant(v))
        assert r == 0
        slots = [(mask >> k) & 1 for k in range(n + 1)]
        return chain_spec(P, idx + (5 if fam == "n2s" else 0), vs, slots, world, inertial)
    if fam == "sched":
        t, wi = divmod(idx, 4)
        n, s, pat = sched_table(tier)[t]
        vs = [variant((s + 7 * k) % NVAR) for k in range(n)]
        return chain_spec(P, idx, vs, pat, wi >> 1, wi & 1)
    if fam == "halfturn":
        r, comp = divmod(idx, 2)
        r, world = divmod(r, 2)
        r, ax = divmod(r, 3)
        r, place = divmod(r, 4)
        r, slot = divmod(r, 3)
        sp = SPELLINGS[r]
        comps = ["0", "0", "0"]
        comps[slot] = sp
        if comp:
            comps[(slot + 1) % 3] = "0.3"
        rpy = " ".join(comps)
        akind = ("x", "z", "generic")[ax]
        # place 0: single joint carries it; 1: first of two; 2: second of two; 3: a leading fixed joint carries it
        n = 1 if place == 0 else 2
        slots = [1 if place == 3 else 0] + [0] * n
        spec = chain_spec(P, idx, [("norpy", akind, "revolute")] * n, slots, world, 0)
        carrier = {0: 0, 1: 0, 2: 1, 3: 0}[place]
        spec["joints"][carrier]["o"] = "full"
        spec["joints"][carrier]["rpy"] = rpy
        for j in spec["joints"]:
            if j["xyz"] == "0 0 0":
                j["xyz"] = "0.25 0 1.5"
        return spec
    if fam == "contlim":
        if idx < 320:
            r, inertial = divmod(idx, 2)
            r, world = divmod(r, 2)
            r, mask = divmod(r, 4)
            o, a, _ = variant(r)
            return chain_spec(P, idx, [(o, a, "continuous_ev")], [mask & 1, mask >> 1], world, inertial)
        r, mask = divmod(idx - 320, 8)
        v2, v1 = divmod(r, 20)
        o1, a1, _ = variant(v1)
        o2, a2, _ = variant(v2)
        # one of the two joints carries the effort/velocity-only limit, alternating; the other is revolute
        t1, t2 = ("continuous_ev", "revolute") if idx % 2 else ("continuous", "continuous_ev")
        return chain_spec(P, idx, [(o1, a1, t1), (o2, a2, t2)], [(mask >> k) & 1 for k in range(3)], idx % 2, (idx // 2) % 2)
    raise ValueError(fam)


def case_at(fam, idx, seed, tier):
    if fam == "bundled":
        return {"family": fam, "path": BUNDLED[idx]}
    spec = spec_at(fam, idx, seed, tier)
    return {"family": fam, "idx": idx, "label": label(spec), "xml": build(spec),
            "n_moving": sum(1 for j in spec["joints"] if j["kind"] == "m")}


# ---------------------------------------------------------------------------------------------- evaluation

def test_vectors(limits):
    lo = np.array([-PI if l is None else l for l, _ in limits], float)
    hi = np.array([PI if h is None else h for _, h in limits], float)
    n = len(limits)
    fr = np.array([FRACS[i % len(FRACS)] for i in range(n)])
    return [("zero", np.clip(np.zeros(n), lo, hi)), ("lower", lo.copy()), ("upper", hi.copy()),
            ("interior_a", lo + 0.37 * (hi - lo)), ("interior_b", lo + fr * (hi - lo))]


def pose_err(T, Tref):
    T = np.asarray(T, float)
    if T.shape != (4, 4) or not np.all(np.isfinite(T)):
        return float("inf")
    return float(np.abs(T - Tref).max() / max(1.0, np.linalg.norm(Tref[:3, 3])))


def frame_angles(model):
    return [US.rotation_angle(F[:3, :3]) for F in model.joint_frames_home()]


def attribute(arm, model):
    """Classification aid for an fk_vs_file violation (the verdict never depends on it): which joints' loaded screws
    deviate from the file's (space-frame axis w = R a, v = q x w), and is the deviation the signature of KF1?

    KF1 reaches the loader only through determineAxis: the accumulated joint frame R is turned into a rotation vector
    (MatrixLog3) and back; within LOG_BAND of a half turn the *angle* of that vector is inexact, its direction is not.
    So the loaded axis is Rot(n, eps) w for the frame's own rotation axis n: unit length, same component along n, and
    v is still q x (loaded axis).  Only when EVERY deviating joint shows exactly that, in that band, is
    pi_minus_angle (of the worst joint's accumulated origin frame) reported, which is what the KF1 entry matches."""
    try:
        S = np.asarray(arm.screw_list, float)
    except Exception:
        return {}
    frames = model.joint_frames_home()
    if S.shape != (6, len(frames)) or not np.all(np.isfinite(S)):
        return {}
    dev, explained = [], []
    for i, (F, j) in enumerate(zip(frames, model.moving)):
        a = np.asarray(j.axis, float)
        R, q = F[:3, :3], F[:3, 3]
        w = R @ (a / np.linalg.norm(a))
        ref = np.concatenate([w, np.cross(q, w)])
        scale = max(1.0, np.linalg.norm(q))
        d = float(np.abs(S[:, i] - ref).max() / scale)
        dev.append(d)
        if d > 1e-8:
            deficit = PI - US.rotation_angle(R)
            wl = S[:3, i]
            ok = LOG_BAND[0] < deficit < LOG_BAND[1]
            if ok:
                B = 0.5 * (R + R.T)                      # = n n^T - (1 - n n^T) + O(deficit^2) near a half turn
                k = int(np.argmax(np.diag(B)))
                n = (B[:, k] + np.eye(3)[k]) / math.sqrt(2.0 * (B[k, k] + 1.0))
                ok = (abs(float(n @ (wl - w))) <= 1e-7 and abs(np.linalg.norm(wl) - 1.0) <= 1e-9
                      and np.abs(S[3:, i] - np.cross(q, wl)).max() / scale <= 1e-9)
            explained.append(ok)
    if not explained:
        return {}
    i = int(np.argmax(dev))
    out = {"offending_joint": i, "screw_deviation": dev[i], "deviating_joints": len(explained)}
    deficit = PI - US.rotation_angle(frames[i][:3, :3])
    if all(explained):
        out["pi_minus_angle"] = deficit
    else:
        out["pi_minus_angle_not_explaining"] = deficit
    return out


def evaluate(path, expect_dof=None):
    """Load `path` with the library, interpret it with the oracle, compare.  Returns (findings, info)."""
    from basic_robotics.kinematics import loadArmFromURDF
    model = US.Model(path)          # an oracle failure on a file of the family is a harness error: let it raise
    if expect_dof is not None and model.num_dof != expect_dof:
        raise RuntimeError("generator/oracle disagreement: %d moving joints generated, oracle reads %d" % (expect_dof, model.num_dof))
    angles = frame_angles(model)
    info = {"in_kf1_band": any(LOG_BAND[0] < PI - a < LOG_BAND[1] for a in angles), "fk_err": None}
    out = []
    try:
        with contextlib.redirect_stdout(io.StringIO()):
            arm = loadArmFromURDF(path)
    except Exception as e:
        return [{"clause": "raised", "observed": {"call": "loadArmFromURDF", "exception": repr(e)[:300]}}], info
    if arm is None:
        return [{"clause": "not_loaded", "observed": "loadArmFromURDF returned None for a well-formed file"}], info
    n = model.num_dof
    try:
        got_dof = int(arm.num_dof)
        got_names = [str(x) for x in arm.joint_names]
        mins = np.asarray(arm.joint_mins, float).reshape(-1)
        maxs = np.asarray(arm.joint_maxs, float).reshape(-1)
    except Exception as e:
        return [{"clause": "raised", "observed": {"call": "Arm attributes", "exception": repr(e)[:300]}}], info
    if got_dof != n:
        return [{"clause": "num_dof", "observed": {"loaded": got_dof, "file": n}}], info
    if got_names != model.names:
        out.append({"clause": "joint_names", "observed": {"loaded": got_names, "file": model.names}})
    if len(mins) != n or len(maxs) != n:
        out.append({"clause": "limits_as_written", "observed": {"loaded_lengths": [len(mins), len(maxs)], "file": n}})
    else:
        for i, (lo, hi) in enumerate(model.limits):
            if lo is not None:
                ok = abs(mins[i] - lo) <= 1e-12 and abs(maxs[i] - hi) <= 1e-12
            else:   # continuous: nothing written; the loaded limits must be numbers that admit a full turn
                ok = (not math.isnan(mins[i])) and (not math.isnan(maxs[i])) and mins[i] <= -PI and maxs[i] >= PI
            if not ok:
                out.append({"clause": "limits_as_written",
                            "observed": {"joint": i, "loaded": [float(mins[i]), float(maxs[i])], "file": [lo, hi],
                                         "type": model.moving[i].type}})
                break
    worst = None
    for name, th in test_vectors(model.limits):
        Tref = model.fk(th)
        try:
            with contextlib.redirect_stdout(io.StringIO()):
                T = arm.FK(th.copy()).gTM()
        except Exception as e:
            out.append({"clause": "raised", "observed": {"call": "Arm.FK", "theta": th.tolist(), "exception": repr(e)[:300]}})
            break
        err = pose_err(T, Tref)
        if worst is None or not (err <= worst[0]):
            worst = (err, name, th)
    if worst is not None:
        info["fk_err"] = worst[0]
        if not (worst[0] <= TOL):
            q = attribute(arm, model)
            out.append({"clause": "fk_vs_file", "observed": {"scaled_error": worst[0], "vector": worst[1], "theta": worst[2].tolist()},
                        "quantities": q})
    return out, info


# ---------------------------------------------------------------------------------------------- worker

def _tmpdir():
    d = os.path.join(env.VERIF, ".cache", "c13", str(os.getpid()))
    os.makedirs(d, exist_ok=True)
    return d


def evaluate_case(case, tmp, name="case.urdf"):
    if case["family"] == "bundled":
        return evaluate(os.path.join(env.REPO, case["path"]))
    p = os.path.join(tmp, name)
    with open(p, "w") as f:
        f.write(case["xml"])
    try:
        return evaluate(p, case.get("n_moving"))
    finally:
        os.remove(p)


def work(p):
    fam, seed, tier = p["fam"], p["seed"], p["tier"]
    acc = lattice.Acc(max_viol=40)
    tmp = _tmpdir()
    prev_xml = None         # every generated file is written to the SAME path: the previous file is this load's history
    try:
        for idx in range(p["lo"], p["hi"]):
            case = case_at(fam, idx, seed, tier)
            if fam == "bundled":
                with open(os.path.join(env.REPO, case["path"]), "rb") as f:
                    key = hashlib.blake2b(f.read(), digest_size=8).digest()
            else:
                key = hashlib.blake2b(case["xml"].encode(), digest_size=8).digest()
            acc.case(key)
            found, info = evaluate_case(case, tmp)
            if info["fk_err"] is not None:
                acc.resid("fk_vs_file", info["fk_err"])
                if not info["in_kf1_band"]:
                    acc.resid("fk_vs_file_outside_kf1_band", info["fk_err"])
            acc.outcome("clean" if not found else "flagged")
            if info["in_kf1_band"]:
                acc.outcome("accumulated_frame_in_kf1_band")
            for f in found:
                acc.outcome("clause_" + f["clause"])
                stored = {k: v for k, v in case.items() if k != "n_moving"}
                if prev_xml is not None and fam != "bundled":
                    stored["prev_xml"] = prev_xml
                acc.violation(f["clause"], stored, f["observed"], TOL if f["clause"] == "fk_vs_file" else None,
                              f.get("quantities"))
            if fam != "bundled":
                prev_xml = case["xml"]
            if idx % 997 == 0 or idx == p["lo"]:
                acc.sample({"family": fam, "idx": idx, "what": case.get("label", case.get("path")),
                            "fk_scaled_error": info["fk_err"], "flagged": [f["clause"] for f in found]})
    finally:
        shutil.rmtree(tmp, ignore_errors=True)
    return acc.result()


# ---------------------------------------------------------------------------------------------- run / replay

FAMILIES = ["bundled", "n1", "n2", "halfturn", "contlim", "sched"]   # quick; `sched` is thinner there
THOROUGH_EXTRA = ["n2s"]   # the n2 product again with the value/layout rotation shifted by 5


def run(ctx):
    fams = FAMILIES + (THOROUGH_EXTRA if ctx.tier == "thorough" else [])
    only = os.environ.get("VERIF_C13_ONLY")   # debugging aid (mutant trials on a loaded machine): a subset of families
    if only:
        fams = [f for f in fams if f in only.split(",")]
        ctx.notes.append("VERIF_C13_ONLY=%s: NOT the registered enumeration" % only)
    if ctx.deadline is None:
        # mp.Pool silently re-spawns a worker that dies (OOM kill, stray signal) and the lost shard is then waited for
        # forever; a wall-clock guard turns that into HARNESS-ERROR (exit 2) instead of a hang
        ctx.deadline = ctx.t0 + (3600 if ctx.tier == "thorough" else 1500)
    parts = []
    with ctx.pool() as pool:
        for fam in fams:
            total = family_size(fam, ctx.tier)
            nsh = 1 if total < 64 else pool.workers * (6 if total > 20000 else 2)
            m = lattice.run(ctx, pool, MOD, "work", total, extra={"fam": fam}, nshards=nsh, part=fam)
            parts.append((fam, m))
    try:
        os.rmdir(os.path.join(env.VERIF, ".cache", "c13"))   # workers remove their own <pid> directories
    except OSError:
        pass
    P = pal(ctx.seed)
    sched_rule = ("every offset s=0..39" if ctx.tier == "thorough" else "offsets s in {0,5,..,35}")
    lattice.fill(ctx, parts,
                 "programs = URDF files, each loaded by loadArmFromURDF and interpreted by the independent oracle; "
                 "bundled: the 5 files under tests/; n1, n2: the FULL product (40 per-joint variants)^n x 2^(n+1) fixed-joint "
                 "placements x world x inertial (640 + 51200, not thinned); halfturn: 3 spellings x 3 rpy components x 4 "
                 "carriers x 3 axes x world x companion yaw (432); contlim: continuous joints with an effort/velocity-only "
                 "<limit> (320 + 3200); sched: n=3..8, joint k gets variant (s+7k) mod 40, " + sched_rule + ", x all "
                 "fixed-joint patterns on <=2 slots with 1..2 joints each x world x inertial"
                 + ("; n2s: the n2 product again with the value/layout rotation shifted by 5" if ctx.tier == "thorough" else "")
                 + "; values rotate through the "
                 "palettes with the running index; distinct = distinct file contents (hashed); every file is non-trivial "
                 "(>= 1 moving joint, 5 joint vectors compared)",
                 {"origin_kinds": list(ORIGIN_KINDS), "axis_kinds": list(AXIS_KINDS), "types": list(TYPE_KINDS) + ["continuous_ev (contlim only)"],
                  "rpy": P["rpy"], "xyz": P["xyz"], "generic_axes": P["gen"], "limits": [list(x) for x in LIMITS],
                  "halfturn_spellings": SPELLINGS, "layouts": ["links then joints", "interleaved", "joints reversed then links reversed"],
                  "joint_vectors": ["zero clipped into limits", "lower", "upper", "lower+0.37 range", "lower+per-joint fraction"],
                  "sched_files": family_size("sched", ctx.tier)})
    ctx.coverage["programs"] = ctx.coverage["evaluations"]
    if only:
        ctx.coverage["exhaustive"] = False
    ctx.assumptions += [
        "a continuous joint has no declared limits; its FK is compared on [-pi, pi] and its loaded limits must be numbers admitting a full turn",
        "joint axes in generated files have unit length (the oracle normalises, the loader does not)",
        "strictly serial chains, one root link; link inertial blocks always carry their own <origin>",
        "pi_minus_angle of an fk_vs_file violation is the angle deficit of the accumulated origin frame of the joint whose loaded screw deviates most",
    ]


def replay(rec):
    c = rec["case"]
    tmp = _tmpdir()
    try:
        found, _ = evaluate_case(c, tmp)
        if not [f for f in found if f["clause"] == rec["clause"]] and c.get("prev_xml"):
            # not reproducible from a fresh process: replay the two-file history on one path (a loader that remembers
            # what it parsed from a path is only wrong for the NEXT file written there)
            # (on a path of its own: the fresh attempt above has already been seen by the loader under case.urdf)
            evaluate_case({"family": c["family"], "xml": c["prev_xml"]}, tmp, "history.urdf")
            found, _ = evaluate_case(c, tmp, "history.urdf")
    finally:
        shutil.rmtree(tmp, ignore_errors=True)
        try:
            os.rmdir(os.path.dirname(tmp))
        except OSError:
            pass
    return [f for f in found if f["clause"] == rec["clause"]]
