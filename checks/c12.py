"""C12 - wrenches and screws change frame as a group action and add as vectors (LX, exploration).

Complete Cartesian products over small palettes that sit on the branches of the code under test:

  frames   every ordered triple (A,B,C) of the frame palette x {e1..e6, generic} x {Screw, Wrench}:
           closed formula of A->B against an independent adjoint (S_b = Ad(T_ba) S_a, F_b = Ad(T_ab)^T F_a,
           angular/moment part first), A->B->A, A->B->C == A->C, recorded frame, explicit `old_frame` form
           (Screw.changeFrame(new, old) / fsr.transformWrenchFrame)
  pairing  every ordered triple: wrench e_i given in A, twist e_j given in C, both re-expressed in B by the library;
           the 6x6 table of pairings equals the frame-independent value
  point    force at a point: F x P x G x forces x {Wrench(array), Wrench(list), fsr.makeWrench}: moment p x f, force
           kept, zero moment about the own point of application (axes of F and axes of G), wrench about G by
           elementary statics
  sums     a(+/-)b with the operands given in different frames, over every triple / every pair x vector pairs,
           result in the LEFT operand's frame, result re-expressed in C (a sum of wrenches is a wrench)
  arith    every operator the classes define (+, -, *, / and the reflected variants) x the operand forms Python int,
           Python float, NumPy float64/float32/int64 scalars, flat 6-array (float and int dtype), 6x1 array
           (float and int dtype), object in the same and in every other frame; values against plain NumPy on the
           raw 6-vector and the vector-space laws composed from library operators only

Tolerance: 1e-8 relative to ||data|| * (1 + |p_A| + |p_B|), propagated per step for chains.
"""
import operator

import numpy as np

from mc import lattice
from oracles import se3
from oracles import wrench_ref as wr

MOD = "checks.c12"
PI = np.pi
RTOL = 1e-8
KF1_BAND = 3e-5          # MatrixLog3 is inaccurate within this distance of pi (known finding KF1) - keep out
SEED_MARGIN = 1e-3       # the seed-generic frame is drawn until every relative rotation is at least this far from pi
PARTS = ["frames", "pairing", "point", "sums", "arith", "shared"]

# ---------------------------------------------------------------------------------------------- palettes

_AX = np.array([0.6, 0.0, 0.8])
BASE_FRAMES = [
    ("identity", [0.0, 0.0, 0.0, 0.0, 0.0, 0.0]),
    ("translation", [1.5, -2.0, 0.5, 0.0, 0.0, 0.0]),
    ("rot_x", [0.0, 0.0, 0.0, 0.9, 0.0, 0.0]),
    ("rot_z", [0.0, 0.0, 0.0, 0.0, 0.0, -1.3]),
    ("generic", [0.7, -1.2, 2.0, 0.4, -0.6, 0.8]),
    ("near_pi", [-1.0, 0.5, 2.0] + [float(x) for x in (PI - 1e-3) * _AX]),
    ("far", [6.0, -8.0, 0.0, 0.3, 0.2, -0.5]),
    # a frame 5e-5 away from "far": close enough to pass a sloppy equality test, far enough that skipping the change of
    # frame is a 4e-5 relative error
    ("far_twin", [6.0 - 3e-5, -8.0 + 4e-5, 0.0, 0.3, 0.2, -0.5]),
]
THOROUGH_FRAMES = [
    ("rot_y_big", [0.0, 0.0, 0.0, 0.0, 2.5, 0.0]),
    ("small_rot", [0.3, 0.1, -0.2, 1e-3, 0.0, 0.0]),
    ("far_near_pi", [0.0, 6.0, 8.0] + [float(x) for x in (PI - 1e-3) * np.array([1.0, 1.0, 0.0]) / np.sqrt(2.0)]),
    ("generic2", [-2.0, 1.0, 0.5, -1.1, 0.9, 0.3]),
    ("generic_rot_twin", [0.7, -1.2, 2.0, 0.4 * (1 + 4e-5), -0.6 * (1 + 4e-5), 0.8 * (1 + 4e-5)]),
]
BASIS = [[1.0 if i == j else 0.0 for i in range(6)] for j in range(6)]
GEN = [0.7, -1.3, 0.4, 2.1, -0.6, 1.9]
GEN2 = [-1.1, 0.5, 1.7, 0.3, -2.2, 0.8]
THOROUGH_VECS = [[300.0, -120.0, 50.0, 0.02, 0.01, -0.03], [0.0, 0.0, 0.0, 1.0, 1.0, 1.0], [1e-3, 2e-3, -1e-3, 5.0, -4.0, 3.0]]
FORCES = [[1.0, 0.0, 0.0], [0.0, 1.0, 0.0], [0.0, 0.0, 1.0], [3.0, -4.5, 49.05]]
SCALARS = [("int", 2), ("int", -3), ("float", 2.5), ("float", -0.75), ("npf64", 1.25), ("npf32", -1.5), ("npi64", 3)]
ARRAYS = [("arr6", GEN2), ("arr61", GEN2), ("arr6i", [1, -2, 3, -1, 2, -3]), ("arr61i", [1, -2, 3, -1, 2, -3])]


def _seed_frame(seed, fixed):
    """ONE seed-dependent generic frame; drawn (deterministically) until it is clear of the KF1 band against all."""
    rng = np.random.default_rng(12000 + int(seed))
    for _ in range(1000):
        p = rng.uniform(-3.0, 3.0, 3)
        w = se3.unit(rng.normal(size=3)) * rng.uniform(0.2, 2.8)
        taa = [float(x) for x in p] + [float(x) for x in w]
        T = se3.T_from_taa(taa)
        if all(wr.pi_margin(T, se3.T_from_taa(t)) > SEED_MARGIN for _, t in fixed):
            return ("seed_generic", taa)
    raise AssertionError("no admissible seed frame")


_PAL = {}


def frames(tier, seed):
    """[(name, taa)] - asserts the bounds of the quantifier and that no pair of frames has a relative rotation
    inside the KF1 band (frame changes go through MatrixLog3 of the relative rotation)."""
    k = (tier, int(seed))
    if k in _PAL:
        return _PAL[k]
    fr = list(BASE_FRAMES) + (list(THOROUGH_FRAMES) if tier == "thorough" else [])
    fr.append(_seed_frame(seed, fr))
    Ts = [se3.T_from_taa(t) for _, t in fr]
    for (n, t), T in zip(fr, Ts):
        assert np.linalg.norm(t[:3]) <= 10.0 + 1e-12, n
        assert np.linalg.norm(t[3:]) <= PI - 1e-3 + 1e-12, n
        # Modern Robotics' MatrixExp3 treats rotations below 1e-6 rad as the identity (C01's business, not C12's)
        assert np.linalg.norm(t[3:]) == 0.0 or np.linalg.norm(t[3:]) >= 1e-5, n
    for i in range(len(fr)):
        for j in range(len(fr)):
            m = wr.pi_margin(Ts[i], Ts[j])
            assert m > KF1_BAND, ("relative rotation inside the KF1 band", fr[i][0], fr[j][0], m)
    _PAL[k] = fr
    return fr


def vectors(tier):
    return BASIS + [GEN] + (THOROUGH_VECS if tier == "thorough" else [])


# ---------------------------------------------------------------------------------------------- library access

class LibRaised(Exception):
    def __init__(self, label, exc):
        Exception.__init__(self, "%s: %r" % (label, exc))
        self.label, self.exc = label, exc


class Lib:
    def __init__(self):
        from basic_robotics.general import tm, Screw, Wrench, Twist, fsr
        self.tm, self.Screw, self.Wrench, self.Twist, self.fsr = tm, Screw, Wrench, Twist, fsr

    def call(self, label, fn, *a, **k):
        """Every call into the library goes through here: an exception is a finding, not a harness crash."""
        try:
            return fn(*a, **k)
        except Exception as e:
            raise LibRaised(label, e)

    def frame(self, taa):
        return self.call("tm(list)", self.tm, [float(x) for x in taa])

    def mk(self, cls, v, taa, ctor="flat"):
        d = np.array(v, dtype=float)
        if ctor == "col":
            d = d.reshape((6, 1))
        fr = self.frame(taa)
        if cls == "Wrench":
            return self.call("Wrench(data, None, frame)", self.Wrench, d, None, fr)
        if cls == "Twist":
            return self.call("Twist(data, frame)", self.Twist, d, fr)
        return self.call("Screw(data, frame)", self.Screw, d, fr)

    def vec6(self, r):
        """The six numbers an operator result or object carries; None when it does not carry exactly six."""
        d = r.data if isinstance(r, self.Screw) else r
        try:
            d = np.asarray(d, dtype=float)
        except Exception:
            return None
        return d.reshape(6).copy() if d.size == 6 else None

    def data(self, x):
        return self.vec6(self.call("getData()", x.getData))


_LIB = []


def lib():
    if not _LIB:
        _LIB.append(Lib())
    return _LIB[0]


class Res:
    """Findings and residuals of one case."""

    def __init__(self):
        self.f = []
        self.r = {}
        self.n = 0
        self.out = {}

    def count(self, name, n=1):
        self.out[name] = self.out.get(name, 0) + n

    def check(self, clause, got, want, scale, info=None, alt=None):
        """|got - want| <= RTOL * scale.  `got` None = result does not carry six numbers.
        alt: optional (got_full, want_full) accepted instead (broadcast forms of flat-array operands)."""
        self.n += 1
        if got is None:
            if alt is not None and alt[0] is not None and np.shape(alt[0]) == np.shape(alt[1]):
                err = float(np.abs(np.asarray(alt[0], float) - alt[1]).max())
            else:
                self.f.append({"clause": clause, "observed": {"shape": "result does not carry 6 numbers", "info": info},
                               "tolerance": RTOL, "quantities": {}})
                return
        else:
            d = np.abs(np.asarray(got, float).reshape(-1) - np.asarray(want, float).reshape(-1))
            err = float(d.max()) if np.all(np.isfinite(d)) else float("nan")
        rel = err / scale if scale > 0 else err
        if not (rel <= self.r.get(clause, -1.0)):
            self.r[clause] = rel
        if not (rel <= RTOL):
            self.f.append({"clause": clause,
                           "observed": {"rel_err": rel, "abs_err": err, "got": None if got is None else np.asarray(got).tolist(),
                                        "want": np.asarray(want).tolist(), "info": info},
                           "tolerance": RTOL, "quantities": {"scale": scale}})

    def frame(self, L, clause, fr, T, info=None):
        self.n += 1
        if not isinstance(fr, L.tm):
            self.f.append({"clause": clause, "observed": {"frame_applied": repr(type(fr)), "info": info}, "tolerance": RTOL,
                           "quantities": {}})
            return
        M = np.asarray(L.call("gTM()", fr.gTM), float)
        rel = float(np.abs(M - T).max()) / (1.0 + float(np.linalg.norm(T[:3, 3])))
        if not (rel <= self.r.get(clause, -1.0)):
            self.r[clause] = rel
        if not (rel <= RTOL):
            self.f.append({"clause": clause, "observed": {"rel_err": rel, "recorded": M.tolist(), "want": T.tolist(), "info": info},
                           "tolerance": RTOL, "quantities": {}})

    def fail(self, clause, observed):
        self.n += 1
        self.f.append({"clause": clause, "observed": observed, "tolerance": RTOL, "quantities": {}})


def _pn(T):
    return float(np.linalg.norm(T[:3, 3]))


def _nz(x):
    return max(float(x), 1e-300)


# ---------------------------------------------------------------------------------------------- case evaluators

def case_frames(L, c, res):
    cls, v = c["cls"], np.array(c["v"], float)
    TA, TB, TC = (se3.T_from_taa(c[k]) for k in "ABC")
    pA, pB, pC = _pn(TA), _pn(TB), _pn(TC)
    nv = float(np.linalg.norm(v))
    act = wr.CHANGE[cls]
    fA, fB, fC = L.frame(c["A"]), L.frame(c["B"]), L.frame(c["C"])
    s1 = nv * (1 + pA + pB)
    x = L.mk(cls, v, c["A"], c["ctor"])
    res.frame(L, "frame_recorded", x.frame_applied, TA, "after construction")
    ret = L.call("changeFrame(B)", x.changeFrame, fB)
    if ret is not x:
        res.fail("frame_recorded", {"info": "changeFrame does not return the object itself", "returned": repr(type(ret))})
    dB = L.data(x)
    eB = act(TA, TB, v)
    res.check("formula", dB, eB, s1, "A->B")
    res.frame(L, "frame_recorded", x.frame_applied, TB, "after changeFrame(B)")
    y = L.call("copy()", x.copy)
    L.call("changeFrame(A)", y.changeFrame, fA)
    nB = float(np.linalg.norm(eB))
    res.check("roundtrip", L.data(y), v, s1 + nB * (1 + pA + pB), "A->B->A")
    res.frame(L, "frame_recorded", y.frame_applied, TA, "after A->B->A")
    L.call("changeFrame(C)", x.changeFrame, fC)
    dC = L.data(x)
    z = L.mk(cls, v, c["A"], c["ctor"])
    L.call("changeFrame(C)", z.changeFrame, fC)
    dAC = L.data(z)
    eC = act(TA, TC, v)
    s2 = nv * (1 + pA + pB) * (1 + pB + pC) + nB * (1 + pB + pC) + nv * (1 + pA + pC)
    res.check("compose", dC, dAC, s2, "A->B->C against A->C (library both)")
    res.check("compose", dC, eC, s2, "A->B->C against the closed formula of A->C")
    res.frame(L, "frame_recorded", x.frame_applied, TC, "after A->B->C")
    # the payload is edited between two changes of frame (element assignment / in-place write to the data array): the second
    # change acts on the EDITED coordinates - back to A and on to C
    for target, Tt_, ft, tag in (("A", TA, fA, "A->B, edit, ->A"), ("C", TC, fC, "A->B, edit, ->C")):
        for how in ("setitem", "data_inplace"):
            e = L.mk(cls, v, c["A"], c["ctor"])
            L.call("changeFrame(B)", e.changeFrame, fB)
            edited = np.array(eB, float).reshape(6).copy()
            if how == "setitem":
                L.call("obj[4] = x", e.__setitem__, 4, 0.75 * (1.0 + nv))
                edited[4] = 0.75 * (1.0 + nv)
            else:
                edited = edited[::-1].copy() + 0.5 * nv
                L.call("obj.data[...] = x", e.data.__setitem__, Ellipsis, edited.reshape(e.data.shape))
            L.call("changeFrame(%s)" % target, e.changeFrame, ft)
            ne = float(np.linalg.norm(edited))
            res.check("edited_between_changes", L.data(e), act(TB, Tt_, edited), s1 + ne * (1 + pB + _pn(Tt_)), tag + " (" + how + ")")
    # the array the object was built from stays the caller's: a change of frame must not write through to it (a second
    # object built from the same array afterwards is the same object in frame A); and an INTEGER array is a valid payload
    mkarr = {"Wrench": lambda d: L.call("Wrench(data, None, frame)", L.Wrench, d, None, L.frame(c["A"])),
             "Screw": lambda d: L.call("Screw(data, frame)", L.Screw, d, L.frame(c["A"]))}.get(cls)
    if mkarr is not None:
        for shape in ((6,), (6, 1)):
            arr = np.array(v, dtype=float).reshape(shape)
            o1 = mkarr(arr)
            L.call("changeFrame(B)", o1.changeFrame, fB)
            res.check("callers_array_after_frame_change", arr.reshape(6), v, 0.0, "array handed to the constructor, after changeFrame")
            o2 = mkarr(arr)
            L.call("changeFrame(B)", o2.changeFrame, fB)
            res.check("callers_array_after_frame_change", L.data(o2), eB, s1, "second object from the same array, A->B")
        vi = np.round(v)
        if np.array_equal(vi, v):           # integer-valued data (the basis vectors): also as an int64 array
            oi = mkarr(np.array(vi, dtype=np.int64))
            L.call("changeFrame(B)", oi.changeFrame, fB)
            res.check("formula", L.data(oi), eB, s1, "A->B, payload given as an int64 array")
            L.call("changeFrame(A)", oi.changeFrame, fA)
            res.check("roundtrip", L.data(oi), v, s1 + float(np.linalg.norm(eB)) * (1 + pA + pB), "A->B->A, int64 payload")
    # explicit old frame: the object was built without a frame (recorded: identity), the caller names its frame
    w = L.mk(cls, v, [0.0] * 6, c["ctor"])
    if cls == "Wrench":
        w2 = L.call("fsr.transformWrenchFrame(w, A, B)", L.fsr.transformWrenchFrame, w, fA, fB)
    else:
        w2 = L.call("changeFrame(B, old_frame=A)", w.changeFrame, fB, fA)
    res.check("explicit_old_frame", None if w2 is None else L.data(w2), eB, s1, "A named explicitly")
    if c["A"] != c["B"] and w2 is not None:
        res.frame(L, "explicit_old_frame", w2.frame_applied, TB, "recorded frame")


def case_shared(L, c, res):
    """Histories on SHARED, MUTABLE frame objects: two objects carry the same frame object A; the first is changed to the
    frame OBJECT fB; fB is then moved in place to the pose C (by one of the transform's writers); the second object is
    changed to fB.  It must arrive in C.  Then fA itself is moved in place and a third object built on it is changed to
    fB.  (A frame transition remembered per pair of frame OBJECTS is only wrong here.)"""
    cls, v = c["cls"], np.array(c["v"], float)
    u = np.array(GEN2, float)
    TA, TB, TC = (se3.T_from_taa(c[k]) for k in "ABC")
    act = wr.CHANGE[cls]
    fA, fB = L.frame(c["A"]), L.frame(c["B"])
    mkobj = {"Wrench": lambda d: L.call("Wrench(data, None, frame)", L.Wrench, np.array(d, float), None, fA),
             "Screw": lambda d: L.call("Screw(data, frame)", L.Screw, np.array(d, float), fA)}[cls]
    x1, x2 = mkobj(v), mkobj(u)
    L.call("changeFrame(B)", x1.changeFrame, fB)
    s1 = float(np.linalg.norm(v)) * (1 + _pn(TA) + _pn(TB))
    res.check("shared_first", L.data(x1), act(TA, TB, v), s1, "A->B")
    how = c["how"]
    if how == "sTAA":
        L.call("frame.sTAA", fB.sTAA, np.array(c["C"], float).reshape(6, 1))
    elif how == "sTM":
        L.call("frame.sTM", fB.sTM, TC.copy())
    else:
        L.call("frame[0:3]=", fB.__setitem__, slice(0, 3), list(c["C"][:3]))
        L.call("frame[3:6]=", fB.__setitem__, slice(3, 6), list(c["C"][3:]))
    L.call("changeFrame(B moved to C)", x2.changeFrame, fB)
    s2 = float(np.linalg.norm(u)) * (1 + _pn(TA) + _pn(TC))
    res.check("frame_object_moved_in_place", L.data(x2), act(TA, TC, u), s2, "A->(B moved to C), frame object re-used")
    res.frame(L, "frame_recorded", x2.frame_applied, TC, "after changeFrame to the moved frame object")
    # now the source frame object moves (to B's old pose) and a new object on it goes to the frame object at C
    x3 = mkobj(v)
    L.call("frame.sTAA", fA.sTAA, np.array(c["B"], float).reshape(6, 1))
    if x3.frame_applied is fA:          # the object keeps the caller's frame object: it now lives in the moved frame
        L.call("changeFrame(C)", x3.changeFrame, fB)
        res.check("frame_object_moved_in_place", L.data(x3), act(TB, TC, v), float(np.linalg.norm(v)) * (1 + _pn(TB) + _pn(TC)),
                  "(A moved to B)->C, source frame object re-used")
    else:
        res.count("constructor_copies_frame")


def case_pairing(L, c, res):
    TA, TB, TC = (se3.T_from_taa(c[k]) for k in "ABC")
    pA, pB, pC = _pn(TA), _pn(TB), _pn(TC)
    fB = L.frame(c["B"])
    FB = np.zeros((6, 6))
    VB = np.zeros((6, 6))
    for i in range(6):
        w = L.mk("Wrench", BASIS[i], c["A"], "col" if i % 2 else "flat")
        L.call("Wrench.changeFrame(B)", w.changeFrame, fB)
        t = L.mk("Twist", BASIS[i], c["C"], "flat" if i % 2 else "col")
        L.call("Twist.changeFrame(B)", t.changeFrame, fB)
        dw, dt = L.data(w), L.data(t)
        if dw is None or dt is None:
            res.fail("pairing", {"shape": "data is not 6 numbers", "i": i})
            return
        FB[:, i], VB[:, i] = dw, dt
    P = FB.T @ VB                                   # P[i,j] = <wrench e_i given in A, twist e_j given in C>, computed in B
    E = se3.adj(wr.rel(TA, TC))                     # the same number computed in A: e_i . Ad(T_AC) e_j
    scale = (1 + pA + pB) * (1 + pB + pC)
    res.n += 35
    res.check("pairing", P.reshape(-1), E.reshape(-1), scale, "6x6 table wrench(A) . twist(C) evaluated in B")
    # the pairing through the library's reflected matmul on the twist object, one entry per row
    for i in range(6):
        t = L.mk("Twist", BASIS[i], c["C"], "flat")
        L.call("Twist.changeFrame(B)", t.changeFrame, fB)
        r = L.call("ndarray @ Twist", operator.matmul, FB[:, i].reshape(1, 6), t)
        r = np.asarray(r, float)
        if r.size != 1:
            res.fail("pairing", {"shape": list(r.shape), "info": "row @ twist is not a number"})
            continue
        res.check("pairing", [float(r.reshape(-1)[0])], [E[i, i]], scale, "row vector @ Twist object")


def case_point(L, c, res):
    TF, TP, TG = se3.T_from_taa(c["F"]), se3.T_from_taa(c["P"]), se3.T_from_taa(c["G"])
    p = TP[:3, 3]
    f = np.array(c["f"], float)
    fF, fP, fG = L.frame(c["F"]), L.frame(c["P"]), L.frame(c["G"])
    if c["ctor"] == "Wrench":
        w = L.call("Wrench(force, position, frame)", L.Wrench, f.copy(), fP, fF)
    elif c["ctor"] == "Wrench_list":
        w = L.call("Wrench(list, position, frame)", L.Wrench, [float(x) for x in f], fP, fF)
    else:
        mag = 2.5
        w = L.call("fsr.makeWrench(position, magnitude, direction, frame)", L.fsr.makeWrench, fP, mag,
                   [float(x) for x in f / mag], fF)
    m = L.call("getMoment()", w.getMoment)
    fo = L.call("getForce()", w.getForce)
    m = np.asarray(m, float).reshape(-1) if np.size(m) == 3 else None
    fo = np.asarray(fo, float).reshape(-1) if np.size(fo) == 3 else None
    nf, npp = float(np.linalg.norm(f)), float(np.linalg.norm(p))
    e0 = wr.wrench_from_point_force(p, f)
    if m is None or fo is None:
        res.fail("moment_pxf", {"shape": "getMoment/getForce are not 3 numbers"})
        return
    res.check("moment_pxf", m, e0[:3], nf * (1 + npp), "moment about the frame origin")
    res.check("force_kept", fo, f, nf, "force part")
    res.frame(L, "frame_recorded", w.frame_applied, TF, "wrench built at a point")
    n0 = float(np.linalg.norm(e0))
    q = TF[:3, :3] @ p + TF[:3, 3]
    pF, pG, nq = _pn(TF), _pn(TG), float(np.linalg.norm(q))
    # about its own point of application, axes of F
    o1 = [float(x) for x in q] + [float(x) for x in c["F"][3:]]
    w1 = L.call("copy()", w.copy)
    L.call("changeFrame(own point, axes of F)", w1.changeFrame, L.frame(o1))
    res.check("moment_own_point", L.data(w1), np.concatenate([np.zeros(3), f]), n0 * (1 + pF + nq), "axes of F")
    # about its own point of application, axes of G
    o2 = [float(x) for x in q] + [float(x) for x in c["G"][3:]]
    T2 = se3.T_from_taa(o2)
    w2 = L.call("copy()", w.copy)
    L.call("changeFrame(own point, axes of G)", w2.changeFrame, L.frame(o2))
    res.check("moment_own_point", L.data(w2), wr.point_force_about(TF, p, f, T2), n0 * (1 + pF + nq), "axes of G")
    # about the origin of G, by elementary statics
    w3 = L.call("copy()", w.copy)
    L.call("changeFrame(G)", w3.changeFrame, fG)
    res.check("moment_about_frame", L.data(w3), wr.point_force_about(TF, p, f, TG), n0 * (1 + pF + pG), "about G")
    res.frame(L, "frame_recorded", w3.frame_applied, TG, "point wrench after changeFrame(G)")


def case_sums(L, c, res):
    cls, u, v = c["cls"], np.array(c["u"], float), np.array(c["v"], float)
    TA, TB, TC = (se3.T_from_taa(c[k]) for k in "ABC")
    pA, pB, pC = _pn(TA), _pn(TB), _pn(TC)
    act = wr.CHANGE[cls]
    K = getattr(L, cls)
    a = L.mk(cls, u, c["A"], "flat")
    b = L.mk(cls, v, c["B"], "col")
    vA = act(TB, TA, v)
    uB = act(TA, TB, u)
    sc = _nz((np.linalg.norm(u) + np.linalg.norm(v)) * (1 + pA + pB))
    fC = L.frame(c["C"])
    for name, op, sign in (("sum_frames", operator.add, 1.0), ("diff_frames", operator.sub, -1.0)):
        r = L.call("a %s b" % ("+" if sign > 0 else "-"), op, a, b)
        want = u + sign * vA
        res.check(name, L.vec6(r), want, sc, "value in the left operand's frame")
        if not isinstance(r, K):
            res.fail("sum_kind", {"type": type(r).__name__, "want": cls, "op": name})
            continue
        res.frame(L, "sum_frame_recorded", r.frame_applied, TA, name)
        L.call("changeFrame(C) of the result", r.changeFrame, fC)
        res.check("sum_closure", L.data(r), act(TA, TC, want), sc * (1 + pA + pC) + _nz(np.linalg.norm(want)) * (1 + pA + pC),
                  name + " re-expressed in C")
    # operands are not changed by the operators (they are reused below)
    res.check("sum_frames", L.data(a), u, _nz(np.linalg.norm(u)), "left operand after the operators")
    res.check("sum_frames", L.data(b), v, _nz(np.linalg.norm(v)), "right operand after the operators")
    res.frame(L, "sum_frame_recorded", b.frame_applied, TB, "right operand after the operators")
    # (b + a) - b = a, expressed in b's frame
    r = L.call("(b + a) - b", lambda: (b + a) - b)
    res.check("law_add_sub", L.vec6(r), uB, sc * (1 + pA + pB), "(b+a)-b in the frame of b")
    if isinstance(r, L.Screw):
        res.frame(L, "sum_frame_recorded", r.frame_applied, TB, "(b+a)-b")
    r = L.call("(a - b) + b", lambda: (a - b) + b)
    res.check("law_add_sub", L.vec6(r), u, sc * (1 + pA + pB), "(a-b)+b in the frame of a")


def operand(L, c):
    form, val = c["form"], c["val"]
    if form == "int":
        return int(val)
    if form == "float":
        return float(val)
    if form == "npf64":
        return np.float64(val)
    if form == "npf32":
        return np.float32(val)
    if form == "npi64":
        return np.int64(val)
    if form == "arr6":
        return np.array(val, dtype=float)
    if form == "arr61":
        return np.array(val, dtype=float).reshape((6, 1))
    if form == "arr6i":
        return np.array(val, dtype=np.int64)
    if form == "arr61i":
        return np.array(val, dtype=np.int64).reshape((6, 1))
    if form == "obj":
        return L.mk(c["cls"], val, c["B"], "col")
    raise ValueError(form)


def case_arith(L, c, res):
    cls, form = c["cls"], c["form"]
    a6 = np.array(c["v"], float)
    TA, TC = se3.T_from_taa(c["A"]), se3.T_from_taa(c["C"])
    TB = se3.T_from_taa(c["B"]) if form == "obj" else TA
    pA, pB, pC = _pn(TA), _pn(TB), _pn(TC)
    act = wr.CHANGE[cls]
    K = getattr(L, cls)
    fC = L.frame(c["C"])
    is_obj = form == "obj"
    scalar = form in ("int", "float", "npf64", "npf32", "npi64")
    flat = form in ("arr6", "arr6i")
    if is_obj:
        on = act(TB, TA, np.array(c["val"], float))      # the operand's value in the coordinates of A
    elif scalar:
        on = np.full(6, float(c["val"]))
    else:
        on = np.array(c["val"], float).reshape(6)
    fs = (1 + pA + pB) if is_obj else 1.0
    sc = _nz((np.linalg.norm(a6) + np.linalg.norm(on)) * fs)

    def A():
        return L.mk(cls, a6, c["A"], c["ctor"])

    def O():
        return operand(L, c)

    def neg(o):
        return L.call("-1 * object", operator.mul, -1, o) if is_obj else -o

    def alt66(r, want66):
        """Flat 6-arrays meet the 6x1 data by NumPy broadcasting in * and / ("multiply by x and hope for the best"):
        a 6x6 outer table is accepted for them, and only for them."""
        if not flat or isinstance(r, L.Screw):
            return None
        rr = np.asarray(r, float)
        return (rr, want66) if rr.shape == (6, 6) else None

    def closure(r, op):
        """An object result of a vector-space operation records the frame of `a` and is of a's kind: re-expressing
        it in C follows the rule of a's class."""
        if not isinstance(r, L.Screw):
            return
        res.frame(L, "result_frame", r.frame_applied, TA, op)
        d = L.vec6(r)
        if d is None:
            return
        rc = L.call("copy() of a result", r.copy)
        L.call("changeFrame(C) of a result", rc.changeFrame, fC)
        res.check("result_closure", L.data(rc), act(TA, TC, d), _nz(np.linalg.norm(d)) * (1 + pA + pC),
                  {"op": op, "result_type": type(r).__name__, "operand_class": cls})

    col = a6.reshape(6, 1)
    # ---- values of every operator, both sides
    if not is_obj:
        table = [("add_value", "a + o", lambda: A() + O(), a6 + on, None, True),
                 ("radd_value", "o + a", lambda: O() + A(), a6 + on, None, True),
                 ("sub_value", "a - o", lambda: A() - O(), a6 - on, None, True),
                 ("rsub_value", "o - a", lambda: O() - A(), on - a6, None, True),
                 ("mul_value", "a * o", lambda: A() * O(), a6 * on, col * on.reshape(1, 6), scalar),
                 ("rmul_value", "o * a", lambda: O() * A(), a6 * on, col * on.reshape(1, 6), scalar),
                 ("div_value", "a / o", lambda: A() / O(), a6 / on, col / on.reshape(1, 6), scalar)]
        if np.all(a6 != 0):
            table.append(("rdiv_value", "o / a", lambda: O() / A(), on / a6, on.reshape(1, 6) / col, False))
        else:
            res.count("skipped_rdiv_zero_entries")
        for clause, label, fn, want, want66, vs_op in table:
            r = L.call(label, fn)
            res.check(clause, L.vec6(r), want, sc if clause[:3] in ("add", "rad", "sub", "rsu") else _nz(np.linalg.norm(want)),
                      {"op": label, "result_type": type(r).__name__}, alt=alt66(r, want66))
            if vs_op:
                closure(r, label)
    else:
        for clause, label, fn, want in (("add_value", "a + b", lambda: A() + O(), a6 + on),
                                        ("sub_value", "a - b", lambda: A() - O(), a6 - on)):
            r = L.call(label, fn)
            res.check(clause, L.vec6(r), want, sc, {"op": label, "result_type": type(r).__name__})
            if not isinstance(r, K):
                res.fail("result_closure", {"op": label, "result_type": type(r).__name__, "operand_class": cls})
            closure(r, label)
        res.count("skipped_object_times_object_is_cross_product")
        # the reflected methods called directly with an object: a.__radd__(b) is b + a, a.__rsub__(b) is b - a.
        # The result may be recorded in either operand's frame, its value must be right in the frame it records.
        for clause, label, name, wantA in (("dunder_radd_object", "a.__radd__(b)", "__radd__", on + a6),
                                           ("dunder_rsub_object", "a.__rsub__(b)", "__rsub__", on - a6)):
            aa, bb = A(), O()
            r = L.call(label, getattr(aa, name), bb)
            if r is NotImplemented:
                res.count("dunder_not_implemented")
                continue
            d = L.vec6(r)
            if not isinstance(r, L.Screw) or d is None:
                res.fail(clause, {"op": label, "result_type": type(r).__name__})
                continue
            M = np.asarray(L.call("gTM()", r.frame_applied.gTM), float)
            inA = np.abs(M - TA).max() <= 1e-8 * (1 + pA)
            inB = np.abs(M - TB).max() <= 1e-8 * (1 + pB)
            if not (inA or inB):
                res.fail(clause, {"op": label, "info": "recorded frame is neither operand's frame", "recorded": M.tolist()})
                continue
            want = wantA if inA else act(TA, TB, wantA)
            res.check(clause, d, want, sc * (1 + pA + pB), {"op": label, "recorded_frame": "A" if inA else "B"})
    # ---- laws composed from library operators only
    r = L.call("(a + o) - o", lambda: (A() + O()) - O())
    res.check("law_add_sub", L.vec6(r), a6, sc * fs, "(a+o)-o = a")
    r = L.call("(a - o) + o", lambda: (A() - O()) + O())
    res.check("law_add_sub", L.vec6(r), a6, sc * fs, "(a-o)+o = a")
    r1 = L.call("a - o", lambda: A() - O())
    r2 = L.call("a + (-o)", lambda: A() + neg(O()))
    d1, d2 = L.vec6(r1), L.vec6(r2)
    res.check("law_sub_neg", d1, d2 if d2 is not None else np.full(6, np.nan), sc * fs, "a-o = a+(-o)")
    if not is_obj:
        r = L.call("(o + a) - o", lambda: (O() + A()) - O())
        res.check("law_add_sub", L.vec6(r), a6, sc, "(o+a)-o = a")
        r = L.call("o - (o - a)", lambda: O() - (O() - A()))
        res.check("law_add_sub", L.vec6(r), a6, sc, "o-(o-a) = a")
        r3 = L.call("o - a", lambda: O() - A())
        d3 = L.vec6(r3)
        res.check("law_rsub_neg", d3, -d1 if d1 is not None else np.full(6, np.nan), sc, "o-a = -(a-o)")
        bc = np.broadcast_to(col, (6, 6))
        sm = _nz(np.linalg.norm(a6))
        for label, fn in (("(o * a) / o", lambda: (O() * A()) / O()), ("(a * o) / o", lambda: (A() * O()) / O()),
                          ("(a / o) * o", lambda: (A() / O()) * O())):
            r = L.call(label, fn)
            res.check("law_mul_div", L.vec6(r), a6, sm, label + " = a", alt=alt66(r, bc))
        if np.all(a6 != 0):
            r = L.call("o / (o / a)", lambda: O() / (O() / A()))
            res.check("law_mul_div", L.vec6(r), a6, sm, "o/(o/a) = a", alt=alt66(r, bc))


CASEFN = {"frames": case_frames, "pairing": case_pairing, "point": case_point, "sums": case_sums, "arith": case_arith,
          "shared": case_shared}


def run_case(L, c):
    res = Res()
    try:
        CASEFN[c["part"]](L, c, res)
    except LibRaised as e:
        res.n += 1
        res.f.append({"clause": "raised", "observed": {"call": e.label, "exception": repr(e.exc)}, "tolerance": None,
                      "quantities": {}})
    return res


# ---------------------------------------------------------------------------------------------- enumeration

_CASES = {}


def cases(part, tier, seed):
    """The complete, fixed enumeration order of one part (plain data, no library objects)."""
    k = (part, tier, int(seed))
    if k in _CASES:
        return _CASES[k]
    fr = frames(tier, seed)
    vs = vectors(tier)
    n = len(fr)
    out = []
    if part == "frames":
        for ia in range(n):
            for ib in range(n):
                for ic in range(n):
                    for iv, v in enumerate(vs):
                        for cls in ("Screw", "Wrench"):
                            out.append({"part": part, "cls": cls, "v": v, "ctor": "col" if iv % 2 else "flat",
                                        "A": fr[ia][1], "B": fr[ib][1], "C": fr[ic][1],
                                        "names": [fr[ia][0], fr[ib][0], fr[ic][0]], "trivial": ia == ib == ic})
    elif part == "pairing":
        for ia in range(n):
            for ib in range(n):
                for ic in range(n):
                    out.append({"part": part, "A": fr[ia][1], "B": fr[ib][1], "C": fr[ic][1],
                                "names": [fr[ia][0], fr[ib][0], fr[ic][0]], "trivial": ia == ib == ic})
    elif part == "point":
        for iF in range(n):
            for iP in range(n):
                for iG in range(n):
                    for f in FORCES:
                        for ctor in ("Wrench", "Wrench_list", "makeWrench"):
                            out.append({"part": part, "F": fr[iF][1], "P": fr[iP][1], "G": fr[iG][1], "f": f, "ctor": ctor,
                                        "names": [fr[iF][0], fr[iP][0], fr[iG][0]],
                                        "trivial": iF == iG and not any(fr[iP][1][:3])})
    elif part == "sums":
        for ia in range(n):
            for ib in range(n):
                for ic in range(n):
                    for iu, u in enumerate(vs):
                        # every pair of vectors for every ordered pair of frames (C = A); two partners otherwise
                        for v in (vs if ic == ia else [vs[(iu + 1) % len(vs)], GEN2]):
                            for cls in ("Screw", "Wrench"):
                                out.append({"part": part, "cls": cls, "u": u, "v": v, "A": fr[ia][1], "B": fr[ib][1],
                                            "C": fr[ic][1], "names": [fr[ia][0], fr[ib][0], fr[ic][0]], "trivial": False})
    elif part == "arith":
        for cls in ("Screw", "Wrench"):
            for ia in range(n):
                ic = (ia + 1) % n
                for iv, v in enumerate(vs):
                    base = {"part": part, "cls": cls, "v": v, "ctor": "col" if iv % 2 else "flat", "A": fr[ia][1],
                            "C": fr[ic][1], "trivial": False}
                    for form, val in SCALARS + ARRAYS:
                        out.append(dict(base, form=form, val=val, names=[fr[ia][0], None, fr[ic][0]]))
                    for ib in range(n):
                        out.append(dict(base, form="obj", val=GEN2, B=fr[ib][1], names=[fr[ia][0], fr[ib][0], fr[ic][0]]))
    elif part == "shared":
        hows = ("sTAA", "sTM", "slices")
        for ia in range(n):
            for ib in range(n):
                for ic in range(n):
                    if ib == ic:
                        continue
                    for cls in ("Screw", "Wrench"):
                        out.append({"part": part, "cls": cls, "v": vs[(ia + ib + ic) % len(vs)], "A": fr[ia][1], "B": fr[ib][1],
                                    "C": fr[ic][1], "how": hows[(ia + 2 * ib + ic) % 3], "names": [fr[ia][0], fr[ib][0], fr[ic][0]],
                                    "trivial": False})
    else:
        raise ValueError(part)
    _CASES[k] = out
    return out


def work(p):
    L = lib()
    cs = cases(p["part"], p["tier"], p["seed"])
    acc = lattice.Acc()
    for i in range(p["lo"], p["hi"]):
        c = cs[i]
        res = run_case(L, c)
        acc.evals += res.n
        if not c["trivial"]:
            acc.nontrivial_count += 1
        else:
            acc.outcome("trivial_cases")
        acc.outcome("cases")
        for k, v in res.r.items():
            acc.resid(k, v)
        for k, v in res.out.items():
            acc.outcome(k, v)
        for f in res.f:
            acc.violation(f["clause"], {k: v for k, v in c.items() if k != "trivial"}, f["observed"], f["tolerance"],
                          f.get("quantities"))
        if i % 977 == 0:
            acc.sample({"case": {k: v for k, v in c.items() if k not in ("trivial",)}, "checks": res.n, "worst": res.r})
    return acc.result()


def run(ctx):
    fr = frames(ctx.tier, ctx.seed)
    parts = []
    with ctx.pool() as pool:
        for part in PARTS:
            total = len(cases(part, ctx.tier, ctx.seed))
            m = lattice.run(ctx, pool, MOD, "work", total, extra={"part": part}, part=part)
            m["cases"] = total
            parts.append((part, m))
    margins = [wr.pi_margin(se3.T_from_taa(a[1]), se3.T_from_taa(b[1])) for a in fr for b in fr]
    lattice.fill(ctx, parts,
                 "complete products: frames^3 x vectors x {Screw,Wrench} (frame change, pairing, sums), "
                 "frames^3 x forces x 3 constructors (force at a point), {Screw,Wrench} x frames x vectors x "
                 "(7 scalar forms + 4 array forms + an object in every frame) x every operator and its reflection; shared-frame-object "
                 "histories over frames^3 (two objects on one frame object, target frame object moved in place between the changes); "
                 "every case distinct by construction, non-trivial = not all three frames equal; "
                 "`evaluations` counts individual comparisons, `distinct_nontrivial` counts cases",
                 {"frames": [f[0] for f in fr], "seed_frame": fr[-1][1], "vectors": len(vectors(ctx.tier)),
                  "triples": len(fr) ** 3, "scalar_forms": [s[0] + ":" + str(s[1]) for s in SCALARS],
                  "array_forms": [a[0] for a in ARRAYS], "min_pi_margin_of_relative_rotations": float(min(margins)),
                  "cases_per_part": {p: m["cases"] for p, m in parts}})
    ctx.assumptions += ["6-vectors are ordered angular/moment part first (the Modern Robotics order the classes use)",
                        "a frame is the pose of that frame in a common world; T_ab = inv(A) B",
                        "flat 6-arrays in * and / follow NumPy broadcasting against the 6x1 data (a 6x6 outer table "
                        "is accepted for them, and only for them); object * object is the screw cross product and is "
                        "not part of this property",
                        "no pair of palette frames has a relative rotation within 3e-5 of pi (KF1), asserted"]


def replay(rec):
    c = rec["case"]
    res = run_case(lib(), c)
    return [f for f in res.f if f["clause"] == rec["clause"]]
