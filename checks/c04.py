"""C04 - transform algebra is the SE(3) group; every constructor form means the same pose (LX)."""
import itertools

import numpy as np

from mc import lattice, palettes
from oracles import se3

MOD = "checks.c04"
PI = np.pi
TOL = 5e-6
ANG = [0.0, 1e-7, 1e-5, 1e-3, 0.5, 1.0, PI / 2, 2.5, PI - 1e-3]
FORMS = ["list6", "arr6", "col6", "list3", "arr3", "rpy3", "rpy3arr", "rpy6", "rpy6arr", "rpy6col", "pair_rpy", "list7", "arr7", "mat4", "pair", "tm", "arr_of_tm"]


def poses(seed):
    V3 = [palettes.translations(seed)[i] for i in (0, 2, 3)]
    A6 = palettes.axes6()
    out, seen = [], set()
    for p, a, th in itertools.product(V3, A6, ANG):
        w = a * th
        k = (tuple(p), tuple(np.round(w, 13)))
        if k not in seen:
            seen.add(k)
            out.append((np.asarray(p, float), w))
    w, p = palettes.well_conditioned_pose(seed, 31)
    out.append((p, w))
    out.append((np.array([1e3, -1e3, 5e2]), np.array([0.3, -0.4, 0.5])))
    return out


def sub_palette(seed, n):
    P = poses(seed)
    step = max(1, len(P) // n)
    idx = list(range(0, len(P), step))[:n - 2] + [len(P) - 2, len(P) - 1]
    # make sure the awkward members are in: the pi-1e-3 rotations about two orthogonal axes and a tiny rotation
    return [P[i] for i in sorted(set(idx))]


def build(form, p, w, tm):
    from scipy.spatial.transform import Rotation as Rsc
    R = se3.rexp(w)
    T = se3.T_from(w, p)
    if form == "list6":
        return tm(list(p) + list(w)), T
    if form == "arr6":
        return tm(np.concatenate([p, w])), T
    if form == "col6":
        return tm(np.concatenate([p, w]).reshape(6, 1)), T
    if form in ("list3", "arr3"):
        T0 = se3.T_from(w, [0, 0, 0])
        return (tm(list(w)) if form == "list3" else tm(np.array(w))), T0
    if form in ("rpy3", "rpy3arr", "rpy6", "rpy6arr", "rpy6col", "pair_rpy"):
        import warnings
        with warnings.catch_warnings():
            warnings.simplefilter("ignore")
            a, b, c = Rsc.from_matrix(R).as_euler("XYZ")
        Rw = se3.rot_xyz(a, b, c)                       # what 'roll-pitch-yaw flag' means: Rx*Ry*Rz
        if form in ("rpy3", "rpy3arr"):
            E = np.eye(4)
            E[:3, :3] = Rw
            return (tm([a, b, c], True) if form == "rpy3" else tm(np.array([a, b, c]), True)), E
        E = np.eye(4)
        E[:3, :3] = Rw
        E[:3, 3] = p
        if form == "rpy6":
            return tm(list(p) + [a, b, c], True), E
        if form == "rpy6col":
            return tm(np.array(list(p) + [a, b, c]).reshape(6, 1), True), E
        if form == "pair_rpy":
            return tm([list(p), [a, b, c]], True), E
        return tm(np.array(list(p) + [a, b, c]), True), E
    if form in ("list7", "arr7"):
        qv = Rsc.from_rotvec(w).as_quat()               # x, y, z, w
        v = list(p) + list(qv)
        return (tm(v) if form == "list7" else tm(np.array(v))), T
    if form == "mat4":
        return tm(T.copy()), T
    if form == "pair":
        return tm([list(p), list(w)]), T
    if form == "tm":
        return tm(tm(list(p) + list(w))), T
    if form == "arr_of_tm":
        return tm(np.array([tm(T.copy())])), T
    raise KeyError(form)


ARRAY_FORMS = ("arr6", "col6", "arr3", "arr7", "mat4", "rpy6arr", "rpy6col", "rpy3arr")


def array_arg(form, p, w):
    """-> (fresh float64 array the caller would hand over, rpy flag) for the array-taking constructor forms."""
    from scipy.spatial.transform import Rotation as Rsc
    if form == "arr6":
        return np.concatenate([p, w]).astype(float), False
    if form == "col6":
        return np.concatenate([p, w]).astype(float).reshape(6, 1), False
    if form == "arr3":
        return np.array(w, float), False
    if form == "arr7":
        return np.array(list(p) + list(Rsc.from_rotvec(w).as_quat()), float), False
    if form == "mat4":
        return se3.T_from(w, p), False
    import warnings
    with warnings.catch_warnings():
        warnings.simplefilter("ignore")
        a, b, c = Rsc.from_matrix(se3.rexp(w)).as_euler("XYZ")
    if form == "rpy3arr":
        return np.array([a, b, c], float), True
    if form == "rpy6arr":
        return np.array(list(p) + [a, b, c], float), True
    if form == "rpy6col":
        return np.array(list(p) + [a, b, c], float).reshape(6, 1), True
    raise KeyError(form)


def caller_array_history(form, pos, w, E, tm):
    """The array handed to a constructor stays the caller's.  -> (error of a SECOND transform built from the same array
    object, error of the first transform after the caller refilled the array)."""
    buf, flag = array_arg(form, pos, w)
    first = tm(buf, True) if flag else tm(buf)
    second = tm(buf, True) if flag else tm(buf)

    def err(t):
        return max(float(np.abs(t.gTM() - E).max()), float(np.abs(se3.T_from_taa(t.gTAA().reshape(6)) - E).max()))
    e_second = err(second)
    buf[...] = buf * 0.5 + 0.37
    return e_second, max(err(first), err(second))


def work_forms(p):
    from basic_robotics.general import tm
    P = poses(p["seed"])
    acc = lattice.Acc()
    cases = list(itertools.product(range(len(P)), range(len(FORMS))))
    for ip, jf in cases[p["lo"]:p["hi"]]:
        pos, w = P[ip]
        form = FORMS[jf]
        case = {"part": "forms", "form": form, "p": pos, "w": w}
        th = float(np.linalg.norm(w))
        try:
            t, E = build(form, pos, w, tm)
            G = t.gTM()
            if G.shape != (4, 4):
                acc.violation("ctor_form", case, "shape %r" % (G.shape,))
                continue
            s = max(1.0, float(np.abs(pos).max()))
            e = float(np.abs(G - E).max()) / s
            acc.resid("ctor_form." + form, e)
            q = {"pi_minus_angle": PI - se3.rangle(E[:3, :3])}
            if not (e <= TOL):
                acc.violation("ctor_form", case, e, TOL, q)
            # both representations of the constructed object agree with the pose
            e2 = float(np.abs(se3.T_from_taa(t.gTAA().reshape(6)) - E).max()) / s
            if not (e2 <= TOL):
                acc.violation("ctor_form", dict(case, via="gTAA"), e2, TOL, q)
            # the array handed to the constructor stays the caller's: a second transform built from the same array object is
            # the same pose, and refilling the array afterwards moves neither
            if form in ARRAY_FORMS:
                e_second, e4 = caller_array_history(form, pos, w, E, tm)
                if not (e_second / s <= TOL):
                    acc.violation("ctor_form", dict(case, via="second construction from the same array"), e_second / s, TOL, q)
                if not (e4 / s <= TOL):
                    acc.violation("ctor_form", dict(case, via="caller refilled its array"), e4 / s, TOL, q)
            # reading then setting the quaternion is the identity
            t2 = t.copy()
            t2.setQuat(t2.getQuat())
            e3 = float(np.abs(t2.gTM() - G).max()) / s
            acc.resid("quat_roundtrip", e3)
            if not (e3 <= TOL):
                acc.violation("quat_roundtrip", case, e3, TOL, q)
        except Exception as ex:
            acc.violation("raised", case, repr(ex))
        acc.case(("f", form, tuple(pos), tuple(np.round(w, 13))), nontrivial=(th > 1e-6 or form in ("list3", "arr3", "rpy3", "rpy3arr")))
        if ip == 40:
            acc.sample(case)
    return acc.result()


def work_triples(p):
    from basic_robotics.general import tm, fsr
    S = sub_palette(p["seed"], p["n"])
    n = len(S)
    acc = lattice.Acc()
    M = [se3.T_from(w, pos) for pos, w in S]
    for idx in range(p["lo"], p["hi"]):
        i, r = divmod(idx, n * n)
        j, k = divmod(r, n)
        case = {"part": "triples", "n": p["n"], "ijk": [i, j, k], "poses": [[S[x][0], S[x][1]] for x in (i, j, k)]}
        try:
            a, b, c = (tm(list(S[x][0]) + list(S[x][1])) for x in (i, j, k))
            s = max(1.0, np.abs(M[i][:3, 3]).max()) * max(1.0, np.abs(M[j][:3, 3]).max()) * max(1.0, np.abs(M[k][:3, 3]).max())
            AB = M[i] @ M[j]

            def res(name, got, want, scale=s, q=None):
                e = float(np.abs(got - want).max()) / scale
                acc.resid(name, e if not (q and 0 < q.get("pi_minus_angle", 1) < 3e-5) else 0.0)
                if not (e <= TOL):
                    acc.violation(name, case, e, TOL, q)
            res("matmul", (a @ b).gTM(), AB)
            res("matmul_array", (a @ b.gTM()).gTM(), AB)
            res("mul_tm", (a * b).gTM(), AB)
            res("assoc", ((a @ b) @ c).gTM(), (a @ (b @ c)).gTM())
            res("assoc_value", ((a @ b) @ c).gTM(), AB @ M[k])
            res("inv", a.inv().gTM(), se3.tinv(M[i]))
            res("inv_group", (a.inv() @ a).gTM(), np.eye(4))
            res("floordiv", (a // b).gTM(), M[i] @ se3.tinv(M[j]))
            ql = {"pi_minus_angle": PI - se3.rangle(AB[:3, :3])}
            G = fsr.localToGlobal(a, b)
            res("frame_conversion", G.gTM(), AB, s, ql)
            Lw = se3.tinv(M[i]) @ M[j]
            qg = {"pi_minus_angle": PI - se3.rangle(Lw[:3, :3])}
            L = fsr.globalToLocal(a, b)
            res("frame_conversion", L.gTM(), Lw, s, qg)
            # mutual inverses (only where neither leg enters the logarithm's known-finding band)
            if not (0 < ql["pi_minus_angle"] < 3e-5):
                back = fsr.globalToLocal(a, G)
                res("frame_roundtrip", back.gTM(), M[j], s, {"pi_minus_angle": PI - se3.rangle(M[j][:3, :3])})
            if not (0 < qg["pi_minus_angle"] < 3e-5):
                fwd = fsr.localToGlobal(a, L)
                res("frame_roundtrip", fwd.gTM(), M[j], s, {"pi_minus_angle": PI - se3.rangle(M[j][:3, :3])})
        except Exception as ex:
            acc.violation("raised", case, repr(ex))
        acc.evals += 1
        if len({i, j, k}) == 3:
            acc.nontrivial_count += 1
    return acc.result()


QUERIES = ("inv", "gTM", "gTAA", "getQuat", "adjoint", "gRot", "gPos", "matmul", "rmatmul", "l2g", "g2l", "l2g_as_rel", "copy", "ctor_tm")
WRITERS = ("sTAA", "sTM", "setQuat", "slice_rot", "slice_pos", "set0", "set4", "item2", "item5", "item_neg1")


def _query(name, t, other, fsr, tm):
    if name == "inv":
        return t.inv().gTM()
    if name == "gTM":
        return t.gTM()
    if name == "gTAA":
        return se3.T_from_taa(t.gTAA().reshape(6))
    if name == "getQuat":
        from scipy.spatial.transform import Rotation as Rsc
        return Rsc.from_quat(t.getQuat()).as_matrix()
    if name == "adjoint":
        return t.adjoint()
    if name == "gRot":
        return t.gRot()
    if name == "gPos":
        return np.asarray(t.gPos(), float).reshape(3)
    if name == "matmul":
        return (t @ other).gTM()
    if name == "rmatmul":
        return (other @ t).gTM()
    if name == "l2g":
        return fsr.localToGlobal(t, other).gTM()
    if name == "g2l":
        return fsr.globalToLocal(t, other).gTM()
    if name == "l2g_as_rel":
        return fsr.localToGlobal(other, t).gTM()
    if name == "copy":
        return t.copy().gTM()
    if name == "ctor_tm":
        return tm(t).gTM()
    raise KeyError(name)


def _write(name, t, pQ, wQ):
    """applies the writer to t and returns the pose (as 4x4) the object must now have, given its six-vector before"""
    from scipy.spatial.transform import Rotation as Rsc
    taa = t.gTAA().reshape(6).copy()
    if name == "sTAA":
        t.sTAA(np.concatenate([pQ, wQ]).reshape(6, 1))
        return se3.T_from(wQ, pQ)
    if name == "sTM":
        t.sTM(se3.T_from(wQ, pQ))
        return se3.T_from(wQ, pQ)
    if name == "setQuat":
        t.setQuat(Rsc.from_rotvec(wQ).as_quat())
        return se3.T_from(wQ, taa[:3])
    if name == "slice_rot":
        t[3:6] = np.array(wQ).reshape(3, 1)
        return se3.T_from(wQ, taa[:3])
    if name == "slice_pos":
        t[0:3] = list(pQ)
        return se3.T_from(taa[3:], pQ)
    idx, val = {"set0": (0, pQ[0]), "set4": (4, wQ[1]), "item2": (2, pQ[2]), "item5": (5, wQ[2]), "item_neg1": (-1, wQ[2])}[name]
    if name.startswith("set"):
        t.set(idx, val)
    else:
        t[idx] = val
    taa[idx] = val
    return se3.T_from_taa(taa)


def work_stale(p):
    """Histories  query, write, query  on ONE object: every query is first asked (so that anything a query might
    remember is remembered), then the pose is rewritten through one writer, then every query must answer for the NEW pose -
    exactly as a freshly built transform of that pose does."""
    from basic_robotics.general import tm, fsr
    S = sub_palette(p["seed"], 12)
    n = len(S)
    acc = lattice.Acc()
    cases = [(i, j, w) for i in range(n) for j in range(n) if i != j for w in WRITERS]
    for i, j, wname in cases[p["lo"]:p["hi"]]:
        (pP, wP), (pQ, wQ) = S[i], S[j]
        case = {"part": "stale", "i": i, "j": j, "writer": wname, "from": [pP, wP], "to": [pQ, wQ]}
        try:
            t = tm(list(pP) + list(wP))
            other = tm([0.4, -0.3, 0.2, 0.1, 0.5, -0.2])
            for qn in QUERIES:
                _query(qn, t, other, fsr, tm)
            E = _write(wname, t, np.array(pQ, float), np.array(wQ, float))
            fresh = tm(E.copy())
            s = max(1.0, float(np.abs(E[:3, 3]).max()))
            ang_q = {"pi_minus_angle": PI - se3.rangle(E[:3, :3])}
            for qn in QUERIES:
                got = _query(qn, t, other, fsr, tm)
                want = _query(qn, fresh, other, fsr, tm)
                e = float(np.abs(np.asarray(got, float) - np.asarray(want, float)).max()) / s
                acc.resid("query_after_write", e)
                if not (e <= TOL):
                    acc.violation("query_after_write", dict(case, query=qn), e, TOL, ang_q)
        except Exception as ex:
            acc.violation("raised", case, repr(ex))
        acc.evals += 1
        acc.nontrivial_count += 1
    return acc.result()


def run(ctx):
    P = poses(ctx.seed)
    n = 60 if ctx.tier == "thorough" else 24
    S = sub_palette(ctx.seed, n)
    with ctx.pool(8 if ctx.tier == "quick" else None) as pool:
        m1 = lattice.run(ctx, pool, MOD, "work_forms", len(P) * len(FORMS), part="forms")
        m2 = lattice.run(ctx, pool, MOD, "work_triples", len(S) ** 3, extra={"n": n}, part="triples")
        ns = len(sub_palette(ctx.seed, 12))
        m3 = lattice.run(ctx, pool, MOD, "work_stale", ns * (ns - 1) * len(WRITERS), part="stale")
    lattice.fill(ctx, [("forms", m1), ("triples", m2), ("stale", m3)],
                 "every palette pose (3 positions x 6 axes x 7 angles + generic + far) in each of %d constructor forms; all ordered triples "
                 "of a %d-pose sub-palette (distinct by construction; non-trivial = three different poses); query-write-query histories: "
                 "all ordered pairs of a 12-pose sub-palette x %d writers x %d queries on one object against a fresh object of the written pose" % (len(FORMS), len(S), len(WRITERS), len(QUERIES)),
                 {"poses": len(P), "forms": len(FORMS), "triple_palette": len(S)})
    ctx.assumptions += ["rpy flag means R = Rx(a) Ry(b) Rz(c) (the property's reading); quaternions are scalar-last as scipy's",
                        "5e-6 absolute scaled by max(1,|p|) factors"]


def replay(rec):
    c = rec["case"]
    p = {"seed": rec.get("seed", 0), "tier": rec.get("tier", "quick")}
    if c["part"] == "forms":
        from basic_robotics.general import tm
        acc = lattice.Acc()
        P = [(np.array(c["p"]), np.array(c["w"]))]
        try:
            t, E = build(c["form"], P[0][0], P[0][1], tm)
            s = max(1.0, float(np.abs(P[0][0]).max()))
            if c.get("via") in ("caller refilled its array", "second construction from the same array"):
                e_second, e4 = caller_array_history(c["form"], P[0][0], P[0][1], E, tm)
                e = e4 if c["via"] == "caller refilled its array" else e_second
                return [{"clause": "ctor_form", "observed": e / s}] if not (e / s <= TOL) else []
            if not (np.abs(t.gTM() - E).max() / s <= TOL and np.abs(se3.T_from_taa(t.gTAA().reshape(6)) - E).max() / s <= TOL):
                acc.violation("ctor_form", c)
            t2 = t.copy()
            t2.setQuat(t2.getQuat())
            if not (np.abs(t2.gTM() - t.gTM()).max() / s <= TOL):
                acc.violation("quat_roundtrip", c)
        except Exception as ex:
            acc.violation("raised", c, repr(ex))
        return [v for v in acc.viols if v["clause"] == rec["clause"]]
    if c["part"] == "stale":
        S = sub_palette(p["seed"], 12)
        cases = [(i, j, w) for i in range(len(S)) for j in range(len(S)) if i != j for w in WRITERS]
        idx = cases.index((c["i"], c["j"], c["writer"]))
        r = work_stale({"seed": p["seed"], "lo": idx, "hi": idx + 1})
        return [v for v in r["viols"] if v["clause"] == rec["clause"] and v["case"].get("query") == c.get("query")]
    S = sub_palette(p["seed"], c["n"])
    n = len(S)
    i, j, k = c["ijk"]
    r = work_triples({"seed": p["seed"], "n": c["n"], "lo": (i * n + j) * n + k, "hi": (i * n + j) * n + k + 1})
    return [v for v in r["viols"] if v["clause"] == rec["clause"]]
