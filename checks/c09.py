"""C09 - Stewart platform: IK is exact geometry and FK inverts it (LX, exploration).

Enumerated lattice (DESIGN 4/C09): geometry family of checks/splib.py (quick 6, thorough all 432, built through newSP /
JSON+loadSP / makeSP) x base placement x spinCustom x relative top-plate pose.

Part "ik"  : bases {I, B1 (moved there), BS (seed-generic, constructed there)} x spins x the full 3^6 = 729 pose grid;
             plus the one seed-generic geometry 'seedgeo<seed>'.
   ik_distance     lengths returned by IK (protect=True on every pose; the default unprotected call on every in-workspace
                   pose) equal || T_top t_i - T_bot b_i || to 1e-9, with the plate-fixed points read ONCE at the neutral
                   pose before any re-spin (and rotated by the oracle for re-spun platforms)
   rigid_motion    IK(G T_top, G T_bot) returns the same lengths (1e-9)
   base_placement  the platform stands where it was put (constructor base / move): bottom pose = B, top pose = B * neutral
   respin_points   after spinCustom both plate poses are unchanged and the plate-fixed points are the old ones rotated
                   about the plate z axis - for a re-spin at the neutral pose (pose 0) and for a re-spin applied while
                   the platform stands at one of the 26 non-neutral poses of a 27-pose sub-grid (x, rx=ry, rz), when
                   the pose is inside the workspace before and after the re-spin; each followed by a SECOND consecutive
                   re-spin with the other argument form (radians / degrees), expected Rz(a1 + a2)
Part "fk"  : FIXED lattice (no seed element): bases {I, B1} x spins x the 81-pose sub-grid x fk_mode {1, 0}; only poses
             inside the workspace (IK with protect=True, then validate(donothing=True) accepts the state as it stands).
   fk_roundtrip    FK(lengths) on a fresh platform at the neutral pose returns the pose (translation, and rotation angle
                   times h) and getLens() the requested lengths to 1e-3 h.  Every failure carries the stable case id
                   <geometry>/<base>/<spin>/p<pose>/m<mode>; the known finding KF2 is the committed list
                   known_findings/c09_fk_cases.txt (failures + marginal cases of the repaired tree, thorough lattice);
                   a failing case that is not listed is a violation.
                   One class of cases has no per-case id: fk_mode 0 (fsolve) started from a top pose whose rotation
                   vector is below the exponential's 1e-6 cut-off (platform standing at an unrotated base).  There
                   fsolve's finite-difference Jacobian has three zero columns, its first step is rounding noise, and
                   whether it recovers changes with +-1 ulp on the requested lengths (measured: 25 % of such cases
                   flip between pass and fail over six such perturbations; fk_mode 1 and fsolve at a rotated base
                   never flip).  A per-case list cannot be stable for that class, so all its failures carry the one
                   class id "fsolve-zero-rotation-start" (listed); the fsolve path is decided at the rotated base.
   raised          a library call raised on a valid input

Quick: 6 geometries, spins {none, 0.4 rad or -60 deg alternating by geometry} (a subset of the thorough lattice);
thorough: all 432 geometries x all three spins.  Both tiers stop at a wall-clock cap (VERIF_BUDGET_S, default 300 / 840 s)
and then report the unfinished index ranges with exhaustive:false.

`VERIF_C09_WRITE_LIST=1 ./check C09 --tier thorough` regenerates the case list (never written otherwise; =merge unions
with the entries already there).  Generator mode evaluates the FK part only, without the time cap, requires the run to
be complete, and evaluates every case four more times with the requested lengths moved by up to 4 ulp (hysteresis in
input space: the rare bistable cases of the Newton-Raphson path - about 1 in 1e5 - are listed as 'unstable').
"""
import os
import time

import numpy as np

from checks import splib
from mc import env, lattice
from mc.pool import HarnessError, shards
from oracles import platform_geometry as pg
from oracles import se3

MOD = "checks.c09"
TOL_IK = 1e-9
FK_REL = 1e-3            # of the neutral height
MARGIN = 0.25            # residual/bound above which a passing case is listed as marginal (factor 4 hysteresis)
G_RIGID = se3.T_from_taa([0.3, -0.7, 0.2, -0.4, 0.2, 0.6])
G_CEILING = se3.T_from_taa([-0.4, 0.5, 2.5, 2.8, 0.3, -0.2])        # turns the base by ~2.8 rad: its z axis points downwards
LIST_REL = os.path.join("known_findings", "c09_fk_cases.txt")
CHAOTIC_ID = "fsolve-zero-rotation-start"
EXP_CUTOFF = 1e-6        # NearZero() in the library's MatrixExp3
N_PERTURB = 4            # list generator: extra evaluations of every case with the lengths moved by up to 4 ulp
RESPIN_AT = tuple(i for i in splib.FK_SUBGRID if splib.pose_digits(i)[2] == 0 and i != 0)


def plan(tier, seed=0):
    if tier == "thorough":
        gids = [g.gid for g in splib.family()]
        spins = list(splib.SPINS)
        sp = {g: spins for g in gids}
    else:
        gids = list(splib.QUICK_GIDS)
        spins = ["s0", "s0.4 / s-60d alternating by geometry"]
        sp = {g: ["s0", "s0.4" if k % 2 == 0 else "s-60d"] for k, g in enumerate(gids)}     # both argument forms of spinCustom
    ik_blocks = [(g, b, s) for g in gids for b in ("I", "B1", "BS") for s in sp[g]]
    ik_blocks += [("seedgeo%d" % seed, b, s) for b in ("I", "B1", "BS") for s in ("s0", "s0.4")]     # the seed-generic geometry
    fk_blocks = [(g, b, s) for g in gids for b in ("I", "B1") for s in sp[g]]
    # a steeply tilted base for the quick geometries (both tiers, so that the thorough lattice contains the quick one)
    tilt = [(g, "BT", "s0") for g in splib.QUICK_GIDS]
    ik_blocks += tilt
    fk_blocks += tilt
    return gids, spins, ik_blocks, fk_blocks


# ------------------------------------------------------------------------------------------------ platform cache
_PLAT = {}


def platform(gid, base, spin, seed):
    k = (gid, base, spin, seed if base == "BS" else 0)
    if k not in _PLAT:
        if len(_PLAT) > 8:
            _PLAT.clear()
        try:
            _PLAT[k] = splib.build(splib.geo(gid), base, spin, seed)
        except splib.Infeasible:
            _PLAT[k] = None
        except splib.BuildError as e:
            _PLAT[k] = e
    return _PLAT[k]


def _case(part, gid, base, spin, seed, pose, **kw):
    c = {"part": part, "gid": gid, "base": base, "spin": spin, "bs_seed": seed if base == "BS" else 0, "pose": pose}
    c.update(kw)
    return c


# ------------------------------------------------------------------------------------------------ case evaluators
def _spin(sp, name):
    a = splib.spin_arg(name)
    sp.spinCustom(a[0], a[1]) if a[1] else sp.spinCustom(a[0])


def eval_ik(P, case, out):
    """One (platform, pose) pair of part 'ik'.  Appends (clause, observed, tol, residual) to out; returns in_workspace."""
    from basic_robotics.general import tm
    i = case["pose"]
    Tt = P.B @ splib.rel_pose(P.h, i)
    want = pg.leg_lengths(P.B, Tt, P.bl, P.tl)
    s = P.fresh()
    L, ok = splib.place(s, Tt, P.B)
    out.append(("ik_distance", float(np.abs(L - want).max()), TOL_IK, {"protect": True}))
    with splib.quiet():
        L2, _ = s.IK(tm(G_RIGID @ Tt), tm(G_RIGID @ P.B), protect=True)
    out.append(("rigid_motion", float(np.abs(np.array(L2, float).reshape(6) - L).max()), TOL_IK, None))
    if ok:
        s3 = P.fresh()
        with splib.quiet():
            L3, v = s3.IK(tm(Tt.copy()), tm(P.B.copy()))
        out.append(("ik_distance", float(np.abs(np.array(L3, float).reshape(6) - want).max()), TOL_IK, {"protect": False, "valid": bool(v)}))
    if i == 0:
        r = max(np.abs(P.B_neutral - P.B).max(), np.abs(P.Tt_neutral - Tt).max())
        out.append(("base_placement", float(r), TOL_IK, None))
    # what IK returned is a value: a later IK on the same platform must not rewrite it
    s6 = P.fresh()
    with splib.quiet():
        La, _ = s6.IK(tm(Tt.copy()), tm(P.B.copy()), protect=True)
        snap = np.array(La, float).copy()
        s6.IK(tm((P.B @ splib.rel_pose(P.h, 0)).copy()), tm(P.B.copy()), protect=True)
    out.append(("earlier_result_overwritten", float(np.abs(np.array(La, float) - snap).max()), 0.0, None))
    # the caller keeps ONE pair of pose objects and moves them in place between two IK calls (both plates rigidly moved, then
    # the top plate to this pose): the second answer belongs to the poses the objects hold NOW
    s8 = P.fresh()
    G0 = se3.T_from([0.2, -0.1, 0.3], [-0.7, 0.4, 0.9])        # the first call already away from where the platform stands
    tobj, bobj = tm((G0 @ P.B @ splib.rel_pose(P.h, 0)).copy()), tm((G0 @ P.B).copy())
    with splib.quiet():
        s8.IK(tobj, bobj, protect=True)
        bobj.sTM((G_RIGID @ P.B).copy())
        tobj.sTM((G_RIGID @ Tt).copy())
        Lm, _ = s8.IK(tobj, bobj, protect=True)
        jm = max(np.abs(np.array(s8.getBottomJoints(), float) - pg.to_space(G_RIGID @ P.B, P.bl)).max(),
                 np.abs(np.array(s8.getTopJoints(), float) - pg.to_space(G_RIGID @ Tt, P.tl)).max())
    out.append(("pose_objects_moved_in_place", max(float(np.abs(np.array(Lm, float).reshape(6) - want).max()), float(jm)), TOL_IK * 10, None))
    if ok and i % 5 == 2:
        # (alternately a generic rigid motion and one that hangs the platform from the ceiling: base z axis pointing down)
        G_MOVE = G_RIGID if i % 10 == 2 else G_CEILING
        # FK with the bottom plate given explicitly somewhere else (the whole platform carried along by one rigid motion):
        # where FK from the platform's own base recovers the pose, FK at the other base recovers the moved pose, and lengths,
        # joints and the bottom pose on record belong to the NEW base
        sA = P.fresh()
        with splib.quiet():
            topA, _ = sA.FK(want.copy(), fk_mode=1)
        angA, distA = se3.pose_err(splib.T_of(topA), Tt)
        if max(distA, angA * P.h) <= 1e-4 * P.h:
            sB = P.fresh()
            B2 = G_MOVE @ P.B
            with splib.quiet():
                topB, _ = sB.FK(want.copy(), tm(B2.copy()), fk_mode=1)
            angB, distB = se3.pose_err(splib.T_of(topB), G_MOVE @ Tt)
            dl = float(np.abs(np.array(sB.getLens(), float).reshape(6) - want).max())
            dj = float(np.abs(np.array(sB.getBottomJoints(), float) - pg.to_space(B2, P.bl)).max())
            db = float(np.abs(splib.T_of(sB.getBottomT()) - B2).max())
            out.append(("fk_at_explicit_base", float(max(distB, angB * P.h, dl, dj, db)) / P.h, 1e-3, {"ceiling": i % 10 != 2}))
    if ok and P.spin != "s0" and i in RESPIN_AT:
        # forward kinematics used BEFORE the re-spin (anything the solver builds on first use is built for the old tables),
        # then re-spun, then asked for this pose: must answer as the platform that was re-spun before its first FK
        P0 = platform(P.geo.gid, P.base, "s0", P.seed)
        s7 = P0.fresh()
        Tt0 = P.B @ splib.rel_pose(P.h, 0)
        with splib.quiet():
            s7.FK(pg.leg_lengths(P.B, Tt0, P.bl0, P.tl0).copy(), fk_mode=1)
            _spin(s7, P.spin)
            splib.place(s7, Tt0, P.B)
            topa, _va = s7.FK(want.copy(), fk_mode=1)
            sref = P.fresh()
            topb, _vb = sref.FK(want.copy(), fk_mode=1)
        ang, dist = se3.pose_err(splib.T_of(topa), splib.T_of(topb))
        dl = float(np.abs(np.array(s7.getLens(), float).reshape(6) - np.array(sref.getLens(), float).reshape(6)).max())
        out.append(("fk_used_before_respin", float(max(dist, ang * P.h, dl)) / P.h, 1e-4, None))
    if P.spin != "s0":
        other = "s-60d" if P.spin == "s0.4" else "s0.4"          # the second, consecutive re-spin uses the other argument form
        a12 = splib.spin_angle(P.spin) + splib.spin_angle(other)
        bl2, tl2 = pg.spin_points(P.bl0, a12), pg.spin_points(P.tl0, a12)

        def points(sp, Tt_want):
            Tb2, Tt2 = splib.T_of(sp.getBottomT()), splib.T_of(sp.getTopT())
            return (pg.to_plate(Tb2, np.array(sp.getBottomJoints(), float)), pg.to_plate(Tt2, np.array(sp.getTopJoints(), float)),
                    max(np.abs(Tb2 - P.B).max(), np.abs(Tt2 - Tt_want).max()))

        def inside(bl_, tl_):      # leg range of the re-spun geometry at this pose, decided by the oracle
            Lr = pg.leg_lengths(P.B, Tt, bl_, tl_)
            return bool(np.all(Lr > P.nominal["lmin"] + 1e-9) and np.all(Lr < P.nominal["lmax"] - 1e-9))

        if i == 0:
            r = max(np.abs(P.bl_read - P.bl).max(), np.abs(P.tl_read - P.tl).max(),
                    np.abs(P.B_read - P.B_neutral).max(), np.abs(P.Tt_read - P.Tt_neutral).max())
            out.append(("respin_points", float(r), TOL_IK, {"spun_at_pose": 0, "second_spin": False}))
            s5 = P.fresh()
            with splib.quiet():
                _spin(s5, other)
            b_, t_, dp = points(s5, Tt)
            out.append(("respin_points", float(max(np.abs(b_ - bl2).max(), np.abs(t_ - tl2).max(), dp)), TOL_IK, {"spun_at_pose": 0, "second_spin": True}))
        elif ok and i in RESPIN_AT:
            # the same platform before its re-spin, standing at pose i, re-spun there (twice)
            P0 = platform(P.geo.gid, P.base, "s0", P.seed)
            s4 = P0.fresh()
            _, ok0 = splib.place(s4, Tt, P.B)
            if not ok0:        # the pose must be inside the workspace before AND after the re-spin (no corrective action)
                return ok
            with splib.quiet():
                _spin(s4, P.spin)
            b_, t_, dp = points(s4, Tt)
            out.append(("respin_points", float(max(np.abs(b_ - P.bl).max(), np.abs(t_ - P.tl).max(), dp)), TOL_IK, {"spun_at_pose": i, "second_spin": False}))
            if inside(bl2, tl2):
                with splib.quiet():
                    _spin(s4, other)
                b_, t_, dp = points(s4, Tt)
                out.append(("respin_points", float(max(np.abs(b_ - bl2).max(), np.abs(t_ - tl2).max(), dp)), TOL_IK, {"spun_at_pose": i, "second_spin": True}))
    return ok


def eval_fk(P, pose, modes=(1, 0), ulps=None):
    """-> None when the pose is outside the workspace, else {mode: (ratio, detail)} with ratio = residual / (1e-3 h).
    ulps (six small integers, list generator only): the requested lengths are moved by that many units in the last place."""
    Tt = P.B @ splib.rel_pose(P.h, pose)
    L, ok = splib.place(P.fresh(), Tt, P.B)
    if not ok:
        return None
    Lreq = L if ulps is None else L * (1.0 + np.asarray(ulps, float) * 2.220446049250313e-16)
    res = {}
    for mode in modes:
        s = P.fresh()
        with splib.quiet():
            top, valid = s.FK(Lreq.copy(), fk_mode=mode)
        T = splib.T_of(top)
        ang, dist = se3.pose_err(T, Tt)
        el = float(np.abs(np.array(s.getLens(), float).reshape(6) - L).max())
        parts = np.array([dist, ang * P.h, el], float) / (FK_REL * P.h)
        ratio = float(parts.max()) if np.all(np.isfinite(parts)) else float("inf")
        res[mode] = (ratio, {"pos_err_over_h": dist / P.h, "rot_err_rad": ang, "len_err_over_h": el / P.h, "valid": bool(valid)})
    return res


# ------------------------------------------------------------------------------------------------ workers
def _block_of(p, idx, per):
    b, pose = divmod(idx, per)
    gid, base, spin = p["blocks"][b]
    return gid, base, spin, pose


def _build_problem(acc, P, part, gid, base, spin, seed):
    """Handles pruned / failed constructions; returns True when the block has to be skipped."""
    if P is None:
        acc.skip("pruned_infeasible")
        return True
    if isinstance(P, splib.BuildError):
        acc.violation("raised", _case("build", gid, base, spin, seed, -1, stage=P.stage), repr(P.exc))
        return True
    return False


def work_ik(p):
    acc = lattice.Acc(max_viol=2000)
    seed = p["seed"]
    done = p["lo"]
    for idx in range(p["lo"], p["hi"]):
        if time.time() > p["deadline"]:
            break
        gid, base, spin, pose = _block_of(p, idx, splib.GRID_N)
        P = platform(gid, base, spin, seed)
        done = idx + 1
        if _build_problem(acc, P, "ik", gid, base, spin, seed):
            continue
        case = _case("ik", gid, base, spin, seed, pose)
        out = []
        try:
            ok = eval_ik(P, case, out)
        except Exception as e:
            acc.violation("raised", case, repr(e))
            acc.case(nontrivial=False)
            continue
        acc.case(nontrivial=pose != 0)
        acc.outcome("in_workspace" if ok else "outside_workspace")
        for clause, r, tol, fl in out:
            acc.resid(clause, r)
            if fl and fl.get("valid") is False:
                acc.outcome("unprotected_ik_said_invalid_in_workspace")
            if fl and "spun_at_pose" in fl:
                acc.outcome(("respin_at_neutral" if fl["spun_at_pose"] == 0 else "respin_at_pose") + ("_second" if fl.get("second_spin") else ""))
            if not r <= tol:
                acc.violation(clause, case, r, tol, flags={k: v for k, v in (fl or {}).items() if isinstance(v, bool)},
                              quantities={k: v for k, v in (fl or {}).items() if not isinstance(v, bool)})
        if pose == 0:
            acc.resid("layout_vs_nominal_info", P.layout_residual)
        if idx % 4001 == 0:
            acc.sample({"case": case, "in_workspace": ok, "residuals": [(c, r) for c, r, _, _ in out]})
    r = acc.result()
    r["done"] = (p["lo"], done, p["hi"])
    return r


def work_fk(p):
    acc = lattice.Acc(max_viol=10 ** 6)
    ratios = []
    done = p["lo"]
    for idx in range(p["lo"], p["hi"]):
        if time.time() > p["deadline"]:
            break
        gid, base, spin, k = _block_of(p, idx, len(splib.FK_SUBGRID))
        pose = splib.FK_SUBGRID[k]
        P = platform(gid, base, spin, 0)
        done = idx + 1
        if _build_problem(acc, P, "fk", gid, base, spin, 0):
            continue
        res = None
        for mode in (1, 0):
            case = _case("fk", gid, base, spin, 0, pose, mode=mode)
            start_rot = float(np.linalg.norm(se3.rlog(P.Tt_read[:3, :3])))     # rotation vector of the pose FK starts from
            chaotic = mode == 0 and start_rot < EXP_CUTOFF                      # structural: solver path and start pose only
            cid = CHAOTIC_ID if chaotic else splib.case_id(gid, base, spin, pose, mode)
            try:
                one = eval_fk(P, pose, (mode,))
            except Exception as e:
                acc.violation("raised", case, repr(e), case_id=cid)
                acc.case(nontrivial=False)
                continue
            if one is None:
                acc.skip("outside_workspace")
                break
            ratio, det = one[mode]
            acc.case(nontrivial=pose != 0)
            acc.resid("fk_roundtrip_over_bound_mode%d" % mode, min(ratio, 1e6))
            acc.outcome("mode%d%s_%s" % (mode, "_zero_rotation_start" if chaotic else "",
                                         "fail" if not ratio <= 1 else ("marginal" if ratio > MARGIN else "ok")))
            if not det["valid"]:
                acc.outcome("fk_said_invalid")
            worst = ratio
            if p.get("generator") and not chaotic:
                # input-space hysteresis: a few cases are bistable (the iteration runs into its iteration cap and restarts);
                # list whatever fails or is marginal under +-4 ulp on the requested lengths as well
                rg = np.random.default_rng([pose, mode, len(gid), sum(map(ord, gid + base + spin))])
                for _ in range(N_PERTURB):
                    try:
                        alt = eval_fk(P, pose, (mode,), ulps=rg.integers(-4, 5, 6))[mode][0]
                    except Exception:
                        alt = float("inf")
                    if not alt <= worst:
                        worst = alt
                if not worst <= MARGIN and ratio <= MARGIN:
                    acc.outcome("mode%d_unstable_under_ulp_perturbation" % mode)
            if not worst <= MARGIN and not chaotic:
                ratios.append((cid, worst, "fail" if not ratio <= 1 else ("marginal" if ratio > MARGIN else "unstable")))
            if not ratio <= 1:
                acc.violation("fk_roundtrip", case, det, FK_REL,
                              quantities={"residual_over_bound": min(ratio, 1e300), "fk_mode": mode, "start_rotation_vector_norm": start_rot},
                              flags={"respun": spin != "s0", "moved": base != "I", "fsolve_zero_rotation_start": bool(chaotic)},
                              case_id=cid)
            if idx % 1009 == 0 and mode == 1:
                acc.sample({"case_id": cid, "residual_over_bound": ratio, "detail": det})
    r = acc.result()
    r["done"] = (p["lo"], done, p["hi"])
    r["ratios"] = ratios
    return r


# ------------------------------------------------------------------------------------------------ driver
def _run_part(ctx, pool, fn, total, blocks, deadline, nshards, name, generator=False):
    payloads = [{"lo": lo, "hi": hi, "seed": ctx.seed, "tier": ctx.tier, "blocks": blocks, "deadline": deadline, "generator": generator}
                for lo, hi in shards(total, nshards)]
    res = pool.map(MOD, fn, payloads)
    m = lattice.merge(res)
    undone = [list(r["done"]) for r in res if r["done"][1] < r["done"][2]]
    m["complete"] = not undone
    m["total"] = total
    m["undone"] = undone
    m["ratios"] = [x for r in res for x in r.get("ratios", [])]
    ctx.log("LX %s: evals=%d distinct_nontrivial=%d violations=%d complete=%s" % (name, m["evals"], len(m["keys"]) + m["ntc"], m["nviol"], m["complete"]))
    return m


def write_list(ctx, ratios, fk_blocks, how="1"):
    p = os.path.join(env.VERIF, LIST_REL) if how in ("1", "merge") else how
    os.makedirs(os.path.dirname(p), exist_ok=True)
    best = {}
    rank = {"unstable": 0, "marginal": 1, "fail": 2}
    if how == "merge" and os.path.exists(p):
        for line in open(p):
            body, _, com = line.partition("#")
            w = com.split()
            if body.strip() and len(w) >= 2 and w[0] in rank:
                try:
                    best[body.strip()] = (float(w[1]), w[0])
                except ValueError:
                    best[body.strip()] = (float("inf"), w[0])
    for cid, r, cat in ratios:
        old_r, old_cat = best.get(cid, (-1.0, "unstable"))
        best[cid] = (r if not r <= old_r else old_r, cat if rank[cat] >= rank[old_cat] else old_cat)
    best.pop(CHAOTIC_ID, None)
    rows = sorted(best.items())
    nf = sum(1 for _, (r, cat) in rows if cat == "fail")
    nm = sum(1 for _, (r, cat) in rows if cat == "marginal")
    with open(p + ".tmp", "w") as f:
        f.write("# KF2 - platform FK misses in-workspace lattice poses (C09 clause fk_roundtrip).  One case id per line:\n"
                "# <geometry>/<base>/<spin>/p<pose index>/m<fk_mode>.  'fail' = residual above the bound 1e-3 h on the repaired\n"
                "# tree, 'marginal' = residual within a factor 4 below the bound (listed so that a last-bit difference\n"
                "# between machines cannot raise an alarm), 'unstable' = passes as it stands but fails or is marginal when the\n"
                "# requested lengths are moved by up to 4 ulp (%d trials per case); the number is the largest residual / bound seen.\n"
                "# Generated by VERIF_C09_WRITE_LIST=1|merge ./check C09 --tier thorough; last tree %s;\n"
                "# lattice: %d (geometry, base, spin) blocks x %d poses x 2 modes; %d fail + %d marginal + %d unstable.\n"
                % (N_PERTURB, os.environ.get("VERIF_TREE_SHA", "")[:16], len(fk_blocks), len(splib.FK_SUBGRID), nf, nm, len(rows) - nf - nm))
        f.write("%s  # class: fk_mode 0 started from a rotation vector below the exponential's 1e-6 cut-off (unrotated base); "
                "outcome depends on rounding noise, see checks/c09.py\n" % CHAOTIC_ID)
        for cid, (r, cat) in rows:
            f.write("%s  # %s %.3g\n" % (cid, cat, r))
    os.replace(p + ".tmp", p)
    ctx.log("wrote %s: %d fail + %d marginal + %d unstable" % (p, nf, nm, len(rows) - nf - nm))


def warm():
    """Compile the kernels once in the parent (a cold tree costs ~30 s once instead of 16 workers compiling at once)."""
    P = splib.build(splib.geo(splib.QUICK_GIDS[0]), "B1", "s0.4")
    eval_ik(P, {"pose": 1}, [])
    eval_fk(P, 1)


def run(ctx):
    gids, spins, ik_blocks, fk_blocks = plan(ctx.tier, ctx.seed)
    warm()
    ctx.log("kernels warm")
    budget = float(os.environ.get("VERIF_BUDGET_S", "0") or 0) or (840.0 if ctx.tier == "thorough" else 300.0)
    deadline = ctx.t0 + budget
    nfk = len(fk_blocks) * len(splib.FK_SUBGRID)
    nik = len(ik_blocks) * splib.GRID_N
    wl = os.environ.get("VERIF_C09_WRITE_LIST")
    generator = wl in ("1", "merge") or bool(wl and ctx.tier == "thorough")   # generator mode: the FK part only, no time cap
    parts = (os.environ.get("VERIF_C09_PARTS") or "fk,ik").split(",")      # development aid; a skipped part is reported unfinished
    with ctx.pool() as pool:
        w = pool.workers
        m_fk = _run_part(ctx, pool, "work_fk", nfk, fk_blocks, 0.0 if "fk" not in parts else (float("inf") if generator else deadline),
                         w * (24 if ctx.tier == "thorough" else 6), "fk", generator=bool(wl))
        m_ik = _run_part(ctx, pool, "work_ik", nik, ik_blocks, 0.0 if (generator or "ik" not in parts) else deadline,
                         w * (12 if ctx.tier == "thorough" else 4), "ik")
    if wl:
        # "1": (re)write the committed list; "merge": union with the entries already there (several repaired tree
        # variants); any other value: a scratch path for experiments
        if wl in ("1", "merge") and (ctx.tier != "thorough" or not m_fk["complete"]):
            raise HarnessError("the KF2 case list is generated from a COMPLETE thorough run only")
        write_list(ctx, m_fk["ratios"], fk_blocks, wl)
    lattice.fill(ctx, [("fk", m_fk), ("ik", m_ik)],
                 "every (geometry, base, spin, pose[, fk_mode]) tuple of the product is distinct by construction; counted as "
                 "non-trivial when the relative pose is not the neutral one; FK cases only for poses inside the workspace",
                 {"geometries": len(gids), "family_nominal": len(splib.family()), "bases_ik": ["I", "B1", "BS"], "bases_fk": ["I", "B1", "BT (quick geometries)"],
                  "spins": spins, "pose_grid": splib.GRID_N, "fk_subgrid": len(splib.FK_SUBGRID), "fk_modes": [1, 0],
                  "respin_at_pose_subgrid": len(RESPIN_AT), "ik_blocks": len(ik_blocks), "fk_blocks": len(fk_blocks)})
    listed = _listed()
    ctx.coverage["completed"] = {"fk": {"total": nfk, "unfinished_index_ranges": m_fk["undone"][:40]},
                                 "ik": {"total": nik, "unfinished_index_ranges": m_ik["undone"][:40]}}
    ctx.coverage["kf2"] = {"list_entries": len(listed), "fk_failures_this_run": m_fk["nviol"],
                           "fk_failures_not_listed": sum(1 for v in m_fk["viols"] if v["clause"] == "fk_roundtrip" and v["case_id"] not in listed),
                           "class_fsolve_zero_rotation_start": {
                               "predicate": "fk_mode == 0 and |rotation vector of the start pose| < 1e-6 (exactly 0 on this lattice)",
                               "cases": sum(m_fk["outcomes"].get("mode0_zero_rotation_start_" + k, 0) for k in ("ok", "marginal", "fail")),
                               "pass": sum(m_fk["outcomes"].get("mode0_zero_rotation_start_" + k, 0) for k in ("ok", "marginal")),
                               "fail": m_fk["outcomes"].get("mode0_zero_rotation_start_fail", 0)},
                           "fsolve_at_rotated_start": {
                               "cases": sum(m_fk["outcomes"].get("mode0_" + k, 0) for k in ("ok", "marginal", "fail")),
                               "fail": m_fk["outcomes"].get("mode0_fail", 0)},
                           "stable_marginal_or_failing_this_run": len(m_fk["ratios"])}
    ctx.assumptions += ["in-workspace = IK(protect=True) followed by validate(donothing=True) accepts the state with the library's default validation switches",
                        "FK pose residual = max(translation error, rotation angle x h, length error) against 1e-3 h",
                        "spinCustom(a) means rotation of both joint tables by +a about the plate z axis (tm([0,0,0,0,0,a]))"]
    if not (m_fk["complete"] and m_ik["complete"]):
        ctx.notes.append("time cap reached: see coverage.completed for the index ranges not evaluated")


def _listed():
    from mc import findings
    return findings._case_list(LIST_REL)


# ------------------------------------------------------------------------------------------------ replay
def replay(rec):
    c = rec["case"]
    gid, base, spin, seed = c["gid"], c["base"], c["spin"], c.get("bs_seed", 0)
    _PLAT.clear()
    P = platform(gid, base, spin, seed)
    if c["part"] == "build" or isinstance(P, splib.BuildError):
        return [{"clause": "raised", "observed": repr(P.exc)}] if isinstance(P, splib.BuildError) else []
    if P is None:
        return []
    if c["part"] == "fk":
        try:
            one = eval_fk(P, c["pose"], (c["mode"],))
        except Exception as e:
            return [{"clause": "raised", "observed": repr(e)}] if rec["clause"] == "raised" else []
        if one is None or rec["clause"] != "fk_roundtrip":
            return []
        ratio, det = one[c["mode"]]
        return [{"clause": "fk_roundtrip", "observed": det, "residual_over_bound": ratio}] if not ratio <= 1 else []
    out = []
    try:
        eval_ik(P, c, out)
    except Exception as e:
        return [{"clause": "raised", "observed": repr(e)}] if rec["clause"] == "raised" else []
    return [{"clause": cl, "observed": r, "flags": fl} for cl, r, tol, fl in out if cl == rec["clause"] and not r <= tol]
