"""C05 - arm forward kinematics is base * product of exponentials * home, through any history (HX, model checking).

State: a real Arm together with the boring reference description (base, local screws, local home, theta).
Transitions call the real methods; after every one the arm's reported state is compared with the reference.
Solver answers (IK joint vectors) are environment answers: taken from the implementation, then checked.
"""
import copy
import os

import numpy as np

from checks import armlib
from mc import explorer
from mc.explorer import Op
from oracles import poe, se3

MOD = "checks.c05"
TOL = 1e-7
FR = [0.37, 0.81, 0.12, 0.64, 0.29, 0.93, 0.5]          # scripted random fractions (restarts, randomPos)
FR2 = [0.71, 0.18, 0.55, 0.33, 0.88, 0.07, 0.42]


class ArmState:
    def __init__(self, arm, ref):
        self.arm = arm
        self.ref = ref
        self.unclamped = False  # the free solver left a joint vector that may lie outside the limits
        self.tool_changed = False
        self.loose = False      # reported tool pose is a *goal* accepted by the free solver (tolerance level agreement)


def pose_tol(st, T):
    a = st.arm
    return 4 * (a.pos_tolerance + a.rot_tolerance * (1.0 + float(np.abs(T[:3, 3]).max())))


def perr(A, B):
    return float(np.abs(A - B).max())


def theta_palette(ref):
    lo = np.maximum(ref.lo, -6.2)
    hi = np.minimum(ref.hi, 6.2)
    n = ref.n
    f1 = np.array([0.62, 0.35, 0.55, 0.41, 0.68, 0.30, 0.47])[:n]
    f2 = np.array([0.25, 0.72, 0.33, 0.66, 0.21, 0.78, 0.58])[:n]
    g1 = lo + (hi - lo) * f1
    g2 = lo + (hi - lo) * f2
    over = g1.copy()
    over[0] = ref.hi[0] + 0.5
    wrapped = g1.copy()
    wrapped[-1] = g1[-1] + 2 * np.pi
    under = g2.copy()
    under[-1] = ref.lo[-1] - 7.0
    return {"zero": np.zeros(n), "g1": g1, "g2": g2, "over": over, "lower": ref.lo.copy(), "wrapped": wrapped, "under": under}


class Spec:
    expand_violating = False

    def __init__(self, name, seed):
        from basic_robotics.general import tm
        self.tm = tm
        self.name, self.seed = name, seed
        _, ref = armlib.build(name, seed)
        self.TH = theta_palette(ref)
        n = ref.n
        X = se3.T_from([0.2, 0.1, -0.3], [0.1, 0.2, 0.3])          # tool offsets (in the current tool frame)
        X2 = se3.T_from([0.0, 0.0, 0.0], [0.0, 0.0, 0.25])
        B1, B2 = armlib.base_T("B1"), armlib.base_T("B2")
        ops = []
        for k in ("zero", "g1", "g2", "over", "lower", "wrapped", "under"):
            ops.append(Op("FK", k, self._fk(k)))
        for goal in ("near", "far", "unreachable"):
            for free in (False, True):
                if goal == "unreachable" and free and any(ref.prismatic):
                    continue    # a diverging free solve drives prismatic joints beyond 2*pi, outside the property's joint range
                ops.append(Op("IK", {"goal": goal, "free": free}, self._ik(goal, free)))
        ops.append(Op("move", "B1", self._move(B1, False)))
        ops.append(Op("move", "B2", self._move(B2, False)))
        ops.append(Op("move_stationary", "B1", self._move(B1, True)))

        def move_then_edit(st):
            # the pose object handed to move() stays the caller's: the caller shifts it in place afterwards (next waypoint),
            # the arm stays where it was moved to
            a, m = st.arm, st.ref
            b = self.tm(B2.copy())
            with armlib.scripted_random(FR), armlib.quiet():
                a.move(b)
            b[0] = float(b[0]) + 0.5
            b[5] = float(b[5]) - 0.3
            m.base = B2.copy()
            m.th = m.clamp(m.th)
            st.loose = False
            st.unclamped = False
            return st, {}
        ops.append(Op("move_then_caller_edits_its_pose_object", "B2", move_then_edit))

        def live_queries(st):
            # the pure queries asked on the LIVE object (the invariant asks them on private copies): whatever they remember is
            # part of the state from here on.  Only with the stored joints inside the limits: the queries clamp the stored vector in
            # place without refreshing the reported pose, and they are not among the calls the statement lists.
            a, m = st.arm, st.ref
            tha = armlib.joint_state(a)
            inside = bool(np.all(tha >= m.lo - 1e-12) and np.all(tha <= m.hi + 1e-12))   # (a fresh arm whose ranges exclude 0 is outside)
            if inside and not (st.loose or st.unclamped):
                with armlib.quiet():
                    a.getJointTransforms()
                    a.jacobian()
                    a.jacobianBody()
                    a.getEEPos()
            if not inside:
                st.unclamped = True     # (nothing was called: the pose on record is that of the stored, unclamped joint vector)
            return st, {}
        ops.append(Op("queries_on_live_object", None, live_queries))

        def sibling(st):
            # ANOTHER arm of the same kind (same joint count; other geometry/base where the family has a seed) is built and
            # used in the same process while this one is alive: FK, randomPos, a move, a tool change, queries.  Nothing of
            # that may show on this arm - the model is left as it is and the invariant is asked of this arm afterwards
            # (anything kept at class or module level - a scratch vector, a memo keyed by size - is shared between the two).
            b, mb = armlib.build(self.name, self.seed + 1)
            with armlib.scripted_random(FR2), armlib.quiet():
                b.FK(mb.clamp(self.TH["g2"] * 0.9 + 0.05))
                b.randomPos()
                b.move(self.tm(B1.copy()))
                b.getJointTransforms()
                b.jacobian()
                b.setArbitraryHome(self.tm(b.getEEPos().gTM() @ X2), None)
                b.FK(mb.clamp(self.TH["g1"] * 0.5 - 0.1))
            st.sibling = b           # stays alive with the state (and is deep-copied with it)
            tha = armlib.joint_state(st.arm)
            if not (np.all(tha >= st.ref.lo - 1e-12) and np.all(tha <= st.ref.hi + 1e-12)):
                st.unclamped = True  # (a fresh arm whose ranges exclude 0: the pose on record is that of the stored vector)
            return st, {}
        ops.append(Op("a_second_arm_of_the_same_kind_is_built_and_used", None, sibling))

        def then_sibling(first):
            # one call on this arm and the second arm's activity inside ONE transition: states are snapshotted by deep copy
            # between transitions, which would silently un-share a buffer the two live objects have in common
            def f(st):
                st, obs = first(st)
                st, _ = sibling(st)
                return st, obs
            return f
        ops.append(Op("randomPos_then_a_second_arm_is_used", "FR", then_sibling(self._rand(FR))))
        ops.append(Op("FK_then_a_second_arm_is_used", "g1", then_sibling(self._fk("g1"))))
        ops.append(Op("IK_then_a_second_arm_is_used", "near", then_sibling(self._ik("near", False))))

        def nudged(m):      # the base where it stands, its position stretched by 3e-6 (a move by micrometres, every matrix
            B = m.base.copy()   # entry within 1e-5 relative of the old one)
            B[:3, 3] = B[:3, 3] * (1.0 + 3e-6)
            return B
        ops.append(Op("move", "micrometres", self._move(nudged, False)))
        ops.append(Op("setArbitraryHome", {"offset": "X", "theta": "g1"}, self._tool(X, "g1")))
        ops.append(Op("setArbitraryHome", {"offset": "X", "theta": None}, self._tool(X, None)))
        ops.append(Op("setArbitraryHome", {"offset": "X2", "theta": "over"}, self._tool(X2, "over")))
        ops.append(Op("restoreOriginalEE", None, self._restore()))
        ops.append(Op("randomPos", "FR", self._rand(FR)))
        ops.append(Op("randomPos", "FR2", self._rand(FR2)))
        self.ops = ops

    def initials(self):
        arm, ref = armlib.build(self.name, self.seed)
        return [(self.name, ArmState(arm, ref))]

    def state_key(self, st):
        from mc import canon
        return canon.flatten([st.arm, st.ref.base, st.ref.M, st.ref.th, st.loose, st.unclamped, st.tool_changed,
                              getattr(st, "sibling", None) is not None])

    # ---- transitions -------------------------------------------------------------------------------------------
    def _fk(self, k):
        def f(st):
            th = self.TH[k].copy()
            r = st.arm.FK(th)
            st.ref.th = st.ref.clamp(self.TH[k])
            st.loose = False
            st.unclamped = False
            return st, {"ret_vs_model": perr(r.gTM(), st.ref.fk())}
        return f

    def _ik(self, goal, free):
        def f(st):
            a, m = st.arm, st.ref
            if goal == "near":
                tgt = m.clamp(self.TH["g1"])
                G = m.fk(tgt)
                start = m.clamp(tgt + 0.02)
            elif goal == "far":
                G = m.fk(m.clamp(self.TH["g2"]))
                start = None
            else:
                G = m.base @ se3.T_from([0, 0, 0], m.unreach) @ m.M
                start = None
            with armlib.scripted_random(FR), armlib.quiet():
                th, ok = a.IK(self.tm(G.copy()), None if start is None else start.copy(), protect=free)
            th = np.asarray(th, float).reshape(-1)
            ok = bool(ok)
            obs = {"success": ok}
            if ok:
                T = m.fk(th)
                er, ep = se3.pose_err(T, G)
                obs["claimed_rot_excess"] = max(0.0, er - a.rot_tolerance)
                obs["claimed_pos_excess"] = max(0.0, ep - a.pos_tolerance - a.rot_tolerance * float(np.linalg.norm(G[:3, 3])))
                obs["returned_is_state"] = poe.mod2pi_equal(th, armlib.joint_state(a), 1e-9)[1]
                if not free:
                    obs["limit_excess"] = float(max(0.0, (th - m.hi).max(), (m.lo - th).max()))
                obs["goal"] = G
            if goal == "unreachable":
                obs["unreachable_claimed"] = ok
            m.th = armlib.joint_state(a).copy()      # environment answer
            st.loose = bool(ok and free)
            st.unclamped = bool(free)
            return st, obs
        return f

    def _move(self, B_arg, stationary):
        def f(st):
            a, m = st.arm, st.ref
            B = B_arg(m) if callable(B_arg) else B_arg
            before = m.fk(m.clamp(m.th))
            with armlib.scripted_random(FR), armlib.quiet():
                a.move(self.tm(B.copy()), stationary)
            m.base = B.copy()
            obs = {}
            if stationary:
                m.th = armlib.joint_state(a).copy()  # solver answer
            else:
                m.th = m.clamp(m.th)
            st.loose = False
            st.unclamped = False
            return st, obs
        return f

    def _tool(self, X, k):
        def f(st):
            a, m = st.arm, st.ref
            if k is not None:
                thc = m.clamp(self.TH[k])
                used = m.fk(thc)
                new = used @ X
                a.setArbitraryHome(self.tm(new.copy()), self.TH[k].copy())
                m.th = thc
            else:
                used = a.getEEPos().gTM()           # the pose the arm reports before the call (checked in the previous state)
                new = used @ X
                a.setArbitraryHome(self.tm(new.copy()), None)
                m.th = m.clamp(m.th)
            # the tool frame moves by inv(used)*new expressed in the old tool frame
            m.M = m.M @ se3.tinv(used) @ new
            st.tool_changed = True
            st.loose = False
            st.unclamped = False
            return st, {"new_home_reaches": perr(m.fk(), new) if k is not None else 0.0}
        return f

    def _restore(self):
        def f(st):
            st.arm.restoreOriginalEE()
            st.ref.M = st.ref.M0.copy()
            st.ref.th = st.ref.clamp(st.ref.th)
            st.tool_changed = True
            st.loose = False
            st.unclamped = False
            return st, {}
        return f

    def _rand(self, fr):
        def f(st):
            a, m = st.arm, st.ref
            with armlib.scripted_random(fr):
                r = a.randomPos()
            th = m.lo + np.array(fr[:m.n]) * (m.hi - m.lo)
            m.th = m.clamp(th)
            st.loose = False
            st.unclamped = False
            return st, {"ret_vs_model": perr(r.gTM(), m.fk())}
        return f

    # ---- invariant ---------------------------------------------------------------------------------------------
    def invariant(self, st, obs, op, hist):
        bad = []
        a, m = st.arm, st.ref

        def flag(clause, val, tol, **kw):
            if not (val <= tol):
                bad.append(dict({"clause": clause, "observed": val, "tolerance": tol}, **kw))
        for k in ("ret_vs_model", "new_home_reaches"):
            if k in obs:
                flag(k, obs[k], TOL * max(1.0, float(np.abs(m.fk()[:3, 3]).max())))
        if obs.get("success"):
            flag("claimed_rot_excess", obs["claimed_rot_excess"], 1e-9)
            flag("claimed_pos_excess", obs["claimed_pos_excess"], 1e-9)
            flag("returned_is_state", obs["returned_is_state"], 1e-9)
            if "limit_excess" in obs:
                flag("limit_excess", obs["limit_excess"], 1e-12)
        if obs.get("unreachable_claimed"):
            bad.append({"clause": "unreachable_claimed", "observed": True})
        tha = armlib.joint_state(a)
        ok, d = poe.mod2pi_equal(tha, m.th, 1e-9)
        flag("theta_state", d, 1e-9)
        s = max(1.0, float(np.abs(m.base[:3, 3]).max()))
        flag("base_pose", perr(a.getBasePos().gTM(), m.base), 1e-9 * s)
        thc = m.clamp(tha)
        want = m.fk(tha if (st.loose or st.unclamped) else thc)
        sc = max(1.0, float(np.abs(want[:3, 3]).max()))
        # the library's exponential treats a joint rotation below 1e-6 rad as none (C01 accepts that cut-off); a joint value
        # inside (0, 1e-6) - only a diverged free solve produces one - therefore moves the pose by up to |theta_i| * reach
        tiny = np.abs(tha)[(np.abs(tha) > 0) & (np.abs(tha) < 1e-6)]
        cut = float(tiny.sum()) * 2.0 * (sc + float(np.abs(m.base[:3, 3]).max()))
        tol = (pose_tol(st, want) if st.loose else TOL * sc) + cut
        if st.unclamped:        # a diverged free solve can leave joint values of any size; wrapping them costs eps*|theta|
            tol = max(tol, 1e-13 * float(np.abs(tha).max()) * sc * 10)
        flag("reported_pose_vs_state", perr(a.getEEPos().gTM(), want), tol)
        # queries with defaulted joint arguments refer to that state (on private copies: they may clamp in place)
        for q in ("jacobian", "jacobianBody"):
            a1, a2 = copy.deepcopy(a), copy.deepcopy(a)
            J1 = getattr(a1, q)()
            J2 = getattr(a2, q)(tha.copy())
            flag(q + "_default_args", perr(J1, J2), 1e-9 * max(1.0, float(np.abs(J2).max())))
        a3 = copy.deepcopy(a)
        r = a3.FK(tha.copy())
        flag("fk_of_state", perr(r.gTM(), m.fk(thc)), TOL * sc + cut)
        a4 = copy.deepcopy(a)
        jt = a4.getJointTransforms()
        frames, last_joint, tool = m.joint_frames(thc)
        got = [x.gTM() for x in jt]
        has_last = len(got) == len(frames) + 2
        exp = frames + ([last_joint] if has_last else []) + [tool]
        if len(got) != len(exp) or (has_last and last_joint is None):
            bad.append({"clause": "joint_frames", "observed": "count %d vs %d" % (len(got), len(exp))})
        else:
            idx = [i for i in range(len(got)) if not (has_last and i == len(got) - 2)]
            errs = [perr(got[i], exp[i]) for i in idx]
            q = {}
            if m.frames_local is not None and max(errs) > TOL * sc + cut:
                # move() re-bases stored joint frames through the library's logarithm; a home frame whose rotation lies
                # within 3e-5 of a half turn is where that logarithm is known to be inaccurate (KF1)
                off = [i for i, e in zip(idx, errs) if e > TOL * sc + cut and i < len(m.frames_local)]
                if off:
                    q = {"pi_minus_angle": max(np.pi - se3.rangle(m.frames_local[i][:3, :3]) for i in off)}
            flag("joint_frames", max(errs), TOL * sc + cut, quantities=q)
            if has_last:
                flag("joint_frames_last_joint", perr(got[-2], exp[-2]), TOL * sc + cut,
                     flags={"urdf_arm": bool(m.urdf), "tool_changed": bool(st.tool_changed)})
        return bad


_SPECS = {}


def get_spec(name):
    if name not in _SPECS:
        arm, seed = name.rsplit(":", 1)
        _SPECS[name] = Spec(arm, int(seed))
    return _SPECS[name]


def arms_for(tier, seed):
    arms = list(armlib.ALL_ARMS if tier == "thorough" else armlib.QUICK_ARMS)
    if seed and tier != "thorough":
        arms.append("gen:3S@BS")
    return arms


def run(ctx):
    depth = int(os.environ.get("VERIF_C05_DEPTH", "4" if ctx.tier == "thorough" else "2"))
    ctx.level = "model_checking"
    results = []
    with ctx.pool() as pool:
        for arm in arms_for(ctx.tier, ctx.seed):
            name = "%s:%d" % (arm, ctx.seed)
            results.append((name, explorer.explore(ctx, MOD, name, depth, pool, chunk=8)))
    cov = explorer.merge(results)
    cov["rule"] = ("BFS over histories of {FK x7, IK x6 (limit-respecting/free x near/far/unreachable), move x2, move(stationary), "
                   "setArbitraryHome x3, restoreOriginalEE, randomPos x2, caller edits its pose object, queries on the live object, a second arm of the same kind built and used alongside} per arm; every reached state compared with a product-of-exponentials reference")
    cov["alphabet_size"] = results[0][1]["alphabet_size"]
    ctx.coverage.update(cov)
    ctx.assumptions += ["reference built from copies of the construction data (URDF arms: from the freshly loaded arm; the loader is C13's subject)",
                        "IK joint vectors are environment answers, then checked; restarts use a fixed scripted random source",
                        "poses compared to 1e-7 (scaled by max(1,|p|)); after a successful free solve the reported pose is the goal, compared at the arm's tolerances"]


def replay(rec):
    spec = get_spec(rec["case"]["spec"])
    hist = rec["case"]["hist"]
    st = spec.initials()[0][1]
    found = []
    h = [hist[0]]
    for i in hist[1:]:
        op = spec.ops[i]
        try:
            st, obs = op.fn(st)
            bad = spec.invariant(st, obs, op, h)
        except Exception as e:
            bad = [{"clause": "raised", "observed": repr(e)}]
        h.append(i)
        found += [b for b in bad if b["clause"] == rec["clause"]]
        if bad:
            break
    return found
