"""C03 - a transform object's matrix and six-vector always describe the same pose (HX, model checking).

State: one `tm`.  Alphabet: every writer/constructor/operator of DESIGN 4/C03 over the value palette the
property names (angles 0, 1e-7, 1, pi-1e-3, 2*pi+0.5).  Invariant in every state and on every object returned.
"""
import numpy as np

from mc import explorer
from mc.explorer import Op
from oracles import se3

MOD = "checks.c03"
PI = np.pi
# the property's palette plus two angles inside (1e-6, 1e-3): thresholds taken on a squared quantity cut there
ANG = [0.0, 1e-7, 2e-5, 3e-4, 1.0, PI - 1e-3, 2 * PI + 0.5]
AXES = [(1.0, 0.0, 0.0), (0.0, 0.0, 1.0), (0.6, 0.0, 0.8), (3 ** -0.5,) * 3]
POS = [(0.0, 0.0, 0.0), (1.0, -2.0, 3.0)]
TOL = 5e-6


def rotvecs(extra_axis=None):
    out = []
    axes = list(AXES) + ([tuple(extra_axis)] if extra_axis is not None else [])
    for a in ANG:
        for ax in axes:
            v = tuple(float(x) * a for x in ax)
            if v not in out:
                out.append(v)
    return out


def coherence(t):
    """-> (clause|None, residual, pi_minus_angle)"""
    TM, TAA = getattr(t, "TM", None), getattr(t, "TAA", None)
    if not (isinstance(TM, np.ndarray) and TM.shape == (4, 4)):
        return "matrix_shape", repr(getattr(TM, "shape", type(TM).__name__)), None
    if not (isinstance(TAA, np.ndarray) and TAA.shape == (6, 1)):
        return "sixvector_shape", repr(getattr(TAA, "shape", type(TAA).__name__)), None
    if not (np.all(np.isfinite(TM)) and np.all(np.isfinite(TAA))):
        return "nonfinite", None, None
    R = TM[:3, :3]
    pma = PI - se3.rangle(R)
    if np.abs(TM[3] - np.array([0, 0, 0, 1.0])).max() > 1e-12:
        return "last_row", float(np.abs(TM[3] - np.array([0, 0, 0, 1.0])).max()), pma
    if not se3.is_so3(R, TOL):
        return "not_SO3", float(max(np.abs(R @ R.T - np.eye(3)).max(), abs(np.linalg.det(R) - 1))), pma
    E = se3.T_from_taa(TAA[:, 0])
    d = float(np.abs(E - TM).max())
    if d > TOL * max(1.0, float(np.abs(TAA[:3]).max())):
        return "coherence", d, pma
    return None, d, pma


def log_equals_reference(t):
    """Does the object's six-vector carry exactly the logarithm the vendored reference library computes for its matrix?
    (True: whatever is wrong with the pair is the reference algorithm's own inaccuracy at pi - the known finding KF1;
    False: the library does something else there.)"""
    try:
        from vendor import modern_robotics_ref as ref
        R = np.array(t.TM, float)[:3, :3]
        w = ref.so3ToVec(ref.MatrixLog3(R))
        return bool(np.abs(np.asarray(t.TAA, float).reshape(-1)[3:6] - np.asarray(w, float).reshape(-1)).max() <= 1e-9)
    except Exception:
        return False


def _flag(t, c, pma):
    return log_equals_reference(t) if (c and pma is not None and pma < 3e-5) else None


class Spec:
    def __init__(self, seed=0):
        from basic_robotics.general import tm, fsr
        from scipy.spatial.transform import Rotation as Rsc
        self.tm, self.fsr = tm, fsr
        extra = None
        if seed:
            rng = np.random.default_rng(1000 + seed)
            extra = se3.unit(rng.normal(size=3))
        RV = rotvecs(extra)
        self.RV = RV
        ops = []

        def mut(f):  # in-place writer: state after = receiver
            def g(t):
                wr = f(t)
                return t, {"wr": float(wr) if wr is not None else 0.0}
            return g

        def fun(f):  # operator/constructor: state after = result, receiver must stay coherent too
            def g(t):
                r = f(t)
                c, d, pma = coherence(t)
                return r, {"recv": [c, d, pma, _flag(t, c, pma)]}
            return g

        def quat(w):
            return Rsc.from_rotvec(np.array(w)).as_quat()

        for p in POS:
            for w in RV:
                v = list(p) + list(w)
                ops.append(Op("ctor6list", v, fun(lambda t, v=v: tm(list(v)))))
                ops.append(Op("ctor6arr", v, fun(lambda t, v=v: tm(np.array(v, float)))))
                ops.append(Op("ctor6col", v, fun(lambda t, v=v: tm(np.array(v, float).reshape(6, 1)))))
                ops.append(Op("ctor6rpy", v, fun(lambda t, v=v: tm(list(v), True))))
                ops.append(Op("ctor6rpy_arr", v, fun(lambda t, v=v: tm(np.array(v, float), True))))

                def f_sTAA(t, v=v):
                    a = np.array(v, float).reshape(6, 1)
                    t.sTAA(a)
                    return np.abs(t.gTAA() - np.array(v, float).reshape(6, 1)).max()
                ops.append(Op("sTAA", v, mut(f_sTAA)))

                def f_sTAAflat(t, v=v):
                    t.sTAA(np.array(v, float))
                    return np.abs(t.gTAA().reshape(6) - np.array(v, float)).max()
                ops.append(Op("sTAAflat", v, mut(f_sTAAflat)))

                def f_sTM(t, v=v):
                    X = se3.T_from_taa(v)
                    t.sTM(X.copy())
                    return np.abs(t.gTM() - X).max()
                ops.append(Op("sTM", v, mut(f_sTM)))
                ops.append(Op("ctor4x4", v, fun(lambda t, v=v: tm(se3.T_from_taa(v)))))
                ops.append(Op("ctor7list", v, fun(lambda t, p=p, w=w: tm(list(p) + list(quat(w))))))
                ops.append(Op("ctor7arr", v, fun(lambda t, p=p, w=w: tm(np.array(list(p) + list(quat(w)))))))
                ops.append(Op("ctorpair", v, fun(lambda t, v=v: tm([list(v[:3]), list(v[3:])]))))
        # the caller's input array is the caller's: constructing from it and then refilling it (or building a second transform
        # from it and writing through that one) must leave the transform untouched.  One transition each, because a
        # snapshot would sever exactly the sharing this looks for.
        for p in POS:
            for w in RV[2::5]:
                v = list(p) + list(w)
                for shape, nm in (((6,), "flat"), ((6, 1), "col")):
                    def f_refill(t, v=v, shape=shape):
                        buf = np.array(v, float).reshape(shape)
                        r = tm(buf)
                        buf[...] = np.array([9.0, -8.0, 7.0, 0.3, -0.2, 0.1]).reshape(shape)
                        return r
                    ops.append(Op("ctor6_%s_then_caller_refills_array" % nm, v, fun(f_refill)))

                    def f_twin(t, v=v, shape=shape):
                        buf = np.array(v, float).reshape(shape)
                        r, other = tm(buf), tm(buf)
                        other[4] = 0.7
                        other.set(0, -3.0)
                        return r
                    ops.append(Op("ctor6_%s_twice_then_write_to_twin" % nm, v, fun(f_twin)))

                def f_m4(t, v=v):
                    M = se3.T_from_taa(v)
                    r = tm(M)
                    M[:3, :] = np.array([[0, -1, 0, 5.0], [1, 0, 0, 6.0], [0, 0, 1, 7.0]])
                    return r
                ops.append(Op("ctor4x4_then_caller_refills_array", v, fun(f_m4)))
        # two objects derived from one another never share a representation: derive, write through ONE of the two with each
        # kind of writer, the other must stay coherent and unchanged (one transition each - a snapshot would sever the sharing)
        v0 = [0.5, -1.5, 2.5, 0.3, -0.5, 0.8]
        derivers = {"tm_of": lambda t: tm(t), "copy": lambda t: t.copy(), "tm_of_arr": lambda t: tm(np.array([t])),
                    "matmul_identity": lambda t: t @ tm(), "tm_of_gTM": lambda t: tm(t.gTM())}
        writers = {"setQuat": lambda x: x.setQuat(quat((0.0, 0.6, -0.3))),
                   "setitem4": lambda x: x.__setitem__(4, 0.7),
                   "set0": lambda x: x.set(0, -3.0),
                   "sTM": lambda x: x.sTM(se3.T_from_taa(v0)),
                   "sTAA": lambda x: x.sTAA(np.array(v0, float).reshape(6, 1)),
                   "slice_rot": lambda x: x.__setitem__(slice(3, 6), [0.2, -0.4, 0.9]),
                   "slice_pos": lambda x: x.__setitem__(slice(0, 3), [1.0, 2.0, 3.0]),
                   "angleMod": lambda x: x.angleMod()}
        for dn, D in derivers.items():
            for wn, W in writers.items():
                def f_wd(t, D=D, W=W):
                    before = (np.array(t.TM, float).copy(), np.array(t.TAA, float).copy())
                    other = D(t)
                    W(other)
                    return t, {"reached": max(float(np.abs(t.TM - before[0]).max()), float(np.abs(t.TAA - before[1]).max()))}
                ops.append(Op("derive_then_write_to_derived", (dn, wn), f_wd))

                def f_ws(t, D=D, W=W):
                    other = D(t)
                    before = (np.array(other.TM, float).copy(), np.array(other.TAA, float).copy())
                    W(t)
                    c, d, pma = coherence(t)
                    return other, {"recv": [c, d, pma, _flag(t, c, pma)],
                                   "reached": max(float(np.abs(other.TM - before[0]).max()), float(np.abs(other.TAA - before[1]).max()))}
                ops.append(Op("derive_then_write_to_source", (dn, wn), f_ws))
        # exact half turns about the coordinate axes, arriving through the matrix side (an exactly symmetric rotation block)
        for ax in range(3):
            Rh = -np.eye(3)
            Rh[ax, ax] = 1.0
            for p in POS:
                Xh = np.eye(4)
                Xh[:3, :3] = Rh
                Xh[:3, 3] = p
                qh = [0.0, 0.0, 0.0, 0.0]
                qh[ax] = 1.0

                def f_sTM_half(t, Xh=Xh):
                    t.sTM(Xh.copy())
                    return np.abs(t.gTM() - Xh).max()
                ops.append(Op("sTM_half_turn", (ax, list(p)), mut(f_sTM_half)))
                ops.append(Op("ctor4x4_half_turn", (ax, list(p)), fun(lambda t, Xh=Xh: tm(Xh.copy()))))
                ops.append(Op("ctor7_half_turn", (ax, list(p)), fun(lambda t, p=p, qh=qh: tm(list(p) + list(qh)))))

            def f_setquat_half(t, qh=qh):
                t.setQuat(np.array(qh, float))
                q2 = t.getQuat()
                return min(np.abs(q2 - np.array(qh)).max(), np.abs(q2 + np.array(qh)).max())
            ops.append(Op("setQuat_half_turn", ax, mut(f_setquat_half)))
        # a matrix-side write followed by writing the OLD rotation vector back through the six-vector side: the object is
        # where it was (a conversion remembered for 'the vector I exponentiated last' is stale after the matrix-side write)
        for mname in ("setQuat", "sTM"):
            for sname in ("slice", "sTAA", "items"):
                def f_back(t, mname=mname, sname=sname):
                    old = np.array(t.TAA, float).reshape(6).copy()
                    if mname == "setQuat":
                        t.setQuat(quat((0.5, -0.2, 0.7)))
                    else:
                        t.sTM(se3.T_from_taa(list(old[:3]) + [0.5, -0.2, 0.7]))
                    if sname == "slice":
                        t[3:6] = list(old[3:])
                    elif sname == "sTAA":
                        t.sTAA(old.reshape(6, 1).copy())
                    else:
                        for i in (3, 4, 5):
                            t[i] = float(old[i])
                    return np.abs(np.array(t.TAA, float).reshape(6)[3:] - old[3:]).max()
                ops.append(Op("matrix_side_write_then_restore_vector", (mname, sname), mut(f_back)))
        for w in RV:
            ops.append(Op("ctor3list", w, fun(lambda t, w=w: tm(list(w)))))
            ops.append(Op("ctor3arr", w, fun(lambda t, w=w: tm(np.array(w)))))
            ops.append(Op("ctor3rpy", w, fun(lambda t, w=w: tm(list(w), True))))

            def f_slice_col(t, w=w):
                t[3:6] = np.array(w).reshape(3, 1)
                return np.abs(t[3:6].reshape(3) - np.array(w)).max()
            ops.append(Op("setslice_rot_col", w, mut(f_slice_col)))

            def f_slice_list(t, w=w):
                t[3:6] = list(w)
                return np.abs(t[3:6].reshape(3) - np.array(w)).max()
            ops.append(Op("setslice_rot_list", w, mut(f_slice_list)))

            def f_setquat(t, w=w):
                q = quat(w)
                t.setQuat(q)
                q2 = t.getQuat()
                return min(np.abs(q2 - q).max(), np.abs(q2 + q).max())
            ops.append(Op("setQuat", w, mut(f_setquat)))
        for a in ANG:
            for i in range(6):
                def f_setitem(t, i=i, a=a):
                    t[i] = a
                    return abs(t[i] - a)
                ops.append(Op("setitem", (i, a), mut(f_setitem)))

                def f_set(t, i=i, a=a):
                    r = t.set(i, a)
                    if r is not t:
                        return 1.0
                    return abs(t[i] - a)
                ops.append(Op("set", (i, a), mut(f_set)))
        # from-the-end indices and open-ended / negative slice bounds (t[-1]=x, t[3:]=v, t[-3:]=v, t[3:-1]=v, t[:3]=v ...)
        for a in ANG:
            for i in range(-6, 0):
                def f_setitem_neg(t, i=i, a=a):
                    t[i] = a
                    return max(abs(t[i] - a), abs(t[i + 6] - a))
                ops.append(Op("setitem_neg", (i, a), mut(f_setitem_neg)))
        slices = {"3:": slice(3, None), "-3:": slice(-3, None), ":3": slice(None, 3), "0:-3": slice(0, -3),
                  "3:-1": slice(3, -1), "-3:-1": slice(-3, -1), "-6:-3": slice(-6, -3), "4:": slice(4, None), "1:4": slice(1, 4),
                  ":": slice(None, None), "0:": slice(0, None), "1:": slice(1, None), "2:": slice(2, None), "::2": slice(None, None, 2),
                  "1::2": slice(1, None, 2), ":-1": slice(None, -1), "2:5": slice(2, 5)}
        for sname, sl in slices.items():
            width = len(range(6)[sl])
            for w in RV[1::4]:
                # (values in entry order; for slices wider than three the rotation entries get the palette vector)
                if width <= 3:
                    vals = list(w)[:width]
                else:
                    vals = [0.4, -1.5, 2.5, w[0], w[1], w[2]][6 - width:] if sl.step in (None, 1) and sl.stop is None else list(w) + [0.0] * (width - 3)
                def f_slice(t, sl=sl, vals=vals):
                    t[sl] = list(vals)
                    return float(np.abs(t[sl].reshape(-1) - np.array(vals)).max())
                ops.append(Op("setslice_list", (sname, vals), mut(f_slice)))
                if width == 3:
                    def f_slice3(t, sl=sl, vals=vals):
                        t[sl] = np.array(vals, float).reshape(3, 1)
                        return float(np.abs(t[sl].reshape(-1) - np.array(vals)).max())
                    ops.append(Op("setslice_col", (sname, vals), mut(f_slice3)))
        for pv in ([1.0, 2.0, 3.0], [-0.5, 0.25, 10.0]):
            def f_pos_col(t, pv=pv):
                t[0:3] = np.array(pv).reshape(3, 1)
                return np.abs(t[0:3].reshape(3) - np.array(pv)).max()
            ops.append(Op("setslice_pos_col", pv, mut(f_pos_col)))

            def f_pos_list(t, pv=pv):
                t[0:3] = list(pv)
                return np.abs(t[0:3].reshape(3) - np.array(pv)).max()
            ops.append(Op("setslice_pos_list", pv, mut(f_pos_list)))
        ops.append(Op("angleMod", None, mut(lambda t: t.angleMod())))
        ops.append(Op("fsr.angleMod", None, mut(lambda t: (fsr.angleMod(t), None)[1])))
        ops.append(Op("copy", None, fun(lambda t: t.copy())))
        ops.append(Op("ctor_tm", None, fun(lambda t: tm(t))))
        ops.append(Op("ctor_arr_of_tm", None, fun(lambda t: tm(np.array([t])))))
        ops.append(Op("inv", None, fun(lambda t: t.inv())))
        ops.append(Op("abs", None, fun(lambda t: abs(t))))
        for k in (2.0, -0.5, 3):
            ops.append(Op("mul", k, fun(lambda t, k=k: t * k)))
            ops.append(Op("rmul", k, fun(lambda t, k=k: k * t)))
            ops.append(Op("div", k, fun(lambda t, k=k: t / k)))
        self._operand_vecs = [list(p) + list(w) for p in POS for w in RV[::3]] + (
            [list(POS[1]) + list(RV[-1])] if seed else [])
        nop = len(self._operand_vecs)
        O = self.operand
        for j in range(nop):
            ops.append(Op("matmul", j, fun(lambda t, j=j: t @ O(j))))
            ops.append(Op("rmatmul", j, fun(lambda t, j=j: O(j) @ t)))
            ops.append(Op("matmul_arr", j, fun(lambda t, j=j: t @ O(j).gTM())))
            ops.append(Op("mul_tm", j, fun(lambda t, j=j: t * O(j))))
            ops.append(Op("add", j, fun(lambda t, j=j: t + O(j))))
            ops.append(Op("sub", j, fun(lambda t, j=j: t - O(j))))
            ops.append(Op("add_col", j, fun(lambda t, j=j: t + O(j).gTAA())))
            ops.append(Op("add_flat", j, fun(lambda t, j=j: t + O(j).gTAA().flatten())))
            ops.append(Op("sub_col", j, fun(lambda t, j=j: t - O(j).gTAA())))
            ops.append(Op("sub_flat", j, fun(lambda t, j=j: t - O(j).gTAA().flatten())))
            ops.append(Op("floordiv", j, fun(lambda t, j=j: t // O(j))))
            ops.append(Op("floordiv_arr", j, fun(lambda t, j=j: t // O(j).gTM())))
            ops.append(Op("l2g", j, fun(lambda t, j=j: fsr.localToGlobal(t, O(j)))))
            ops.append(Op("g2l", j, fun(lambda t, j=j: fsr.globalToLocal(t, O(j)))))
            ops.append(Op("l2g_r", j, fun(lambda t, j=j: fsr.localToGlobal(O(j), t))))
            ops.append(Op("g2l_r", j, fun(lambda t, j=j: fsr.globalToLocal(O(j), t))))
        self.ops = ops

    def operand(self, j):
        """A fresh operand object for every application (nothing is shared between executions)."""
        return self.tm(list(self._operand_vecs[j]))

    def initials(self):
        return [("identity", self.tm())]

    def invariant(self, st, obs, op, hist):
        bad = []
        if not isinstance(st, self.tm):
            return [{"clause": "result_type", "observed": type(st).__name__}]
        c, d, pma = coherence(st)
        if c:
            bad.append({"clause": c, "observed": d, "tolerance": TOL, "quantities": {"pi_minus_angle": pma},
                        "flags": {"log_equals_reference": _flag(st, c, pma)}})
        if op.name.startswith("ctor6_") or op.name.startswith("ctor4x4_then"):
            E = se3.T_from_taa(op.arg)
            e = float(np.abs(st.TM - E).max()) if isinstance(getattr(st, "TM", None), np.ndarray) and st.TM.shape == (4, 4) else float("inf")
            e2 = float(np.abs(np.asarray(st.TAA, float).reshape(-1) - np.array(op.arg, float)).max()) if np.size(st.TAA) == 6 else float("inf")
            if op.name.startswith("ctor4x4"):
                e2 = 0.0        # built from a matrix: the six-vector is whatever logarithm the library picks (coherence judges it)
            if not (max(e, e2) <= TOL * max(1.0, float(np.abs(np.array(op.arg[:3])).max()))):
                bad.append({"clause": "follows_callers_array", "observed": [e, e2], "tolerance": TOL, "quantities": {"pi_minus_angle": pma}})
        if "recv" in obs and obs["recv"][0]:
            c2, d2, pma2 = obs["recv"][:3]
            bad.append({"clause": "receiver_" + c2, "observed": d2, "tolerance": TOL,
                        "quantities": {"pi_minus_angle": pma2},
                        "flags": {"log_equals_reference": obs["recv"][3] if len(obs["recv"]) > 3 else None}})
        if not (obs.get("reached", 0.0) <= 1e-12):
            bad.append({"clause": "write_reached_other_object", "observed": obs["reached"], "tolerance": 1e-12})
        if not (obs.get("wr", 0.0) <= 1e-9):
            q = {"pi_minus_angle": pma} if op.name in ("setQuat",) else {}
            bad.append({"clause": "written_not_read_back", "observed": obs["wr"], "tolerance": 1e-9, "quantities": q})
        return bad


_SPECS = {}


def get_spec(name):
    if name not in _SPECS:
        _SPECS[name] = Spec(int(name.split(":")[1]))
    return _SPECS[name]


def run(ctx):
    depth = 3 if ctx.tier == "thorough" else 2
    name = "tm:%d" % ctx.seed
    ctx.level = "model_checking"
    with ctx.pool(ctx.workers if ctx.tier == "thorough" else 8) as pool:
        res = explorer.explore(ctx, MOD, name, depth, pool, replay_cap=200000, chunk=40)
    res["rule"] = ("BFS over histories of tm operations; alphabet = constructors/setters/operators x value palette "
                   "(angles 0,1e-7,2e-5,3e-4,1,pi-1e-3,2pi+0.5; 4 axes; 2 positions); states merged when all fields agree to 1e-9")
    ctx.coverage.update(res)
    ctx.assumptions += ["operand objects are rebuilt for every application",
                        "states merged when every field agrees to 1e-9 (relative above 1)",
                        "coherence judged with an independent Rodrigues formula to 5e-6 (scaled by max(1,|p|))"]


def replay(rec):
    spec = get_spec(rec["case"]["spec"])
    hist = rec["case"]["hist"]
    st = spec.initials()[0][1]
    found = []
    h = [hist[0]]
    for i in hist[1:]:
        op = spec.ops[i]
        try:
            st, obs = op.fn(st)
            bad = spec.invariant(st, obs, op, h)
        except Exception as e:
            bad = [{"clause": "raised", "observed": repr(e)}]
        h.append(i)
        found += [b for b in bad if b["clause"] == rec["clause"]]
        if bad:
            break
    return found
