"""C20 - disp never fails and shows every element it was given (LX, exploration).

Complete products, no sampling:

* arrays : ALL 3 906 shapes with every extent in 0..4 and rank 0..5  x  dtype {float64, int64, bool}
           x fill {ramp, zero, special, edge (+ one seeded generic fill)}  x  nd  x  title  x  pdims
           (default table mode), and every 2-D shape again in LaTeX mode (mode=1);
* objects: scalars, strings, None, every nested list/tuple tree to depth 3, tm, Wrench, every list of 0..3 of
           them, every mixed list of length 1..3 over a 9-element alphabet.

Every case is rendered twice by the real `disp` (printing, stdout captured; and noprint=True).  Clauses:

  raised          disp raised
  not_str         the return value is not a str
  print_mismatch  captured stdout != returned string + "\\n"
  noprint_printed noprint=True still wrote to stdout
  noprint_differs noprint=True returned another string than the printing call
  elements        (rank <= 4, all |x| < 9999; LaTeX: rank 2) the numeric fields read back by oracles.disp_parse are
                  not, in full and in row-major order, round(x, nd) within half a unit of the last place / show more
                  than nd decimals

The parser is independent of the library (oracles/disp_parse.py, self-tested in selftest/st_disp.py).
"""
import contextlib
import io
import itertools

import numpy as np

from mc import lattice
from oracles import disp_parse as dp

MOD = "checks.c20"

# ----------------------------------------------------------------------------------------------------------------
# palettes

DTYPES = ("float64", "int64", "bool")
FILLS = ("ramp", "zero", "special", "edge", "subunit", "seeded")
TITLES_QUICK = ("MATRIX", "J_1", "Tb")                                   # default, odd length, even length
TITLES_THOROUGH = TITLES_QUICK + ("", "Jacobian of arm no. 7")           # + empty (even) and long (odd, 21)
ND_ALL = tuple(range(9))
ND_FEW = (0, 3, 8)
LIMIT = 9999

FRAC = 0.123456789     # a non-zero digit at every place 1..9, never within 0.1 of a rounding tie
SPECIAL_F = (float("inf"), float("-inf"), float("nan"), 1e300, -1e300, -9998.5, 9999.0, -9999.0, 9999.5,
             123456.789, 1e7, 99999999.5, 1e-300, -0.0)
# all below 9999 in magnitude: range boundary, exactly representable ties (half-even in every correct rounding),
# carries into the next integer, tiny values, negative zero
EDGE_F = (-9998.5, 9998.5, 9998.999999999, -9998.999999999, 0.5, -0.5, 1.5, 2.5, 0.125, -0.375, -0.0, 1e-9, 4e-10,
          999.9999999951, 0.049999999, 9998.4999)
# between half a display unit and one display unit, for every number of decimals (0.7e-m rounds to 1e-m, 0.49e-m to 0)
SUB_F = tuple(sg * 10.0 ** -m for m in range(0, 10) for sg in (0.7, -0.8, 0.51, -0.49))
SPECIAL_I = (9999, -9999, 10000, 2 ** 62, -2 ** 63, 123456789, -10 ** 12)
EDGE_I = (-9998, 9998, 0, 1, -1, 5000, -37)


def all_shapes():
    out = [()]
    for r in range(1, 6):
        out += list(itertools.product(range(5), repeat=r))
    return out


N_SHAPES = 3906
_STRIDE = 1237          # coprime with 3906: spreads the heavy rank-5 shapes evenly over the shards


def shape_of_unit(u):
    return all_shapes_cached()[(u * _STRIDE) % N_SHAPES]


_SH = []


def all_shapes_cached():
    if not _SH:
        _SH.extend(all_shapes())
        assert len(_SH) == N_SHAPES and len(set(_SH)) == N_SHAPES
    return _SH


def make_array(shape, dtype, fill, seed):
    shape = tuple(int(e) for e in shape)
    n = 1
    for e in shape:
        n *= e
    k = np.arange(n, dtype=np.int64)
    off = sum(shape)
    if fill == "seeded":
        rng = np.random.default_rng([int(seed), DTYPES.index(dtype)] + list(shape))
    if dtype == "float64":
        if fill == "ramp":
            a = np.where(k % 3 == 1, -1.0, 1.0) * (k + 1 + FRAC)
        elif fill == "zero":
            a = np.zeros(n)
        elif fill == "special":
            a = np.array([SPECIAL_F[(i + off) % len(SPECIAL_F)] for i in range(n)], dtype=float)
        elif fill == "edge":
            a = np.array([EDGE_F[(i + off) % len(EDGE_F)] for i in range(n)], dtype=float)
        elif fill == "subunit":
            a = np.array([SUB_F[(i + 3 * off) % len(SUB_F)] for i in range(n)], dtype=float)
        else:
            a = rng.uniform(-9998.0, 9998.0, n)
        a = a.astype(np.float64)
    elif dtype == "int64":
        if fill == "ramp":
            a = np.where(k % 3 == 1, -1, 1) * (3 * k + 1)
        elif fill in ("zero", "subunit"):
            a = np.zeros(n, dtype=np.int64)
        elif fill == "special":
            a = np.array([SPECIAL_I[(i + off) % len(SPECIAL_I)] for i in range(n)], dtype=np.int64)
        elif fill == "edge":
            a = np.array([EDGE_I[(i + off) % len(EDGE_I)] for i in range(n)], dtype=np.int64)
        else:
            a = rng.integers(-9998, 9999, n)
        a = a.astype(np.int64)
    elif dtype == "bool":
        if fill == "ramp":
            a = (k % 3 == 0) ^ (k % 5 == 1)
        elif fill in ("zero", "subunit"):
            a = np.zeros(n, dtype=bool)
        elif fill == "special":
            a = np.ones(n, dtype=bool)
        elif fill == "edge":
            a = k % 2 == 0
        else:
            a = rng.integers(0, 2, n) == 1
        a = a.astype(bool)
    else:
        raise ValueError(dtype)
    return a.reshape(shape)


def in_scope(arr):
    """The faithfulness clause covers arrays of rank <= 4 whose entries are all below 9999 in magnitude."""
    if arr.ndim > 4:
        return False
    if arr.dtype == bool or arr.size == 0:
        return True
    if arr.dtype.kind == "f":
        return bool(np.all(np.abs(arr) < LIMIT))          # NaN compares false
    return bool(np.all((arr < LIMIT) & (arr > -LIMIT)))


def array_plan(tier, rank):
    """(nds, titles, pdims values, fills) of the table-mode product for one rank."""
    thorough = tier == "thorough"
    titles = TITLES_THOROUGH if thorough else TITLES_QUICK
    nds = ND_ALL if (rank <= 2 or (thorough and rank <= 4)) else ND_FEW
    pd = (True, False) if rank >= 3 else (True,)
    fills = FILLS
    if rank == 5 and not thorough:
        # rank 5 is totality-only and by far the bulk of the work; the quick tier keeps every shape and dtype but the
        # sub-product fills {ramp, special} x nd {0,3,8} x titles x pdims {True}
        fills = ("ramp", "special")
        pd = (True,)
    return nds, titles, pd, fills


# ----------------------------------------------------------------------------------------------------------------
# object specs (JSON-able descriptions from which replay rebuilds the very same object)

LEAF4 = (["i", 1], ["f", "2.5"], ["s", "a"], ["N"])
LEAF2 = (["i", 1], ["s", "a"])

SCALARS = (
    ["i", 0], ["i", 1], ["i", -7], ["i", 2 ** 70], ["b", True], ["b", False],
    ["f", "2.5"], ["f", "-0.0"], ["f", "1e300"], ["f", "1e-300"], ["f", "inf"], ["f", "-inf"], ["f", "nan"],
    ["f", "9999.0"], ["f", "-123456.789"], ["c", "1.0", "2.0"],
    ["np", "float64", "2.5"], ["np", "float64", "inf"], ["np", "float64", "nan"], ["np", "float32", "1.5"],
    ["np", "int64", "-3"], ["np", "int64", "123456789"], ["np", "bool_", "1"], ["N"],
)
STRINGS = (["s", ""], ["s", "a"], ["s", "hello world"], ["s", " padded "], ["s", "two\nlines"], ["s", "trailing\n"],
           ["s", "\n"], ["s", "\t tab"], ["s", "║     1.000 ║"], ["s", "{} %s \\ {0:3f}"], ["s", "MATRIX"],
           ["s", "J_1: "])
TM_PAL = (["tm", [0, 0, 0, 0, 0, 0]], ["tm", [1, 2, 3, 0.1, 0.2, 0.3]], ["tm", [-9998.5, 9999, 12345.678, 3, -2, 1]],
          ["tm", [1e6, -1e8, 1e300, 0, 0, 1.5]])
WR_PAL = (["wr", [0, 0, 0], 0], ["wr", [0, 1, 2], 1], ["wr", [1e5, -2e4, 9999], 1])
MIX_ALPHA = (["tm", [1, 2, 3, 0.1, 0.2, 0.3]], ["wr", [0, 1, 2], 1], ["arr", [2, 2], "float64", "ramp"],
             ["arr", [3], "int64", "ramp"], ["i", 3], ["s", "a"], ["N"], ["L", [["tm", [0, 0, 0, 0, 0, 0]]]],
             ["T", [["tm", [0, 0, 0, 0, 0, 0]], ["i", 1]]])


def build(spec, seed=0):
    t = spec[0]
    if t == "i":
        return int(spec[1])
    if t == "b":
        return bool(spec[1])
    if t == "f":
        return float(spec[1])
    if t == "c":
        return complex(float(spec[1]), float(spec[2]))
    if t == "s":
        return spec[1]
    if t == "N":
        return None
    if t == "np":
        return getattr(np, spec[1])(float(spec[2]) if "float" in spec[1] else int(spec[2]))
    if t == "L":
        return [build(x, seed) for x in spec[1]]
    if t == "T":
        return tuple(build(x, seed) for x in spec[1])
    if t == "arr":
        return make_array(spec[1], spec[2], spec[3], seed)
    if t == "tm":
        from basic_robotics.general import tm
        return tm([float(v) for v in spec[1]])
    if t == "wr":
        from basic_robotics.general import tm, Wrench
        return Wrench(np.array([float(v) for v in spec[1]]), build(TM_PAL[spec[2]]))
    raise ValueError("unknown spec %r" % (spec,))


def depth(spec):
    if spec[0] in ("L", "T"):
        return 1 + max([depth(x) for x in spec[1]], default=0)
    return 0


class Trees:
    """All list/tuple trees over a leaf alphabet with 0..2 children per node, addressed by index.
    level(0) = leaves; level(d) = leaves + for each container kind: [] , [x], [x, y] with x, y in level(d-1)."""

    def __init__(self, leaves, kinds=("L", "T")):
        self.leaves = list(leaves)
        self.kinds = kinds
        self._mat = {0: self.leaves}

    def count(self, d):
        if d == 0:
            return len(self.leaves)
        m = self.count(d - 1)
        return len(self.leaves) + len(self.kinds) * (1 + m + m * m)

    def get(self, d, i):
        if d in self._mat:
            return self._mat[d][i]
        nl = len(self.leaves)
        if i < nl:
            return self.leaves[i]
        m = self.count(d - 1)
        kind, r = divmod(i - nl, 1 + m + m * m)
        if r == 0:
            ch = []
        elif r <= m:
            ch = [self.get(d - 1, r - 1)]
        else:
            x, y = divmod(r - 1 - m, m)
            ch = [self.get(d - 1, x), self.get(d - 1, y)]
        return [self.kinds[kind], ch]

    def materialise(self, d):
        self._mat[d] = [self.get(d, i) for i in range(self.count(d))]


_T = {}


def trees(name):
    if name not in _T:
        if name == "leaf4":
            t = Trees(LEAF4)
            t.materialise(1)
        elif name == "leaf2":
            t = Trees(LEAF2)
            t.materialise(1)
            t.materialise(2)
        else:
            t = Trees(LEAF2, kinds=("L",))
            t.materialise(1)
            t.materialise(2)
        _T[name] = t
    return _T[name]


def object_families(tier):
    """[(family name, number of specs, params product)]; the spec of index i comes from object_spec()."""
    thorough = tier == "thorough"
    titles = TITLES_THOROUGH if thorough else TITLES_QUICK
    fam = [
        ("scalar", len(SCALARS), ND_FEW, titles, (True,)),
        ("string", len(STRINGS), (3,), titles, (True,)),
        ("nest4_d2", trees("leaf4").count(2), (3,), titles[:2], (True, False)),
        ("tm", len(TM_PAL), ND_ALL, titles, (True,)),
        ("wrench", len(WR_PAL), ND_ALL, titles, (True,)),
        ("tm_list", sum(len(TM_PAL) ** n for n in range(4)), ND_ALL, titles, (True,)),
        ("wrench_list", sum(len(WR_PAL) ** n for n in range(1, 4)), ND_ALL, titles, (True,)),
        ("mixed_list", sum(len(MIX_ALPHA) ** n for n in range(1, 4)), ND_FEW, titles[:2], (True, False)),
    ]
    if thorough:
        fam.append(("nest2_d3", trees("leaf2").count(3), (3,), titles[:2], (True, False)))
    else:
        fam.append(("nest2L_d3", trees("leaf2L").count(3), (3,), titles[:2], (True, False)))
    return fam


def _seq(alpha, i, lo):
    """i-th tuple of the concatenation over n = lo, lo+1, ... of alpha**n (lexicographic)."""
    n = lo
    while i >= len(alpha) ** n:
        i -= len(alpha) ** n
        n += 1
    out = []
    for _ in range(n):
        i, r = divmod(i, len(alpha))
        out.append(alpha[r])
    return out[::-1]


def object_spec(family, i):
    if family == "scalar":
        return SCALARS[i]
    if family == "string":
        return STRINGS[i]
    if family == "nest4_d2":
        return trees("leaf4").get(2, i)
    if family == "nest2_d3":
        return trees("leaf2").get(3, i)
    if family == "nest2L_d3":
        return trees("leaf2L").get(3, i)
    if family == "tm":
        return TM_PAL[i]
    if family == "wrench":
        return WR_PAL[i]
    if family == "tm_list":
        return ["L", _seq(TM_PAL, i, 0)]
    if family == "wrench_list":
        return ["L", _seq(WR_PAL, i, 1)]
    if family == "mixed_list":
        return ["L", _seq(MIX_ALPHA, i, 1)]
    raise ValueError(family)


# ----------------------------------------------------------------------------------------------------------------
# one case = one (object, title, nd, mode, pdims); evaluated by two plain calls of the real disp

_DISP = []


def _disp():
    if not _DISP:
        from basic_robotics.utilities.disp import disp
        _DISP.append(disp)
    return _DISP[0]


def render(obj, title, nd, mode, pdims, noprint):
    """-> ("ok", returned, printed) | ("exc", repr, None)"""
    f = _disp()
    buf = io.StringIO()
    try:
        with contextlib.redirect_stdout(buf):
            s = f(obj, title, nd, mode, pdims, noprint)
    except Exception as e:
        return "exc", "%s: %s" % (type(e).__name__, str(e)[:300]), None
    return "ok", s, buf.getvalue()


def _clip(s, n=400):
    return s if len(s) <= n else s[:n] + "...(%d chars)" % len(s)


def read_elements(s, rank, mode, title):
    """Numeric fields of a rendering, row-major -> (tokens, rows) ; rows is None for shapeless renderings."""
    if mode == 1:
        rows = dp.latex_rows(s)
        if rows is None:
            return None, None
        return dp.flatten(rows), rows
    if rank == 0:
        return [dp.scalar_token(s, title)], None
    rows = dp.table_rows(s, title if rank == 1 else None)
    return dp.flatten(rows), rows


def evaluate(obj, title, nd, mode, pdims, arr=None):
    """All clause failures of one case as a list of dicts {clause, observed}; `arr` is given for array cases.
    Second return value: layout flag (True/False/None) for the coverage counters."""
    st, s, printed = render(obj, title, nd, mode, pdims, False)
    if st == "exc":
        return [{"clause": "raised", "observed": {"exception": s, "noprint": False}}], None
    bad = []
    if not isinstance(s, str):
        return [{"clause": "not_str", "observed": {"type": type(s).__name__}}], None
    if printed != s + "\n":
        bad.append({"clause": "print_mismatch", "observed": {"returned": _clip(s), "printed": _clip(printed)}})
    st2, s2, printed2 = render(obj, title, nd, mode, pdims, True)
    if st2 == "exc":
        bad.append({"clause": "raised", "observed": {"exception": s2, "noprint": True}})
    else:
        if printed2 != "":
            bad.append({"clause": "noprint_printed", "observed": {"printed": _clip(printed2)}})
        if not isinstance(s2, str):
            bad.append({"clause": "not_str", "observed": {"type": type(s2).__name__, "noprint": True}})
        elif s2 != s:
            bad.append({"clause": "noprint_differs", "observed": {"printing": _clip(s), "noprint": _clip(s2)}})
    layout = None
    if arr is not None and in_scope(arr) and (mode == 0 or arr.ndim == 2):
        toks, rows = read_elements(s, arr.ndim, mode, title)
        if toks is None:
            bad.append({"clause": "elements", "observed": {"kind": "no_rows_found", "rendering": _clip(s)}})
        else:
            d = dp.compare(toks, arr.ravel().tolist(), nd, check_decimals=arr.ndim >= 1)
            if d is not None:
                d["rendering"] = _clip(s, 600)
                bad.append({"clause": "elements", "observed": d})
            elif rows is not None and arr.size > 0 and arr.ndim >= 2:
                layout = dp.layout_ok(rows, arr.shape)
    return bad, layout


def _record(acc, per_unit, bad, case):
    for b in bad:
        k = b["clause"]
        per_unit[k] = per_unit.get(k, 0) + 1
        if per_unit[k] <= 2:            # at most two full records per clause and unit, the rest is counted
            acc.violation(k, case, b["observed"], tolerance="half a unit of the last place" if k == "elements" else None)
        else:
            acc.nviol += 1


def work_arrays(p):
    acc = lattice.Acc(max_viol=60)
    tier, seed = p["tier"], p["seed"]
    for u in range(p["lo"], p["hi"]):
        shape = shape_of_unit(u)
        rank = len(shape)
        nds, titles, pds, fills = array_plan(tier, rank)
        per_unit = {}
        for dtype in DTYPES:
            seen = set()
            for fill in fills:
                arr = make_array(shape, dtype, fill, seed)
                sig = arr.tobytes()
                if sig in seen:
                    acc.skip("fill_identical_to_an_earlier_one")      # e.g. every fill of an empty array
                    continue
                seen.add(sig)
                scope = in_scope(arr)
                modes = [(0, pd) for pd in pds] + ([(1, True)] if rank == 2 else [])
                for mode, pd in modes:
                    for nd in nds:
                        for title in titles:
                            bad, layout = evaluate(arr, title, nd, mode, pd, arr)
                            acc.case()
                            acc.outcome("calls", 2)
                            if scope and (mode == 0 or rank == 2):
                                acc.outcome("element_checked_cases")
                                acc.outcome("elements_compared", arr.size)
                            else:
                                acc.outcome("totality_only_cases")
                            if layout is not None:
                                acc.outcome("row_layout_ok" if layout else "row_layout_differs")
                            if bad:
                                _record(acc, per_unit, bad, {"kind": "array", "shape": list(shape), "dtype": dtype,
                                                             "fill": fill, "nd": nd, "title": title, "mode": mode,
                                                             "pdims": pd})
        if u % 577 == 0:
            a = make_array(shape, "float64", "ramp", seed)
            acc.sample({"shape": list(shape), "nd": 3, "rendering": _clip(render(a, "J_1", 3, 0, True, True)[1], 300)})
    return acc.result()


def work_objects(p):
    acc = lattice.Acc(max_viol=60)
    fam, nds, titles, pds = p["family"], p["nds"], p["titles"], p["pdims"]
    need_depth = {"nest2_d3": 3, "nest2L_d3": 3}.get(fam)
    per_unit = {}
    for i in range(p["lo"], p["hi"]):
        spec = object_spec(fam, i)
        if need_depth is not None and depth(spec) < need_depth:
            acc.skip("shallower_tree_already_in_nest4_d2_or_not_depth_3")
            continue
        obj = build(spec, p["seed"])
        for nd in nds:
            for title in titles:
                for pd in pds:
                    bad, _ = evaluate(obj, title, nd, 0, pd)
                    acc.case()
                    acc.outcome("calls", 2)
                    if bad:
                        _record(acc, per_unit, bad, {"kind": "object", "family": fam, "index": i, "spec": spec, "nd": nd,
                                                     "title": title, "mode": 0, "pdims": pd})
        if i % 997 == 0:
            acc.sample({"family": fam, "spec": spec, "rendering": _clip(render(obj, "MATRIX", 3, 0, True, True)[1], 200)})
    return acc.result()


def work_outside(p):
    """Inputs OUTSIDE the stated domain, rendered for the record only (never a violation)."""
    out = {}
    if p.get("half") == 1:
        return _outside_arrays()
    probes = {
        "list_of_tm_with_infinite_entry": ["L", [["tm", ["inf", 0, 0, 0, 0, 0]]]],
        "list_of_tm_with_nan_entry": ["L", [["tm", ["nan", 0, 0, 0, 0, 0]]]],
        "tm_with_infinite_entry": ["tm", ["inf", 0, 0, 0, 0, 0]],
    }
    for k, spec in probes.items():
        st, s, _ = render(build(spec), "MATRIX", 3, 0, True, True)
        out[k] = "renders" if st == "ok" else "raises " + s
    return out


def _outside_arrays():
    out = {}
    for name, arr, mode in (("latex_mode_rank1", np.ones(3), 1), ("latex_mode_rank3", np.ones((2, 2, 2)), 1),
                            ("latex_mode_rank0", np.array(2.0), 1)):
        st, s, _ = render(arr, "MATRIX", 3, mode, True, True)
        out[name] = "renders" if st == "ok" else "raises " + s
    a = make_array((2, 2, 1, 1, 2), "float64", "ramp", 0)
    st, s, _ = render(a, "MATRIX", 8, 0, True, True)
    if st == "ok":
        toks = dp.flatten(dp.table_rows(s))
        out["rank5_nd8"] = "fields shown with %d decimals (nd is not forwarded beyond rank 4)" % max(
            [dp.decimals_shown(t) for t in toks] or [0])
    else:
        out["rank5_nd8"] = "raises " + s
    return out


RULE = ("arrays: every shape with extents 0..4 and rank 0..5 (3906) x dtype {float64,int64,bool} x fill {ramp with "
        "signs and 9 fractional digits, zero, special (inf,-inf,nan,1e300,-9998.5,9999,...), edge (|x|<9999: range "
        "boundary, exact ties, carries, -0.0), one seeded generic fill}; fills that give the same bytes as an earlier one "
        "for that shape and dtype are skipped, so every case is distinct by construction; table mode: %s; LaTeX mode: "
        "every 2-D shape x dtype x fill x nd 0..8 x titles; titles %s.  objects (table mode): %s.  Each case = one "
        "printing call (stdout captured) + one noprint call.  Element faithfulness is decided for every array case "
        "of rank<=4 whose entries are all below 9999 in magnitude (LaTeX: rank 2).  histories: 7 primers x nd 0..8 x 4 follow-up "
        "renderings, each in a re-loaded display module (two-call histories).")


PRIMERS = ("huge_array", "huge_tm_list", "special_array", "empty_array", "nested_list", "string", "bool_latex")


def _primer(name):
    from basic_robotics.general import tm
    return {"huge_array": (np.array([1.5e7, -2.25e8, 3.0]), 0), "huge_tm_list": ([tm([1e7, -2e8, 3.0, 0.1, 0.2, 0.3])], 0),
            "special_array": (np.array([[np.inf, np.nan], [1e300, -9998.5]]), 0), "empty_array": (np.zeros((0, 3)), 0),
            "nested_list": ([[1, 2.5], ("a", None)], 0), "string": ("text", 0),
            "bool_latex": (np.array([[True, False], [False, True]]), 1)}[name]


def _history_case(primer, nd, kind):
    """A two-call history in a process-fresh display module: `primer` is rendered first (same nd), then an ordinary
    in-scope array.  The second rendering must be as faithful as if it had been the first (module-level state, e.g. a
    format cache filled by the first call, must not leak)."""
    import importlib
    import basic_robotics.utilities.disp as dm
    dm = importlib.reload(dm)            # module-level state as at process start
    _DISP[:] = [dm.disp]
    try:
        pobj, pmode = _primer(primer)
        render(pobj, "P", nd, pmode, True, True)
        if kind == "tm_list":
            from basic_robotics.general import tm
            obj = [tm([0.125, -2.5, 3.0625, 0.1, 0.2, 0.3]), tm([1.5, 2.25, -0.75, 0.0, 0.0, 0.5])]
            bad, _ = evaluate(obj, "T", nd, 0, True)
            st, sfirst, _p = render(obj, "T", nd, 0, True, True)
            dm2 = importlib.reload(dm)
            _DISP[:] = [dm2.disp]
            st2, sclean, _p = render(obj, "T", nd, 0, True, True)
            if st == "ok" and st2 == "ok" and sfirst != sclean:
                bad.append({"clause": "depends_on_earlier_calls", "observed": {"after_primer": _clip(sfirst), "fresh": _clip(sclean)}})
            return bad
        shape = {"vec": (4,), "mat": (3, 4), "cube": (2, 3, 2)}[kind]
        arr = make_array(shape, "float64", "ramp", 0)
        bad, _ = evaluate(arr, "M", nd, 0, True, arr)
        return bad
    finally:
        _DISP[:] = []


def work_histories(p):
    acc = lattice.Acc()
    cases = [(pr, nd, k) for pr in PRIMERS for nd in range(9) for k in ("vec", "mat", "cube", "tm_list")]
    per = {}
    for pr, nd, k in cases[p["lo"]:p["hi"]]:
        case = {"kind": "history", "primer": pr, "nd": nd, "then": k}
        try:
            bad = _history_case(pr, nd, k)
        except Exception as e:
            bad = [{"clause": "raised", "observed": {"exception": repr(e)}}]
        _record(acc, per, bad, case)
        acc.case(("h", pr, nd, k))
    return acc.result()


def run(ctx):
    with ctx.pool() as pool:
        m_arr = lattice.run(ctx, pool, MOD, "work_arrays", N_SHAPES, nshards=pool.workers * 8, part="arrays")
        m_hist = lattice.run(ctx, pool, MOD, "work_histories", len(PRIMERS) * 9 * 4, part="histories")
        parts = [("histories", m_hist), ("arrays", m_arr)]     # history-dependent findings first: they carry their history
        fam_txt = []
        for fam, n, nds, titles, pds in object_families(ctx.tier):
            m = lattice.run(ctx, pool, MOD, "work_objects", n, part=fam, nshards=pool.workers * 2 if n > 2000 else min(n, 4),
                            extra={"family": fam, "nds": list(nds), "titles": list(titles), "pdims": list(pds)})
            parts.append((fam, m))
            fam_txt.append("%s[%d specs x nd %s x %d titles x pdims %s]" % (fam, n, list(nds), len(titles), list(pds)))
        outside = {}
        for d in pool.map(MOD, "work_outside", [{"half": 0}, {"half": 1}]):     # two items: stays in the workers
            outside.update(d)
    thorough = ctx.tier == "thorough"
    table_txt = ("rank<=4: nd 0..8, rank 5: nd {0,3,8}; pdims {True,False} for rank>=3" if thorough else
                 "rank<=2: nd 0..8, rank 3,4: nd {0,3,8} x pdims {True,False}; rank 5 (totality only): fills {ramp,special} "
                 "x nd {0,3,8} x pdims {True}")
    titles = TITLES_THOROUGH if thorough else TITLES_QUICK
    lattice.fill(ctx, parts, RULE % (table_txt, list(titles), "; ".join(fam_txt)),
                 {"shapes": N_SHAPES, "dtypes": list(DTYPES), "fills": list(FILLS), "titles": list(titles),
                  "scalars": len(SCALARS), "strings": len(STRINGS), "tm": len(TM_PAL), "wrench": len(WR_PAL),
                  "mixed_alphabet": len(MIX_ALPHA)})
    ctx.coverage["outside_domain_observations"] = outside
    ctx.assumptions += [
        "faithfulness is demanded only where the property states it: rank<=4 and every |x|<9999 (table mode), 2-D (LaTeX mode)",
        "the reference rounding is Python's round(float(x), nd); the edge palette holds only ties that are exactly "
        "representable, so every correct rounding rule gives the same digits",
        "nested lists, tm, Wrench and their lists are checked for totality and print/return agreement only",
    ]
    lay = ctx.coverage["outcomes"].get("arrays.row_layout_differs", 0)
    if lay:
        ctx.notes.append("%d in-scope renderings keep all elements in order but not one matrix row per line" % lay)


def replay(rec):
    c = rec["case"]
    seed = int(rec.get("seed", 0) or 0)
    if c["kind"] == "history":
        bad = _history_case(c["primer"], int(c["nd"]), c["then"])
        return [b for b in bad if b["clause"] == rec["clause"]]
    if c["kind"] == "array":
        arr = make_array(c["shape"], c["dtype"], c["fill"], seed)
        bad, _ = evaluate(arr, c["title"], int(c["nd"]), int(c["mode"]), bool(c["pdims"]), arr)
    else:
        obj = build(c["spec"], seed)
        bad, _ = evaluate(obj, c["title"], int(c["nd"]), int(c["mode"]), bool(c["pdims"]))
    return [b for b in bad if b["clause"] == rec["clause"]]
