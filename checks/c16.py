"""C16 - RRT* builds a collision-free, cost-consistent tree and returns a path in it (CX, model checking).

The explorer owns the sampler.  Every execution calls the real planner once, on a fresh RRTStar, with every
environment answer taken from a choice script (mc/choices.py):

 (a) `findPathGeneral(generalGenerateTree(generator, distance, detector))` with a caller-supplied generator whose
     answers are WHOLE sample poses from a menu of 10 (MENU below: in range and free / closer than the minimum
     distance to another menu pose / beyond the maximum distance from the root / blocked by a box from the root but
     free from another pose / tied in distance / differing only in rotation).  ALL sample sequences up to the
     horizon `budget + 3` (rejected draws consume choices), and deviation-bounded sequences (default answer = the
     next pose of a free "spine", a deviation = one of the 10 menu poses) for larger budgets;
 (b) the default `findPath` -> `generateTree` -> `randomPos` path with the planner module's `random` replaced by a
     scripted source: every coordinate drawn by `random.uniform` comes from a 3-value menu.

crossed with obstruction sets {none, one box, two boxes, generateTerrain output (heights scripted too)}, distance
modes 0/1 and nearest-neighbour limits {1, 2, 20}.  The distance / collision callbacks, the generator and the
index's `place` are instrumented (on the instance, from outside) and log every pair examined.

On every complete execution the tree returned by `r6_tree_graph.getAll()` (pickled copies: nodes are identified by
position) is judged by oracles/tree_invariants.py: structure, costs, free edges, and a replay of the recorded
insertion order against a brute-force 6-D nearest-neighbour search; the returned path by the path clauses.
"""
import contextlib
import hashlib
import io
import math
import os
import time

import numpy as np

from mc import choices
from mc.choices import HorizonReached, ExecutionHung, Script
from mc.pool import HarnessError
from oracles import tree_invariants as ti

MOD = "checks.c16"
DMIN, DMAX = 0.25, 2.5
OFF = (0.25, -0.5, 0.5)                    # dyadic offset: exact ties stay exact, the start is not the origin
RZ0 = 0.25                                 # rotation of the start pose and of the plain menu poses (about z)


def G(x, y, z=0.0, rx=0.0, ry=0.0, rz=0.0):
    """local layout coordinates -> stored six-vector"""
    return (x + OFF[0], y + OFF[1], z + OFF[2], rx, ry, rz + RZ0)


START = G(0, 0)
GOAL = G(2.0, 1.5, 0.0, 0.0, 0.0, 0.5)

# (role, pose)
MENU = [
    ("in range and free; tied with M1 from the root", G(1, 0)),
    ("in range and free; tied with M0 from the root", G(0, 1)),
    ("equidistant from M0 and M1 (tied nearest neighbours); cheapest through the root", G(1, 1)),
    ("closer than minimum_distance to M0, acceptable from the root", G(1.125, 0)),
    ("farther than maximum_distance from the root and M1, exactly AT maximum_distance from M2, in range of M0/M3/M5/M7", G(3, -0.5)),
    ("farther than maximum_distance from the root, in range of M0/M2/M3 (tied M0/M2; box 2 blocks M0, M3)", G(2.5, 0.5)),
    ("blocked by box 1 from the root (its cheapest parent), free from M7", G(0, -2)),
    ("in range and free, passes box 1 closely; the free way to M6", G(1.2, -1.6)),
    ("differs from M0 only in rotation (3-D distance 0, 6-D distance 1)", G(1, 0, 0, 0, 0, 1.0)),
    ("differs from M1 only in rotation", G(0, 1, 0, 0.8, 0, 0)),
]
BOX1 = ((-0.5, -1.2, -0.5), (0.5, -0.8, 0.5))
BOX2 = ((1.6, -0.2, -0.5), (1.9, 0.6, 0.5))
LAYOUTS = {"none": [], "one": [BOX1], "two": [BOX1, BOX2], "terrain": "terrain"}
# generateTerrain(xd, yd, xc, yc, zvar, xs, ys): int(2/1) x int(0.4/0.4) = 2 cells over box 1's footprint and the
# strip next to it (which the root -> M7 edge crosses); heights are environment answers: low = under the nodes'
# plane, high = through it.  The root is never covered.
TERRAIN_ARGS = (2.0, 0.4, 1.0, 0.4, 1.0, -0.5 + OFF[0], -1.2 + OFF[1])
TERRAIN_FRACS = (0.2, 0.9)                 # of uniform(0.1, 1.1): 0.3 (free) / 1.0 (blocks z = 0.5)
TERRAIN_CELLS = 2


def spine(i):
    """default answers of the deviation-bounded runs: a fresh pose per draw, in range of the previous one and free"""
    return G(-1.5 + 0.7 * (i % 6), 1.5 + 0.7 * (i // 6), 0.0, 0.0, 0.0, 0.1 * (i % 3))


# part (b): default fraction of the bounds per draw (x, y); z and rz default to the middle
# (entry 2 repeats entry 0 and entry 4 is out of reach of the first nodes: the default script has rejections too)
RING = [(1, 0), (1, 1), (1, 0), (0, 1), (-2, -2), (-1, 1), (-1, 0), (-1, -1), (-2, -1), (-2, 0), (-2, 1), (-2, 2), (-1, 2),
        (0, 2), (1, 2), (2, 2), (2, 1), (2, 0)]
B_DELTA = 0.125


def bounds_b(active):
    b = [[OFF[0] - 2, OFF[0] + 2], [OFF[1] - 2, OFF[1] + 2], [OFF[2], OFF[2]], [0.0, 0.0], [0.0, 0.0], [RZ0, RZ0]]
    if "z" in active:
        b[2] = [OFF[2] - 0.5, OFF[2] + 0.5]
    if "r" in active:
        b[5] = [RZ0 - 1.0, RZ0 + 1.0]
    return b


def fracs_b(draw, coord):
    if coord < 2:
        f0 = (RING[draw % len(RING)][coord] + 2) / 4.0
    else:
        f0 = 0.5
    up = f0 + B_DELTA if f0 + B_DELTA <= 1 else f0 - 2 * B_DELTA
    dn = f0 - B_DELTA if f0 - B_DELTA >= 0 else f0 + 2 * B_DELTA
    return (f0, up, dn)


def seed_pose(seed):
    """VERIF_SEED adds ONE generic pose to the menu (well separated from the fixed ones)."""
    if not seed:
        return None
    rng = np.random.default_rng(1600 + seed)
    fixed = [START] + [m[1] for m in MENU]
    while True:
        p = G(*(rng.uniform(-2, 2, size=2).tolist()), 0.0, *(rng.uniform(-0.5, 0.5, size=3).tolist()))
        if min(ti.euclid3(p, q) for q in fixed) >= 0.35:
            return tuple(float(x) for x in p)


class _Null:
    def write(self, s):
        return len(s)

    def flush(self):
        pass


class ScriptedUniform:
    """stands in for the planner module's `random`: uniform(lo, hi) = lo + (hi - lo) * menu fraction"""

    def __init__(self, script):
        self.s = script
        self.phase = "sample"
        self.n = 0

    def uniform(self, lo, hi):
        if self.phase == "terrain":
            return self.s.ask([lo + (hi - lo) * f for f in TERRAIN_FRACS], "terrain")
        i = self.n
        self.n += 1
        if lo == hi:
            return self.s.ask([lo], "fixed")
        return self.s.ask([lo + (hi - lo) * f for f in fracs_b(i // 6, i % 6)], "coord")

    def __getattr__(self, name):
        raise HarnessError("the planner asked the random source for %r, which the script does not own" % name)


def num(v):
    """distances and costs are scalars; the arc distance of the library comes back as a one-element array"""
    a = np.asarray(v, float)
    if a.size != 1:
        raise HarnessError("expected a scalar distance/cost, got shape %r" % (a.shape,))
    return float(a.reshape(()))


def P(node):
    return Pt(node.getPosition())


def Pt(t):
    v = tuple(np.asarray(t.gTAA(), float).ravel().tolist())
    if len(v) != 6:
        raise HarnessError("a pose with %d stored numbers" % len(v))
    return v


_WARM = [False]


def warm():
    """JIT compilation / cache loading of the kernels behind tm() and both distance modes happens here, outside the
    per-execution wall-clock guard (once per process)."""
    if _WARM[0]:
        return
    from basic_robotics.general import tm
    from basic_robotics.path_planning import pathplanner as pp
    r = pp.RRTStar(tm(list(START)))
    a, b = tm(list(MENU[8][1])), tm(list(MENU[9][1]))
    for m in (0, 1):
        r.dmode = m
        r.distance(a, b)
    r.addObstruction([0, 0, 0], [1, 1, 1])
    r.obstruction(pp.PathNode(a), pp.PathNode(b))
    r.r6_tree_graph.place(pp.PathNode(a))
    r.r6_tree_graph.getAll()
    _WARM[0] = True


class Runner:
    def __init__(self, cfg):
        from basic_robotics.general import tm
        from basic_robotics.path_planning import pathplanner as pp
        warm()
        self.tm, self.pp = tm, pp
        self.cfg = cfg
        self.part = cfg["part"]
        self.menu = [m[1] for m in MENU]
        sp = seed_pose(cfg.get("seed", 0)) if cfg.get("seeded") else None
        if sp is not None:
            self.menu.append(sp)
        self.dcache = {}
        self.bcache = {}
        self.dist = ti.euclid3 if cfg["dmode"] == 0 else self._arc
        if self.part == "b":
            self.bounds = bounds_b(cfg["active"])

    def _arc(self, p, q):
        k = (p, q)
        v = self.dcache.get(k)
        if v is None:
            v = self.dcache[k] = ti.arc6(p, q)
        return v

    def _attempt_flags(self, ev, shape):
        """per question: None (not the last question of a draw) or whether the draw it completed was accepted"""
        placed = []
        for e in ev:
            if e[0] == "draw":
                placed.append(False)
            elif e[0] == "place" and placed:
                placed[-1] = True
        flags = [None] * len(shape)
        per = 6 if self.part == "b" else 1
        base = sum(1 for sh in shape if sh[1] == "terrain")
        for d, acc in enumerate(placed):
            q = base + (d + 1) * per - 1
            if q < len(flags):
                flags[q] = acc
        return flags

    def run(self, s):
        cfg, tm, pp = self.cfg, self.tm, self.pp
        PathNode = pp.PathNode
        ev = []
        viol = []
        switches = []
        r = pp.RRTStar(tm(list(START)))
        r.iterations = cfg["budget"]
        r.dmode = cfg["dmode"]
        r.nearest_neighbors_limit = cfg["nnl"]
        r.maximum_distance, r.minimum_distance = DMAX, DMIN
        src = ScriptedUniform(s)
        old_random = pp.random
        pp.random = src
        # 'foreign' detector: the boxes are registered with a SECOND planner whose obstruction test is handed in as the
        # caller's collision callback, the planner under test has none of its own - a growth loop that consults its own
        # test instead of the supplied one then links nodes straight through the boxes
        rb = pp.RRTStar(tm(list(START))) if cfg.get("foreign") else r
        raw_obstruction = rb.obstruction
        hit = False
        raised = None
        path = None
        try:
            with contextlib.redirect_stdout(_Null()):
                try:
                    if cfg["layout"] == "terrain":
                        src.phase = "terrain"
                        r.generateTerrain(*TERRAIN_ARGS)
                        src.phase = "sample"
                    else:
                        for lo, hi in LAYOUTS[cfg["layout"]]:
                            rb.addObstruction([lo[i] + OFF[i] for i in range(3)], [hi[i] + OFF[i] for i in range(3)])
                    boxes_key = tuple(tuple(float(x) for x in np.asarray(o[0].gTAA()).reshape(6)[:3]) +
                                      tuple(float(x) for x in np.asarray(o[1].gTAA()).reshape(6)[:3]) for o in rb.obstructions)
                    raw_distance, raw_place = r.distance, r.r6_tree_graph.place

                    def dist(a, b):
                        v = raw_distance(a, b)
                        ev.append(("dist", Pt(a), Pt(b), num(v)))
                        return v

                    def coll(a, b):
                        v = raw_obstruction(a, b)
                        ev.append(("coll", P(a), P(b), bool(v)))
                        return v

                    def place(node):
                        ev.append(("place", P(node)))
                        return raw_place(node)

                    r.r6_tree_graph.place = place
                    goal = tm(list(GOAL))
                    if self.part == "a":
                        menu = self.menu
                        spine_mode = cfg.get("spine", False)
                        nd = [0]

                        def gen():
                            if spine_mode:
                                pose = s.ask([spine(nd[0])] + menu, "sample")
                            else:
                                pose = s.ask(menu, "sample")
                            nd[0] += 1
                            ev.append(("draw", tuple(pose)))
                            return PathNode(tm(list(pose)))

                        path = r.findPathGeneral(lambda: r.generalGenerateTree(gen, dist, coll), goal)
                        for more in cfg.get("regrow", ()):
                            # a planner that is used again: the same tree grown by `more` further iterations, then queried
                            r.iterations = more
                            if cfg.get("switch_dmode"):
                                r.dmode = 1 - r.dmode
                                switches.append(sum(1 for e in ev if e[0] == "draw"))
                            path = r.findPathGeneral(lambda: r.generalGenerateTree(gen, dist, coll), goal)
                    else:
                        r.bounds = [list(b) for b in self.bounds]
                        raw_random_pos = r.randomPos

                        def random_pos():
                            n = raw_random_pos()
                            ev.append(("draw", P(n)))
                            return n

                        r.randomPos, r.distance, r.obstruction = random_pos, dist, coll
                        path = r.findPath(goal)
                        for more in cfg.get("regrow", ()):
                            r.iterations = more
                            if cfg.get("switch_dmode"):
                                r.dmode = 1 - r.dmode
                                switches.append(sum(1 for e in ev if e[0] == "draw"))
                            path = r.findPath(goal)
                except HorizonReached:
                    hit = True
                except (ExecutionHung, HarnessError):
                    raise
                except Exception as e:
                    raised = e
        finally:
            pp.random = old_random
        case = {"cfg": cfg, "choices": list(s.taken), "horizon": s.horizon}
        if raised is not None:
            viol.append({"clause": "raised", "observed": "%s: %s" % (type(raised).__name__, str(raised)[:200]),
                         "case": case, "quantities": {"iterations": cfg["budget"]}})
            return {"key": None, "violations": viol, "stats": {"raised": 1}}

        def blocked(p, q):
            k = (boxes_key, p, q)
            v = self.bcache.get(k)
            if v is None:
                v = self.bcache[k] = bool(raw_obstruction(PathNode(tm(list(p))), PathNode(tm(list(q)))))
            return v

        # the observation point: what getAll() returns (after a horizon hit: the partial tree, judged without the count)
        nodes = []
        try:
            items = r.r6_tree_graph.getAll()
            count_reported = r.r6_tree_graph.getCount()
            cap = len(items) + 2
            for it in items:
                n = it.object
                chain, m, steps = [], n.getParent(), 0
                while m is not None and steps < cap:
                    chain.append((P(m), num(m.getCost())))
                    m = m.getParent()
                    steps += 1
                nodes.append({"pos": P(n), "cost": num(n.getCost()), "chain": chain, "closed": m is None})
        except HarnessError:
            raise
        except Exception as e:
            viol.append({"clause": "raised", "observed": "reading the tree back: %s: %s" % (type(e).__name__, str(e)[:200]),
                         "case": case, "quantities": {"iterations": cfg["budget"]}})
            return {"key": None, "violations": viol, "stats": {"raised": 1}}
        total_budget = cfg["budget"] + sum(cfg.get("regrow", ()))
        dist_oracle = self.dist
        if switches:
            m0, m1 = (ti.euclid3, self._arc) if cfg["dmode"] == 0 else (self._arc, ti.euclid3)
            dist_oracle = ti.PhaseDist([m0, m1, m0, m1][:len(switches) + 1], switches, ev)
        found = ti.check_structure(nodes, START, None if hit else total_budget, count_reported, dist_oracle, blocked)
        try:
            f2, stats = ti.replay_insertions(START, ev, nodes, DMIN, DMAX, cfg["nnl"], dist_oracle, blocked, complete=not hit)
        except ValueError as e:
            f2, stats = [{"clause": "insertion_log", "observed": str(e), "detail": None}], {}
        found += f2
        if not hit:
            found += ti.check_path([Pt(t) for t in path], nodes, START, GOAL)
        for f in found:
            f["case"] = case
            viol.append(f)
        # acceptance measured once per distinct draw situation: draws at or after the last prefix position are new
        # to this execution; weight = probability of that situation under a uniform sampler over the menus
        new_from = max(0, len(s.prefix) - 1)
        w = 1.0
        for j, ((arity, label), a) in enumerate(zip(s.shape, self._attempt_flags(ev, s.shape))):
            w /= arity
            if a is None or j < new_from:
                continue
            stats["fresh_draws"] = stats.get("fresh_draws", 0) + 1
            stats["fresh_accepted"] = stats.get("fresh_accepted", 0) + (1 if a else 0)
            stats["uniform_weight"] = stats.get("uniform_weight", 0.0) + w
            stats["uniform_accepted"] = stats.get("uniform_accepted", 0.0) + (w if a else 0.0)
        if hit:
            return {"key": None, "violations": viol, "stats": stats}
        canon = list((tuple(round(x, 9) + 0.0 for x in n["pos"]),
                        tuple(round(x, 9) + 0.0 for x in n["chain"][0][0]) if n["chain"] else None,
                        round(n["cost"], 9)) for n in nodes)
        canon = sorted(canon, key=repr)
        key = hashlib.blake2b(repr(canon).encode(), digest_size=8).digest()
        stats["insertions"] = len(nodes) - 1
        stats["path_poses"] = len(path)
        sample = {"tree": [{"pos": list(c[0]), "parent": None if c[1] is None else list(c[1]), "cost": c[2]} for c in canon],
                  "path_length": len(path), "cfg": cfg["name"]}
        return {"key": key, "violations": viol, "stats": stats, "sample": sample}


def factory(cfg):
    return Runner(cfg)


def horizon_of(cfg):
    draws = cfg["budget"] + sum(cfg.get("regrow", ())) + cfg.get("slack", 3)
    return (TERRAIN_CELLS if cfg["layout"] == "terrain" else 0) + draws * (6 if cfg["part"] == "b" else 1)


def mk(part, layout, dmode, nnl, budget, seed, **kw):
    cfg = {"part": part, "layout": layout, "dmode": dmode, "nnl": nnl, "budget": budget, "seed": seed}
    cfg.update(kw)
    tag = "spine" if kw.get("spine") else (kw["active"] if part == "b" else "menu")
    cfg["name"] = "%s/%s/%s/d%d/k%d/n%d%s/h+%d/%s" % (part, tag, layout, dmode, nnl, budget,
                                                   "".join("+%d" % m for m in kw.get("regrow", ())) + ("~" if kw.get("switch_dmode") else "") + ("/foreign" if kw.get("foreign") else ""), kw.get("slack", 3),
                                                   "all" if kw.get("bound") is None else "dev%d" % kw["bound"])
    return cfg


LAYOUT_NAMES = ["none", "one", "two", "terrain"]
NNLS = [1, 2, 20]


def plan(tier, seed):
    """-> list of (cfg, validate_stride), most valuable first (a time cap skips from the end).
    cfg['bound'] None = every sequence up to the horizon; 'slack' = horizon - budget (draws), default 3;
    'seeded' = the VERIF_SEED pose is appended to the menu."""
    thorough = tier == "thorough"
    cross = [(l, d, k) for l in LAYOUT_NAMES for d in (0, 1) for k in NNLS]
    cover = [("two", 0, 20), ("none", 1, 2), ("one", 1, 1), ("terrain", 0, 2)]
    out = []
    # (a) every sample sequence, budget 1 (horizon 4) and budget 2 on the whole cross
    for l, d, k in cross:
        out.append((mk("a", l, d, k, 1, seed, seeded=True, bound=None), 1))
    for l, d, k in cross:
        out.append((mk("a", l, d, k, 2, seed, seeded=True, bound=None, slack=1), 1))
    # the caller's collision detector is NOT the planner's own (boxes known to the callback only)
    for l, d, k in [("two", 0, 20), ("one", 1, 2), ("two", 1, 1)]:
        out.append((mk("a", l, d, k, 2, seed, bound=None, slack=1, foreign=True), 3))
    # histories: the same planner grown again with a smaller budget and queried again (tree deeper than the current budget)
    for l, d, k in (cross if thorough else cover):
        out.append((mk("a", l, d, k, 2, seed, bound=None, slack=1, regrow=(1,)), 3))
        out.append((mk("a", l, d, k, 3, seed, spine=True, bound=1, slack=1, regrow=(1, 1)), 3))
    for l, d, k in (cover if thorough else cover[:2]):
        out.append((mk("b", l, d, k, 2, seed, active="xy", bound=1, slack=1, regrow=(1,)), 3))
    # ... and with the distance mode switched between the growths (nodes of the second growth are judged in the new mode)
    for l, d, k in (cross if thorough else cover):
        out.append((mk("a", l, d, k, 2, seed, bound=None, slack=1, regrow=(1,), switch_dmode=True), 3))
    for l, d, k in (cover if thorough else cover[:2]):
        out.append((mk("b", l, d, k, 2, seed, active="xy", bound=1, slack=1, regrow=(1,), switch_dmode=True), 3))
    # (b) default generateTree/findPath, random.uniform scripted per coordinate
    for l, d, k in cross:
        out.append((mk("b", l, d, k, 1, seed, active="xy", bound=None, slack=2), 1))
        out.append((mk("b", l, d, k, 2, seed, active="xy", bound=None, slack=2 if thorough else 1), 3))
    for l, d, k in cross:
        out.append((mk("b", l, d, k, 3, seed, active="xyzr", bound=2), 5))
    # (a) deviation-bounded: default = next spine pose, <= 2 departures
    for l, d, k in (cross if thorough else [("two", 0, 2), ("terrain", 1, 20), ("one", 0, 1), ("none", 1, 2)]):
        out.append((mk("a", l, d, k, 6 if thorough else 5, seed, seeded=True, spine=True, bound=2), 5))
    # (a) budget 2 at the full horizon (5 draws), budget 3
    for l, d, k in (cross if thorough else cover[:2]):
        # (the two scripted terrain heights multiply every count by 4: one draw less of slack there)
        out.append((mk("a", l, d, k, 2, seed, bound=None, slack=2 if l == "terrain" else 3), 5))
    if not thorough:
        out.append((mk("a", "none", 1, 20, 3, seed, bound=None, slack=1), 5))
        out.append((mk("a", "one", 1, 2, 3, seed, bound=None, slack=1), 5))
        out.append((mk("a", "terrain", 0, 1, 3, seed, bound=None, slack=1), 5))
        out.append((mk("a", "two", 0, 20, 3, seed, bound=None, slack=2), 5))
        return out
    for l, d, k in cross:
        out.append((mk("a", l, d, k, 3, seed, bound=None, slack=1), 5))
    for l, d, k in cover[:3]:
        out.append((mk("a", l, d, k, 4, seed, bound=None, slack=1), 7))
    for l, d, k in [("two", 1, 2), ("terrain", 1, 20), ("one", 0, 1), ("none", 0, 2), ("two", 0, 20), ("terrain", 0, 1),
                    ("one", 1, 20), ("none", 1, 1)]:
        out.append((mk("a", l, d, k, 12, seed, seeded=True, spine=True, bound=2), 7))
    for l, d, k in cross:
        out.append((mk("b", l, d, k, 6, seed, active="xyzr", bound=2), 7))
    for l in LAYOUT_NAMES:
        out.append((mk("b", l, 1, 2, 3, seed, active="xyzr", bound=3, slack=2), 7))
        out.append((mk("b", l, 0, 20, 3, seed, active="xy", bound=None, slack=1), 7))
    for l, d, k in cover[1:3] + [("two", 1, 1)]:
        out.append((mk("a", l, d, k, 3, seed, bound=None, slack=2), 7))
    out.append((mk("a", "two", 0, 20, 3, seed, bound=None), 11))
    return out


def run(ctx):
    ctx.level = "model_checking"
    pl = plan(ctx.tier, ctx.seed)
    cap = float(os.environ.get("VERIF_C16_CAP_S") or (14.0 * 60 if ctx.tier == "thorough" else 120.0))
    hard = ctx.t0 + cap
    if ctx.deadline:
        hard = min(hard, ctx.deadline)
    tot = {"states": 0, "transitions": 0, "schedules": 0, "complete": 0, "horizon_hits": 0,
           "traces_validated_against_impl": 0, "unexplored_subtrees": 0}
    stats = {}
    union = set()
    runs = []
    samples = []
    nviol = 0
    skipped = []
    growth = {}
    specs = [{"cfg": cfg, "horizon": horizon_of(cfg), "bound_deviations": cfg.get("bound"), "validate_stride": stride}
             for cfg, stride in pl]
    with ctx.pool() as pool:
        results = choices.explore_many(pool, MOD, "factory", specs, target_tasks=64, deadline=hard, exec_wall=60.0)
    for (cfg, stride), r in zip(pl, results):
        if r["schedules"] == 0:
            skipped.append(cfg["name"])
            tot["unexplored_subtrees"] += r["unexplored_subtrees"]
            continue
        for k in tot:
            tot[k] += r[k]
        for k, v in r["stats"].items():
            stats[k] = stats.get(k, 0) + v
        union |= r["keys"]
        nviol += r["n_violations"]
        ctx.extend(r["violations"])
        st = r["stats"]
        runs.append({"cfg": cfg["name"], "horizon": r["horizon"], "bound_deviations": r["bound_deviations"],
                     "schedules": r["schedules"], "complete": r["complete"], "horizon_hits": r["horizon_hits"],
                     "distinct_trees": r["states"], "validated": r["traces_validated_against_impl"],
                     "validate_stride": stride,
                     "accepted_fraction_uniform_sampler": round(st.get("uniform_accepted", 0) / max(1e-12, st.get("uniform_weight", 0)), 3),
                     "accepted_fraction_all_draws": round(st.get("accepted", 0) / max(1, st.get("draws", 0)), 3),
                     "exhaustive": r["exhaustive"], "cpu_s": r["cpu_s"]})
        if cfg["part"] == "a" and not cfg.get("spine") and r["exhaustive"]:
            g = growth.setdefault("%s/d%d/k%d" % (cfg["layout"], cfg["dmode"], cfg["nnl"]), {})
            kb = "budget %d" % cfg["budget"]
            g[kb] = max(g.get(kb, 0), r["states"])
        if len(samples) < 6 and r["samples"] and (len(runs) % 23 == 1):
            samples.append(r["samples"][-1])
        if r["complete"] == 0 and r["n_violations"] == 0 and r["exhaustive"]:
            raise HarnessError("exploration %s produced no complete execution (%d horizon hits): vacuous"
                               % (cfg["name"], r["horizon_hits"]))
    ctx.log("CX %d explorations (%d skipped on the time cap): schedules=%d complete=%d horizon_hits=%d distinct trees=%d (union %d) "
            "violations=%d cpu=%.0fs" % (len(runs), len(skipped), tot["schedules"], tot["complete"], tot["horizon_hits"],
                                         tot["states"], len(union), nviol, sum(x["cpu_s"] for x in runs)))
    if tot["schedules"] == 0:
        raise HarnessError("no execution at all finished within the %.0f s cap (machine overloaded or workers failed to start)" % cap)
    if not samples:
        samples = [{"note": "no complete execution", "plan": [c["name"] for c, _ in pl[:3]]}]
    draws = max(1, stats.get("draws", 0))
    cov = dict(tot)
    cov.update({
        "states": max(tot["states"], 1) if tot["complete"] else tot["states"],
        "distinct_trees_union": len(union),
        "samples": samples,
        "exhaustive": tot["unexplored_subtrees"] == 0 and not skipped,
        "explorations": len(runs),
        "explorations_skipped_on_time_cap": skipped,
        "time_cap_s": cap,
        "accepted_fraction_all_draws": round(stats.get("accepted", 0) / draws, 4),
        "accepted_fraction_distinct_draw_situations": round(stats.get("fresh_accepted", 0) / max(1, stats.get("fresh_draws", 0)), 4),
        "accepted_fraction_uniform_sampler": round(stats.get("uniform_accepted", 0) / max(1e-12, stats.get("uniform_weight", 0)), 4),
        "cpu_s": round(sum(x["cpu_s"] for x in runs), 1),
        "callback_stats": stats,
        "distinct_trees_by_budget": growth,
        "menu": [{"role": m[0], "pose": list(m[1])} for m in MENU] + ([{"role": "seed-generic", "pose": list(seed_pose(ctx.seed))}] if ctx.seed else []),
        "runs": runs,
        "rule": ("state = canonical final tree (position, parent position, cost of every node returned by getAll(), rounded to 1e-9) "
                 "per configuration; transition = one environment answer consumed (a whole sample pose, a terrain height or one "
                 "random.uniform coordinate); schedule = one choice sequence executed on the real planner; validated = sequences "
                 "re-run from scratch (every stride-th, stride per run in `runs`) with identical outcome"),
    })
    ctx.coverage.update(cov)
    ctx.assumptions += [
        "the supplied collision detector is the planner's own obstruction test (decided exactly by C15); distances are recomputed independently (3-D Euclid / norm of relative translation and rotation angle)",
        "node identity is identity of the stored six numbers (the spatial index returns pickled copies)",
        "nearest-neighbour ties (relative 1e-9) accept any tied node; the oracle follows the node the planner measured against",
        "a sample that is in range of and free from its nearest node but is rejected counts as a violation (mechanism anchor: rejection sampling UNTIL in range and free); executions that meet the draw horizon are counted, not violations",
        "the path's last tree node must be a 6-D nearest node to the goal (anchor: path extraction from the node nearest the goal)",
    ]


def replay(rec):
    from mc import env
    env.setup()
    case = rec["case"]
    runner = Runner(case["cfg"])
    s = Script(tuple(case["choices"]), case.get("horizon"))
    try:
        with choices._Guard(60.0):
            out = runner.run(s)
    except HorizonReached:
        return []
    return [{"clause": v["clause"], "observed": v["observed"]} for v in out["violations"] if v["clause"] == rec["clause"]]
