"""Stewart-platform factory shared by the platform checks (C09, C10, C11).

API
---
  family()                      list of the 432 nominal geometries `Geo` in a fixed order (DESIGN C09): bottom joint radius
                                {0.2, 0.9, 2} x top/bottom ratio {0.3, 0.6, 1} x joint spacings (bottom, top) deg
                                {(5,5), (9,25), (40,40)} x plate thickness {0, 10 %} of the radius x minimum leg length
                                {0.8, 1.5} radii x stroke {1.5, 2} x handedness {+1, -1}.  Geo.gid is a stable string
                                id, Geo.ctor in {"new", "json", "make"} says which constructor builds it (newSP /
                                a JSON file through loadSP / makeSP; fixed by the parameter indices, "make" only where
                                makeSP can express the geometry, i.e. equal spacings).
  QUICK_GIDS                    the 6 geometry ids of the quick tiers (all radii, ratios, spacings, both thicknesses,
                                leg ranges, hands and all three constructors occur)
  geo(gid)                      Geo by id
  seed_geo(seed)                the one seed-generic geometry 'seedgeo<seed>' (IK / Jacobian clauses only, never in the FK lattice)
  BASES, base_T(name, seed)     "BT" a steeply tilted base (63 deg off vertical, reached by move; FK/IK lattice of the quick geometries);
                                "BF" a far base (10 m from the world origin, reached by move; used by C11 only: small platforms
                                have cond(J^-1) in 1e3..1e4 there);  "I" identity (constructed there), "B1" one fixed generic pose (constructed at the
                                identity, then sp.move(B1)), "BS" seed-generic pose (handed to the constructor)
  SPINS, spin_arg(name)         "s0" none, "s0.4" spinCustom(0.4), "s-60d" spinCustom(-60, True)
  build(geo, base, spin, seed)  -> Platform, or raises Infeasible (pruned: the nominal geometry has no real neutral
                                height) / BuildError(stage, exc) when a library call raised.
      Platform.sp               live library object: neutral relative pose, standing at the base, re-spun
      Platform.fresh()          deep copy of .sp (every case starts from the neutral pose)
      Platform.B, .h            base pose (4x4) and neutral height (distance of the plate origins, public getters)
      Platform.bl0, .tl0        plate-fixed joint coordinates (3x6) read ONCE at the neutral pose, before any re-spin,
                                through getBottomJoints/getTopJoints and the plate poses
      Platform.bl, .tl          the coordinates the property expects after the re-spin: Rz(angle) @ bl0 / tl0
      Platform.bl_read, .tl_read, .B_read, .Tt_read   re-read after the re-spin (for the re-spin clause)
      Platform.masses           dict(top, bottom, shaft, motor, shaft_cog, motor_cog, grav) as configured by the factory
      Platform.layout_residual  max |read - nominal layout| (informational)
  GRID_N = 729, rel_pose(h, i)  relative top-plate pose i of the full 3^6 grid (4x4): lateral x, y in {0, +, -} * 0.2 h,
                                height h * (1 + {0, +, -} * 0.15), rotation vector components {0, +, -} * 0.3 rad;
                                index 0 is the neutral pose.  pose_digits(i) -> the six digits.
  FK_SUBGRID                    the 81 indices with y offset 0 and ry tied to rx (x, z, rx = ry, rz free)
  place(sp, Tt, Tb)             IK with protect=True then validate(donothing=True): -> (lengths(6,), in_workspace)
  T_of(tm), quiet(), case_id(gid, base, spin, pose, mode)
"""
import collections
import contextlib
import copy
import io
import json
import os
import tempfile

import numpy as np

from mc import palettes
from oracles import platform_geometry as pg
from oracles import se3

Geo = collections.namedtuple("Geo", "gid idx r ratio bs ts thick lmin stroke hand ctor")

R_VALUES = (0.2, 0.9, 2.0)
RATIOS = (0.3, 0.6, 1.0)
SPACINGS = ((5, 5), (9, 25), (40, 40))
THICKS = (0.0, 0.1)
LMINS = (0.8, 1.5)
STROKES = (1.5, 2.0)
HANDS = (1, -1)

BASES = ("I", "B1", "BS")
B1_TAA = (1.0, 2.0, 0.5, 0.2, -0.1, 0.3)
SPINS = ("s0", "s0.4", "s-60d")
_SPIN_ARGS = {"s0": None, "s0.4": (0.4, False), "s-60d": (-60.0, True)}

MASSES = {"top": 1.3, "bottom": 6.0, "shaft": 0.9, "motor": 0.5}
GRID_N = 729
_DIG = (0.0, 1.0, -1.0)


class Infeasible(Exception):
    pass


class BuildError(Exception):
    def __init__(self, stage, exc):
        super().__init__("%s: %r" % (stage, exc))
        self.stage = stage
        self.exc = exc


@contextlib.contextmanager
def quiet():
    with contextlib.redirect_stdout(io.StringIO()):
        yield


_FAMILY = None


def family():
    global _FAMILY
    if _FAMILY is None:
        out = []
        for ir, r in enumerate(R_VALUES):
            for iq, q in enumerate(RATIOS):
                for isp, (bs, ts) in enumerate(SPACINGS):
                    for it, th in enumerate(THICKS):
                        for il, lm in enumerate(LMINS):
                            for ik, st in enumerate(STROKES):
                                for ih, hd in enumerate(HANDS):
                                    k = (ir + iq + isp + it + il + ik + ih) % 3
                                    ctor = ("new", "json", "make")[k]
                                    if ctor == "make" and bs != ts:
                                        ctor = "json" if (ir + iq) % 2 else "new"
                                    gid = "r%g-q%g-s%dx%d-t%g-m%g-k%g-h%s-%s" % (r, q, bs, ts, th, lm, st, "p" if hd == 1 else "n", ctor)
                                    out.append(Geo(gid, len(out), r, q, bs, ts, th, lm, st, hd, ctor))
        _FAMILY = out
    return list(_FAMILY)


QUICK_GIDS = ("r0.9-q0.3-s9x25-t0.1-m0.8-k2-hp-json",
              "r0.2-q0.6-s5x5-t0-m1.5-k1.5-hn-new",
              "r2-q1-s40x40-t0.1-m0.8-k1.5-hn-make",
              "r0.2-q1-s9x25-t0.1-m1.5-k2-hn-json",
              "r2-q0.3-s40x40-t0-m1.5-k2-hp-new",
              "r0.9-q0.6-s5x5-t0-m0.8-k1.5-hp-make",
              # thick plates with long steep legs and the short stroke: the plate-origin height exceeds the longest leg
              "r0.9-q1-s40x40-t0.1-m1.5-k1.5-hp-json")


def seed_geo(seed):
    """The one seed-generic geometry (gid 'seedgeo<seed>'): parameters drawn inside the family's ranges, rejected until the
    nominal neutral height is real; built through newSP.  Never part of the fixed FK lattice."""
    r = palettes.seed_rng(seed, 93)
    for _ in range(200):
        rb = float(r.uniform(0.2, 2.0))
        q = float(r.uniform(0.3, 1.0))
        bs, ts = float(r.uniform(5, 40)), float(r.uniform(5, 40))
        g = Geo("seedgeo%d" % seed, -1, rb, q, bs, ts, float(r.uniform(0, 0.1)), float(r.uniform(0.8, 1.5)), float(r.uniform(1.5, 2.0)),
                1 if r.uniform() < 0.5 else -1, "new")
        if np.isfinite(nominal(g)["h"]):
            return g
    raise RuntimeError("no feasible seed geometry")


def geo(gid):
    if gid.startswith("seedgeo"):
        return seed_geo(int(gid[7:]))
    for g in family():
        if g.gid == gid:
            return g
    raise KeyError(gid)


def base_T(name, seed=0):
    if name == "I":
        return np.eye(4)
    if name == "B1":
        return se3.T_from_taa(B1_TAA)
    if name == "BS":
        w, p = palettes.well_conditioned_pose(seed, 91, max_angle=1.2, max_p=3.0)
        return se3.T_from(w, p)
    if name == "BT":        # a steeply tilted base (about 63 degrees off vertical): row/column mix-ups of the base rotation show only here
        return se3.T_from([1.0, 0.5, 0.2], [0.5, -1.0, 1.5])
    if name == "BF":        # far from the world origin: the inverse Jacobian of a small platform reaches cond 1e3..1e4 there
        return se3.T_from([0.2, -0.3, 0.4], [6.0, -8.0, 1.0])
    raise KeyError(name)


def spin_arg(name):
    return _SPIN_ARGS[name]


def spin_angle(name):
    a = _SPIN_ARGS[name]
    if a is None:
        return 0.0
    return float(np.deg2rad(a[0]) if a[1] else a[0])


def T_of(t):
    return np.array(t.gTM(), float)


def case_id(gid, base, spin, pose, mode):
    return "%s/%s/%s/p%03d/m%d" % (gid, base, spin, pose, mode)


# ---------------------------------------------------------------------------------------------- relative poses
def pose_digits(i):
    d = []
    for _ in range(6):
        d.append(i % 3)
        i //= 3
    return tuple(d)        # (x, y, z, rx, ry, rz) digit indices into (0, +, -)


def rel_pose(h, i):
    dx, dy, dz, rx, ry, rz = (_DIG[k] for k in pose_digits(i))
    p = np.array([0.2 * h * dx, 0.2 * h * dy, h * (1.0 + 0.15 * dz)])
    w = 0.3 * np.array([rx, ry, rz])
    return se3.T_from(w, p)


FK_SUBGRID = tuple(i for i in range(GRID_N) if pose_digits(i)[1] == 0 and pose_digits(i)[4] == pose_digits(i)[3])


# ---------------------------------------------------------------------------------------------- construction
def nominal(g):
    """Nominal numbers of a geometry: radii, thickness, leg range, cog distances, nominal joint tables, neutral height."""
    rb, rt = g.r, g.r * g.ratio
    th = g.thick * g.r
    lmin, lmax = g.lmin * g.r, g.lmin * g.r * g.stroke
    if g.ctor == "make":
        zb, zt = th / 2.0, -th / 2.0
    else:
        zb, zt = th, -th
    bl, tl = pg.nominal_layout(rb, rt, g.bs, g.ts, zb, zt, g.hand)
    lmid = 0.5 * (lmin + lmax)
    dxy2 = (tl[0, 0] - bl[0, 0]) ** 2 + (tl[1, 0] - bl[1, 0]) ** 2
    gap2 = lmid ** 2 - dxy2
    h = (np.sqrt(gap2) + (zb - zt)) if gap2 > 0 else float("nan")
    return {"rb": rb, "rt": rt, "th": th, "lmin": lmin, "lmax": lmax, "bl": bl, "tl": tl, "h": h,
            "shaft_cog": 0.35 * lmin, "motor_cog": 0.25 * lmin}


def _json_doc(g, n):
    return {"Name": g.gid, "Type": "SP",
            "BottomPlate": {"Thickness": n["th"], "JointRadius": n["rb"], "JointSpacing": g.bs, "Mass": MASSES["bottom"]},
            "TopPlate": {"Thickness": n["th"], "JointRadius": n["rt"], "JointSpacing": g.ts, "Mass": MASSES["top"]},
            "Actuators": {"MinExtension": n["lmin"], "MaxExtension": n["lmax"], "MotorMass": MASSES["motor"],
                          "ShaftMass": MASSES["shaft"], "ForceLimit": 800, "MotorCOGD": n["motor_cog"], "ShaftCOGD": n["shaft_cog"]},
            "Drawing": {"TopRadius": n["rt"] * 1.1, "BottomRadius": n["rb"] * 1.1, "ShaftRadius": 0.1 * g.r, "MotorRadius": 0.2 * g.r},
            "Settings": {"MaxAngleDev": 55, "GenerateActuators": 0, "IgnoreRestHeight": 1, "UseSpin": 0, "AssignMasses": 1,
                         "InferActuatorCOG": 1},
            "Params": {"RestHeight": n["h"], "Spin": 30}}


def construct(g, B):
    """One library constructor call (plus, for makeSP, the public setters for what it cannot take as arguments)."""
    from basic_robotics.general import tm
    from basic_robotics.kinematics.sp_model import loadSP, makeSP, newSP
    n = nominal(g)
    if g.ctor == "new":
        sp = newSP(n["rb"], n["rt"], g.bs, g.ts, n["th"], n["th"], MASSES["shaft"], MASSES["motor"], MASSES["top"],
                   MASSES["bottom"], n["motor_cog"], n["shaft_cog"], n["lmin"], n["lmax"], tm(B.copy()), g.gid, g.hand)
    elif g.ctor == "json":
        d = tempfile.mkdtemp(prefix="verif_sp_")
        p = os.path.join(d, "sp.json")
        try:
            with open(p, "w") as f:
                json.dump(_json_doc(g, n), f)
            sp = loadSP("sp.json", d + os.sep, tm(B.copy()), g.hand)
        finally:
            try:
                os.remove(p)
                os.rmdir(d)
            except OSError:
                pass
    else:
        sp, _, _ = makeSP(n["rb"], n["rt"], g.bs, tm(B.copy()), n["h"], g.hand, n["th"])
        sp.leg_ext_min = n["lmin"]          # makeSP fixes the leg range to (0, 1); the family's range is set through
        sp.leg_ext_max = n["lmax"]          # the public attributes, masses through the public setters
        sp.setMasses(MASSES["bottom"], MASSES["shaft"], MASSES["motor"], top_plate_mass=MASSES["top"])
        sp.setCOG(n["motor_cog"], n["shaft_cog"])
    return sp


class Platform:
    def __init__(self):
        self.sp = None

    def fresh(self):
        return copy.deepcopy(self.sp)


def build(g, base="I", spin="s0", seed=0):
    from basic_robotics.general import tm
    n = nominal(g)
    if not np.isfinite(n["h"]):
        raise Infeasible(g.gid)
    B = base_T(base, seed)
    P = Platform()
    P.geo, P.base, P.spin, P.seed = g, base, spin, seed
    with quiet():
        try:
            sp = construct(g, B if base == "BS" else np.eye(4))
        except Exception as e:
            raise BuildError("construct", e)
        if base in ("B1", "BF", "BT"):
            try:
                sp.move(tm(B.copy()))
            except Exception as e:
                raise BuildError("move", e)
    Tb, Tt = T_of(sp.getBottomT()), T_of(sp.getTopT())
    P.B = B
    P.B_neutral, P.Tt_neutral = Tb, Tt
    P.h = float(np.linalg.norm(Tt[:3, 3] - Tb[:3, 3]))
    P.bl0 = pg.to_plate(Tb, np.array(sp.getBottomJoints(), float))
    P.tl0 = pg.to_plate(Tt, np.array(sp.getTopJoints(), float))
    P.layout_residual = float(max(np.abs(P.bl0 - n["bl"]).max(), np.abs(P.tl0 - n["tl"]).max(), abs(P.h - n["h"])))
    a = spin_arg(spin)
    if a is not None:
        with quiet():
            try:
                sp.spinCustom(a[0], a[1]) if a[1] else sp.spinCustom(a[0])
            except Exception as e:
                raise BuildError("spinCustom", e)
    ang = spin_angle(spin)
    P.bl, P.tl = pg.spin_points(P.bl0, ang), pg.spin_points(P.tl0, ang)
    P.B_read, P.Tt_read = T_of(sp.getBottomT()), T_of(sp.getTopT())
    P.bl_read = pg.to_plate(P.B_read, np.array(sp.getBottomJoints(), float))
    P.tl_read = pg.to_plate(P.Tt_read, np.array(sp.getTopJoints(), float))
    P.masses = dict(MASSES, shaft_cog=n["shaft_cog"], motor_cog=n["motor_cog"], grav=np.array([0.0, 0.0, -9.81]))
    P.nominal = n
    P.sp = sp
    return P


def place(sp, Tt, Tb):
    """Put the platform at the plate poses without any safety, then ask whether the state is valid as it stands."""
    from basic_robotics.general import tm
    with quiet():
        L, _ = sp.IK(tm(np.array(Tt, float)), tm(np.array(Tb, float)), protect=True)
        ok = bool(sp.validate(True))
    return np.array(L, float).reshape(6), ok
