"""C15 - the planner's obstruction test equals exact segment-versus-box intersection (LX, exact oracle).

Complete enumeration of ordered lattice segments x lattice boxes; the real RRTStar.obstruction is called for every
pair on real PathNode(tm) objects; the oracle is integer-exact slab clipping (validated against Fractions).
A second pass evaluates an affine (non-dyadic) image of the same lattice, compared only where the exact answer is
robust (no boundary contact), and a third the any-of semantics on sets of two boxes.
"""
import itertools

import numpy as np

from mc import lattice
from oracles.segbox_exact import segbox_fraction, segbox_int_vec

MOD = "checks.c15"


def lattices(tier):
    if tier == "thorough":
        e, c = 3, 2
    else:
        e, c = 2, 1
    pts = list(itertools.product(range(-e, e + 1), repeat=3))
    per_axis = [(l, h) for l in range(-c, c + 1) for h in range(l, c + 1)]
    boxes = [((x[0], y[0], z[0]), (x[1], y[1], z[1])) for x in per_axis for y in per_axis for z in per_axis]
    if tier != "thorough":
        # sides of length 3 (half-size 1.5, whose reciprocal is not a binary fraction) exist only on the thorough lattice:
        # the quick tier gets the 26 boxes over {[-2,1], [-1,2], [-1,0]}^3 that have at least one such side (appended, so the
        # indices of the other boxes stay what they were)
        odd = [(-2, 1), (-1, 2), (-1, 0)]
        boxes += [((x[0], y[0], z[0]), (x[1], y[1], z[1])) for x in odd for y in odd for z in odd
                  if 3 in (x[1] - x[0], y[1] - y[0], z[1] - z[0])]
    return pts, boxes


class World:
    def __init__(self, tier, affine=None):
        from basic_robotics.general import tm
        from basic_robotics.path_planning.pathplanner import RRTStar, PathNode
        self.pts, self.boxes = lattices(tier)
        self.LO = np.array([b[0] for b in self.boxes], np.int64)
        self.HI = np.array([b[1] for b in self.boxes], np.int64)
        self.planner = RRTStar(tm())
        self._mk = lambda: RRTStar(tm())
        s, off = affine if affine else (1.0, (0.0, 0.0, 0.0))
        self.nodes = [PathNode(tm([p[0] * s + off[0], p[1] * s + off[1], p[2] * s + off[2], 0, 0, 0])) for p in self.pts]
        self.obst = []
        for lo, hi in self.boxes:
            self.planner.obstructions = []
            self.planner.addObstruction([lo[i] * s + off[i] for i in range(3)], [hi[i] * s + off[i] for i in range(3)])
            self.obst.append(self.planner.obstructions[0])
        # the same boxes registered by two OTHER opposite corners (the order of the corners on each axis is the caller's
        # business): box j with the corner order flipped on the axes of mask 1 + j % 7
        self.obst_flipped, self.flipped_corners = [], []
        for j, (lo, hi) in enumerate(self.boxes):
            m = 1 + j % 7
            c1 = [hi[i] if (m >> i) & 1 else lo[i] for i in range(3)]
            c2 = [lo[i] if (m >> i) & 1 else hi[i] for i in range(3)]
            self.planner.obstructions = []
            self.planner.addObstruction([c1[i] * s + off[i] for i in range(3)], [c2[i] * s + off[i] for i in range(3)])
            self.obst_flipped.append(self.planner.obstructions[0])
            self.flipped_corners.append((c1, c2))
        self.planner.obstructions = []


    def fresh_planner(self):
        return self._mk()


_W = {}


def world(tier, affine=None):
    k = (tier, affine)
    if k not in _W:
        _W[k] = World(tier, affine)
    return _W[k]


def work_exact(p):
    w = world(p["tier"])
    acc = lattice.Acc()
    n = len(w.pts)
    pl = w.planner
    f = pl.obstruction
    nb = len(w.boxes)
    for si in range(p["lo"], p["hi"]):
        ia, ib = divmod(si, n)
        na, nb_ = w.nodes[ia], w.nodes[ib]
        pl = w.fresh_planner()          # one planner per segment: the boxes 0..j swapped in before a call are its whole history
        f = pl.obstruction
        closed, interior = segbox_int_vec(w.pts[ia], w.pts[ib], w.LO, w.HI)
        got = np.empty(nb, bool)
        try:
            for j in range(nb):
                pl.obstructions = [w.obst[j]]
                got[j] = f(na, nb_)
        except Exception as e:
            acc.violation("raised", {"a": w.pts[ia], "b": w.pts[ib], "box": w.boxes[j]}, repr(e))
            acc.evals += nb
            continue
        acc.evals += nb
        if ia != ib:
            acc.nontrivial_count += nb
        nh = int(closed.sum())
        ni = int(interior.sum())
        acc.outcome("exact_hit", nh)
        acc.outcome("exact_free", nb - nh)
        acc.outcome("exact_contact_only", nh - ni)
        bad = np.nonzero(got != closed)[0]
        for j in bad[:5]:
            lo, hi = w.boxes[j]
            acc.violation("obstruction_vs_exact", {"a": w.pts[ia], "b": w.pts[ib], "box": [lo, hi], "mode": "lattice",
                                                   "tier": p["tier"], "box_index": int(j)},
                          {"impl": bool(got[j]), "exact": bool(closed[j]),
                           "fraction_oracle": segbox_fraction(w.pts[ia], w.pts[ib], lo, hi)})
        acc.nviol += max(0, len(bad) - 5)
        if si % 4 == 1:
            # every fourth segment also against the boxes registered with flipped corner order (same exact answer)
            got2 = np.empty(nb, bool)
            try:
                pl2 = w.fresh_planner()
                f2 = pl2.obstruction
                for j in range(nb):
                    pl2.obstructions = [w.obst_flipped[j]]
                    got2[j] = f2(na, nb_)
            except Exception as e:
                acc.violation("raised", {"a": w.pts[ia], "b": w.pts[ib], "box": w.boxes[j], "registered_corners": w.flipped_corners[j]}, repr(e))
                got2 = closed
            acc.evals += nb
            bad2 = np.nonzero(got2 != closed)[0]
            for j in bad2[:5]:
                lo, hi = w.boxes[j]
                acc.violation("obstruction_vs_exact", {"a": w.pts[ia], "b": w.pts[ib], "box": [lo, hi], "mode": "lattice_flipped_corners",
                                                       "tier": p["tier"], "registered_corners": [list(x) for x in w.flipped_corners[j]]},
                              {"impl": bool(got2[j]), "exact": bool(closed[j])})
            acc.nviol += max(0, len(bad2) - 5)
        if si % 2003 == 0:
            acc.sample({"a": w.pts[ia], "b": w.pts[ib], "box": w.boxes[si % nb], "impl": bool(got[si % nb]),
                        "exact": bool(closed[si % nb])})
    return acc.result()


AFFINE = (0.37, (0.11, -0.23, 0.07))


def work_affine(p):
    """Same lattice mapped by x -> 0.37 x + c (non-dyadic floats).  Intersection is affine-invariant; compared only
    where the exact answer is robust (pairs without mere boundary contact)."""
    w = world("quick", AFFINE)
    acc = lattice.Acc()
    n = len(w.pts)
    pl = w.planner
    nb = len(w.boxes)
    for si in range(p["lo"], p["hi"]):
        ia, ib = divmod(si, n)
        closed, interior = segbox_int_vec(w.pts[ia], w.pts[ib], w.LO, w.HI)
        robust = closed == interior
        for j in np.nonzero(robust)[0]:
            pl.obstructions = [w.obst[j]]
            try:
                g = pl.obstruction(w.nodes[ia], w.nodes[ib])
            except Exception as e:
                acc.violation("raised", {"a": w.pts[ia], "b": w.pts[ib], "box": w.boxes[j], "mode": "affine"}, repr(e))
                break
            if bool(g) != bool(closed[j]):
                acc.violation("obstruction_vs_exact", {"a": w.pts[ia], "b": w.pts[ib], "box": list(w.boxes[j]), "mode": "affine"},
                              {"impl": bool(g), "exact": bool(closed[j])})
        acc.evals += int(robust.sum())
        if ia != ib:
            acc.nontrivial_count += int(robust.sum())
        acc.outcome("skipped_contact_only", int((~robust).sum()))
    return acc.result()


FAR = (1.0, (7.0, -8.0, 9.0))


def far_boxes():
    _, boxes = lattices("quick")
    return [j for j in range(len(boxes)) if j % 4 == 0 or j >= 216]


def work_far(p):
    """The quick lattice carried to the far corner of the stated range by the integer translation (7,-8,9): every coordinate
    stays a small dyadic rational, intersection is translation-invariant, so the exact answer is the lattice's own - also for
    boundary contact.  All segments x every fourth box plus the 26 boxes with a side of length 3.  (Coordinates beyond 2*pi
    in magnitude are where anything that treats a pose's six numbers alike - wrapping, clamping - would bite.)"""
    w = world("quick", FAR)
    acc = lattice.Acc()
    n = len(w.pts)
    pl = w.fresh_planner()
    sel = far_boxes()
    for si in range(p["lo"], p["hi"]):
        ia, ib = divmod(si, n)
        closed, _ = segbox_int_vec(w.pts[ia], w.pts[ib], w.LO, w.HI)
        for j in sel:
            pl.obstructions = [w.obst[j] if (si + j) % 3 else w.obst_flipped[j]]
            try:
                g = pl.obstruction(w.nodes[ia], w.nodes[ib])
            except Exception as e:
                acc.violation("raised", {"a": w.pts[ia], "b": w.pts[ib], "box": w.boxes[j], "mode": "far"}, repr(e))
                break
            if bool(g) != bool(closed[j]):
                acc.violation("obstruction_vs_exact", {"a": w.pts[ia], "b": w.pts[ib], "box": list(w.boxes[j]), "mode": "far"},
                              {"impl": bool(g), "exact": bool(closed[j])})
        acc.evals += len(sel)
        if ia != ib:
            acc.nontrivial_count += len(sel)
    return acc.result()


def work_sets(p):
    """Sets of two registered boxes: answer must be the OR over the boxes, in either registration order."""
    w = world("quick")
    acc = lattice.Acc()
    n = len(w.pts)
    pl = w.fresh_planner()
    sub = list(range(0, len(w.boxes), max(1, len(w.boxes) // 24)))[:24]
    segs = p["segs"]
    for si in segs[p["lo"]:p["hi"]]:
        ia, ib = divmod(si, n)
        closed, _ = segbox_int_vec(w.pts[ia], w.pts[ib], w.LO, w.HI)
        for x in sub:
            for y in sub:
                # registered through the public call, in this order (a planner may keep its boxes ordered or indexed)
                pl.obstructions = []
                pl.addObstruction(list(w.boxes[x][0]), list(w.boxes[x][1]))
                pl.addObstruction(list(w.boxes[y][0]), list(w.boxes[y][1]))
                try:
                    g = pl.obstruction(w.nodes[ia], w.nodes[ib])
                except Exception as e:
                    acc.violation("raised", {"a": w.pts[ia], "b": w.pts[ib], "boxes": [w.boxes[x], w.boxes[y]], "mode": "sets"}, repr(e))
                    continue
                want = bool(closed[x] or closed[y])
                acc.evals += 1
                if ia != ib and x != y:
                    acc.nontrivial_count += 1
                if bool(g) != want:
                    acc.violation("obstruction_set_any", {"a": w.pts[ia], "b": w.pts[ib], "boxes": [list(w.boxes[x]), list(w.boxes[y])], "mode": "sets"},
                                  {"impl": bool(g), "exact": want})
        pl.obstructions = []
        acc.evals += 1
        if pl.obstruction(w.nodes[ia], w.nodes[ib]):
            acc.violation("obstruction_empty_set", {"a": w.pts[ia], "b": w.pts[ib], "boxes": [], "mode": "sets"}, True)
    return acc.result()


REUSE_MODES = ("assign_new_list", "clear_then_add", "replace_in_place", "append_second_then_drop_first")


def work_reuse(p):
    """Histories on ONE planner object: register box X, query, change the registered set to box Y by one of four public
    ways, query again.  The second answer must be the exact answer for Y (a test that caches per-box data keyed on
    something that does not change - e.g. the number of boxes - fails here and nowhere else)."""
    from basic_robotics.general import tm
    from basic_robotics.path_planning.pathplanner import RRTStar
    w = world("quick")
    acc = lattice.Acc()
    n = len(w.pts)
    sub = list(range(0, len(w.boxes), max(1, len(w.boxes) // 12)))[:12]
    segs = p["segs"]
    for si in segs[p["lo"]:p["hi"]]:
        ia, ib = divmod(si, n)
        closed, _ = segbox_int_vec(w.pts[ia], w.pts[ib], w.LO, w.HI)
        for x in sub:
            for y in sub:
                for mode in REUSE_MODES:
                    case = {"a": w.pts[ia], "b": w.pts[ib], "first_box": list(w.boxes[x]), "box": list(w.boxes[y]), "mode": "reuse", "how": mode}
                    try:
                        g1, g2 = reuse_history(w.pts[ia], w.pts[ib], w.boxes[x], w.boxes[y], mode)
                    except Exception as e:
                        acc.violation("raised", case, repr(e))
                        continue
                    acc.evals += 1
                    if ia != ib and x != y:
                        acc.nontrivial_count += 1
                    if bool(g1) != bool(closed[x]):
                        acc.violation("obstruction_vs_exact", dict(case, which="first"), {"impl": bool(g1), "exact": bool(closed[x])})
                    if bool(g2) != bool(closed[y]):
                        acc.violation("obstruction_after_set_change", case, {"impl": bool(g2), "exact": bool(closed[y])})
    return acc.result()


def reuse_history(a, b, X, Y, mode):
    from basic_robotics.general import tm
    from basic_robotics.path_planning.pathplanner import RRTStar, PathNode
    pl = RRTStar(tm())
    na = PathNode(tm([a[0], a[1], a[2], 0, 0, 0]))
    nb = PathNode(tm([b[0], b[1], b[2], 0, 0, 0]))
    pl.addObstruction(list(X[0]), list(X[1]))
    g1 = pl.obstruction(na, nb)
    if mode == "assign_new_list":
        pl.obstructions = []
        pl.addObstruction(list(Y[0]), list(Y[1]))
    elif mode == "clear_then_add":
        del pl.obstructions[:]
        pl.addObstruction(list(Y[0]), list(Y[1]))
    elif mode == "replace_in_place":
        keep = pl.obstructions
        pl.addObstruction(list(Y[0]), list(Y[1]))
        keep[0] = keep.pop()
    else:
        pl.addObstruction(list(Y[0]), list(Y[1]))
        del pl.obstructions[0]
    g2 = pl.obstruction(na, nb)
    return g1, g2


def run(ctx):
    pts, boxes = lattices(ctx.tier)
    nseg = len(pts) ** 2
    with ctx.pool() as pool:
        m1 = lattice.run(ctx, pool, MOD, "work_exact", nseg, nshards=pool.workers * (24 if ctx.tier == "thorough" else 3), part="lattice")
        qp, _ = lattices("quick")
        m2 = lattice.run(ctx, pool, MOD, "work_affine", len(qp) ** 2, part="affine")
        m5 = lattice.run(ctx, pool, MOD, "work_far", len(qp) ** 2, part="far")
        segs = list(range(0, len(qp) ** 2, 7))
        m3 = lattice.run(ctx, pool, MOD, "work_sets", len(segs), extra={"segs": segs}, part="sets")
        segs2 = list(range(3, len(qp) ** 2, 97 if ctx.tier == "quick" else 23))
        m4 = lattice.run(ctx, pool, MOD, "work_reuse", len(segs2), extra={"segs": segs2}, part="reuse")
    lattice.fill(ctx, [("lattice", m1), ("affine", m2), ("far", m5), ("sets", m3), ("reuse", m4)],
                 "all ordered pairs of integer lattice points x all integer boxes lo<=hi (every pair distinct by construction; "
                 "non-trivial = segment of non-zero length); affine image compared where the exact answer has no boundary contact; "
                 "the quick lattice translated by (7,-8,9) (exact, every fourth box + the 26 odd-sided ones, either corner order); "
                 "two-box sets over a 24-box sub-palette on every 7th segment; planner-reuse histories (register X, query, change the set to Y "
                 "in 4 public ways, query) over all ordered pairs of a 12-box sub-palette on every 97th (quick) / 23rd (thorough) segment",
                 {"endpoints": len(pts), "boxes": len(boxes), "segments": nseg})
    ctx.assumptions += ["on the integer lattice every intermediate of the implementation is a dyadic rational exactly representable in float64",
                        "boundary contact counts as intersection (closed box, closed segment)"]


def replay(rec):
    from basic_robotics.general import tm
    from basic_robotics.path_planning.pathplanner import RRTStar, PathNode
    c = rec["case"]
    if c.get("mode") == "reuse":
        try:
            g1, g2 = reuse_history(c["a"], c["b"], c["first_box"], c["box"], c["how"])
        except Exception as e:
            return [{"clause": "raised", "observed": repr(e)}] if rec["clause"] == "raised" else []
        w1 = segbox_fraction(c["a"], c["b"], c["first_box"][0], c["first_box"][1])
        w2 = segbox_fraction(c["a"], c["b"], c["box"][0], c["box"][1])
        if rec["clause"] == "obstruction_after_set_change":
            return [{"clause": rec["clause"], "observed": {"impl": bool(g2), "exact": w2}}] if bool(g2) != w2 else []
        return [{"clause": rec["clause"], "observed": {"impl": bool(g1), "exact": w1}}] if bool(g1) != w1 else []
    if c.get("mode") == "lattice" and c.get("box_index") is not None:
        # the enumeration uses one planner per segment and swaps its single registered box between calls; if the
        # fresh-planner replay does not reproduce, replay that whole history (boxes 0..j in enumeration order)
        fresh = _replay_fresh(rec)
        if fresh:
            return fresh
        _, boxes = lattices(c.get("tier", "quick"))
        pl = RRTStar(tm())
        na = PathNode(tm(list(c["a"]) + [0, 0, 0]))
        nb = PathNode(tm(list(c["b"]) + [0, 0, 0]))
        g = None
        for k in range(c["box_index"] + 1):
            pl.obstructions = []
            pl.addObstruction(list(boxes[k][0]), list(boxes[k][1]))
            g = bool(pl.obstruction(na, nb))
        w2 = segbox_fraction(c["a"], c["b"], c["box"][0], c["box"][1])
        return [{"clause": rec["clause"], "observed": {"impl": g, "exact": w2, "needs_history": True}}] if g != w2 else []
    return _replay_fresh(rec)


def _replay_fresh(rec):
    from basic_robotics.general import tm
    from basic_robotics.path_planning.pathplanner import RRTStar, PathNode
    c = rec["case"]
    s, off = AFFINE if c.get("mode") == "affine" else FAR if c.get("mode") == "far" else (1.0, (0, 0, 0))
    pl = RRTStar(tm())
    bxs = c["boxes"] if "boxes" in c else [c.get("registered_corners") or c["box"]]
    for lo, hi in bxs:
        pl.addObstruction([lo[i] * s + off[i] for i in range(3)], [hi[i] * s + off[i] for i in range(3)])
    na = PathNode(tm([c["a"][i] * s + off[i] for i in range(3)] + [0, 0, 0]))
    nb = PathNode(tm([c["b"][i] * s + off[i] for i in range(3)] + [0, 0, 0]))
    try:
        g = bool(pl.obstruction(na, nb))
    except Exception as e:
        return [{"clause": "raised", "observed": repr(e)}]
    want = any(segbox_fraction(c["a"], c["b"], lo, hi) for lo, hi in bxs)
    return [{"clause": rec["clause"], "observed": {"impl": g, "exact": want}}] if g != want else []
