"""C17 driver - ONE enumeration, executed once per Numba execution mode in a FRESH process.

    python -m checks.c17_driver --mode {jit|boundscheck|nojit} --out FILE --tier T --seed S [--only ID ...]

Part (i)  kernel cases  `k|<kernel>|<input index>|<layout>`: every @jit function of the two JIT modules over its
          input lattice x array layouts
              C  fresh C-contiguous float64
              F  Fortran-ordered (2-D arguments)
              S  non-contiguous interior slice of a larger array (an out-of-range read hits a neighbour)
              P  prefix slice of a larger array, the way the library slices its screw / joint tables
              I  integer dtype (values rounded)
Part (ii) entry-point cases `e|<object>|<state>|<entry>|<index>`: public tm / fsr / Arm / SP operations that reach a
          kernel, for every link / joint / leg index argument.

Per case one JSON line: outcome, exception class, a structural signature and the numbers of the result (plus the
post-call contents of every array argument *and of the larger array it was sliced from*, so that a stray write
is seen by value).  checks/c17.py compares the files of the three modes.  Nothing here decides anything.
"""
import argparse
import ast
import contextlib
import copy
import hashlib
import io
import itertools
import json
import os
import sys
import time

import numpy as np

KERNEL_MODULES = ("basic_robotics.modern_robotics_numba.modern_high_performance",
                  "basic_robotics.general.faser_high_performance")
LAYOUTS = ("C", "F", "S", "P", "I")
PI = np.pi


# --------------------------------------------------------------------------------------------------------------
# enumeration of the programs: decorated source (works in every mode) cross-checked with introspection (JIT modes)

def jit_functions_from_source(repo):
    """[(module, function name)] for every def decorated with jit/njit, read from the source files."""
    out = []
    for mn in KERNEL_MODULES:
        path = os.path.join(repo, *mn.split(".")) + ".py"
        tree = ast.parse(open(path).read())
        for node in tree.body:
            if isinstance(node, ast.FunctionDef):
                for d in node.decorator_list:
                    f = d.func if isinstance(d, ast.Call) else d
                    nm = f.id if isinstance(f, ast.Name) else getattr(f, "attr", None)
                    if nm in ("jit", "njit"):
                        out.append((mn, node.name))
                        break
    return out


def jit_functions_by_introspection():
    """Objects with .py_func defined in the two modules (only meaningful when the JIT is on)."""
    import importlib
    out = []
    for mn in KERNEL_MODULES:
        m = importlib.import_module(mn)
        for k, v in vars(m).items():
            if hasattr(v, "py_func") and getattr(v.py_func, "__module__", None) == mn:
                out.append((mn, k))
    return out


# --------------------------------------------------------------------------------------------------------------
# layouts

def _filler(shape, salt):
    n = int(np.prod(shape))
    return (0.37 * np.sin(1.0 + 0.7 * np.arange(n) + salt) + 0.05).reshape(shape)


def lay(a, layout, salt=0):
    """(argument, parent array it lives in) for one array in one layout; the parent is what is inspected afterwards."""
    a = np.array(a, dtype=float)
    if a.ndim == 0 or layout == "C":
        return a, a
    if layout == "F":
        b = np.asfortranarray(a)
        return b, b
    if layout == "I":
        b = np.rint(a).astype(np.int64)
        return b, b
    if a.ndim == 1:
        n = a.shape[0]
        if layout == "S":
            big = _filler((2 * n + 3,), salt)
            v = big[1:1 + 2 * n:2]
        else:
            big = _filler((n + 2,), salt)
            v = big[0:n]
    elif a.ndim == 2:
        r, c = a.shape
        if layout == "S":
            big = _filler((r + 2, c + 2), salt)
            v = big[1:1 + r, 1:1 + c]
        else:
            big = _filler((r, c + 2), salt)
            v = big[0:r, 0:c]
    else:
        raise ValueError("layout of rank %d" % a.ndim)
    v[...] = a
    return v, big


def arg_signature(args, parents):
    h = hashlib.blake2b(digest_size=8)
    for a, p in zip(args, parents):
        if isinstance(a, np.ndarray):
            h.update(repr((a.dtype.str, a.shape, a.strides, a.flags.c_contiguous, a.flags.f_contiguous, p.shape)).encode())
            h.update(np.ascontiguousarray(a).tobytes())
        else:
            h.update(repr((type(a).__name__, a)).encode())
    return h.hexdigest()


# --------------------------------------------------------------------------------------------------------------
# digest of a result

def _walk(o, sig, vals, dts, depth=0):
    if depth > 8:
        sig.append("<deep>")
        return
    if o is None:
        sig.append("N")
    elif isinstance(o, (bool, np.bool_)):
        sig.append("b%d" % int(bool(o)))
    elif isinstance(o, (int, np.integer)):
        sig.append("n")
        dts.append("i")
        vals.append(float(o))
    elif isinstance(o, (float, np.floating)):
        sig.append("n")
        dts.append("f")
        vals.append(float(o))
    elif isinstance(o, str):
        sig.append("s:" + o[:60])
    elif isinstance(o, np.ndarray):
        if o.dtype == object:
            sig.append("ao%s" % (o.shape,))
            for x in o.flat:
                _walk(x, sig, vals, dts, depth + 1)
        else:
            sig.append("a%s" % (tuple(o.shape),))
            dts.append(o.dtype.kind)
            vals.extend(np.asarray(o, dtype=float).ravel(order="C").tolist())
    elif isinstance(o, (list, tuple)):
        sig.append("L%d" % len(o))
        for x in o:
            _walk(x, sig, vals, dts, depth + 1)
    elif isinstance(o, dict):
        ks = sorted(o.keys(), key=repr)
        sig.append("D" + ",".join(repr(k) for k in ks))
        for k in ks:
            _walk(o[k], sig, vals, dts, depth + 1)
    elif hasattr(o, "__dict__") and not callable(o):
        d = vars(o)
        ks = sorted(d.keys())
        sig.append("O:" + type(o).__name__ + ":" + ",".join(ks))
        for k in ks:
            _walk(d[k], sig, vals, dts, depth + 1)
    else:
        sig.append("?" + type(o).__name__)


def digest(obj):
    sig, vals, dts = [], [], []
    _walk(obj, sig, vals, dts)
    out = []
    for v in vals:
        if v != v:
            out.append("nan")
        elif v in (float("inf"), float("-inf")):
            out.append("inf" if v > 0 else "-inf")
        else:
            out.append(v)
    return "|".join(sig), out, "".join(dts)


# --------------------------------------------------------------------------------------------------------------
# palettes for the kernel lattices (everything is plain NumPy / oracles - never the library, so that the inputs are
# bit-identical in the three processes)

class Pal:
    def __init__(self, tier, seed):
        from mc import palettes
        from oracles import se3
        thorough = tier == "thorough"
        self.tier, self.seed, self.se3 = tier, seed, se3
        A = palettes.axes(seed)
        TH = palettes.angles(refined=thorough)
        Aq = A if thorough else A[::2]                        # the seed-generic axis is A[-1] = A[14]
        self.W = [a * th for a in Aq for th in TH]            # rotation vectors on the exponential's branch boundaries
        V = palettes.translations(seed)
        A6 = (palettes.axes6() + [A[-1]]) if thorough else [A[0], A[6], A[10], A[-1]]
        Vq = [V[i] for i in ((0, 2, 3, 4, 5) if thorough else (0, 2, 5))]
        self.TW = [np.concatenate([a * th, v]) for a in A6 for th in palettes.angles_small() for v in Vq]
        Ap = A if thorough else [A[0], A[4], A[6], A[9], A[10], A[-1]]
        seen, P = set(), []
        for a, th, p in itertools.product(Ap, palettes.angles_small(), Vq[:3]):
            k = (tuple(np.round(a * th, 12)), tuple(p))
            if k not in seen:
                seen.add(k)
                P.append((a * th, np.asarray(p, float), se3.T_from(a * th, p)))
        self.POSES = P
        self.Wq = self.W[::5] if not thorough else self.W[::3]
        self.V = V
        self.A = A

    def chains(self):
        """[(name, S (6xn space screws), B (6xn body screws), M)] with 1..4 joints (+ 6 and 7 in the thorough tier)."""
        from checks import armlib
        se3 = self.se3
        out = []
        d7 = armlib.gen_chain_data("7R", self.seed)
        for n in (1, 2, 3, 4):
            out.append(("7R[:%d]" % n, d7["S"][:, :n].copy(), d7["M"].copy()))
        for kind in ("2RP", "3RPR", "3S"):
            d = armlib.gen_chain_data(kind, self.seed)
            out.append((kind, d["S"].copy(), d["M"].copy()))
        if self.tier == "thorough":
            out.append(("6R", armlib.six_r_data()["S"].copy(), armlib.six_r_data()["M"].copy()))
            out.append(("7R", d7["S"].copy(), d7["M"].copy()))
        res = []
        for name, S, M in out:
            B = se3.adj(se3.tinv(M)) @ S
            res.append((name, S, B, M))
        return res

    def joint_values(self, n):
        vals = [0.0, 0.3, -1.1] if self.tier != "thorough" else [0.0, 0.3, -1.1, PI / 2]
        if n <= 4:
            return [np.array(t) for t in itertools.product(vals, repeat=n)]
        f = np.array([0.62, -0.35, 0.55, -0.41, 0.68, 0.30, -0.47])[:n]
        return [np.zeros(n), f, -1.3 * f, np.full(n, 0.3)]


def _rot(P, w):
    return P.se3.rexp(w)


def kernel_inputs(P):
    """{kernel: [argument tuple, ...]} - arrays as C float64, scalars as they are to be passed."""
    se3 = P.se3
    from oracles import poe
    K = {}
    K["NearZero"] = [(z,) for z in (0.0, 1e-7, -1e-7, 9.99e-7, 1e-6, 1.01e-6, -1e-6, -1.01e-6, 1.0, -3.0, 0, 1, -2)]
    K["Normalize"] = [(w,) for w in P.W]
    am = [0.0, 7.0, -7.0, 2 * PI, 2 * PI + 1e-9, -2 * PI - 1e-9, -13.0, 100.5, 6.0, -0.5]
    K["AngleMod"] = [(np.array(am[:n]),) for n in (1, 2, 3, 6, 10)] + [(np.array(am[::-1][:n]),) for n in (1, 3, 6)]
    K["Norm"] = [(w,) for w in P.W]
    K["Norm6"] = [(t,) for t in P.TW]
    K["RotInv"] = [(_rot(P, w),) for w in P.Wq]
    K["VecToso3"] = [(w,) for w in P.W]
    K["so3ToVec"] = [(se3.skew(w),) for w in P.W]
    K["AxisAng3"] = [(w,) for w in P.W]
    K["MatrixExp3"] = [(se3.skew(w),) for w in P.W]
    K["SafeTrace"] = [(_rot(P, w),) for w in P.Wq] + [(np.arange(12.0).reshape(3, 4),), (np.arange(16.0).reshape(4, 4),),
                                                        (np.arange(1.0, 2.0).reshape(1, 1),), (np.arange(36.0).reshape(6, 6),),
                                                        (np.arange(12.0).reshape(4, 3),), (np.arange(6.0).reshape(6, 1),), (np.arange(6.0).reshape(1, 6),)]
    K["SafeClip"] = [(x, -1.0, 1.0) for x in (-2.0, -1.0, -1 + 1e-16, 0.0, 0.5, 1.0, 1 + 1e-12, 3.0)] + [(2, -1, 1), (0, -1, 1), (-5, -1.0, 1.0)]
    K["MatrixLog3"] = [(_rot(P, w),) for w in P.W]
    K["RpToTrans"] = [(T[:3, :3].copy(), p.copy()) for _, p, T in P.POSES]
    for k in ("TransToRp", "TransInv", "Adjoint", "MatrixLog6"):
        K[k] = [(T.copy(),) for _, _, T in P.POSES]
    K["VecTose3"] = [(t,) for t in P.TW]
    K["se3ToVec"] = [(se3.hat6(t),) for t in P.TW]
    K["AxisAng6"] = [(t,) for t in P.TW if np.abs(t).max() > 0]
    K["MatrixExp6"] = [(se3.hat6(t),) for t in P.TW]
    K["ad"] = [(t,) for t in P.TW]
    K["ScrewToAxis"] = [(q, s, h) for q in (P.V[0], P.V[2], P.V[3], P.V[5]) for s in (P.A[0], P.A[4], P.A[9], P.A[-1])
                        for h in (0, 2, 0.5, 0.0)]
    Tq = [T for _, _, T in P.POSES[::max(1, len(P.POSES) // 7)]]
    mm = [(a.copy(), b.copy()) for a in Tq for b in Tq]
    mm += [(se3.adj(a), t) for a in Tq[:4] for t in P.TW[3::31]]
    mm += [(a[:3, :3].copy(), w) for a in Tq[:4] for w in P.W[7::53]]
    mm += [(se3.adj(a)[:, :4].copy(), b.copy()) for a in Tq[:3] for b in Tq[:3]]
    K["MatMul"] = mm
    K["SafeDot"] = mm
    six = [np.concatenate([p, w]) for w, p, _ in P.POSES[::max(1, len(P.POSES) // 9)]]
    lg = [(a.copy(), b.copy()) for a in six for b in six]
    lg += [(a.reshape(6, 1).copy(), b.reshape(6, 1).copy()) for a in six[:5] for b in six[:5]]
    K["LocalToGlobal"] = lg
    K["GlobalToLocal"] = lg
    refl = np.diag([1.0, 1.0, -1.0])
    so = [(_rot(P, w),) for w in P.Wq]
    so += [(_rot(P, w) + 1e-4 * np.arange(9.0).reshape(3, 3),) for w in P.Wq[::4]]
    so += [(_rot(P, w) + 2e-3 * np.arange(9.0).reshape(3, 3),) for w in P.Wq[::4]]
    so += [(refl @ _rot(P, w),) for w in P.Wq[::4]] + [(np.zeros((3, 3)),), (2.0 * np.eye(3),)]
    K["DistanceToSO3"] = so
    K["TestIfSO3"] = so
    st = [(T.copy(),) for _, _, T in P.POSES[::2]]
    for _, _, T in P.POSES[::9]:
        X = T.copy()
        X[3] = [0.0, 0.0, 1e-4, 0.9995]
        st.append((X,))
        X = T.copy()
        X[3] = [0.003, 0.002, 0.01, 0.9]
        st.append((X,))
        X = T.copy()
        X[:3, :3] = refl @ X[:3, :3]
        st.append((X,))
    K["DistanceToSE3"] = st
    K["TestIfSE3"] = st
    fkb, fks, jb, js, ikb, iks, ikc = [], [], [], [], [], [], []
    for name, S, B, M in P.chains():
        n = S.shape[1]
        JV = P.joint_values(n)
        for th in JV:
            fkb.append((M.copy(), B.copy(), th.copy()))
            fks.append((M.copy(), S.copy(), th.copy()))
            jb.append((B.copy(), th.copy()))
            js.append((S.copy(), th.copy()))
        # inverse kinematics: reachable goals (FK of a lattice point by the independent product of exponentials),
        # started 0.05 away; goals are never singular starts (no all-zero start)
        goals = [t for t in JV if np.abs(t).min() > 0][:3] or JV[1:3]
        for tg in goals:
            Tg = poe.poe(S, tg) @ M
            t0 = tg + 0.05 * np.cos(np.arange(n) + 1.0)
            ikb.append((B.copy(), M.copy(), Tg.copy(), t0.copy(), 0.01, 0.001))
            iks.append((S.copy(), M.copy(), Tg.copy(), t0.copy(), 0.01, 0.001))
            iks.append((S.copy(), M.copy(), Tg.copy(), t0.copy(), 1e-5, 1e-4, 30))
            lo, hi = -2.0 * np.ones(n), 2.5 * np.ones(n)
            ikc.append((S.copy(), M.copy(), Tg.copy(), t0.copy(), 1e-4, 1e-5, lo, hi, 30))
            hi2 = np.maximum(tg - 0.2, lo + 0.1)        # the goal lies outside the box: the clamping loop is exercised
            ikc.append((S.copy(), M.copy(), Tg.copy(), t0.copy(), 1e-4, 1e-5, lo, hi2, 6))
    K["FKinBody"], K["FKinSpace"], K["JacobianBody"], K["JacobianSpace"] = fkb, fks, jb, js
    K["IKinBody"], K["IKinSpace"], K["IKinSpaceConstrained"] = ikb, iks, ikc
    K["SafeCopy"] = [(np.arange(float(r * c)).reshape(r, c) * 0.5 - 1.0,) for r, c in
                     ((4, 4), (6, 1), (6, 2), (6, 3), (6, 4), (6, 6), (3, 6), (1, 1), (1, 5), (3, 3))]
    es = []
    for n in (1, 2, 3, 4, 6):
        a = 0.1 * np.arange(1.0, n + 1.0)
        es += [(a.copy(), 2 * a[::-1].copy(), np.cos(a), dt) for dt in (0.1, 1, 0.0)]
    K["EulerStep"] = es
    ts = [(Tf, t) for Tf in (2, 2.0, 5.5) for t in (0, 0.0, 0.6, 1, Tf)]
    K["CubicTimeScaling"] = ts
    K["QuinticTimeScaling"] = ts
    jt = []
    for n in (1, 2, 3, 4, 8):
        a = np.linspace(0.0, 1.0, n) + 0.2
        b = 2.0 - np.linspace(0.5, 1.5, n) ** 2
        jt += [(a.copy(), b.copy(), Tf, N, m) for Tf in (4, 2.5) for N in (2, 3, 6) for m in (3, 5)]
        jt.append((a.copy(), b.copy(), 4.0, 6.0, 3))
    K["JointTrajectory"] = jt
    K["TrVec"] = [(T.copy(), v.copy()) for _, _, T in P.POSES[::6] for v in (P.V[0], P.V[2], P.V[3], P.V[5])]
    return K


SP_PARAMS = {"std": (0.9, 0.3, 9, 25, 0.1, 0.16, 0.9, 0.5, 1, 6, 0.2, 0.2, 0.75, 1.5),
             "small": (0.075, 0.045, 6, 6, 0.0, 0.0, 0.9, 0.5, 1, 6, 0.2, 0.2, 0.001, 1.0)}
SP_GOALS = [[0.25, 0.25, 1.1, PI / 8, 0, 0], [0.2, 0.3, 1.2, 0, PI / 8, 0], [0, .1, 1.2, 0, 0, PI / 5], [0, -.2, 1.3, 0, -PI / 8, 0],
            [-.2, -.2, 1.15, 0, 0, 0], [-.3, 0, 1.1, 0, 0, 0], [-.1, .1, 1.1, PI / 8, PI / 8, 0], [.1, .2, 1.1, PI / 16, PI / 16, PI / 16],
            [-.1, -.1, 1.2, -PI / 10, 0, PI / 10], [.05, .05, 1.2, 0, 0, PI / 6]]
SP_BASES = {"I": [0, 0, 0, 0, 0, 0], "B": [0.4, -0.3, 0.2, 0.1, -0.15, 0.3]}


def sp_geometry(name):
    """Joint tables of a platform exactly as newSP computes them, in plain NumPy (inputs of the SP kernels)."""
    br, tr, bs, tsp, bth, tth = SP_PARAMS[name][:6]
    bg, tg = bs / 2 * PI / 180, tsp / 2 * PI / 180
    bjg, tjg = 120 * PI / 180, 60 * PI / 180
    ba = np.array([-bg, bg, bjg - bg, bjg + bg, 2 * bjg - bg, 2 * bjg + bg])
    ta = np.array([-tjg + tg, tjg - tg, tjg + tg, tjg + bjg - tg, tjg + bjg + tg, -tjg - tg])
    bj = np.vstack([br * np.cos(ba), br * np.sin(ba), np.full(6, bth)])
    tj = np.vstack([tr * np.cos(ta), tr * np.sin(ta), np.full(6, -tth)])
    return bj, tj


def sp_kernel_inputs(P):
    se3 = P.se3
    ik, fk = [], []
    goals = SP_GOALS if P.tier == "thorough" else SP_GOALS[::2] + [SP_GOALS[7]]
    for name in ("std", "small"):
        bj, tj = sp_geometry(name)
        scale = 1.0 if name == "std" else 0.2
        for bn, b in SP_BASES.items():
            Tb = se3.T_from_taa(np.array(b, float))
            for g in goals:
                g = np.array(g, float)
                g[:3] *= scale
                Tt = Tb @ se3.T_from_taa(g)
                ik.append((Tb.copy(), Tt.copy(), bj.copy(), tj.copy(), np.zeros((3, 6)), np.zeros((3, 6))))
                if bn == "I":
                    bw = bj
                    tw = (Tt[:3, :3] @ tj) + Tt[:3, 3:4]
                    L = np.linalg.norm(tw - bw, axis=0)
                    nominal = np.array([0, 0, 1.2 * scale, 0, 0, 0], float)
                    fk.append((L.copy(), nominal.copy(), bj.T.copy(), tj.T.copy(), 1e4, 5e-6, 5e-6, SP_PARAMS[name][12]))
                    fk.append((L.copy(), g + 0.01, bj.T.copy(), tj.T.copy(), 50, 5e-6, 5e-6, SP_PARAMS[name][12]))
    return {"SPIKinSpace": ik, "SPFKinSpaceR": fk}


# --------------------------------------------------------------------------------------------------------------
# execution of one case

def tolerant_jit_cache():
    """The on-disk JIT cache is an optimisation shared with concurrent runs, which prune old cache directories
    (mc.env._prune) - possibly this one, in the middle of a compilation.  Numba lets the resulting OSError escape from
    the *call* of the kernel, and the library swallows such exceptions in places (`except Exception` around SPFKinSpaceR,
    around the IK restarts), which would turn an accident of the environment into a different result.  Saving / loading
    a cache entry that fails on the file system is therefore treated as a cache miss; nothing about compilation or
    execution changes."""
    from numba.core import caching
    if getattr(caching.Cache, "_c17_tolerant", False):
        return
    save0, load0 = caching.Cache.save_overload, caching.Cache.load_overload

    def save_overload(self, sig, data):
        try:
            return save0(self, sig, data)
        except OSError:
            try:
                os.makedirs(self.cache_path, exist_ok=True)
            except OSError:
                pass
            return None

    def load_overload(self, sig, target_context):
        try:
            return load0(self, sig, target_context)
        except OSError:
            return None
    caching.Cache.save_overload = save_overload
    caching.Cache.load_overload = load_overload
    caching.Cache._c17_tolerant = True


class Reach:
    """Interpreter mode only: which kernels does a call reach (profile hook on Python frames)."""

    def __init__(self, codes):
        self.codes = codes
        self.hit = set()

    def __call__(self, frame, event, arg):
        if event == "call":
            n = self.codes.get(frame.f_code)
            if n is not None:
                self.hit.add(n)


COST = {"IKinSpace": 30, "SPFKinSpaceR": 20, "IKinSpaceConstrained": 16, "GlobalToLocal": 12, "LocalToGlobal": 10, "FKinSpace": 8,
        "JacobianSpace": 8, "FKinBody": 7, "JacobianBody": 7, "SPIKinSpace": 7.5, "DistanceToSO3": 5.5, "ScrewToAxis": 5, "MatrixExp6": 5,
        "JointTrajectory": 4.3, "DistanceToSE3": 3.6, "RpToTrans": 3.4, "IKinBody": 3.3, "ad": 3, "VecTose3": 2.7, "MatMul": 2.7, "entries": 12}


class Driver:
    def __init__(self, mode, tier, seed, out, only=None, shard=None):
        self.shard = shard
        self.mode, self.tier, self.seed = mode, tier, seed
        self.out = out
        self.only = set(only) if only else None
        self.n = 0
        self.t_parts = {}
        from mc import env
        self.repo = env.REPO
        self.src = jit_functions_from_source(self.repo)
        self.kmods = {}
        import importlib
        for mn in KERNEL_MODULES:
            self.kmods[mn] = importlib.import_module(mn)
        self.numba_err = ()
        self.rejected = {}
        flt = os.environ.get("VERIF_C17_FILTER", "").strip()      # development aid: comma-separated case-id prefixes
        self.prefixes = [x for x in flt.split(",") if x] or None
        self.codes = {}
        if mode == "nojit":
            for mn, fn in self.src:
                f = getattr(self.kmods[mn], fn)
                if hasattr(f, "__code__"):
                    self.codes[f.__code__] = fn
        else:
            from numba.core import errors
            self.numba_err = (errors.NumbaError,)
            tolerant_jit_cache()

    # -- output
    def emit(self, rec):
        self.out.write(json.dumps(rec, separators=(",", ":")) + "\n")
        self.out.flush()
        self.n += 1

    def want(self, cid):
        if self.prefixes and not any(cid.startswith(p) for p in self.prefixes):
            return False
        return self.only is None or cid in self.only

    def group_wanted(self, head):
        """head = 'k|<kernel>|' or 'e|<object>|': can any wanted case start like this?"""
        if self.only is not None and not any(c.startswith(head) for c in self.only):
            return False
        return not self.prefixes or any(p.startswith(head) or head.startswith(p) for p in self.prefixes)

    def entry_units(self):
        """The interpreter mode is the slow one for the entry points (no JIT to pay, every call interpreted): its entry
        cases are dealt out per object.  A compiled mode keeps them in one process (they share their specialisations)."""
        if self.mode != "nojit":
            return ["entries"]
        from checks import armlib
        arms = armlib.ALL_ARMS if self.tier == "thorough" else armlib.QUICK_ARMS
        return ["entries:tm"] + ["entries:arm:" + a for a in arms] + ["entries:sp:%s@%s" % (s, b) for s in ("std", "small") for b in SP_BASES]

    def mine(self, unit):
        """Sharding of one mode over processes: units (kernels, entry-point groups) are dealt out greedily by estimated cost."""
        if self.shard is None:
            return True
        i, n = self.shard

        def cost(u):
            return COST.get(u, 4.0 if u.startswith("entries:") else 2.0)
        units = sorted([fn for _, fn in self.src] + self.entry_units(), key=lambda u: (-cost(u), u))
        load = [0.0] * n
        for u in units:
            k = min(range(n), key=lambda q: (load[q], q))
            load[k] += cost(u)
            if u == unit:
                return k == i
        return False

    def mine_entries(self, obj):
        return self.mine("entries" if self.mode != "nojit" else "entries:" + obj)

    def call(self, cid, fn, extra=None, post=None, pre=None):
        """Run fn() and write its record.  `pre()` prepares the object (its kernels are not counted as reached by the
        entry point, its exceptions are), `post()` returns the state to digest together with the result."""
        rec = {"id": cid}
        if extra:
            rec.update(extra)
        reach = None
        t0 = time.time()
        try:
            with contextlib.redirect_stdout(io.StringIO()), contextlib.redirect_stderr(io.StringIO()):
                arg = pre() if pre else None
            if self.codes:
                reach = Reach(self.codes)
                sys.setprofile(reach)
            try:
                with contextlib.redirect_stdout(io.StringIO()), contextlib.redirect_stderr(io.StringIO()):
                    r = self.guarded(lambda: fn(arg) if pre else fn())
            finally:
                if reach is not None:
                    sys.setprofile(None)
            st = post() if post else None
            sig, vals, dts = digest((r, st))
            rec.update({"st": "ok", "sig": sig, "v": vals, "dt": dts})
        except Exception as e:   # the class of the exception is the observation
            if reach is not None:
                sys.setprofile(None)
            rec.update({"st": "exc", "exc": type(e).__name__, "msg": str(e).replace("\n", " ")[:160],
                        "nb": bool(self.numba_err and isinstance(e, self.numba_err))})
        if reach is not None:
            rec["k"] = sorted(reach.hit)
        rec["t"] = round(time.time() - t0, 4)
        self.emit(rec)
        return rec

    def guarded(self, f):
        """The JIT cache directory is shared with concurrent runs that prune old directories (mc.env._prune); a cache file
        vanishing under a compilation is an accident of the environment, not an observation: recreate and retry."""
        for attempt in range(4):
            try:
                return f()
            except OSError as e:
                cdir = os.environ.get("NUMBA_CACHE_DIR", "")
                if not cdir or cdir not in str(e) or attempt == 3:
                    raise
                os.makedirs(cdir, exist_ok=True)
                time.sleep(0.2 * (attempt + 1))

    def typesig(self, name, args):
        if self.mode == "nojit":
            return None
        import numba
        return (name,) + tuple(str(numba.typeof(a)) for a in args)

    # -- part (i)
    def kernels(self):
        P = Pal(self.tier, self.seed)
        K = kernel_inputs(P)
        K.update(sp_kernel_inputs(P))
        names = [fn for _, fn in self.src]
        missing = [n for n in names if n not in K]
        extra = [n for n in K if n not in names]
        self.emit({"id": "meta|programs", "st": "meta", "source": names, "missing_inputs": missing, "stale_inputs": extra,
                   "introspection": None if self.mode == "nojit" else [fn for _, fn in jit_functions_by_introspection()]})
        for mn, name in self.src:
            if name not in K or not self.mine(name) or not self.group_wanted("k|%s|" % name):
                continue
            f = getattr(self.kmods[mn], name)
            t0 = time.time()
            for idx, args in enumerate(K[name]):
                seen = set()
                for L in LAYOUTS:
                    cid = "k|%s|%d|%s" % (name, idx, L)
                    if not self.want(cid):
                        continue
                    laid = [lay(a, L, salt=j) if isinstance(a, np.ndarray) else (a, a) for j, a in enumerate(args)]
                    a2 = [x for x, _ in laid]
                    parents = [p for _, p in laid]
                    key = arg_signature(a2, parents)
                    if key in seen:         # this layout is not a different memory picture for these arguments
                        self.emit({"id": cid, "st": "dup"})
                        continue
                    seen.add(key)
                    ts = self.typesig(name, a2)
                    if ts in self.rejected:      # Numba decides acceptance on the argument types alone
                        rec = dict(self.rejected[ts])
                        rec.update({"id": cid, "key": key, "same_types_as": rec["id"]})
                        self.emit(rec)
                        continue
                    rec = self.call(cid, lambda: f(*a2), {"key": key}, post=lambda: parents)
                    if ts is not None and rec["st"] == "exc" and (rec["nb"] or rec["exc"] == "TypeError"):
                        self.rejected[ts] = rec
            self.t_parts[name] = round(time.time() - t0, 3)

    # -- part (ii)
    def entries(self):
        run_entries(self)


# --------------------------------------------------------------------------------------------------------------
# part (ii): public entry points

FR = [0.37, 0.81, 0.12, 0.64, 0.29, 0.93, 0.5]      # scripted answers of random.uniform (IK restarts, randomPos)
WRENCH6 = np.array([1.0, -2.0, 3.0, 4.0, 5.0, -6.0])


def add_dynamics(arm, ref):
    """Link frames, masses, centres of mass and box inertias for any chain, the way tests/test_kinematics_arm.py's
    setUp does for its six-joint arm (link frame = midpoint of consecutive joint homes, oriented like the base)."""
    from basic_robotics.general import tm, fsr
    n = ref.n
    pts = [(ref.base @ ref.J[i])[:3, 3] for i in range(n)] + [(ref.base @ ref.M0)[:3, 3]]
    Tspace, dims = [], np.zeros((3, n))
    for i in range(n):
        T = np.eye(4)
        T[:3, :3] = ref.base[:3, :3]
        T[:3, 3] = 0.5 * (pts[i] + pts[i + 1])
        Tspace.append(tm(T))
        ln = max(float(np.linalg.norm(pts[i + 1] - pts[i])), 0.1)
        dims[:, i] = [ln, 0.1, 0.1] if i % 2 else [0.1, 0.1, ln]
    ee_home = tm((ref.base @ ref.M0).copy())
    mt = [None] * (n + 1)
    mt[0] = Tspace[0]
    for i in range(1, n):
        mt[i] = Tspace[i - 1].inv() @ Tspace[i]
    mt[n] = Tspace[n - 1].inv() @ ee_home
    masses = np.array([20.0, 20.0, 20.0, 1.0, 1.0, 1.0, 0.5, 0.25])[:n + 1]     # one per link frame, tool included
    G = np.zeros((n, 6, 6))
    for i in range(n):
        G[i, :, :] = fsr.boxSpatialInertia(masses[i], dims[0, i], dims[1, i], dims[2, i])
    arm.setOrigins(link_homes_global=Tspace)
    arm.setMassProperties(masses, mt, G)
    arm.setVisColProperties(link_dimensions=dims)


def theta_palette(ref, tier):
    lo, hi = np.maximum(ref.lo, -6.2), np.minimum(ref.hi, 6.2)
    n = ref.n
    f1 = np.array([0.62, 0.35, 0.55, 0.41, 0.68, 0.30, 0.47])[:n]
    f2 = np.array([0.25, 0.72, 0.33, 0.66, 0.21, 0.78, 0.58])[:n]
    out = {"zero": np.zeros(n), "g1": lo + (hi - lo) * f1, "g2": lo + (hi - lo) * f2}
    if tier == "thorough":
        out["lower"] = ref.lo.copy()
        over = out["g1"].copy()
        over[0] = ref.hi[0] + 0.5             # clamped by thetaProtector
        out["over"] = over
    return out


class ArmX:
    """Arguments of one arm state; every accessor hands out a fresh copy."""

    def __init__(self, ref, th):
        from basic_robotics.general import tm, Wrench
        self._tm, self._W = tm, Wrench
        self.ref, self._th = ref, np.array(th, float)
        n = ref.n
        self.n = n
        self._dth = 0.3 * np.cos(np.arange(n) + 0.5)
        self._ddth = 0.2 * np.sin(np.arange(n) + 1.0)
        self._tau = 2.0 * np.cos(0.7 * np.arange(n))

    def th(self):
        return self._th.copy()

    def dth(self):
        return self._dth.copy()

    def ddth(self):
        return self._ddth.copy()

    def tau(self):
        return self._tau.copy()

    def th0(self):
        return self.ref.clamp(self._th + 0.05 * np.cos(np.arange(self.n) + 1.0))

    def goal(self):
        return self._tm(self.ref.fk(self._th).copy())

    def near(self):
        T = self.ref.fk(self._th).copy()
        T[:3, 3] += [0.02, -0.01, 0.015]
        return self._tm(T)

    def W(self):
        return self._W(WRENCH6.copy())

    def grav(self):
        return np.array([0.0, 0.0, -9.81])


def arm_entries():
    """[(name, index kind or None, fn(arm, x[, i]))]"""
    from checks import armlib
    from oracles import se3
    T = []

    def add(name, fn, idx=None):
        T.append((name, idx, fn))
    add("FK", lambda a, x: a.FK(x.th()))
    add("FK_protect", lambda a, x: a.FK(x.th(), True))
    add("FKLink", lambda a, x, i: a.FKLink(x.th(), i), "dof")
    add("FKLink_protect", lambda a, x, i: a.FKLink(x.th(), i, True), "dof")
    add("FKJoint", lambda a, x, i: a.FKJoint(x.th(), i), "dof")
    add("getJointTransforms", lambda a, x: a.getJointTransforms())
    add("getJointTransforms_nobase", lambda a, x: a.getJointTransforms(False))
    add("jacobian", lambda a, x: a.jacobian(x.th()))
    add("jacobian_current", lambda a, x: a.jacobian())
    add("jacobianBody", lambda a, x: a.jacobianBody(x.th()))
    add("jacobianLink", lambda a, x, i: a.jacobianLink(i, x.th()), "dof")
    add("jacobianEETrans", lambda a, x: a.jacobianEETrans(x.th()))
    add("numericalJacobian", lambda a, x: a.numericalJacobian(x.th()))
    add("getManipulability", lambda a, x: a.getManipulability())

    def ik(kind):
        def f(a, x):
            with armlib.scripted_random(FR):
                if kind == "IK":
                    return a.IK(x.goal(), x.th0())
                if kind == "IK_protect":
                    return a.IK(x.goal(), x.th0(), protect=True)
                if kind == "IK_current":
                    return a.IK(x.near())
                return a.constrainedIK(x.near(), x.th0())
        return f
    for k in ("IK", "IK_protect", "IK_current", "constrainedIK"):
        add(k, ik(k))
    add("IKFree", lambda a, x, i: a.IKFree(x.near(), x.th0(), [i]), "dof")
    add("randomPos", lambda a, x: _with_random(a.randomPos))
    add("staticForces", lambda a, x: a.staticForces(x.W(), x.th()))
    add("staticForcesBody", lambda a, x: a.staticForcesBody(x.W(), x.th()))
    add("staticForcesInv", lambda a, x: a.staticForcesInv(x.tau(), x.th()))
    add("staticForcesInvBody", lambda a, x: a.staticForcesInvBody(x.tau(), x.th()))
    add("staticForcesWithCrossMoments", lambda a, x: a.staticForcesWithCrossMoments(x.W(), x.th()))
    add("staticForcesWithLinkMasses", lambda a, x: a.staticForcesWithLinkMasses(x.W(), x.th()))
    add("velocityAtEndEffector", lambda a, x: a.velocityAtEndEffector(x.dth(), x.th()))
    add("inverseDynamics", lambda a, x: a.inverseDynamics(x.th(), x.dth(), x.ddth(), x.grav(), x.W()))
    add("inverseDynamicsC", lambda a, x: a.inverseDynamicsC(x.th(), x.dth(), x.ddth(), x.grav(), x.W()))
    add("inverseDynamicsEMR", lambda a, x: a.inverseDynamicsEMR(x.th(), x.dth(), x.ddth(), x.grav(), x.W()))
    add("forwardDynamicsE", lambda a, x: a.forwardDynamicsE(x.th(), x.dth(), x.tau(), x.grav(), x.W()))
    add("forwardDynamics", lambda a, x: a.forwardDynamics(x.th(), x.dth(), x.tau(), x.grav(), x.W()))
    add("integrateForwardDynamics", lambda a, x: a.integrateForwardDynamics(x.th(), x.dth(), x.tau(), dt=0.01))
    add("massMatrix", lambda a, x: a.massMatrix(x.th()))
    add("massMatrix_current", lambda a, x: a.massMatrix())
    add("coriolisGravity", lambda a, x: a.coriolisGravity(x.th(), x.dth(), x.grav()))
    B2 = armlib.base_T("B2")
    add("move", lambda a, x: a.move(x._tm(B2.copy())))
    add("move_stationary", lambda a, x: _with_random(lambda: a.move(x._tm(B2.copy()), True)))
    tool = se3.T_from([0.2, 0.1, -0.3], [0.1, 0.2, 0.3])
    add("setArbitraryHome", lambda a, x: a.setArbitraryHome(x._tm(x.ref.fk(x.th()) @ tool), x.th()))
    add("restoreOriginalEE", lambda a, x: (a.setArbitraryHome(x._tm(x.ref.fk(x.th()) @ tool), x.th()), a.restoreOriginalEE(), a.FK(x.th()))[2])
    add("getEEPos", lambda a, x: a.getEEPos())
    add("inverseJacobian", lambda a, x: a.inverseJacobian(x.th()))
    add("inverseJacobianBody", lambda a, x: a.inverseJacobianBody(x.th()))
    add("velocityAtJoints", lambda a, x: a.velocityAtJoints(0.1 * WRENCH6, x.th()))
    add("PDControlToGoalEE", lambda a, x: a.PDControlToGoalEE(x.near(), x.th(), x.th0()))
    add("thetaProtector", lambda a, x: a.thetaProtector(3.0 * x.th() + 1.0))
    add("getters", lambda a, x: (a.getScrewList(), a.getBasePos(), a.getLinkDimensions(), a.getGrav()))
    return T


def _with_random(fn):
    from checks import armlib
    with armlib.scripted_random(FR):
        return fn()


def arm_state(a):
    g = lambda o, n: getattr(o, n, None)         # the digest only has to be the same in every execution mode
    return {"theta": g(a, "_theta"), "ee": g(a, "_end_effector_pos_global"), "home": g(a, "_end_effector_home"), "fail": g(a, "fail_count"),
            "S": a.screw_list}


def sp_state(s):
    g = lambda o, n: getattr(o, n, None)
    return {"L": g(s, "lengths"), "bj": g(s, "_bottom_joints_space"), "tj": g(s, "_top_joints_space"), "loc": g(s, "_current_plate_transform_local"),
            "top": g(s, "_end_effector_pos_global"), "bot": g(s, "_base_pos_global"), "fail": g(s, "fail_count"), "err": str(g(s, "validation_error"))[:60]}


def build_sp(name, base):
    from basic_robotics.general import tm
    from basic_robotics.kinematics.sp_model import newSP
    p = SP_PARAMS[name]
    sp = newSP(*p, tm(np.array(SP_BASES[base], float)), "sp_" + name, 1)
    return sp


def sp_entries():
    from basic_robotics.general import tm, Wrench
    T = []

    def add(name, fn, idx=None):
        T.append((name, idx, fn))
    add("IK_top", lambda s, x: s.IK(top_plate_pos=x.top()))
    add("IK_top_protect", lambda s, x: s.IK(top_plate_pos=x.top(), protect=True))
    add("IK_both", lambda s, x: s.IK(x.top2(), x.bot2()))
    add("IK_none", lambda s, x: s.IK())
    add("FK", lambda s, x: s.FK(x.L()))
    add("FK_protect", lambda s, x: s.FK(x.L(), protect=True))
    add("FK_plate", lambda s, x: s.FK(x.L(), x.bot2()))
    add("FK_reverse", lambda s, x: s.FK(x.L(), reverse=True))
    add("FK_current_lengths", lambda s, x: s.FK(s.getLens().copy()))
    add("inverseJacobian", lambda s, x: s.inverseJacobian())
    add("inverseJacobian_args", lambda s, x: s.inverseJacobian(x.top2(), x.bot2()))
    add("inverseJacobian_unprotected", lambda s, x: s.inverseJacobian(x.top(), protect=False))
    for ty in "mbt":
        add("getActuatorLoc_" + ty, (lambda ty: lambda s, x, i: s.getActuatorLoc(i, ty))(ty), "leg")
    add("getJointAnglesFromNorm", lambda s, x: s.getJointAnglesFromNorm())
    add("getJointAnglesFromVertical", lambda s, x: s.getJointAnglesFromVertical())
    add("staticForces", lambda s, x: s.staticForces(Wrench(WRENCH6.copy())))
    add("staticForcesInv", lambda s, x: s.staticForcesInv(np.arange(1.0, 7.0)))
    add("velocityAtJoints", lambda s, x: s.velocityAtJoints(0.1 * WRENCH6))
    add("carryMassCalc", lambda s, x: s.carryMassCalc(Wrench(WRENCH6.copy())))
    add("carryMassCalcBody", lambda s, x: s.carryMassCalcBody(Wrench(WRENCH6.copy())))
    add("componentForces", lambda s, x: s.componentForces(np.arange(1.0, 7.0)))
    add("sumActuatorWrenches", lambda s, x: s.sumActuatorWrenches(np.arange(1.0, 7.0)))
    add("move", lambda s, x: s.move(x.bot2()))
    add("spinCustom", lambda s, x: s.spinCustom(0.3))
    add("validate", lambda s, x: s.validate())
    add("validate_all", lambda s, x: (setattr(s, "validation_settings", [1, 1, 1, 1]), s.validate())[1])
    add("getters", lambda s, x: (s.getLens(), s.getTopT(), s.getBottomT(), s.getCurrentLocalTransform(), s.getBottomJoints(), s.getTopJoints(),
                                 s.getEEPos(), s.getBasePos(), s.getGrav()))
    add("jacobian", lambda s, x: s.jacobian())
    add("jacobianBody", lambda s, x: s.jacobianBody())
    add("inverseJacobianBody", lambda s, x: s.inverseJacobianBody())
    add("staticForcesBody", lambda s, x: s.staticForcesBody(Wrench(WRENCH6.copy())))
    add("staticForcesInvBody", lambda s, x: s.staticForcesInvBody(np.arange(1.0, 7.0)))
    add("velocityAtEndEffector", lambda s, x: s.velocityAtEndEffector(0.1 * np.arange(1.0, 7.0)))
    for vn in ("validateLegs", "validateContinuousTranslation", "validateInteriorAngles", "validatePlateRotation"):
        add(vn, (lambda vn: lambda s, x: getattr(s, vn)(True, True))(vn))

    def rnd(s, x):
        st = np.random.get_state()
        np.random.seed(12345)
        try:
            return s.randomPos(max_attempts=3)
        finally:
            np.random.set_state(st)
    add("randomPos", rnd)
    return T


class SpX:
    def __init__(self, name, base, g, g2):
        from basic_robotics.general import tm
        from oracles import se3
        self._tm = tm
        scale = 1.0 if name == "std" else 0.2
        self.Tb = se3.T_from_taa(np.array(SP_BASES[base], float))
        a, b = np.array(g, float), np.array(g2, float)
        a[:3] *= scale
        b[:3] *= scale
        self.g, self.g2 = a, b
        self.Tt = self.Tb @ se3.T_from_taa(a)
        self.Tb2 = se3.T_from_taa(np.array([0.1, 0.2, -0.1, 0.05, 0.1, -0.2]))
        self.Tt2 = self.Tb2 @ se3.T_from_taa(b)
        bj, tj = sp_geometry(name)
        tw = (se3.T_from_taa(b)[:3, :3] @ tj) + se3.T_from_taa(b)[:3, 3:4]
        self._L = np.linalg.norm(tw - bj, axis=0)

    def top(self):
        return self._tm(self.Tt.copy())

    def top2(self):
        return self._tm(self.Tt2.copy())

    def bot2(self):
        return self._tm(self.Tb2.copy())

    def L(self):
        return self._L.copy()


def tm_entries(P):
    """Cases over the pose palette: [(state id, name, fn)] - constructors, conversions, operators of tm and the fsr
    helpers that call kernels."""
    from basic_robotics.general import tm, fsr, Wrench
    poses = P.POSES[::max(1, len(P.POSES) // (40 if P.tier == "thorough" else 14))]
    out = []
    for i, (w, p, T) in enumerate(poses):
        w2, _, _ = poses[(i * 7 + 3) % len(poses)]
        p2 = p + np.array([0.7, -0.4, 0.5]) * (1 + i % 3)       # never coincident with p, never straight above it
        T2 = P.se3.T_from(w2, p2)
        taa = np.concatenate([p, w])
        taa2 = np.concatenate([p2, w2])

        def A():
            return tm(T.copy())

        def B():
            return tm(T2.copy())
        big = _filler((6, 6), 1)
        big[1:5, 1:5] = T
        E = [("tm_from_taa_array", lambda: tm(taa.copy())), ("tm_from_taa_list", lambda: tm(list(taa))),
             ("tm_from_taa_column", lambda: tm(taa.reshape(6, 1).copy())), ("tm_from_taa_strided", lambda: tm(np.repeat(taa, 2)[::2])),
             ("tm_from_taa_int", lambda: tm(np.rint(taa).astype(np.int64))),
             ("tm_from_matrix", lambda: tm(T.copy())), ("tm_from_matrix_F", lambda: tm(np.asfortranarray(T))),
             ("tm_from_matrix_slice", lambda: tm(big[1:5, 1:5])), ("tm_from_matrix_int", lambda: tm(np.rint(T).astype(np.int64))),
             ("tm_from_rot3", lambda: tm(list(w))), ("tm_from_rpy", lambda: tm(list(taa), rpy=True)),
             ("tm_from_quat", lambda: tm(list(p) + [0.5, 0.5, 0.5, 0.5])), ("tm_from_tm", lambda: tm(A())),
             ("sTM", lambda: _ret(A(), lambda t: t.sTM(T2.copy()))), ("sTM_F", lambda: _ret(A(), lambda t: t.sTM(np.asfortranarray(T2)))),
             ("sTM_transpose_view", lambda: _ret(A(), lambda t: t.sTM(T2.T.copy().T))),
             ("sTAA", lambda: _ret(A(), lambda t: t.sTAA(taa2.reshape(6, 1).copy()))), ("sTAA_flat", lambda: _ret(A(), lambda t: t.sTAA(taa2.copy()))),
             ("adjoint", lambda: A().adjoint()), ("exp6", lambda: A().exp6()), ("inv", lambda: A().inv()), ("pinv", lambda: A().pinv()),
             ("T", lambda: A().T()), ("cT", lambda: A().cT()), ("matmul", lambda: A() @ B()), ("matmul_array", lambda: A() @ T2.copy()),
             ("rmatmul_array", lambda: tm.__rmatmul__(B(), T.copy())), ("add", lambda: A() + B()), ("sub", lambda: A() - B()),
             ("mul_scalar", lambda: A() * 0.5), ("truediv", lambda: A() / 2.0), ("floordiv", lambda: A() // B()), ("abs", lambda: abs(A())),
             ("setitem_rot", lambda: _ret(A(), lambda t: t.__setitem__(4, 0.25))), ("setitem_slice", lambda: _ret(A(), lambda t: t.__setitem__(slice(3, 6), np.zeros(3)))),
             ("set", lambda: _ret(A(), lambda t: t.set(1, 0.5))), ("angleMod", lambda: _ret(tm(taa + np.array([0, 0, 0, 0, 0, 7.0])), lambda t: t.angleMod())),
             ("getQuat", lambda: A().getQuat()), ("tripleUnit", lambda: A().tripleUnit()), ("approx", lambda: A().approx(3)),
             ("globalToLocal", lambda: fsr.globalToLocal(A(), B())), ("localToGlobal", lambda: fsr.localToGlobal(A(), B())),
             ("tmInterpMidpoint", lambda: fsr.tmInterpMidpoint(A(), B())), ("tmAvgMidpoint", lambda: fsr.tmAvgMidpoint(A(), B())),
             ("adjustRotationToMidpoint", lambda: fsr.adjustRotationToMidpoint(A(), A(), B())),
             ("adjustRotationToMidpoint_mode1", lambda: fsr.adjustRotationToMidpoint(A(), A(), B(), mode=1)),
             ("lookAt", lambda: fsr.lookAt(A(), B())), ("rotationFromVector", lambda: fsr.rotationFromVector(A(), B())),
             ("mirror", lambda: fsr.mirror(A(), B())), ("planeFromThreePoints", lambda: fsr.planeFromThreePoints(A(), B(), tm())),
             ("planePointsFromTransform", lambda: fsr.planePointsFromTransform(A())),
             ("poseError", lambda: fsr.poseError(A(), B())), ("geometricError", lambda: fsr.geometricError(A(), B())),
             ("distance", lambda: fsr.distance(A(), B())), ("arcDistance", lambda: fsr.arcDistance(A(), B())),
             ("closeLinearGap", lambda: fsr.closeLinearGap(A(), B(), 0.25)), ("closeArcGap", lambda: fsr.closeArcGap(A(), B(), 0.25)),
             ("IKPath", lambda: fsr.IKPath(A(), B(), 3)), ("angleBetween", lambda: fsr.angleBetween(A(), B(), tm())),
             ("makeWrench", lambda: fsr.makeWrench(A(), 2.0, np.array([0.0, 0.0, -9.81]))),
             ("transformWrenchFrame", lambda: fsr.transformWrenchFrame(Wrench(WRENCH6.copy()), A(), B())),
             ("twistToGoal", lambda: fsr.twistToGoal(A(), B())), ("twistFromTransform", lambda: fsr.twistFromTransform(A())),
             ("transformFromTwist", lambda: fsr.transformFromTwist(np.concatenate([w, p]))),
             ("transformFromTwist_column", lambda: fsr.transformFromTwist(np.concatenate([w, p]).reshape(6, 1))),
             ("twistToScrew", lambda: fsr.twistToScrew(np.concatenate([w, p]).reshape(6, 1))),
             ("normalizeTwist", lambda: fsr.normalizeTwist(np.concatenate([w, p]).reshape(6, 1))),
             ("transformByVector", lambda: fsr.transformByVector(A(), p2.copy())), ("getUnitVec", lambda: fsr.getUnitVec(A(), B(), 0.5)),
             ("chainJacobian", lambda: fsr.chainJacobian(np.stack([np.concatenate([w, p]), np.concatenate([w2, p2]), taa], axis=1), np.array([0.3, -0.2, 0.5]))),
             ("wrench_changeFrame", lambda: _ret(Wrench(WRENCH6.copy()), lambda q: q.changeFrame(A(), B()))),
             ("fsr_LocalToGlobal", lambda: fsr.LocalToGlobal(A(), B())), ("fsr_GlobalToLocal", lambda: fsr.GlobalToLocal(A(), B()))]
        for name, fn in E:
            out.append(("p%d" % i, name, fn))
    return out


def _ret(obj, op):
    op(obj)
    return obj


def public_methods(cls):
    return sorted(k for k in dir(cls) if not k.startswith("_") and callable(getattr(cls, k)))


ALSO_COVERS = {"arm": {"getters": ["getScrewList", "getBasePos", "getLinkDimensions", "getGrav"], "restoreOriginalEE": ["restoreOriginalEE", "setArbitraryHome"]},
               "sp": {"getters": ["getLens", "getTopT", "getBottomT", "getCurrentLocalTransform", "getBottomJoints", "getTopJoints", "getEEPos",
                                  "getBasePos", "getGrav"]}}
SETUP_ONLY = {"arm": ["setOrigins", "setMassProperties", "setVisColProperties", "setJointProperties", "initialize", "setNames"],
              "sp": ["setMasses", "setCOG", "setDrawingParameters"]}      # executed while the objects are built, reach no kernel of their own


def covered_methods(kind, table):
    out = set(SETUP_ONLY[kind])
    for name, _, _ in table:
        out.add(name)
        out.add(name.split("_")[0])
        out.update(ALSO_COVERS[kind].get(name, []))
    return out


def _build_arm(an, seed):
    from checks import armlib
    arm, ref = armlib.build(an, seed)
    add_dynamics(arm, ref)
    return arm, ref


def build_object(d, cid, builder):
    """Construction of an arm / platform is itself a case (the constructors call kernels).  Returns the object, or None
    when construction raised in this mode - then only this record exists for the object."""
    box = {}

    def fn():
        box["obj"] = builder()
        return None
    d.call(cid, fn)
    return box.get("obj")


def run_entries(d):
    from checks import armlib
    P = Pal(d.tier, d.seed)
    # --- transforms and helpers
    t0 = time.time()
    if d.mine_entries("tm"):
        for sid, name, fn in tm_entries(P):
            cid = "e|tm|%s|%s|-" % (sid, name)
            if d.want(cid):
                d.call(cid, fn)
        d.t_parts["e.tm"] = round(time.time() - t0, 3)
    # --- arms
    names = armlib.QUICK_ARMS if d.tier != "thorough" else armlib.ALL_ARMS
    table = arm_entries()
    from basic_robotics.kinematics import Arm, SP
    if d.mine_entries("tm"):
        d.emit({"id": "meta|entries", "st": "meta", "arm_table": [n for n, _, _ in table], "sp_table": [n for n, _, _ in sp_entries()],
                "arm_uncovered": [k for k in public_methods(Arm) if k not in covered_methods("arm", table)],
                "sp_uncovered": [k for k in public_methods(SP) if k not in covered_methods("sp", sp_entries())]})
    for an in names:
        t0 = time.time()
        if not d.group_wanted("e|arm:%s|" % an) or not d.mine_entries("arm:" + an):
            continue
        built = build_object(d, "e|arm:%s|*|build|-" % an, lambda: _build_arm(an, d.seed))
        if built is None:           # the constructor raised in this mode: recorded, compare() charges it to every case of the arm
            continue
        pristine, ref = built
        for tk, th in theta_palette(ref, d.tier).items():
            x = ArmX(ref, th)
            for name, idx, fn in table:
                for i in (range(ref.n) if idx else [None]):
                    cid = "e|arm:%s|%s|%s|%s" % (an, tk, name, "-" if i is None else i)
                    if not d.want(cid):
                        continue
                    box = {}

                    def pre():
                        a = copy.deepcopy(pristine)
                        box["a"] = a
                        a.FK(x.th())
                        return a
                    d.call(cid, (lambda a: fn(a, x)) if i is None else (lambda a: fn(a, x, i)), pre=pre, post=lambda: arm_state(box["a"]))
        d.t_parts["e.arm:" + an] = round(time.time() - t0, 3)
    # --- platforms
    goals = SP_GOALS if d.tier == "thorough" else [SP_GOALS[0], SP_GOALS[2], SP_GOALS[7]]
    stable = sp_entries()
    for sn in ("std", "small"):
        for bn in SP_BASES:
            t0 = time.time()
            if not d.group_wanted("e|sp:%s@%s|" % (sn, bn)) or not d.mine_entries("sp:%s@%s" % (sn, bn)):
                continue
            pristine = build_object(d, "e|sp:%s@%s|*|build|-" % (sn, bn), lambda: build_sp(sn, bn))
            if pristine is None:
                continue
            for gi, g in enumerate(goals):
                x = SpX(sn, bn, g, goals[(gi + 1) % len(goals)])
                for name, idx, fn in stable:
                    for i in (range(6) if idx else [None]):
                        cid = "e|sp:%s@%s|g%d|%s|%s" % (sn, bn, gi, name, "-" if i is None else i)
                        if not d.want(cid):
                            continue
                        box = {}

                        def pre():
                            s = copy.deepcopy(pristine)
                            box["s"] = s
                            s.IK(top_plate_pos=x.top(), protect=True)
                            return s
                        d.call(cid, (lambda s: fn(s, x)) if i is None else (lambda s: fn(s, x, i)), pre=pre, post=lambda: sp_state(box["s"]))
            d.t_parts["e.sp:%s@%s" % (sn, bn)] = round(time.time() - t0, 3)


def main(argv=None):
    ap = argparse.ArgumentParser()
    ap.add_argument("--mode", required=True, choices=["jit", "boundscheck", "nojit"])
    ap.add_argument("--out", required=True)
    ap.add_argument("--tier", default="quick")
    ap.add_argument("--seed", type=int, default=0)
    ap.add_argument("--only", nargs="*", default=None)
    ap.add_argument("--part", default="all", choices=["all", "kernels", "entries"])
    ap.add_argument("--shard", default=None, help="i/n: this process handles share i of n of the units")
    a = ap.parse_args(argv)
    here = os.path.dirname(os.path.dirname(os.path.abspath(__file__)))
    if here not in sys.path:
        sys.path.insert(0, here)
    from mc import env
    os.environ["VERIF_NO_JIT_CACHE"] = "1"          # set the environment up first, import the library only once the cache is tolerant
    try:
        env.setup(a.mode)
    finally:
        del os.environ["VERIF_NO_JIT_CACHE"]
    import numba
    if a.mode != "nojit":
        tolerant_jit_cache()
    env._cache_jit()
    want = {"jit": (0, 0), "boundscheck": (1, 0), "nojit": (0, 1)}[a.mode]
    got = (int(bool(numba.config.BOUNDSCHECK)), int(bool(numba.config.DISABLE_JIT)))
    if got != want:
        raise SystemExit("mode %s: numba.config says BOUNDSCHECK=%s DISABLE_JIT=%s" % (a.mode, got[0], got[1]))
    t0 = time.time()
    os.makedirs(os.path.dirname(os.path.abspath(a.out)), exist_ok=True)
    with open(a.out, "w") as out:
        shard = tuple(int(x) for x in a.shard.split("/")) if a.shard else None
        d = Driver(a.mode, a.tier, a.seed, out, a.only, shard)
        d.emit({"id": "meta|start", "st": "meta", "mode": a.mode, "numba": numba.__version__, "cache": os.environ.get("NUMBA_CACHE_DIR"),
                "tree": os.environ.get("VERIF_TREE_SHA")})
        only_e = a.only and all(x.startswith("e|") for x in a.only)
        only_k = a.only and all(x.startswith("k|") for x in a.only)
        if a.part in ("all", "kernels") and not only_e:
            d.kernels()
        t1 = time.time()
        if a.part in ("all", "entries") and not only_k:
            d.entries()
        d.emit({"id": "meta|end", "st": "meta", "cases": d.n, "wall_kernels": round(t1 - t0, 2), "wall_entries": round(time.time() - t1, 2),
                "t_kernels": d.t_parts})
    return 0


if __name__ == "__main__":
    sys.exit(main())
