"""C18 - geometric helper functions satisfy their defining relations (LX, exploration).

Every relation is decided on the COMPLETE product of the palettes below; the real fsr.* / tm / fmr functions are
called for every case and compared with independent NumPy oracles (oracles/se3.py, oracles/helpers_geom.py).

  poses   : 10 fixed poses (none through the world origin, all rotated, |p| <= 10, angle <= pi-1e-3, one exactly at
            each bound) + one seed-generic pose; every ordered pair and triple.  The builder ASSERTS that every
            relative rotation R_j R_i^T and every geodesic midpoint stays >= 1e-3 away from a half turn (the
            library's logarithm is inaccurate within 3e-5 of pi: known finding KF1, not this property's subject).
  steps   : step sizes {0.01, 0.25, 1}; step counts {2, 3, 7, 200}
  spheres : every point count 1..2000 for fiboSphere and unitSphere (quick: every count <= 300, every 17th above)
  angles  : -50..50 in steps of 0.37, +-2*pi*k +- {0, 1e-9} (k <= 7), one seed-generic; as scalars, arrays,
            six-vectors and tm, through fsr.angleMod, tm.angleMod and fmr.AngleMod
  chains  : screw palette^n x joint-angle palette for chainJacobian; polynomial / trigonometric maps x points x
            steps for fsr.numericalJacobian

One function `evaluate(case)` serves the enumeration and the replay, so a replay is the same plain calls.
"""
import itertools
import math

import numpy as np

from mc import lattice
from oracles import helpers_geom as hg
from oracles import se3

MOD = "checks.c18"
PI = math.pi
TWO_PI = 2.0 * math.pi
TOL = 1e-8          # the property's tolerance
TOL_OPT = 1e-5      # where the library's vertical fallback / an optimiser is involved
BAND = 1e-3         # palette rotations and their compositions stay this far from a half turn

STEP_SIZES = [0.01, 0.25, 1.0]
STEP_COUNTS = [2, 3, 7, 200]
UNIT_LENGTHS = [None, 0.25, 3.0]   # None = the default argument (1.0)


# =============================================================================================== palettes
def _axis_angle(axis, angle):
    a = se3.unit(axis) * angle
    return [float(a[0]), float(a[1]), float(a[2])]


def _base_poses():
    P = [
        [1.0, 2.0, 3.0, 0.4, -0.3, 0.5],                                  # generic
        [-2.0, 0.5, 1.5, PI / 2, 0.0, 0.0],                                # quarter turn about x
        [1.5, -2.0, 0.5, 0.0, 0.0, 1.2],                                   # about z
        [1.5, -2.0, 4.0, 0.0, -0.9, 0.2],                                  # vertically above the previous one
        [-3.0, -4.0, 2.0] + _axis_angle([2.0, -1.0, 2.0], 1e-3),            # barely rotated
        [0.2, 0.1, -0.3, 1.0, 1.0, 1.0],                                   # close to the origin
        [6.0, -6.4, -4.8, -0.7, 0.2, 0.4],                                 # |p| = 10 exactly
        [2.0, -1.0, -2.5] + _axis_angle([1.0, -2.0, 3.0], PI - 1e-3),       # rotation angle = pi - 1e-3 exactly
        [-1.0, 3.0, -2.0, 0.0, 2.5, 0.0],                                  # large turn about y
        [4.0, 1.0, -1.0, -2.0, 0.7, 1.1],                                  # generic, angle 2.39
    ]
    return [[float(x) for x in p] for p in P]


def _pose_ok(cand, others, why=None):
    """Conditioning predicates a pose must satisfy against the poses already in the palette."""
    def no(msg):
        if why is not None:
            why.append(msg)
        return False
    T = se3.T_from_taa(cand)
    p = T[:3, 3]
    ang = float(np.linalg.norm(cand[3:6]))
    if not (np.linalg.norm(p) <= 10.0 + 1e-12):
        return no("|p| > 10")
    if not (1e-4 <= ang <= PI - BAND + 1e-12):
        return no("rotation angle %r outside [1e-4, pi-1e-3]" % ang)
    if abs(hg.plane_offset(T)) < 0.05:
        return no("local XY plane passes (nearly) through the world origin")
    for o in others:
        To = se3.T_from_taa(o)
        if np.linalg.norm(To[:3, 3] - p) < 0.3:
            return no("positions too close")
        for A, B in ((T, To), (To, T)):
            rel = se3.rangle(B[:3, :3] @ A[:3, :3].T)
            if rel > PI - BAND:
                return no("relative rotation %.6f within 1e-3 of pi" % rel)
            mid = se3.rangle(hg.geodesic_mid_rotation(A[:3, :3], B[:3, :3]))
            if mid > PI - BAND:
                return no("midpoint rotation %.6f within 1e-3 of pi" % mid)
    return True


def pose_palette(seed):
    """10 fixed poses + one seed-generic pose; asserts the conditioning the property and KF1 require."""
    P = _base_poses()
    for i, c in enumerate(P):
        why = []
        if not _pose_ok(c, P[:i], why):
            raise AssertionError("C18 pose palette member %d violates its conditioning: %s" % (i, why))
    rng = np.random.default_rng(1800 + int(seed))
    for _ in range(2000):
        p = rng.uniform(-5.0, 5.0, 3)
        w = se3.unit(rng.normal(size=3)) * rng.uniform(0.3, 2.8)
        c = [float(x) for x in np.concatenate([p, w])]
        if np.linalg.norm(p) < 0.5:
            continue
        if min(np.hypot(p[0] - o[0], p[1] - o[1]) for o in P) < 0.2:     # never exactly above/below a palette pose
            continue
        if any(hg.collinearity(c[:3], a[:3], b[:3]) < 0.05 for a, b in itertools.combinations(P, 2)):
            continue
        if _pose_ok(c, P):
            P.append(c)
            break
    else:
        raise AssertionError("C18: no seed-generic pose found for seed %r" % seed)
    # final assertion over ALL ordered pairs (what the task demands of the builder)
    for a, b in itertools.permutations(P, 2):
        Ra, Rb = se3.rexp(a[3:6]), se3.rexp(b[3:6])
        assert se3.rangle(Rb @ Ra.T) <= PI - BAND, ("relative rotation in the half-turn band", a, b)
        assert se3.rangle(hg.geodesic_mid_rotation(Ra, Rb)) <= PI - BAND, ("midpoint in the half-turn band", a, b)
    for a in P:
        assert np.linalg.norm(a[:3]) <= 10 + 1e-12 and 1e-4 <= np.linalg.norm(a[3:6]) <= PI - BAND + 1e-12
        assert abs(hg.plane_offset(se3.T_from_taa(a))) >= 0.05
    return P


def angle_palette(seed):
    G = [float(x) for x in (-50.0 + 0.37 * np.arange(0, 271))] + [50.0]
    for k in range(0, 8):
        for s in ((1.0,) if k == 0 else (1.0, -1.0)):
            for e in (0.0, 1e-9, -1e-9):
                G.append(float(s * TWO_PI * k + e))
    rng = np.random.default_rng(1850 + int(seed))
    G.append(float(rng.uniform(-50.0, 50.0)))
    out = []
    for g in G:
        if g not in out:
            out.append(g)
    assert all(abs(g) <= 50.0 + 1e-9 for g in out)
    return out


def sphere_counts(tier):
    if tier == "thorough":
        return list(range(1, 2001))
    return list(range(1, 301)) + [n for n in range(301, 2001) if (n - 301) % 17 == 0] + [2000]


def screw_palette(seed):
    S = [
        hg.screw_from_axis([0, 0, 1], [0, 0, 0]),
        hg.screw_from_axis([0, 1, 0], [0, 0, 0.5]),
        hg.screw_from_axis([1, 0, 0], [0.3, 0.2, 1.0]),
        np.array([0, 0, 0, 0, 0, 1.0]),                                   # prismatic
        hg.screw_from_axis([1, -2, 3], [0.4, -0.1, 0.7]),
        hg.screw_from_axis([0, 0, 1], [1.0, 0.5, 0.0], h=0.2),            # finite pitch
    ]
    rng = np.random.default_rng(1870 + int(seed))
    S.append(hg.screw_from_axis(rng.normal(size=3), rng.uniform(-1, 1, 3)))
    return [[float(x) for x in s] for s in S]


# the repository's own six-joint example chain (tests/test_general_fsr.py)
EXSCREW = [[0, 0, 0, 1, 0, 1], [0, 1, 1, 0, 1, 0], [1, 0, 0, 0, 0, 0],
           [0, -2, -2, 0, -2, 0], [0, 0, 0, 2, 0, 2], [0, 0, 1.5, 0, 3.1, 0]]


# =============================================================================================== case lists
def cases_poses(seed, tier):
    P = pose_palette(seed)
    out = []
    n = len(P)
    # local points added to the pose positions as mirror subjects: on the plane, on the normal, generic
    LOC = [[0.0, 0.0, 0.0], [1.0, 2.0, 0.0], [0.0, 0.0, 1.5], [-0.7, 0.3, -2.0]]
    for i in range(n):
        T = se3.T_from_taa(P[i])
        out.append({"rel": "planeT", "frame": P[i]})
        out.append({"rel": "twistT", "a": P[i]})
        for q in LOC:
            w = hg.from_local(T, q)
            out.append({"rel": "mirror", "frame": P[i], "point": [float(w[0]), float(w[1]), float(w[2]), 0.0, 0.0, 0.0]})
    # pairs that differ by a pure translation (bit-identical rotation vectors), and near-coincident pairs (gap 4e-7)
    for i in range(n):
        a = P[i]
        for shift in ([0.4, -0.3, 0.2], [3e-7, -2e-7, 1e-7]):
            b = [a[0] + shift[0], a[1] + shift[1], a[2] + shift[2]] + list(a[3:])
            out.append({"rel": "twist", "a": a, "b": b})
            out.append({"rel": "arcdist", "a": a, "b": b})
            out.append({"rel": "midpoint", "a": a, "b": b})
            for d in STEP_SIZES:
                out.append({"rel": "lingap", "a": a, "b": b, "delta": d})
    # the deprecated entry points on four pose triples
    for name in sorted(ALIASES):
        for i, j, k in ((0, 1, 2), (3, 5, 7), (8, 2, 4), (6, 9, 1)):
            out.append({"rel": "alias", "name": name, "a": P[i % n], "b": P[j % n], "c": P[k % n]})
    # a frame OBJECT used, re-posed in place through one of the transform's writers, and used again
    for i in range(n):
        for j in range(n):
            if i != j:
                out.append({"rel": "reposed", "a": P[i], "b": P[j], "point": P[(i + j + 1) % n], "how": ("sTM", "setQuat", "sTAA", "slices")[(i + 2 * j) % 4]})
    for i in range(n):
        for j in range(n):
            a, b = P[i], P[j]
            out.append({"rel": "mirror", "frame": a, "point": b})
            out.append({"rel": "midpoint", "a": a, "b": b})
            out.append({"rel": "arcdist", "a": a, "b": b})
            out.append({"rel": "twist", "a": a, "b": b})
            if i != j:
                out.append({"rel": "lookat", "a": a, "b": b})
                for L in UNIT_LENGTHS:
                    out.append({"rel": "unitvec", "a": a, "b": b, "length": L})
            for d in STEP_SIZES:
                out.append({"rel": "lingap", "a": a, "b": b, "delta": d})
                out.append({"rel": "arcgap", "a": a, "b": b, "delta": d})
                out.append({"rel": "arcgap", "a": a[:3] + [0.0, 0.0, 0.0], "b": b, "delta": d})   # un-rotated origin
            for s in STEP_COUNTS:
                out.append({"rel": "ikpath", "a": a, "b": b, "steps": s})
            if (i, j) in ((0, 1), (2, 5), (7, 3)):
                # every step count on three pose pairs (a count derived from a float step is off by one only for some counts)
                for s in range(2, (401 if tier == "thorough" else 201)):
                    if s not in STEP_COUNTS:
                        out.append({"rel": "ikpath", "a": a, "b": b, "steps": s})
            for k in range(n):
                c = P[k]
                for form in ("tm", "vec3", "vec2", "mixed"):
                    out.append({"rel": "metric", "a": a, "b": b, "c": c, "form": form})
                if len({i, j, k}) == 3:
                    for form in ("tm", "vec3"):
                        out.append({"rel": "plane3", "p1": a, "p2": b, "p3": c, "form": form})
    return out


def cases_spheres(seed, tier):
    out = []
    for n in sphere_counts(tier):
        out.append({"rel": "sphere", "kind": "fibo", "n": n})
        out.append({"rel": "sphere", "kind": "unit", "n": n})
    # interleave large and small counts so contiguous shards cost about the same
    return out[0::2] + out[1::2][::-1]


ARRAY_LENGTHS = [1, 2, 3, 4, 5, 7, 8]


def cases_angles(seed, tier):
    G = angle_palette(seed)
    ng = len(G)
    out = []

    def fill(i, k):
        return G[(7 * i + 13 * k + 5) % ng]

    for i, a in enumerate(G):
        for kind in ("float", "np_float", "zero_d", "one_elem"):
            out.append({"rel": "angle", "form": "scalar", "kind": kind, "value": a})
        for n in ARRAY_LENGTHS:
            for pos in range(n):
                v = [fill(i, k) for k in range(n)]
                v[pos] = a
                out.append({"rel": "angle", "form": "array", "fn": "fsr", "shape": "flat", "values": v})
                out.append({"rel": "angle", "form": "array", "fn": "fmr", "shape": "flat", "values": v})
        for pos in range(3):
            v = [fill(i, k + 3) for k in range(3)]
            v[pos] = a
            out.append({"rel": "angle", "form": "array", "fn": "fsr", "shape": "column", "values": v})
        for pos in range(6):
            v = [fill(i, k + 1) for k in range(6)]
            v[pos] = a
            for shape in ("flat", "column"):
                out.append({"rel": "angle", "form": "six", "shape": shape, "values": v})
        for pos in range(3, 6):
            single = [1.0, -2.0, 0.5, 0.0, 0.0, 0.0]
            single[pos] = a
            multi = [1.0, -2.0, 0.5, fill(i, 1), fill(i, 2), fill(i, 3)]
            multi[pos] = a
            for via in ("method", "fsr"):
                out.append({"rel": "angle", "form": "tm", "via": via, "values": single, "single_axis": True})
                out.append({"rel": "angle", "form": "tm", "via": via, "values": multi, "single_axis": False})
    out.append({"rel": "angle", "form": "array", "fn": "fsr", "shape": "flat", "values": list(G)})
    out.append({"rel": "angle", "form": "array", "fn": "fmr", "shape": "flat", "values": list(G)})
    if tier == "thorough":
        for a in G:
            for b in G:
                out.append({"rel": "angle", "form": "array", "fn": "fsr", "shape": "flat", "values": [a, b]})
    return out


THETA = {"quick": [0.3, -1.2, PI / 2], "thorough": [0.0, 0.3, -1.2, PI / 2, 2.5]}
NJ_POINTS = [-1.5, -0.4, 0.7, 1.2]
NJ_DELTAS = [1e-3, 1e-4, 1e-5]


def cases_jacobians(seed, tier):
    S = screw_palette(seed)
    th = THETA[tier]
    out = []
    for n in (1, 2, 3):
        for combo in itertools.product(range(len(S)), repeat=n):
            scr = [[S[c][r] for c in combo] for r in range(6)]
            # the last joint value does not enter the space Jacobian: one value there, the palette everywhere else
            for t in itertools.product(th, repeat=n - 1):
                out.append({"rel": "chainjac", "screws": scr, "theta": list(t) + [0.5]})
    for t6 in ([0.0, 1.0, 2.0, 3.0, 4.0, 5.0], [0.3, -1.2, PI / 2, 2.5, -0.4, 0.9], [0.0] * 6):
        out.append({"rel": "chainjac", "screws": EXSCREW, "theta": t6})
    rng = np.random.default_rng(1890 + int(seed))
    for name in sorted(hg.MAPS):
        n = hg.MAPS[name]["n"]
        pts = list(itertools.product(NJ_POINTS, repeat=n)) + [tuple(float(x) for x in rng.uniform(-1.5, 1.5, n))]
        for x in pts:
            for d in NJ_DELTAS:
                if hg.central_truncation_bound(name, d) <= 1e-9:
                    out.append({"rel": "numjac", "map": name, "x": list(x), "delta": d})
    return out


PARTS = [("poses", cases_poses), ("spheres", cases_spheres), ("angles", cases_angles), ("jacobians", cases_jacobians)]
_CASES = {}


def _cases(part, seed, tier):
    k = (part, seed, tier)
    if k not in _CASES:
        _CASES[k] = dict(PARTS)[part](seed, tier)
    return _CASES[k]


# =============================================================================================== evaluation
class LibRaised(Exception):
    """The library raised on a valid input."""


class BadOutput(Exception):
    """The library returned something of the wrong type / shape."""


class Res:
    def __init__(self):
        self.items = []      # (clause, residual, tolerance, observed, quantities)

    def chk(self, clause, resid, tol, observed=None, quantities=None):
        self.items.append((clause, None if resid is None else float(resid), tol, observed, quantities))

    def fail(self, clause, observed, quantities=None):
        self.items.append((clause, float("inf"), 0.0, observed, quantities))

    def bad(self):
        return [it for it in self.items if not (it[1] is not None and it[1] <= it[2])]


_L = {}


def lib():
    if not _L:
        from basic_robotics.general import tm, fsr, fmr
        _L.update(tm=tm, fsr=fsr, fmr=fmr)
    return _L


def call(fn, *a, **k):
    try:
        return fn(*a, **k)
    except Exception as e:   # a raise on a valid input is a finding, not a harness crash
        raise LibRaised("%s raised %r" % (getattr(fn, "__name__", repr(fn)), e))


def mk(taa):
    return call(lib()["tm"], [float(x) for x in taa])


def out6(t, what):
    TAA = getattr(t, "TAA", None)
    if not (isinstance(TAA, np.ndarray) and TAA.size == 6):
        raise BadOutput("%s: expected a tm, got %r" % (what, type(t).__name__))
    return np.array(TAA, float).reshape(6)


def outT(t, what):
    TM = getattr(t, "TM", None)
    if not (isinstance(TM, np.ndarray) and TM.shape == (4, 4)):
        raise BadOutput("%s: expected a tm with a 4x4 matrix, got %r" % (what, type(t).__name__))
    return np.array(TM, float)


def outv(x, n, what):
    try:
        v = np.array(x, float).reshape(-1)
    except Exception:
        raise BadOutput("%s: not numeric: %r" % (what, type(x).__name__))
    if v.size != n:
        raise BadOutput("%s: expected %d numbers, got shape %r" % (what, n, np.shape(x)))
    return v


def amax(x):
    x = np.abs(np.asarray(x, float))
    if x.size == 0:
        return 0.0
    return float("nan") if np.isnan(x).any() else float(x.max())


def rel_mirror(c, r):
    fsr = lib()["fsr"]
    T = se3.T_from_taa(c["frame"])
    p = np.array(c["point"][:3], float)
    m = call(fsr.mirror, mk(c["frame"]), mk(c["point"]))
    pm = out6(m, "mirror")[:3]
    loc, locm = hg.local_coords(T, p), hg.local_coords(T, pm)
    want = np.array([loc[0], loc[1], -loc[2]])
    r.chk("mirror_local_z_negated", abs(locm[2] - want[2]), TOL, {"local_in": loc, "local_out": locm},
          {"plane_offset": hg.plane_offset(T)})
    r.chk("mirror_local_xy_kept", amax(locm[:2] - want[:2]), TOL, {"local_in": loc, "local_out": locm})
    r.chk("mirror_reflection", amax(pm - hg.reflect_across_frame_xy(T, p)), TOL,
          {"impl": pm, "oracle": hg.reflect_across_frame_xy(T, p)}, {"plane_offset": hg.plane_offset(T)})
    back = out6(call(fsr.mirror, mk(c["frame"]), m), "mirror")[:3]
    r.chk("mirror_involution", amax(back - p), TOL, {"twice": back, "point": p})
    return abs(loc[2]) > 1e-6


def rel_reposed(c, r):
    """History on one frame object: helpers are asked with the frame at pose A, the SAME object is re-posed to B through a
    writer of the transform class, the helpers are asked again and must answer for B."""
    from scipy.spatial.transform import Rotation as Rsc
    fsr = lib()["fsr"]
    A, B = np.array(c["a"], float), np.array(c["b"], float)
    TB = se3.T_from_taa(B)
    p = np.array(c["point"][:3], float)
    F = mk(A)
    call(fsr.mirror, F, mk(c["point"]))
    call(fsr.twistToGoal, F, mk(c["point"]))
    call(fsr.planePointsFromTransform, F)
    call(fsr.arcDistance, F, mk(c["point"]))
    how = c["how"]
    if how == "sTM":
        call(F.sTM, TB.copy())
    elif how == "sTAA":
        call(F.sTAA, B.reshape(6, 1).copy())
    elif how == "setQuat":
        call(F.setQuat, Rsc.from_rotvec(B[3:]).as_quat())
        call(F.__setitem__, slice(0, 3), [float(x) for x in B[:3]])
    else:
        call(F.__setitem__, slice(3, 6), [float(x) for x in B[3:]])
        call(F.__setitem__, slice(0, 3), [float(x) for x in B[:3]])
    pm = out6(call(fsr.mirror, F, mk(c["point"])), "mirror")[:3]
    r.chk("reposed_frame_mirror", amax(pm - hg.reflect_across_frame_xy(TB, p)), TOL, {"impl": pm, "oracle": hg.reflect_across_frame_xy(TB, p)},
          {"pi_minus_angle": PI - se3.rangle(TB[:3, :3])})
    Tg = se3.T_from_taa(c["point"])
    V = outv(call(fsr.twistToGoal, F, mk(c["point"])), 6, "twistToGoal")
    r.chk("reposed_frame_twist", amax(se3.exp6(V) @ TB - Tg), TOL, {"twist": V}, {"pi_minus_angle": PI - se3.rangle(Tg[:3, :3] @ TB[:3, :3].T)})
    d1 = float(np.asarray(call(fsr.arcDistance, F, mk(c["point"])), float).reshape(-1)[0])
    d2 = float(np.asarray(call(fsr.arcDistance, mk(B), mk(c["point"])), float).reshape(-1)[0])
    r.chk("reposed_frame_arcdistance", abs(d1 - d2), TOL, {"reposed": d1, "fresh": d2})
    return True


def rel_midpoint(c, r):
    fsr = lib()["fsr"]
    a, b = np.array(c["a"], float), np.array(c["b"], float)
    Ra, Rb = se3.rexp(a[3:6]), se3.rexp(b[3:6])
    mid = call(fsr.tmInterpMidpoint, mk(a), mk(b))
    t6, TM = out6(mid, "tmInterpMidpoint"), outT(mid, "tmInterpMidpoint")
    pmean = 0.5 * (a[:3] + b[:3])
    r.chk("interp_position", max(amax(t6[:3] - pmean), amax(TM[:3, 3] - pmean)), TOL, {"impl": t6[:3], "mean": pmean})
    Rm = hg.geodesic_mid_rotation(Ra, Rb)
    q = {"relative_angle": se3.rangle(Rb @ Ra.T), "pi_minus_angle": PI - se3.rangle(Rb @ Ra.T)}
    r.chk("interp_rotation", max(amax(TM[:3, :3] - Rm), amax(se3.rexp(t6[3:6]) - Rm)), TOL,
          {"impl_rotvec": t6[3:6], "oracle_rotvec": se3.rlog(Rm),
           "impl_angle_from_a": se3.rangle(TM[:3, :3] @ Ra.T), "half_relative_angle": 0.5 * q["relative_angle"]}, q)
    avg = call(fsr.tmAvgMidpoint, mk(a), mk(b))
    v6 = out6(avg, "tmAvgMidpoint")
    r.chk("avg_position", amax(v6[:3] - pmean), TOL, {"impl": v6[:3], "mean": pmean})
    r.chk("avg_rotvec_mean", amax(v6[3:6] - 0.5 * (a[3:6] + b[3:6])), TOL, {"impl": v6[3:6]})
    return c["a"] != c["b"]


def rel_lookat(c, r):
    fsr = lib()["fsr"]
    pa, pb = np.array(c["a"][:3], float), np.array(c["b"][:3], float)
    vertical = bool(pa[0] == pb[0] and pa[1] == pb[1])     # exactly when the library's fallback fires
    tol = TOL_OPT if vertical else TOL
    res = call(fsr.lookAt, mk(c["a"]), mk(c["b"]))
    TM, t6 = outT(res, "lookAt"), out6(res, "lookAt")
    r.chk("lookat_position", max(amax(TM[:3, 3] - pa), amax(t6[:3] - pa)), TOL, {"impl": TM[:3, 3], "start": pa})
    r.chk("lookat_proper_rotation", hg.so3_defect(TM[:3, :3]), TOL, {"det": float(np.linalg.det(TM[:3, :3])) if np.all(np.isfinite(TM)) else None})
    u = hg.look_direction(pa, pb)
    r.chk("lookat_z_at_target", amax(TM[:3, 2] - u), tol, {"z_axis": TM[:3, 2], "direction": u}, {"vertical": vertical})
    r.chk("lookat_last_row", amax(TM[3] - np.array([0, 0, 0, 1.0])), TOL, None)
    return True


def _pts(c, keys, form):
    if form == "tm":
        return [mk(c[k]) for k in keys]
    if form == "vec3":
        return [np.array(c[k][:3], float) for k in keys]
    if form == "mixed":         # a transform, a plain list of three numbers, a flat 6-array - in one call
        kinds = (lambda k: mk(c[k]), lambda k: [float(x) for x in c[k][:3]], lambda k: np.array(c[k], float))
        return [kinds[i % 3](k) for i, k in enumerate(keys)]
    return [np.array(c[k][:2], float) for k in keys]


def rel_plane3(c, r):
    fsr = lib()["fsr"]
    P = [np.array(c[k][:3], float) for k in ("p1", "p2", "p3")]
    if hg.collinearity(*P) < 1e-3:
        return None
    args = _pts(c, ("p1", "p2", "p3"), c["form"])
    abcd = outv(call(fsr.planeFromThreePoints, *args), 4, "planeFromThreePoints")
    nn = float(np.linalg.norm(abcd[:3]))
    r.chk("plane_normal_nonzero", 0.0 if nn > 1e-9 else 1.0, 0.5, {"abcd": abcd})
    d = [hg.plane_point_distance(abcd[0], abcd[1], abcd[2], abcd[3], p) for p in P]
    r.chk("plane_contains_points", amax(d), TOL, {"abcd": abcd, "distances": d})
    return True


def rel_planeT(c, r):
    fsr = lib()["fsr"]
    T = se3.T_from_taa(c["frame"])
    got = call(fsr.planePointsFromTransform, mk(c["frame"]))
    if not (isinstance(got, (tuple, list)) and len(got) == 3):
        raise BadOutput("planePointsFromTransform: expected three points")
    loc = [hg.local_coords(T, out6(g, "planePointsFromTransform")[:3]) for g in got]
    want = [np.zeros(3), np.array([1.0, 0, 0]), np.array([0, 1.0, 0])]
    r.chk("plane_points_unit_basis", max(amax(l - w) for l, w in zip(loc, want)), TOL, {"local": loc})
    abcd = outv(call(fsr.planeFromThreePoints, *got), 4, "planeFromThreePoints")
    probes = [hg.from_local(T, q) for q in ([0, 0, 0], [2.0, -3.0, 0.0], [-1.0, 0.5, 0.0])]
    d = [hg.plane_point_distance(abcd[0], abcd[1], abcd[2], abcd[3], p) for p in probes]
    r.chk("plane_of_frame_is_local_xy", amax(d), TOL, {"abcd": abcd, "distances": d})
    off = hg.plane_point_distance(abcd[0], abcd[1], abcd[2], abcd[3], hg.from_local(T, [0.3, 0.2, 1.0]))
    r.chk("plane_of_frame_excludes_offset_point", abs(abs(off) - 1.0), TOL, {"distance": off})
    return True


def rel_metric(c, r):
    fsr = lib()["fsr"]
    form = c["form"]
    dim = 2 if form == "vec2" else 3
    A, B, C = _pts(c, ("a", "b", "c"), form)
    pa, pb, pc = (np.array(c[k][:dim], float) for k in ("a", "b", "c"))
    d = lambda x, y: float(outv(call(fsr.distance, x, y), 1, "distance")[0])
    dab, dba, dbc, dac, daa = d(A, B), d(B, A), d(B, C), d(A, C), d(A, A)
    r.chk("distance_value", max(abs(dab - np.linalg.norm(pa - pb)), abs(dbc - np.linalg.norm(pb - pc)),
                                abs(dac - np.linalg.norm(pa - pc))), TOL, {"ab": dab, "bc": dbc, "ac": dac})
    r.chk("distance_symmetry", abs(dab - dba), TOL, {"ab": dab, "ba": dba})
    r.chk("distance_identity", abs(daa), TOL, {"aa": daa})
    if np.linalg.norm(pa - pb) > 1e-6:
        r.chk("distance_positive", 0.0 if dab > 0 else 1.0, 0.5, {"ab": dab})
    r.chk("distance_triangle", max(0.0, dac - (dab + dbc)) if np.isfinite(dac + dab + dbc) else float("nan"), TOL,
          {"ac": dac, "ab": dab, "bc": dbc})
    return c["a"] != c["b"] and c["b"] != c["c"] and c["a"] != c["c"]


def rel_arcdist(c, r):
    fsr = lib()["fsr"]
    Ta, Tb = se3.T_from_taa(c["a"]), se3.T_from_taa(c["b"])
    got = float(outv(call(fsr.arcDistance, mk(c["a"]), mk(c["b"])), 1, "arcDistance")[0])
    want = hg.arc_norm(Ta, Tb)
    r.chk("arcdistance_is_norm_of_relative_pose", abs(got - want), TOL, {"impl": got, "oracle": want,
          "relative_pose": hg.rel_pose_vector(Ta, Tb)}, {"pi_minus_angle": PI - se3.rangle(Ta[:3, :3].T @ Tb[:3, :3])})
    return c["a"] != c["b"]


def rel_lingap(c, r):
    fsr = lib()["fsr"]
    a, b, dl = np.array(c["a"], float), np.array(c["b"], float), float(c["delta"])
    new = out6(call(fsr.closeLinearGap, mk(a), mk(b), dl), "closeLinearGap")
    gap = float(np.linalg.norm(b - a))
    if gap == 0.0:
        r.chk("lingap_at_goal_stays", amax(new - b), TOL, {"impl": new})
        return False
    u = (b - a) / gap
    r.chk("lingap_step_length", abs(np.linalg.norm(new - a) - dl), TOL, {"step": float(np.linalg.norm(new - a)), "delta": dl})
    r.chk("lingap_remaining_reduced", abs(np.linalg.norm(b - new) - abs(gap - dl)), TOL,
          {"remaining": float(np.linalg.norm(b - new)), "gap": gap, "delta": dl})
    r.chk("lingap_toward_goal", amax(new - (a + dl * u)), TOL, {"impl": new, "oracle": a + dl * u})
    return True


def rel_arcgap(c, r):
    fsr = lib()["fsr"]
    a, b, dl = np.array(c["a"], float), np.array(c["b"], float), float(c["delta"])
    Ta, Tb = se3.T_from_taa(a), se3.T_from_taa(b)
    res = call(fsr.closeArcGap, mk(a), mk(b), dl)
    Tx = outT(res, "closeArcGap")
    if float(np.linalg.norm(b - a)) == 0.0:
        r.chk("arcgap_at_goal_stays", amax(Tx - Tb), TOL, None)
        return False
    r.chk("arcgap_proper_pose", max(hg.so3_defect(Tx[:3, :3]), amax(Tx[3] - np.array([0, 0, 0, 1.0]))), TOL, None)
    step = hg.arc_norm(Ta, Tx)
    r.chk("arcgap_step_length", abs(step - dl), TOL, {"step": step, "delta": dl})
    if not np.any(a[3:6]):
        # direction is claimed for un-rotated origins only (the repository's own test pins the local-frame
        # behaviour for rotated ones)
        N = hg.arc_norm(Ta, Tb)
        rem = hg.arc_norm(Tx, Tb)
        r.chk("arcgap_remaining_reduced", abs(rem - abs(N - dl)), TOL, {"remaining": rem, "gap": N, "delta": dl})
    return True


def rel_ikpath(c, r):
    fsr = lib()["fsr"]
    a, b, n = np.array(c["a"], float), np.array(c["b"], float), int(c["steps"])
    path = call(fsr.IKPath, mk(a), mk(b), n)
    if not isinstance(path, (list, tuple)):
        raise BadOutput("IKPath: expected a list")
    r.chk("ikpath_count", abs(len(path) - n), 0.0, {"len": len(path), "steps": n})
    if len(path) < 2:
        return True
    Pm = np.array([out6(p, "IKPath element") for p in path])
    r.chk("ikpath_endpoints", max(amax(Pm[0] - a), amax(Pm[-1] - b)), TOL, {"first": Pm[0], "last": Pm[-1]})
    dif = np.diff(Pm, axis=0)
    r.chk("ikpath_evenly_spaced", amax(dif - dif.mean(axis=0)), TOL, {"first_step": dif[0], "last_step": dif[-1]})
    if len(path) == n:
        r.chk("ikpath_straight_line", amax(Pm - (a + np.outer(np.arange(n) / (n - 1.0), b - a))), TOL, None)
    return c["a"] != c["b"]


def rel_twist(c, r):
    fsr = lib()["fsr"]
    Ta, Tb = se3.T_from_taa(c["a"]), se3.T_from_taa(c["b"])
    V = outv(call(fsr.twistToGoal, mk(c["a"]), mk(c["b"])), 6, "twistToGoal")
    q = {"pi_minus_angle": PI - se3.rangle(Tb[:3, :3] @ Ta[:3, :3].T)}
    r.chk("twist_to_goal_exponentiates_onto_goal", amax(se3.exp6(V) @ Ta - Tb), TOL,
          {"twist": V, "oracle_twist": se3.log6(Tb @ se3.tinv(Ta))}, q)
    return c["a"] != c["b"]


def rel_twistT(c, r):
    fsr = lib()["fsr"]
    Ta = se3.T_from_taa(c["a"])
    V = outv(call(fsr.twistFromTransform, mk(c["a"])), 6, "twistFromTransform")
    r.chk("twist_from_transform_exponentiates", amax(se3.exp6(V) - Ta), TOL, {"twist": V, "oracle_twist": se3.log6(Ta)})
    back = outT(call(fsr.transformFromTwist, np.array(V)), "transformFromTwist")
    r.chk("transform_from_twist_is_exp", amax(back - se3.exp6(V)), TOL, None)
    return True


def rel_unitvec(c, r):
    fsr = lib()["fsr"]
    pa, pb = np.array(c["a"][:3], float), np.array(c["b"][:3], float)
    L = c["length"]
    if L is None:
        res = call(fsr.getUnitVec, mk(c["a"]), mk(c["b"]))
        res2 = call(fsr.getUnitVec, mk(c["a"]), mk(c["b"]), return_dist=True)
        L = 1.0
    else:
        res = call(fsr.getUnitVec, mk(c["a"]), mk(c["b"]), L)
        res2 = call(fsr.getUnitVec, mk(c["a"]), mk(c["b"]), L, True)
    if not (isinstance(res2, tuple) and len(res2) == 2):
        raise BadOutput("getUnitVec(return_dist=True): expected (tm, distance)")
    v = out6(res, "getUnitVec")[:3] - pa
    u = hg.look_direction(pa, pb)
    r.chk("unitvec_length", abs(np.linalg.norm(v) - L), TOL, {"norm": float(np.linalg.norm(v)), "length": L})
    r.chk("unitvec_direction", amax(v - L * u), TOL, {"impl": v, "oracle": L * u})
    r.chk("unitvec_same_with_distance", amax(out6(res2[0], "getUnitVec") - out6(res, "getUnitVec")), TOL, None)
    r.chk("unitvec_true_distance", abs(float(outv(res2[1], 1, "getUnitVec distance")[0]) - np.linalg.norm(pb - pa)), TOL, {"impl": res2[1]})
    return True


def rel_sphere(c, r):
    fsr = lib()["fsr"]
    n = int(c["n"])
    if c["kind"] == "fibo":
        pts = call(fsr.fiboSphere, n)
    else:
        pts = call(fsr.unitSphere, n)
    pts = np.asarray(pts)
    if not (pts.ndim == 2 and pts.shape[1] == 3 and pts.shape[0] >= 1 and pts.dtype.kind == "f"):
        raise BadOutput("%sSphere(%d): expected a (k,3) float array, got %r" % (c["kind"], n, pts.shape))
    nr = np.linalg.norm(pts, axis=1)
    i = int(np.argmax(np.abs(nr - 1.0))) if np.all(np.isfinite(nr)) else int(np.argmax(~np.isfinite(nr)))
    r.chk("sphere_%s_unit_norm" % c["kind"], amax(nr - 1.0), TOL, {"worst_index": i, "point": pts[i], "norm": float(nr[i])})
    if c["kind"] == "fibo":
        r.chk("sphere_fibo_count", abs(pts.shape[0] - n), 0.0, {"len": int(pts.shape[0])})
    else:
        both = call(fsr.unitSphere, n, True)
        if not (isinstance(both, tuple) and len(both) == 2):
            raise BadOutput("unitSphere(return_azel=True): expected (points, azel)")
        p2 = np.asarray(both[0], float)
        same = p2.shape == pts.shape and amax(p2 - pts) <= TOL
        r.chk("sphere_unit_azel_consistent", 0.0 if (same and len(both[1]) == pts.shape[0]) else 1.0, 0.5,
              {"points": list(p2.shape), "azel": len(both[1])})
    # the caller scales and shifts what it was handed, in place; the next call with the same count (and with a neighbouring
    # one) still hands out unit vectors
    fn = fsr.fiboSphere if c["kind"] == "fibo" else fsr.unitSphere
    first = call(fn, n)
    keep = np.array(first, float).copy()
    if isinstance(first, np.ndarray) and first.flags.writeable:
        first *= 3.0
        first += 0.5
    for m in (n, n + 1):
        again = np.asarray(call(fn, m), float)
        if again.ndim == 2 and again.shape[1] == 3 and again.shape[0] >= 1:
            r.chk("sphere_%s_unit_norm_after_caller_scaled_result" % c["kind"], amax(np.linalg.norm(again, axis=1) - 1.0), TOL,
                  {"asked": m, "scaled_call": n})
            if m == n:
                r.chk("sphere_%s_unit_norm_after_caller_scaled_result" % c["kind"],
                      amax(again - keep) if again.shape == keep.shape else float("inf"), TOL, {"asked": m, "what": "same points as before"})
    return True


def _wrap_clauses(r, tag, out, inp, observed):
    out = np.asarray(out, float).reshape(-1)
    inp = np.asarray(inp, float).reshape(-1)
    if out.shape != inp.shape:
        raise BadOutput("%s: output has %d entries for %d inputs" % (tag, out.size, inp.size))
    i = int(np.argmax(np.abs((out - inp) - TWO_PI * np.round((out - inp) / TWO_PI)))) if np.all(np.isfinite(out)) else 0
    obs = dict(observed, worst_in=float(inp[i]), worst_out=float(out[i]))
    r.chk(tag + "_mod_2pi", hg.wrap_residual(out, inp), TOL, obs)
    r.chk(tag + "_within_2pi", max(0.0, amax(out) - TWO_PI) if np.all(np.isfinite(out)) else float("nan"), TOL, obs)


def rel_angle(c, r):
    L = lib()
    fsr, fmr, tm = L["fsr"], L["fmr"], L["tm"]
    form = c["form"]
    if form == "scalar":
        a = float(c["value"])
        arg = {"float": a, "np_float": np.float64(a), "zero_d": np.array(a), "one_elem": np.array([a])}[c["kind"]]
        got = call(fsr.angleMod, arg)
        _wrap_clauses(r, "anglemod_scalar", outv(got, 1, "angleMod"), [a], {"kind": c["kind"]})
        return abs(a) > TWO_PI
    v = np.array(c["values"], float)
    if form == "array":
        arg = v.copy() if c["shape"] == "flat" else v.copy().reshape(-1, 1)
        fn = fsr.angleMod if c["fn"] == "fsr" else fmr.AngleMod
        got = call(fn, arg)
        _wrap_clauses(r, "anglemod_array" if c["fn"] == "fsr" else "fmr_anglemod", outv(got, v.size, "angleMod"), v, {})
        return bool(np.any(np.abs(v) > TWO_PI))
    if form == "six":
        arg = v.copy() if c["shape"] == "flat" else v.copy().reshape(6, 1)
        got = outv(call(fsr.angleMod, arg), 6, "angleMod")
        r.chk("anglemod_six_position_untouched", amax(got[:3] - v[:3]), 0.0, {"impl": got[:3]})
        _wrap_clauses(r, "anglemod_six", got[3:], v[3:], {})
        return bool(np.any(np.abs(v[3:]) > TWO_PI))
    if form == "tm":
        t = mk(v)
        before = outT(t, "tm")
        if c["via"] == "method":
            call(t.angleMod)
            res = t
        else:
            res = call(fsr.angleMod, t)
        t6, TM = out6(res, "angleMod(tm)"), outT(res, "angleMod(tm)")
        tag = "tm_anglemod" if c["via"] == "method" else "anglemod_tm"
        r.chk(tag + "_position_untouched", amax(t6[:3] - v[:3]), 0.0, {"impl": t6[:3]})
        _wrap_clauses(r, tag, t6[3:], v[3:], {})
        r.chk(tag + "_matrix_follows_vector", amax(TM - se3.T_from_taa(t6)), TOL, None)
        if c["single_axis"]:
            r.chk(tag + "_rotation_preserved", amax(TM - before), TOL, {"angle_in": v[3:], "angle_out": t6[3:]})
        return bool(np.any(np.abs(v[3:]) > TWO_PI))
    raise ValueError("unknown angle form %r" % form)


def rel_chainjac(c, r):
    fsr = lib()["fsr"]
    S = np.array(c["screws"], float)
    th = np.array(c["theta"], float)
    J = np.asarray(call(fsr.chainJacobian, S.copy(), th.copy()), float)
    if J.shape != (6, th.size):
        raise BadOutput("chainJacobian: shape %r for %d joints" % (J.shape, th.size))
    want = hg.space_jacobian(S, th)
    i = np.unravel_index(int(np.argmax(np.abs(J - want))), J.shape) if np.all(np.isfinite(J)) else (0, 0)
    r.chk("chain_jacobian_equals_analytic", amax(J - want), TOL,
          {"entry": [int(i[0]), int(i[1])], "impl": float(J[i]), "oracle": float(want[i])})
    return th.size >= 2 and bool(np.any(th[:-1] != 0))


def rel_numjac(c, r):
    fsr = lib()["fsr"]
    m = hg.MAPS[c["map"]]
    x = np.array(c["x"], float)
    d = float(c["delta"])
    seen = []

    def f(z):
        seen.append(np.array(z, float))
        return m["f"](z)

    J = np.asarray(call(fsr.numericalJacobian, f, x.copy(), d), float)
    if J.size != m["m"] * m["n"]:
        raise BadOutput("numericalJacobian: %r for a map R^%d -> R^%d" % (J.shape, m["n"], m["m"]))
    if m["n"] > 1 and J.shape != (m["m"], m["n"]):
        raise BadOutput("numericalJacobian: shape %r for a map R^%d -> R^%d" % (J.shape, m["n"], m["m"]))
    J = J.reshape(m["m"], m["n"])
    want = m["J"](x)
    r.chk("numerical_jacobian_equals_analytic", amax(J - want), TOL, {"impl": J, "analytic": want},
          {"truncation_bound": hg.central_truncation_bound(c["map"], d)})
    r.chk("numerical_jacobian_resets_state", amax(seen[-1] - x) if seen else float("nan"), 0.0, None)
    return True


# the deprecated entry points of the same helpers: each is documented as "use <modern name> instead" and must answer as that one
ALIASES = {"Mirror": ("mirror", 2), "TMMidPointEx": ("tmAvgMidpoint", 2), "TMMidPoint": ("tmInterpMidpoint", 2), "lookat": ("lookAt", 2),
           "Distance": ("distance", 2), "ArcDistance": ("arcDistance", 2), "Error": ("poseError", 2), "GeometricError": ("geometricError", 2),
           "LocalToGlobal": ("localToGlobal", 2), "GlobalToLocal": ("globalToLocal", 2),
           "CloseGap": ("closeLinearGap", "2d"), "ArcGap": ("closeArcGap", "2d"), "PlaneFrom3Tms": ("planeFromThreePoints", 3),
           "PlaneTMSFromOne": ("planePointsFromTransform", 1), "TwistFromTransform": ("twistFromTransform", 1)}


def _num(x):
    """Any helper result as a flat float vector (transforms by their matrix, tuples/lists element-wise)."""
    if hasattr(x, "TM") and isinstance(getattr(x, "TM"), np.ndarray):
        return np.array(x.TM, float).reshape(-1)
    if isinstance(x, (list, tuple)):
        return np.concatenate([_num(y) for y in x]) if len(x) else np.zeros(0)
    if hasattr(x, "data") and isinstance(getattr(x, "data"), np.ndarray):
        return np.array(x.data, float).reshape(-1)
    return np.array(x, float).reshape(-1)


def rel_alias(c, r):
    import contextlib
    import io
    fsr = lib()["fsr"]
    modern, kind = ALIASES[c["name"]]
    old_fn, new_fn = getattr(fsr, c["name"], None), getattr(fsr, modern, None)
    if old_fn is None or new_fn is None:
        return None                         # the entry point does not exist (any more): nothing to compare
    poses = [c["a"], c["b"], c["c"]]

    def args():
        if kind == "2d":
            return [mk(poses[0]), mk(poses[1]), 0.25]
        return [mk(q) for q in poses[:kind]]
    with contextlib.redirect_stdout(io.StringIO()), contextlib.redirect_stderr(io.StringIO()):   # (they print a deprecation notice)
        got = call(old_fn, *args())
    want = call(new_fn, *args())
    g, w = _num(got), _num(want)
    r.chk("deprecated_entry_point_differs", amax(g - w) if g.shape == w.shape else float("inf"), 1e-12,
          {"entry_point": c["name"], "documented_replacement": modern})
    return True


RELS = {"alias": rel_alias, "reposed": rel_reposed, "mirror": rel_mirror, "midpoint": rel_midpoint, "lookat": rel_lookat, "plane3": rel_plane3, "planeT": rel_planeT,
        "metric": rel_metric, "arcdist": rel_arcdist, "lingap": rel_lingap, "arcgap": rel_arcgap, "ikpath": rel_ikpath,
        "twist": rel_twist, "twistT": rel_twistT, "unitvec": rel_unitvec, "sphere": rel_sphere, "angle": rel_angle,
        "chainjac": rel_chainjac, "numjac": rel_numjac}


def evaluate(case):
    """-> (Res, nontrivial|None).  None = case outside the quantifier (skipped)."""
    r = Res()
    try:
        nt = RELS[case["rel"]](case, r)
    except LibRaised as e:
        r.fail("raised", str(e))
        nt = True
    except BadOutput as e:
        r.fail("bad_output", str(e))
        nt = True
    return r, nt


# =============================================================================================== engine glue
def work(p):
    cases = _cases(p["part"], p["seed"], p["tier"])
    acc = lattice.Acc(max_viol=60)
    for idx in range(p["lo"], p["hi"]):
        c = cases[idx]
        r, nt = evaluate(c)
        if nt is None:
            acc.skip("outside_quantifier_" + c["rel"])
            continue
        acc.case(key=lattice.hash_key(c), nontrivial=bool(nt))
        acc.outcome(c["rel"])
        for clause, resid, tol, obs, q in r.items:
            if resid is not None and np.isfinite(resid):
                acc.resid(clause, resid)
        for clause, resid, tol, obs, q in r.bad():
            acc.violation(clause, c, {"residual": resid, "detail": obs}, tol, q)
        if idx % 997 == 0:
            acc.sample({"case": c, "clauses": [it[0] for it in r.items], "worst": max([it[1] for it in r.items if it[1] is not None] or [0.0])})
    return acc.result()


def _round_robin(viols):
    """Order violations so that every clause shows up among the first few replays written out."""
    by, order = {}, []
    for v in viols:
        k = v["clause"]
        if k not in by:
            by[k] = []
            order.append(k)
        by[k].append(v)
    out = []
    i = 0
    while any(by[k] for k in order):
        for k in order:
            if i < len(by[k]):
                out.append(by[k][i])
        i += 1
        if i > max(len(by[k]) for k in order):
            break
    return out


RULE = ("complete product per relation: ordered pairs and triples of an 11-pose palette (10 fixed poses not through the "
        "origin, rotated, |p|<=10, angle<=pi-1e-3 with one member on each bound, + 1 seed-generic; relative and midpoint "
        "rotations asserted >=1e-3 from a half turn) x step sizes {0.01,0.25,1} x step counts {2,3,7,200} x unit lengths "
        "{default,0.25,3}; mirror subjects = pose positions + 4 local points per frame; closeArcGap direction claimed for "
        "un-rotated origins only; sphere samplers for %s; angle palette -50..50 step 0.37 and +-2*pi*k+-{0,1e-9} (k<=7) "
        "+1 seed-generic, as scalars (4 kinds), arrays of length 1-5,7,8 at every position (fsr.angleMod and fmr.AngleMod), "
        "columns, six-vectors, tm via tm.angleMod and fsr.angleMod%s; chainJacobian on screw-palette^n (n<=3, 7 screws) x "
        "joint palette of %d values + the repository's 6-joint chain; fsr.numericalJacobian on 5 polynomial/trigonometric "
        "maps x 4^n points (+1 seed-generic) x steps whose central-difference truncation bound is <=1e-9.  "
        "distinct = hashed case descriptions; non-trivial = distinct poses / point off the mirror plane / some |angle| > "
        "2*pi / chain with a non-zero joint value before the last column.  Tolerance 1e-8 (1e-5 for lookAt on exactly "
        "vertical pairs, where the library's fallback perturbs the target by 1e-5).")


def run(ctx):
    parts = []
    sizes = {name: len(fn(ctx.seed, ctx.tier)) for name, fn in PARTS}
    total = sum(sizes.values())
    workers = min(ctx.workers, 16 if ctx.tier == "thorough" else 8)
    with ctx.pool(workers) as pool:
        for name, _ in PARTS:
            m = lattice.run(ctx, pool, MOD, "work", sizes[name], extra={"part": name},
                            nshards=max(1, min(sizes[name], pool.workers * 4)), part=name)
            parts.append((name, m))
    quick = ctx.tier != "thorough"
    rule = RULE % ("every count 1..300 and every 17th count above up to 2000 (quick tier)" if quick else "EVERY count 1..2000",
                   "" if quick else "; all ordered pairs of palette angles as 2-arrays", len(THETA[ctx.tier]))
    lattice.fill(ctx, parts, rule,
                 {"poses": len(pose_palette(ctx.seed)), "angles": len(angle_palette(ctx.seed)),
                  "sphere_counts": len(sphere_counts(ctx.tier)), "screws": len(screw_palette(ctx.seed)),
                  "step_sizes": STEP_SIZES, "step_counts": STEP_COUNTS, "cases": sizes, "total_cases": total})
    ctx.violations[:] = _round_robin(ctx.violations)
    ctx.assumptions += [
        "poses are compared through their 4x4 matrices wherever the library returns one, so the accuracy of the "
        "library's logarithm (KF1) enters only where the function under test itself takes a logarithm",
        "closeArcGap: 'remaining distance reduced by delta' is claimed for un-rotated origins only; for rotated origins "
        "only the step length (arc distance origin -> result = delta) is claimed",
        "angle wrapping of a tm is claimed per rotation-vector component (plus: the rotation itself is preserved when "
        "only one component is non-zero)",
        "lookAt is not claimed for coinciding positions; planeFromThreePoints only for non-collinear points",
    ]


def replay(rec):
    r, _ = evaluate(rec["case"])
    return [{"clause": cl, "residual": resid, "tolerance": tol, "observed": obs}
            for cl, resid, tol, obs, q in r.bad() if cl == rec["clause"]]
