"""C17 - compiled kernels never index out of bounds and match their interpreted source (LX x 3 execution modes).

checks/c17_driver.py enumerates (i) every @jit function of the two JIT modules over its input lattice x array layouts
and (ii) every public tm / fsr / Arm / SP operation that reaches a kernel, for every link / joint / leg index.  The SAME
enumeration is executed in fresh processes under three execution modes

    jit          normal compiled execution                       (mc.env.setup("jit"))
    boundscheck  compiled with NUMBA_BOUNDSCHECK=1               (own cache directory)
    nojit        NUMBA_DISABLE_JIT=1: the same source run by the interpreter, which also checks every index

and the per-case digests are compared here:

    index_error_under_boundscheck  the normal mode returned, the bounds-checked one raised (IndexError or anything else)
    interpreter_raises             the normal mode returned, the interpreter raised
    value_differs                  results differ by more than 1e-12 relative (jit/boundscheck, jit/nojit), compared only
                                   where the COMPILED kernel accepted the arguments
    compiled_raises                the compiled modes raise something other than a type rejection where the interpreter returns
    modes_disagree                 the two compiled modes disagree on acceptance / exception class
    driver_died                    a mode's process died (e.g. a stray write corrupting memory) - names the case it died in

A layout that the compiled kernel rejects on its argument TYPES (TypeError from an explicit signature, Numba typing
error) is counted as `rejected`, not failed.  An exception of the same class in all three modes is outside this
property (counted per entry point under `same_exception_all_modes`).
"""
import json
import os
import shutil
import subprocess
import sys
import time

from mc import env
from mc.pool import HarnessError

MOD = "checks.c17"
MODES = ("jit", "boundscheck", "nojit")
REL = 1e-12
# Entry points that run an iterative solver to a stopping tolerance of 1e-4 .. 1e-5 (clamped Newton iterations with scripted
# restarts inside the kernels named here, or SciPy root finding / adaptive integration around kernels): the compiled and
# the interpreted run differ in the last bits of libm / NumPy elementary functions (measured <= 5e-15 on every non-iterative
# case) and the iteration amplifies that without bound - observed 1e-10 on most arms, 2e-6 through scipy.optimize.root and a
# different joint-space solution (after a restart) for the UR5.  Between the compiled and the interpreted mode the VALUES of
# such entry points are therefore not compared (their exceptions are); the residual is kept in the evidence.  The two
# COMPILED modes are compared to REL everywhere, and the solver kernels themselves are compared to REL on the
# well-conditioned chains of part (i).
# Direct calls of the four iterative kernels (part (i), well-conditioned chains, reachable goals) agree between the compiled
# and the interpreted mode to 2e-12 at worst (thorough tier); they are compared to SOLVER_KERNEL_REL = 1e-9, three orders
# above that noise and four below the loosest stopping tolerance they are given.
SOLVER_KERNEL_REL = 1e-9
SOLVER_KERNELS = {"IKinSpace", "IKinBody", "IKinSpaceConstrained", "SPFKinSpaceR"}
SOLVER_ENTRIES = {"arm.IKFree", "arm.integrateForwardDynamics"}
PY = sys.executable
SCRUB = ("VERIF_ENV_READY", "NUMBA_BOUNDSCHECK", "NUMBA_DISABLE_JIT", "NUMBA_CACHE_DIR", "VERIF_TREE_SHA")
TYPE_REJECTIONS = ("TypeError",)


# ----------------------------------------------------------------------------------------------------------------
# running the driver

def _child_env():
    e = dict(os.environ)
    for k in SCRUB:
        e.pop(k, None)
    e["VERIF_REPO"] = env.REPO
    return e


def spawn(mode, out, tier, seed, only=None, shard=None):
    cmd = [PY, "-m", "checks.c17_driver", "--mode", mode, "--out", out, "--tier", tier, "--seed", str(seed)]
    if shard:
        cmd += ["--shard", "%d/%d" % shard]
    if only:
        cmd += ["--only"] + list(only)
    return subprocess.Popen(cmd, cwd=env.VERIF, env=_child_env(), stdout=subprocess.PIPE, stderr=subprocess.STDOUT, text=True)


def run_modes(workdir, tier, seed, only=None, modes=MODES, shards=1, timeout=3000, log=None):
    """Three modes concurrently, each in fresh process(es).  {mode: {"files": [...], "rc": [...], "tail": [...], "wall": s}}"""
    os.makedirs(workdir, exist_ok=True)
    procs = []
    t0 = time.time()
    for m in modes:
        ns = 1 if only else (shards if m != "nojit" else max(1, shards // 2))
        for i in range(ns):
            out = os.path.join(workdir, "%s.%d.jsonl" % (m, i))
            procs.append((m, out, spawn(m, out, tier, seed, only, (i, ns) if ns > 1 else None)))
    res = {m: {"files": [], "rc": [], "tail": [], "wall": 0.0} for m in modes}
    for m, out, p in procs:
        try:
            so, _ = p.communicate(timeout=max(1.0, timeout - (time.time() - t0)))
        except subprocess.TimeoutExpired:
            p.kill()
            so, _ = p.communicate()
            so = (so or "") + "\n<killed after the wall-clock guard>"
        res[m]["files"].append(out)
        res[m]["rc"].append(p.returncode)
        res[m]["tail"].append((so or "")[-1500:])
        res[m]["wall"] = max(res[m]["wall"], round(time.time() - t0, 2))
        if log:
            log("mode %s shard %s finished rc=%s after %.1fs" % (m, os.path.basename(out), p.returncode, time.time() - t0))
    return res


def load(files):
    """(ordered {case id: record}, [meta records]); a torn last line (process died) is dropped."""
    recs, metas = {}, []
    for f in files:
        if not os.path.exists(f):
            continue
        with open(f) as fh:
            for line in fh:
                try:
                    r = json.loads(line)
                except ValueError:
                    continue
                if r.get("st") == "meta":
                    metas.append(r)
                else:
                    recs[r["id"]] = r
    return recs, metas


# ----------------------------------------------------------------------------------------------------------------
# comparison (pure; exercised by selftest/st_c17.py)

def _num(x):
    if isinstance(x, str):
        return {"nan": float("nan"), "inf": float("inf"), "-inf": float("-inf")}[x]
    return float(x)


def values_differ(a, b, rel=REL):
    """None when two digests agree, otherwise a description.  Same structure; every number equal to rel * max(1,|x|)
    (NaN equals NaN, infinities equal themselves)."""
    if a["sig"] != b["sig"]:
        return {"what": "structure", "a": a["sig"][:200], "b": b["sig"][:200]}
    va, vb = a["v"], b["v"]
    if len(va) != len(vb):
        return {"what": "length", "a": len(va), "b": len(vb)}
    worst, at = 0.0, None
    for i, (x, y) in enumerate(zip(va, vb)):
        if x == y:
            continue
        x, y = _num(x), _num(y)
        if x != x and y != y:
            continue
        if x != x or y != y or abs(x) == float("inf") or abs(y) == float("inf"):
            return {"what": "non-finite", "index": i, "a": repr(x), "b": repr(y)}
        r = abs(x - y) / max(1.0, abs(x), abs(y))
        if r > worst:
            worst, at = r, i
    if worst > rel:
        return {"what": "value", "index": at, "a": _num(va[at]), "b": _num(vb[at]), "rel": worst}
    return None


def worst_rel(a, b):
    w = 0.0
    if a["sig"] != b["sig"] or len(a["v"]) != len(b["v"]):
        return float("inf")
    for x, y in zip(a["v"], b["v"]):
        if x == y:
            continue
        x, y = _num(x), _num(y)
        if x != x and y != y:
            continue
        if x != x or y != y or abs(x) == float("inf") or abs(y) == float("inf"):
            return float("inf")
        w = max(w, abs(x - y) / max(1.0, abs(x), abs(y)))
    return w


def is_rejection(rec):
    """The compiled kernel refused the argument TYPES (explicit signature or Numba typing)."""
    return rec["st"] == "exc" and (rec.get("nb") or rec["exc"] in TYPE_REJECTIONS)


def describe(cid):
    p = cid.split("|")
    if p[0] == "k":
        return {"id": cid, "kind": "kernel", "kernel": p[1], "input": int(p[2]), "layout": p[3]}
    return {"id": cid, "kind": "entry", "object": p[1], "state": p[2], "entry": p[3], "index": None if p[4] == "-" else int(p[4])}


def group_of(cid):
    p = cid.split("|")
    return p[1] if p[0] == "k" else "%s.%s" % (p[1].split(":")[0], p[3])


def compare(J, B, N, died=None):
    """J, B, N: {case id: record} of the jit / boundscheck / nojit runs.  Returns (violations, stats).
    died: {mode: True} for modes whose process did not finish (their missing cases are reported once, not per case)."""
    died = died or {}
    viol, st = [], {"outcomes": {}, "worst": {}, "rejected": {}, "same_exception": {}, "reach": {}, "dtype_differs": {},
                    "evaluations": 0, "keys": set(), "programs": set(), "entries": set(), "trivial_entries": set(), "not_run": 0}

    def oc(k, n=1):
        st["outcomes"][k] = st["outcomes"].get(k, 0) + n

    def v(clause, cid, observed, pair=None):
        case = describe(cid)
        if pair:
            case["pair"] = pair
        viol.append({"clause": clause, "case": case, "observed": observed, "tolerance": REL if clause == "value_differs" else None,
                     "case_id": cid})
    ids = list(J.keys()) + [k for k in N.keys() if k not in J] + [k for k in B.keys() if k not in J and k not in N]

    def failed_builds(X):
        return {r["id"].split("|")[1]: r for r in X.values() if r["id"].endswith("|*|build|-") and r["st"] == "exc"}
    fb = [failed_builds(J), failed_builds(B), failed_builds(N)]

    def get(X, k, cid):
        r = X.get(cid)
        if r is None and cid.startswith("e|") and cid.split("|")[1] in fb[k]:
            f = fb[k][cid.split("|")[1]]        # the object could not even be constructed in this mode
            r = {"id": cid, "st": "exc", "exc": f["exc"], "msg": "while constructing the object: " + str(f.get("msg")), "nb": f.get("nb", False)}
        return r
    for cid in ids:
        j, b, n = get(J, 0, cid), get(B, 1, cid), get(N, 2, cid)
        missing = [m for m, r in (("jit", j), ("boundscheck", b), ("nojit", n)) if r is None]
        if missing:
            if not all(died.get(m) for m in missing):
                raise HarnessError("case %s was not executed in mode(s) %s although the driver finished" % (cid, missing))
            st["not_run"] += 1
            if j is None:       # nothing to compare the checked modes with
                continue
        if j["st"] == "dup":
            oc("duplicate_layout")
            continue
        st["evaluations"] += 1
        g = group_of(cid)
        if cid.startswith("k|"):
            st["programs"].add(cid.split("|")[1])
            st["keys"].add(cid.split("|")[1] + ":" + j.get("key", cid))
        else:
            st["entries"].add(g)
            if n is not None and n["st"] != "dup":
                reach = n.get("k") or []
                if reach:
                    st["keys"].add(cid)
                    st["reach"].setdefault(g, set()).update(reach)
                else:
                    st["trivial_entries"].add(g)
        # --- the two compiled modes against each other
        if j["st"] == "exc":
            if b is not None and (b["st"] != "exc" or b["exc"] != j["exc"]):
                v("modes_disagree", cid, {"jit": j["exc"], "boundscheck": b.get("exc", "returned")}, "jit/boundscheck")
            if is_rejection(j):
                oc("rejected")
                rk = g + (":" + cid.split("|")[3] if cid.startswith("k|") else "") + " (" + j["exc"] + ")"
                st["rejected"][rk] = st["rejected"].get(rk, 0) + 1
                continue
            if n is not None and n["st"] == "ok":
                v("compiled_raises", cid, {"jit": j["exc"], "msg": j.get("msg"), "nojit": "returned"}, "jit/nojit")
            elif n is not None:
                if n["exc"] == j["exc"]:
                    oc("same_exception_all_modes")
                    st["same_exception"][g + ":" + j["exc"]] = st["same_exception"].get(g + ":" + j["exc"], 0) + 1
                else:
                    oc("different_exceptions")
                    st["same_exception"][g + ":" + j["exc"] + "/" + n["exc"]] = st["same_exception"].get(g + ":" + j["exc"] + "/" + n["exc"], 0) + 1
            continue
        oc("accepted")
        if b is not None:
            if b["st"] == "exc":
                v("index_error_under_boundscheck", cid, {"boundscheck": b["exc"], "msg": b.get("msg"), "jit": "returned"}, "jit/boundscheck")
            else:
                d = values_differ(j, b)
                w = worst_rel(j, b)
                if w != float("inf"):
                    st["worst"]["jit/boundscheck:" + g] = max(st["worst"].get("jit/boundscheck:" + g, 0.0), w)
                if d:
                    v("value_differs", cid, d, "jit/boundscheck")
        if n is not None:
            if n["st"] == "exc":
                v("interpreter_raises", cid, {"nojit": n["exc"], "msg": n.get("msg"), "jit": "returned"}, "jit/nojit")
            else:
                solver = cid.startswith("e|") and (g in SOLVER_ENTRIES or bool(SOLVER_KERNELS & set(n.get("k") or [])))
                tol = SOLVER_KERNEL_REL if (cid.startswith("k|") and cid.split("|")[1] in SOLVER_KERNELS) else REL
                d = None if solver else values_differ(j, n, tol)
                if solver:
                    oc("solver_entry_values_not_compared_with_interpreter")
                w = worst_rel(j, n)
                if w != float("inf"):
                    wk = "jit/nojit%s:%s" % (".solver_entry" if solver else (".solver_kernel" if tol != REL else ""), g)
                    st["worst"][wk] = max(st["worst"].get(wk, 0.0), w)
                if d:
                    v("value_differs", cid, d, "jit/nojit")
                    viol[-1]["tolerance"] = tol
                if j.get("dt") != n.get("dt"):
                    st["dtype_differs"][g] = st["dtype_differs"].get(g, 0) + 1
    return viol, st


# ----------------------------------------------------------------------------------------------------------------

def _workdir():
    return os.path.join(env.VERIF, ".cache", "c17", str(os.getpid()))


def _finished(metas):
    return any(m["id"] == "meta|end" for m in metas)


def _collect(res, modes=MODES):
    data, died, metas_all = {}, {}, {}
    for m in modes:
        recs, metas = load(res[m]["files"])
        n_end = sum(1 for x in metas if x["id"] == "meta|end")
        died[m] = n_end != len(res[m]["files"]) or any(rc != 0 for rc in res[m]["rc"])
        data[m], metas_all[m] = recs, metas
    return data, died, metas_all


def run(ctx):
    wd = _workdir()
    shutil.rmtree(wd, ignore_errors=True)
    shards = max(1, min(6, (ctx.workers - 1) // 2))
    try:
        ctx.log("driver: 3 modes concurrently, %d process(es) per compiled mode" % shards)
        res = run_modes(wd, ctx.tier, ctx.seed, shards=shards, timeout=(ctx.deadline - time.time()) if ctx.deadline else 3000, log=ctx.log)
        data, died, metas = _collect(res)
        for m in MODES:
            if died[m]:
                ctx.log("mode %s did not finish: rc=%s\n%s" % (m, res[m]["rc"], "\n".join(res[m]["tail"])[-1200:]))
        # a mode that died before writing anything is a harness problem (import error, bad environment), not a finding
        for m in MODES:
            if not data[m]:
                raise HarnessError("mode %s produced no case at all (rc=%s): %s" % (m, res[m]["rc"], "\n".join(res[m]["tail"])[-1500:]))
        viol, st = compare(data["jit"], data["boundscheck"], data["nojit"], died)
        for m in MODES:
            if died[m]:
                # the case the process died in: first case another mode has and this one lacks, in enumeration order
                ref = data["nojit"] if m != "nojit" else data["jit"]
                first = next((c for c in ref if c not in data[m]), None)
                viol.append({"clause": "driver_died", "case": dict(describe(first) if first else {"id": None}, mode=m),
                             "observed": {"rc": res[m]["rc"], "tail": "\n".join(res[m]["tail"])[-400:]}, "case_id": first})
        prog = [x for x in metas["jit"] if x["id"] == "meta|programs"]
        src = prog[0]["source"] if prog else []
        for m in ("jit", "boundscheck"):
            for x in metas[m]:
                if x["id"] == "meta|programs" and sorted(x["introspection"]) != sorted(x["source"]):
                    raise HarnessError("decorated functions in the source %s != objects with .py_func %s" % (sorted(x["source"]), sorted(x["introspection"])))
        # A kernel this check has no input lattice for (added to the library after the check was written), or a lattice whose
        # kernel is gone, is a GAP in coverage, not a fault of the library: it is reported (notice line, coverage field,
        # exhaustive: false); the new kernel is still executed under bounds checking wherever a public entry point reaches it.
        gap_missing = list(prog[0]["missing_inputs"]) if prog else []
        gap_stale = list(prog[0]["stale_inputs"]) if prog else []
        if gap_missing or gap_stale:
            print("NOTICE property=C17 kernels without an input lattice (not enumerated directly): %s; lattices without a kernel: %s"
                  % (gap_missing, gap_stale), flush=True)
        filtered = bool(os.environ.get("VERIF_C17_FILTER", "").strip())
        if filtered:
            ctx.notes.append("VERIF_C17_FILTER=%s: partial run (development aid), not exhaustive" % os.environ["VERIF_C17_FILTER"])
        if sorted(set(st["programs"]) | set(gap_missing)) != sorted(src) and not filtered:
            raise HarnessError("kernels enumerated %d (+%d without a lattice) != @jit functions in the source %d"
                               % (len(st["programs"]), len(gap_missing), len(src)))
        ctx.extend(viol)
        ent = [x for x in metas["nojit"] if x["id"] == "meta|entries"]
        uncovered = {"Arm": ent[0]["arm_uncovered"], "SP": ent[0]["sp_uncovered"]} if ent else {}
        per_mode = {m: {"cases": len(data[m]), "wall_s": res[m]["wall"], "processes": len(res[m]["files"]),
                        "raised": sum(1 for r in data[m].values() if r["st"] == "exc")} for m in MODES}
        worst = {}
        for k, w in st["worst"].items():
            pair = k.split(":")[0]
            if w > worst.get(pair, (0.0, None))[0]:
                worst[pair] = (w, k)
        ctx.coverage.update({
            "evaluations": st["evaluations"] * 3, "distinct_nontrivial": len(st["keys"]),
            "rule": "one evaluation = one case in one mode; distinct = kernel cases with a distinct memory picture of their arguments "
                    "(dtype, shape, strides, contiguity, parent array, values) plus entry-point cases measured (interpreter profile) to reach at least one kernel",
            "programs": len(st["programs"]), "cases_per_mode": st["evaluations"], "exhaustive": not any(died.values()) and not filtered and not gap_missing,
            "kernels_without_input_lattice": gap_missing, "lattices_without_kernel": gap_stale,
            "entry_points": len(st["entries"]), "entry_points_reaching_no_kernel": sorted(st["trivial_entries"] - set(st["reach"])),
            "outcomes": st["outcomes"], "per_mode": per_mode, "rejected_layouts": dict(sorted(st["rejected"].items())),
            "same_exception_all_modes": dict(sorted(st["same_exception"].items())),
            "dtype_differs_values_equal": st["dtype_differs"],
            "worst_residuals": {k: v[0] for k, v in worst.items()}, "worst_residual_at": {k: v[1] for k, v in worst.items()},
            "kernels_reached_by_entry_point": {k: sorted(v) for k, v in sorted(st["reach"].items())},
            "public_methods_without_a_case": uncovered,
            "palettes": {"layouts": ["C", "F", "S(lice of a larger array)", "P(refix slice)", "I(nt64)"], "modes": list(MODES)},
            "samples": [describe(c) for c in list(data["jit"])[:: max(1, len(data["jit"]) // 6)]][:6]})
        ctx.level = "exploration"
        ctx.assumptions += ["inputs of every case are built with NumPy / the independent oracles only, so they are bit-identical in the three processes",
                            "Numba decides acceptance of a layout on the argument types alone: a type rejection is executed once per (kernel, type signature) and reused",
                            "negative indices wrap legally in both checked modes and are not detected"]
        ctx.log("cases/mode=%d programs=%d entry points=%d outcomes=%s violations=%d" % (
            st["evaluations"], len(st["programs"]), len(st["entries"]), st["outcomes"], len(viol)))
    finally:
        if not os.environ.get("VERIF_C17_KEEP"):
            shutil.rmtree(wd, ignore_errors=True)


def replay(rec):
    """Re-run the single case in fresh subprocesses in the modes its clause compares."""
    cid = rec["case"]["id"]
    clause = rec["clause"]
    if clause == "driver_died":
        modes = (rec["case"]["mode"],)
    elif rec["case"].get("pair") == "jit/boundscheck":
        modes = ("jit", "boundscheck")
    elif rec["case"].get("pair") == "jit/nojit":
        modes = ("jit", "nojit")
    else:
        modes = MODES
    wd = os.path.join(_workdir(), "replay_%d" % (time.time_ns() % 10 ** 9))
    try:
        if cid is None:
            return []
        res = run_modes(wd, rec.get("tier", "quick"), rec.get("seed", 0), only=[cid], modes=modes, timeout=1500)
        data, died, _ = _collect(res, modes)
        if clause == "driver_died":
            return [{"clause": clause, "rc": res[modes[0]]["rc"]}] if died[modes[0]] else []
        for m in modes:
            if died[m] and not data[m]:
                raise HarnessError("replay: mode %s failed: %s" % (m, res[m]["tail"]))
        empty = {}
        viol, _ = compare(data.get("jit", empty), data.get("boundscheck", empty), data.get("nojit", empty),
                          {m: True for m in MODES if m not in modes})
        return [x for x in viol if x["clause"] == clause and x["case"]["id"] == cid]
    finally:
        shutil.rmtree(wd, ignore_errors=True)
        try:
            os.rmdir(_workdir())
        except OSError:
            pass
