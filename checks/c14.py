"""C14 - value semantics: operators and queries neither mutate nor alias their operands (length-3 histories).

A TABLE of every public operator / accessor / helper in scope.  One case is one history executed FROM SCRATCH in this
process (never from deepcopy/pickle snapshots - they sever exactly the sharing this property is about):

    1. build fresh operands (palette)            -> fingerprint: bytes, id, memory extent of every reachable ndarray
    2. the call                                  -> operands unchanged?  result arrays share memory with an operand?
    3. ONE in-place mutation of the result (site)-> operands still unchanged?  (+ second default construction fresh?)

Enumerated: the complete product  entries x operand palettes x mutation sites  (sites are discovered from the result
by the generic traversal: element/slice assignment on every tm/Screw/Wrench, `arr[...] = sentinel` on every ndarray,
changeFrame on every screw/wrench).  Every default-argument object of the library modules in scope is a hidden
operand of every history (fingerprinted, checked for sharing, restored between histories).

Modes:  value  - no operand modified, nothing returned shares storage, mutation sites
        mut    - only "operands are left unaltered" (setters / raw-array constructors keep what they are given; the
                 ported Modern Robotics functions: the statement only demands the arrays are left unaltered)
        ctor   - robot constructors/loaders: arrays handed in stay unaltered through construction and through one
                 following method call (the 'sites' are FK / IK / move / tool change / dynamics)
        fresh  - default constructions: after any site a second default construction is identity / zero
Exclusions (property text + DESIGN): index/slice access, Screw.__array__, the frame/position metadata objects of
screws and wrenches (not scanned for sharing, not scribbled on), Screw->Wrench conversion (mut only), documented
in-place targets (changeFrame receiver, rotationFromVector first argument, AngleMod/angleMod, joint clamping in FK).
Returning an operand itself is not flagged.
"""
import contextlib
import io
import json
import os
import tempfile

import numpy as np

from mc import env, lattice, palettes
from oracles import fingerprint as fpr

MOD = "checks.c14"
PI = np.pi

# entries allowed to raise for a reason owned by another property (the raise itself is reported in the evidence)
RAISE_OWNED_ELSEWHERE = {
    "tm.exp6": "VecTose3 typed for 1-D input, tm.exp6 hands it the (6,1) vector (DESIGN C14: outside this property)",
    "mr.ForwardDynamicsTrajectory": "D02 (np.float) - property C02",
    "mr.SimulateControl": "D03 (undefined Tf) - property C02",
}


# ------------------------------------------------------------------------------------------------ operand values
class Vals:
    """Numbers for one palette variant.  'fixed' = hand-picked, 'seed' = one generic element drawn from VERIF_SEED."""

    POSES = [[1.0, -2.0, 3.0, 0.3, -0.2, 0.5], [0.5, 0.25, -1.0, 0.1, 0.4, -0.3], [2.0, 2.0, 2.0, 0.0, 0.0, 0.0],
             [0.0, 0.0, 1.0, 0.0, 0.0, 0.2], [1.0, 0.0, 0.0, 0.0, 0.0, 0.2], [0.0, 2.0, 0.0, 0.1, 0.0, 0.0]]
    VEC6 = [[1.0, 2.0, 3.0, 4.0, 5.0, 6.0], [-1.0, 0.0, 2.0, 1.0, 1.0, 0.0], [0.5, -0.25, 0.125, 2.0, -3.0, 1.5]]

    def __init__(self, seed, variant):
        self.seed, self.variant = int(seed), variant

    def _rng(self, salt):
        return palettes.seed_rng(self.seed, 1400 + salt)

    def taa(self, i):
        if self.variant == "wound":
            # the fixed poses with one rotation component wound beyond a full turn (a valid six-vector: it is stored as written)
            q = list(self.POSES[i % len(self.POSES)])
            q[3 + i % 3] += 7.0 if i % 2 == 0 else -6.9
            return q
        if self.variant == "fixed":
            return list(self.POSES[i % len(self.POSES)])
        r = self._rng(i)
        w = r.normal(size=3)
        w = w / np.linalg.norm(w) * r.uniform(0.3, 2.2)
        p = r.uniform(-4, 4, size=3)
        return [float(x) for x in np.concatenate([p, w])]

    def vec6(self, i):
        if self.variant in ("fixed", "wound"):
            return list(self.VEC6[i % len(self.VEC6)])
        return [float(x) for x in self._rng(50 + i).uniform(0.5, 5, size=6) * np.array([1, -1, 1, 1, -1, 1])]

    def vec3(self, i):
        return self.vec6(i)[:3]

    def scalar(self, i=0):
        return 2.0 if self.variant in ("fixed", "wound") else float(self._rng(90 + i).uniform(1.5, 3.5))

    def thetas(self, n, i=0):
        if self.variant in ("fixed", "wound"):
            return np.array([0.1, 0.4, -0.3, 0.25, -0.5, 0.2, 0.15][:n]) * (1 + 0.5 * i)
        return self._rng(70 + i).uniform(-0.6, 0.6, size=n)


def _lib():
    from basic_robotics.general import tm, fsr, fmr, Screw, Wrench
    from basic_robotics.modern_robotics_numba import modern_high_performance as mr
    return tm, fsr, fmr, Screw, Wrench, mr


def T(v, i=0):
    tm = _lib()[0]
    return tm(v.taa(i))


def A6(v, i=0):
    return np.array(v.taa(i))


def A61(v, i=0):
    return np.array(v.taa(i)).reshape(6, 1)


def M4(v, i=0):
    return T(v, i).gTM()


def SC(v, i=0, frame=None, fi=4):
    Screw = _lib()[3]
    return Screw(np.array(v.vec6(i)).reshape(6, 1), T(v, fi) if frame is None else frame)


def WR(v, i=0, pos=None, frame=None, pi_=3, fi=4):
    Wrench = _lib()[4]
    return Wrench(np.array(v.vec6(i)).reshape(6, 1), T(v, pi_) if pos is None else pos, T(v, fi) if frame is None else frame)


OPERATOR_GROUPS = ("tm", "Screw", "Wrench")


# ------------------------------------------------------------------------------------------------ table machinery
class Entry:
    def __init__(self, name, group, fn, pals, mode="value", exempt=(), opaque=0, postops=None, fresh=None,
                 getters=(), note=None):
        self.name, self.group, self.fn, self.mode = name, group, fn, mode
        self.pals = pals                      # [(palette name, factory(v) -> tuple of FRESH operands)]
        self.exempt = tuple(exempt)           # operand indices that are documented in-place targets
        self.opaque = opaque                  # leading operands that are context (an arm), not fingerprinted
        self.postops = postops or []          # ctor mode: [(site name, fn(result, v))]
        self.fresh = fresh                    # fresh mode: dict(again=fn(v, ops, pname) -> obj, absolute=fn(obj)->problems)
        self.getters = tuple(getters)         # fresh mode: getter names whose return value is scribbled on too
        self.note = note

    def palettes(self):
        """[(palette id, factory, variant)]: every palette with the fixed values + the first with the seed element."""
        out = [(pn, f, "fixed") for pn, f in self.pals]
        out.append((self.pals[0][0] + "~seed", self.pals[0][1], "seed"))
        return out


TABLE = []
_BY_NAME = {}


def E(name, group, fn, pals, **kw):
    if name in _BY_NAME:
        raise RuntimeError("duplicate table entry " + name)
    e = Entry(name, group, fn, pals if isinstance(pals, list) else [pals], **kw)
    TABLE.append(e)
    _BY_NAME[name] = e
    return e


# ------------------------------------------------------------------------------------------------ hidden operands
class Registry:
    """Every default-argument object (ndarray or library object carrying ndarrays) of the functions and methods of the
    library modules in scope.  They are hidden operands of every history; restored in place between histories."""

    def __init__(self):
        import inspect
        from basic_robotics.general import faser_transform, faser_screw, faser_wrench, faser_general, basic_helpers, faser_twist
        from basic_robotics.kinematics import arm_model, sp_model
        self.objs, self.names = [], []
        seen = set()

        def scan(owner, prefix):
            for k, f in sorted(vars(owner).items()):
                f = getattr(f, "__func__", f)
                if inspect.isclass(f) and getattr(f, "__module__", "") == getattr(owner, "__name__", None):
                    scan(f, prefix + k + ".")
                    continue
                if not inspect.isfunction(f):
                    continue
                ds = list(f.__defaults__ or ()) + list((f.__kwdefaults__ or {}).values())
                for j, d in enumerate(ds):
                    if id(d) in seen:
                        continue
                    if fpr.arrays(d):
                        seen.add(id(d))
                        self.objs.append(d)
                        self.names.append("default<%s%s#%d>" % (prefix, k, j))

        for m in (faser_transform, faser_screw, faser_wrench, faser_twist, faser_general, basic_helpers, arm_model, sp_model):
            scan(m, m.__name__.split(".")[-1] + ".")
        self.pristine = []        # (parent object or None, attribute, the original ndarray object, pristine copy)
        for o in self.objs:
            self._record(o, None, None, set())

    def _record(self, o, parent, key, seen):
        if isinstance(o, np.ndarray):
            if o.dtype != object:
                self.pristine.append((parent, key, o, o.copy()))
        elif hasattr(o, "__dict__") and not callable(o) and id(o) not in seen:
            seen.add(id(o))
            for k in sorted(vars(o)):
                self._record(vars(o)[k], o, k, seen)

    def items(self):
        out = []
        for o, n in zip(self.objs, self.names):
            out += fpr.arrays(o, n)
        return out

    def is_pristine(self):
        for parent, key, a, c in self.pristine:
            if parent is not None and vars(parent).get(key) is not a:
                return False
            if a.tobytes() != c.tobytes():
                return False
        return True

    def fingerprint(self):
        """Fingerprint of all default objects; the pristine one is cached (it keeps the very same objects alive)."""
        if self.is_pristine():
            if getattr(self, "_fp0", None) is None:
                self._fp0 = fpr.take(self.objs, self.names)
                self._items0 = self.items()
            return self._fp0
        return fpr.take(self.objs, self.names)

    def array_items(self):
        if self.is_pristine() and getattr(self, "_fp0", None) is not None:
            return self._items0
        return self.items()

    def restore(self):
        """Put every default object back to its pristine state (attributes re-pointed to the original ndarray objects,
        bytes copied back in place); returns how many arrays the previous history had left altered."""
        n = 0
        for parent, key, a, c in self.pristine:
            if parent is not None and vars(parent).get(key) is not a:
                setattr(parent, key, a)
                n += 1
            if a.tobytes() != c.tobytes():
                a[...] = c
                n += 1
        return n


_REG = None


def registry():
    global _REG
    if _REG is None:
        _REG = Registry()
    return _REG


# ------------------------------------------------------------------------------------------------ sites
def _is_settable(o):
    return hasattr(o, "__setitem__") and hasattr(o, "__dict__") and (hasattr(o, "TAA") or hasattr(o, "data"))


def result_items(res, ops):
    """Top-level result objects that are not an operand itself (one level through list/tuple)."""
    items = list(res) if isinstance(res, (list, tuple)) else [res]
    out, returned = [], 0
    for i, it in enumerate(items):
        if any(it is o for o in ops):
            returned += 1
            continue
        out.append(("res[%d]" % i if isinstance(res, (list, tuple)) else "res", it))
    return out, returned


def discover_sites(items):
    """Deterministic list of mutation sites of the result: ('elem'|'slice'|'frame', path) on objects,
    ('arr', path) on every exposed ndarray.  Metadata objects are not entered."""
    sites = []
    for base, it in items:
        for n in fpr.nodes(it, base, skip_meta=True):
            if n.kind == "object" and _is_settable(n.obj):
                sites.append("elem:" + n.path)
                sites.append("slice:" + n.path)
                if hasattr(n.obj, "changeFrame"):
                    sites.append("frame:" + n.path)
            elif n.kind == "array":
                sites.append("arr:" + n.path)
    return sites


def perform_site(site, items, v):
    """Execute one in-place mutation on the result.  Returns 'done' | 'skipped:<why>'."""
    kind, path = site.split(":", 1)
    if kind == "getter":
        g, path = path.split("@", 1)
    target = None
    for base, it in items:
        for n in fpr.nodes(it, base, skip_meta=True):
            if n.path == path:
                target = n.obj
                break
        if target is not None:
            break
    if target is None:
        return "skipped:path-vanished"
    tm = _lib()[0]
    if kind == "arr":
        return "done" if fpr.scribble(target, 0) else "skipped:not-writeable"
    if kind == "elem":
        target[0] = 7.25
        return "done"
    if kind == "slice":
        target[3:6] = np.array([[0.7], [-0.6], [0.5]])
        return "done"
    if kind == "frame":
        target.changeFrame(tm([0.3, -0.7, 1.1, 0.2, 0.5, -0.4]))
        return "done"
    if kind == "getter":
        x = getattr(target, g)()
        n = 0
        for _, a in fpr.arrays(x):
            n += bool(fpr.scribble(a, 1))
        return "done" if n else "skipped:not-writeable"
    raise RuntimeError("unknown site " + site)


# ------------------------------------------------------------------------------------------------ one history
def _values(obj):
    """Identity-free value listing of an object graph (bytes of arrays, scalars), for 'same value' comparisons."""
    out = []
    for n in fpr.nodes(obj, "$"):
        if n.kind == "array":
            out.append((n.path, n.obj.shape, n.obj.dtype.str, n.obj.tobytes()))
        elif n.kind == "scalar":
            out.append((n.path, repr(n.obj)))
    return out


def _value_diff(a, b):
    if len(a) != len(b):
        return ["structure differs (%d vs %d nodes)" % (len(a), len(b))]
    out = []
    for x, y in zip(a, b):
        if x != y:
            d = x[0]
            if len(x) == 4 and len(y) == 4 and x[1] == y[1] and x[2] == y[2]:
                xa = np.frombuffer(x[3], dtype=np.dtype(x[2]))
                ya = np.frombuffer(y[3], dtype=np.dtype(y[2]))
                d += " %s -> %s" % (xa[:6].tolist(), ya[:6].tolist())
            out.append(d)
    return out


def _split(diffs, names_exempt):
    keep = []
    for d in diffs:
        root = d["path"].split(".")[0].split("[")[0].split("{")[0]
        if root in names_exempt:
            continue
        keep.append(d)
    return keep


def run_history(e, pname, variant, site, seed):
    """Executes one history from scratch.  Returns dict(viols=[(clause, observed)], sites=[...], info={...})."""
    reg = registry()
    info = {"restored_defaults": reg.restore()}
    v = Vals(seed, variant)
    fac = dict((pn, f) for pn, f in e.pals)[pname.split("~")[0]]
    with contextlib.redirect_stdout(io.StringIO()):
        ops = tuple(fac(v))
    ctxops, vops = ops[:e.opaque], ops[e.opaque:]
    names = ["op%d" % i for i in range(len(vops))]
    exempt_names = {"op%d" % i for i in e.exempt}
    class _Both:
        """operand fingerprint + default-object fingerprint, compared together"""

        def __init__(self):
            self.o, self.r = fpr.take(list(vops), names), reg.fingerprint()

        def diff(self, other):
            return self.o.diff(other.o) + self.r.diff(other.r)

    before = _Both()
    op_items = before.o.array_items() + reg.array_items()
    info["operand_arrays"] = sum(len(fpr.arrays(o)) for o in vops)
    viols = []
    out = {"viols": viols, "sites": [], "info": info}
    try:
        with contextlib.redirect_stdout(io.StringIO()):
            res = e.fn(*ops)
    except Exception as ex:
        info["raised"] = repr(ex)[:300]
        after = _Both()
        d = _split(before.diff(after), exempt_names)
        if d and site == "call":
            viols.append(("operand_modified", {"diff": d[:6], "note": "call raised " + repr(ex)[:120]}))
        if e.name not in RAISE_OWNED_ELSEWHERE and site == "call":
            viols.append(("raised", repr(ex)[:300]))
        return out
    after = _Both()
    d = _split(before.diff(after), exempt_names)
    if d and site == "call":
        dd = [x for x in d if not x["path"].startswith("default<")]
        dr = [x for x in d if x["path"].startswith("default<")]
        if dd:
            viols.append(("operand_modified", {"diff": dd[:6]}))
        if dr:
            viols.append(("default_modified", {"diff": dr[:6]}))
    items, returned = result_items(res, vops)
    info["returns_operand"] = returned
    if returned and site == "call" and e.mode == "value" and e.group in OPERATOR_GROUPS:
        # operators, copies and get-accessors return VALUES: handing back the operand itself (e.g. `0 + s` answered with
        # `s`) means that changing the result changes its source.  (Helpers such as closeLinearGap(p, p, d) may.)
        viols.append(("result_is_operand", {"returned_operands": returned}))
    if e.mode in ("value", "fresh", "mut"):
        stop = None
        res_arrays = []
        for base, it in items:
            res_arrays += fpr.arrays(it, base, skip_meta=True, stop=stop)
        ov = fpr.overlaps(res_arrays, op_items)
        info["result_arrays"] = len(res_arrays)
        if ov:
            if e.mode == "mut":
                info["views_of_operand"] = ov[:4]
            elif site == "call":
                o1 = [x for x in ov if not x[1].startswith("default<")]
                o2 = [x for x in ov if x[1].startswith("default<")]
                if o1:
                    viols.append(("result_aliases_operand", {"pairs": o1[:6]}))
                if o2:
                    viols.append(("result_aliases_default", {"pairs": o2[:6]}))
    if e.mode in ("value", "fresh"):
        out["sites"] = discover_sites(items)
        if e.mode == "fresh":
            for base, it in items:
                for g in e.getters:
                    if hasattr(it, g):
                        out["sites"].append("getter:%s@%s" % (g, base))
    elif e.mode == "ctor":
        out["sites"] = [n for n, _ in e.postops]
    if site == "call":
        return out
    # ---- step 3: one in-place mutation of the result
    first_values = _values(res) if e.mode == "fresh" else None
    try:
        with contextlib.redirect_stdout(io.StringIO()):
            if e.mode == "ctor":
                dict(e.postops)[site](res, v)
                st = "done"
            else:
                st = perform_site(site, items, v)
    except Exception as ex:
        st = "site_raised:" + repr(ex)[:160]
    info["site_status"] = st
    after2 = _Both()
    d2 = _split(after.diff(after2), exempt_names)
    if d2:
        dd = [x for x in d2 if not x["path"].startswith("default<")]
        dr = [x for x in d2 if x["path"].startswith("default<")]
        if dd:
            viols.append(("mutation_reaches_operand", {"site": site, "diff": dd[:6]}))
        if dr:
            viols.append(("mutation_reaches_default", {"site": site, "diff": dr[:6]}))
    if e.mode == "fresh" and st == "done":
        try:
            with contextlib.redirect_stdout(io.StringIO()):
                again = e.fresh["again"](v, ops, pname)
                probs = _value_diff(first_values, _values(again))
                if e.fresh.get("absolute"):
                    probs += e.fresh["absolute"](again)
                if e.fresh.get("explicit"):
                    probs += ["vs explicit argument: " + x for x in _value_diff(_values(e.fresh["explicit"](v)), _values(again))]
        except Exception as ex:
            probs = ["second construction raised " + repr(ex)[:200]]
        if probs:
            viols.append(("default_not_fresh", {"site": site, "problems": probs[:6]}))
    return out


def case_of(e, pid, site, seed):
    return {"entry": e.name, "palette": pid, "site": site, "seed": seed, "mode": e.mode}


# ------------------------------------------------------------------------------------------------ the table
def build_table():
    if TABLE:
        return TABLE
    _table_tm()
    _table_screw()
    _table_wrench()
    _table_fsr()
    _table_mr()
    _table_robots()
    _table_defaults()
    return TABLE


# ---- transforms -----------------------------------------------------------------------------------------------------
def _table_tm():
    tm = _lib()[0]
    g = "tm"
    one = [("generic", lambda v: (T(v, 0),)), ("pure_translation", lambda v: (T(v, 2),)), ("identity", lambda v: (tm(),))]
    two = [("generic", lambda v: (T(v, 0), T(v, 1))), ("same_object", lambda v: (lambda a: (a, a))(T(v, 0))),
           ("identity_rhs", lambda v: (T(v, 0), tm()))]
    # constructors: the copy constructor and every array/list form (all forms build new storage)
    E("tm(tm)", g, lambda a: tm(a), one)
    E("tm(objarray[tm])", g, lambda a, box: tm(box), [("generic", lambda v: (lambda a: (a, np.array([a])))(T(v, 0))),
                                                     ("identity", lambda v: (lambda a: (a, np.array([a])))(tm()))])
    E("tm.spawnNew(tm)", g, lambda a, b: a.spawnNew(b), two[:2])
    E("tm(list6)", g, lambda l: tm(l), [("generic", lambda v: (v.taa(0),)), ("zeros", lambda v: ([0.0] * 6,))])
    E("tm(list6,rpy)", g, lambda l: tm(l, True), [("generic", lambda v: (v.taa(0),)), ("zeros", lambda v: ([0.0] * 6,))])
    E("tm(list3)", g, lambda l: tm(l), [("generic", lambda v: (v.taa(0)[3:],)), ("zeros", lambda v: ([0.0] * 3,))])
    E("tm(list3,rpy)", g, lambda l: tm(l, True), [("generic", lambda v: (v.taa(0)[3:],)), ("zeros", lambda v: ([0.0] * 3,))])
    E("tm(list7)", g, lambda l: tm(l), [("generic", lambda v: (v.taa(0)[:3] + list(T(v, 0).getQuat()),)),
                                        ("unit_quat", lambda v: ([1.0, 2.0, 3.0, 0.0, 0.0, 0.0, 1.0],))])
    E("tm(list2 nested)", g, lambda l: tm(l), [("generic", lambda v: ([v.taa(0)[:3], v.taa(0)[3:]],)),
                                               ("zeros", lambda v: ([[0.0] * 3, [0.0] * 3],))])
    E("tm(arr6)", g, lambda a: tm(a), [("generic", lambda v: (A6(v, 0),)), ("zeros", lambda v: (np.zeros(6),))])
    E("tm(arr6x1)", g, lambda a: tm(a), [("generic", lambda v: (A61(v, 0),)), ("zeros", lambda v: (np.zeros((6, 1)),))])
    E("tm(arr6,rpy)", g, lambda a: tm(a, True), [("generic", lambda v: (A6(v, 0),)), ("zeros", lambda v: (np.zeros(6),))])
    E("tm(arr3)", g, lambda a: tm(a), [("generic", lambda v: (A6(v, 0)[3:].copy(),)), ("view_of_arr6", lambda v: (A6(v, 0)[3:],))])
    E("tm(arr7)", g, lambda a: tm(a), [("generic", lambda v: (np.array(v.taa(0)[:3] + list(T(v, 0).getQuat())),)),
                                       ("unit_quat", lambda v: (np.array([1.0, 2.0, 3.0, 0.0, 0.0, 0.0, 1.0]),))])
    E("tm(arr4x4)", g, lambda m: tm(m), [("generic", lambda v: (M4(v, 0),)), ("identity", lambda v: (np.eye(4),)),
                                         ("fortran_order", lambda v: (np.asfortranarray(M4(v, 1)),))])
    # accessors / queries
    for nm in ("gRot", "gTAA", "gTM", "gPos", "getQuat", "adjoint", "exp6", "approx", "tripleUnit", "__sum__", "T", "cT",
               "inv", "pinv", "copy", "__abs__", "__str__"):
        E("tm." + nm, g, (lambda nm: lambda a: getattr(a, nm)())(nm), one)
    E("tm.tripleUnit(lv)", g, lambda a: a.tripleUnit(0.5), one[:2])
    E("tm.approx(n)", g, lambda a: a.approx(3), one[:2])
    # setters keep what they are given (not in the statement's list): only 'argument left unaltered'; receiver exempt
    E("tm.sTM(arr4x4)", g, lambda a, m: a.sTM(m), [("generic", lambda v: (T(v, 0), M4(v, 1))), ("identity", lambda v: (T(v, 0), np.eye(4)))],
      mode="mut", exempt=(0,))
    E("tm.sTAA(arr)", g, lambda a, x: a.sTAA(x), [("col", lambda v: (T(v, 0), A61(v, 1))), ("flat", lambda v: (T(v, 0), A6(v, 1)))],
      mode="mut", exempt=(0,))
    E("tm.setQuat(q)", g, lambda a, q: a.setQuat(q), [("generic", lambda v: (T(v, 0), T(v, 1).getQuat())),
                                                      ("list", lambda v: (T(v, 0), list(T(v, 1).getQuat())))], mode="mut", exempt=(0,))
    E("tm[3:6]=arr3x1", g, lambda a, x: a.__setitem__(slice(3, 6), x), [("generic", lambda v: (T(v, 0), A61(v, 1)[3:6].copy())),
                                                                       ("view", lambda v: (T(v, 0), A61(v, 1)[0:3]))], mode="mut", exempt=(0,))
    E("tm.set(i,val)", g, lambda a, x: a.set(1, x), [("generic", lambda v: (T(v, 0), np.float64(0.75))),
                                                    ("arr1", lambda v: (T(v, 0), np.array([0.75])))], mode="mut", exempt=(0,))
    # operators
    import operator as op
    for sym, f in (("+", op.add), ("-", op.sub), ("@", op.matmul), ("*", op.mul), ("//", op.floordiv)):
        E("tm%stm" % sym, g, f, two)
    E("tm.__rmatmul__(tm)", g, lambda a, b: a.__rmatmul__(b), two)
    E("tm.__rmul__(tm)", g, lambda a, b: a.__rmul__(b), two)
    arr6 = [("flat", lambda v: (T(v, 0), A6(v, 1))), ("col", lambda v: (T(v, 0), A61(v, 1))), ("zeros", lambda v: (T(v, 0), np.zeros(6)))]
    E("tm+arr6", g, op.add, arr6)
    E("tm-arr6", g, op.sub, arr6)
    arr3 = [("col3", lambda v: (T(v, 0), np.array([[1.0, 2.0, 3.0]]))), ("len1", lambda v: (T(v, 0), np.array([0.5])))]
    E("tm+arr(other)", g, op.add, arr3)
    E("tm-arr(other)", g, op.sub, arr3)
    mat = [("generic", lambda v: (T(v, 0), M4(v, 1))), ("identity", lambda v: (T(v, 0), np.eye(4))),
           ("own_matrix", lambda v: (lambda a: (a, a.TM))(T(v, 0)))]
    E("tm@arr4x4", g, op.matmul, mat)
    E("tm.__rmatmul__(arr4x4)", g, lambda a, m: a.__rmatmul__(m), mat)
    E("tm*arr4x4", g, op.mul, mat)
    E("tm.__rmul__(arr4x4)", g, lambda a, m: a.__rmul__(m), mat)
    E("tm//arr4x4", g, op.floordiv, mat[:2])
    sc = [("float", lambda v: (T(v, 0), v.scalar())), ("int", lambda v: (T(v, 0), 3)), ("one", lambda v: (T(v, 0), 1.0))]
    sc0 = sc[:2] + [("zero", lambda v: (T(v, 0), 0.0))]
    E("tm+scalar", g, op.add, sc0)
    E("tm-scalar", g, op.sub, sc0)
    E("tm*scalar", g, op.mul, sc)
    E("scalar*tm", g, lambda a, k: k * a, sc)
    E("tm.__rmatmul__(scalar)", g, lambda a, k: a.__rmatmul__(k), sc[:2])
    E("tm/scalar", g, op.truediv, sc)
    E("tm/arr6x1", g, op.truediv, [("generic", lambda v: (T(v, 0), np.array(v.vec6(0)).reshape(6, 1))), ("ones", lambda v: (T(v, 0), np.ones((6, 1))))])
    E("tm//scalar", g, op.floordiv, sc)
    for sym, f in (("==", op.eq), ("!=", op.ne), ("<", op.lt), (">", op.gt), ("<=", op.le), (">=", op.ge)):
        E("tm%stm" % sym, g, f, two[:2] + [("equal_copy", lambda v: (T(v, 0), T(v, 0)))])
    E("tm<scalar", g, op.lt, sc[:2])
    E("tm>arr6x1", g, op.gt, [("generic", lambda v: (T(v, 0), A61(v, 1))), ("zeros", lambda v: (T(v, 0), np.zeros((6, 1))))])
    E("tm==other_type", g, op.eq, [("array", lambda v: (T(v, 0), A61(v, 0))), ("none", lambda v: (T(v, 0), None))])


# ---- screws ---------------------------------------------------------------------------------------------------------
def _screw_like_table(g, mk, cls_name):
    """Entries shared by Screw and Wrench (mk(v, i, frame=None) builds an instance)."""
    import operator as op
    tm = _lib()[0]
    P = cls_name
    one = [("generic", lambda v: (mk(v, 0),)), ("identity_frame", lambda v: (mk(v, 1, frame=tm()),))]
    two = [("different_frames", lambda v: (mk(v, 0), mk(v, 1, fi=5))),
           ("shared_frame_object", lambda v: (lambda f: (mk(v, 0, frame=f), mk(v, 1, frame=f)))(T(v, 4))),
           ("equal_frames", lambda v: (mk(v, 0, frame=T(v, 4)), mk(v, 1, frame=T(v, 4)))),
           ("same_object", lambda v: (lambda a: (a, a))(mk(v, 0))),
           ("zero_second_operand_shared_frame", lambda v: (lambda f: (mk(v, 0, frame=f), mk(v, 0, frame=f) * 0.0))(T(v, 4))),
           ("zero_first_operand_equal_frame", lambda v: (mk(v, 0, frame=T(v, 4)) * 0.0, mk(v, 1, frame=T(v, 4))))]
    for nm in ("copy", "flatten", "getData", "getPitch", "__sum__", "__abs__", "__str__"):
        E("%s.%s" % (P, nm), g, (lambda nm: lambda a: getattr(a, nm)())(nm), one)
    E(P + ".reshape", g, lambda a: a.reshape((6,)), one)
    E(P + ".reshape(2,3)", g, lambda a: a.reshape((2, 3)), one[:1])
    E(P + ".cross", g, lambda a, b: a.cross(b), two)
    E(P + ".dot", g, lambda a, b: a.dot(b), two)
    E(P + ".dualScalarMultiply", g, lambda a, d: a.dualScalarMultiply(d), [("list", lambda v: (mk(v, 0), [2.0, 0.5])),
                                                                          ("array", lambda v: (mk(v, 0), np.array([2.0, 0.5])))])
    for sym, f in (("+", op.add), ("-", op.sub), ("*", op.mul), ("@", op.matmul)):
        E("%s%s%s" % (P, sym, P), g, f, two)
    E("%s.__rsub__(%s)" % (P, P), g, lambda a, b: a.__rsub__(b), two[:3])
    E("%s.__radd__(%s)" % (P, P), g, lambda a, b: a.__radd__(b), two[:3])
    arr6 = [("flat", lambda v: (mk(v, 0), np.array(v.vec6(1)))), ("col", lambda v: (mk(v, 0), np.array(v.vec6(1)).reshape(6, 1))),
            ("own_data", lambda v: (lambda a: (a, a.data))(mk(v, 0)))]
    E(P + "+arr6", g, op.add, arr6)
    E("arr6+" + P, g, lambda a, x: x + a, arr6)
    E(P + "-arr6", g, op.sub, arr6)
    E("arr6-" + P, g, lambda a, x: x - a, arr6)
    sc = [("float", lambda v: (mk(v, 0), v.scalar())), ("int", lambda v: (mk(v, 0), 3)), ("one", lambda v: (mk(v, 0), 1.0))]
    sc0 = sc[:2] + [("zero", lambda v: (mk(v, 0), 0.0))]
    E(P + "+scalar", g, op.add, sc0)
    E("scalar+" + P, g, lambda a, k: k + a, sc0)
    E(P + "-scalar", g, op.sub, sc0)
    E("scalar-" + P, g, lambda a, k: k - a, sc0)
    E(P + "*scalar", g, op.mul, sc)
    E("scalar*" + P, g, lambda a, k: k * a, sc)
    E(P + "/scalar", g, op.truediv, sc)
    E("scalar/" + P, g, lambda a, k: k / a, sc + [("zero_element", lambda v: (mk(v, 1), 2.0))])
    E(P + "//scalar", g, op.floordiv, sc)
    E("scalar//" + P, g, lambda a, k: k // a, sc[:2])
    E(P + "*dual(list2)", g, op.mul, [("list", lambda v: (mk(v, 0), [2.0, 0.5])), ("array", lambda v: (mk(v, 0), np.array([2.0, 0.5])))])
    col = [("col", lambda v: (mk(v, 0), np.array(v.vec6(1)).reshape(6, 1))), ("ones", lambda v: (mk(v, 0), np.ones((6, 1)))),
           ("own_data", lambda v: (lambda a: (a, a.data))(mk(v, 0)))]
    E(P + "*arr6x1", g, op.mul, col)
    E("arr6x1*" + P, g, lambda a, x: x * a, col)
    E(P + "/arr6x1", g, op.truediv, col)
    E("arr6x1/" + P, g, lambda a, x: x / a, col[:2])
    E(P + "//arr6x1", g, op.floordiv, col)
    E(P + "@arr1xk", g, op.matmul, [("1x2", lambda v: (mk(v, 0), np.array([[1.0, 2.0]]))), ("1x1", lambda v: (mk(v, 0), np.array([[1.0]])))])
    E("arr6x6@" + P, g, lambda a, m: m @ a, [("adjoint_T", lambda v: (mk(v, 0), T(v, 1).adjoint().T)), ("identity", lambda v: (mk(v, 0), np.eye(6))),
                                            ("jacobian_T", lambda v: (mk(v, 0), np.arange(18.0).reshape(3, 6)))])
    for sym, f in (("==", op.eq), ("!=", op.ne), ("<", op.lt), (">", op.gt), ("<=", op.le), (">=", op.ge)):
        E("%s%s%s" % (P, sym, P), g, f, two[:1] + two[3:4] + [("equal_copy", lambda v: (mk(v, 0), mk(v, 0)))])
    E(P + "<scalar", g, op.lt, sc[:2])
    E(P + ">=arr6x1", g, op.ge, col[:2])
    # documented in place on the receiver: only the frames handed in must stay as they are
    E(P + ".changeFrame(new)", g, lambda a, f: a.changeFrame(f), [("generic", lambda v: (mk(v, 0), T(v, 1))),
                                                                 ("equal_frame_shortcut", lambda v: (mk(v, 0, frame=T(v, 4)), T(v, 4))),
                                                                 ("own_frame_object", lambda v: (lambda a: (a, a.frame_applied))(mk(v, 0)))],
      mode="mut", exempt=(0,))
    E(P + ".changeFrame(new,old)", g, lambda a, f, o: a.changeFrame(f, o), [("generic", lambda v: (mk(v, 0), T(v, 1), T(v, 2))),
                                                                          ("old_is_new", lambda v: (lambda f: (mk(v, 0), f, f))(T(v, 1)))],
      mode="mut", exempt=(0,))


def _table_screw():
    tm, fsr, fmr, Screw, Wrench, mr = _lib()
    g = "Screw"
    _screw_like_table(g, lambda v, i=0, frame=None, fi=4: SC(v, i, frame, fi), "Screw")
    # raw-array constructors keep the array they are given (like setters): argument left unaltered only
    E("Screw(arr6x1)", g, lambda a: Screw(a), [("generic", lambda v: (np.array(v.vec6(0)).reshape(6, 1),)), ("zeros", lambda v: (np.zeros((6, 1)),))], mode="mut")
    E("Screw(arr6)", g, lambda a: Screw(a), [("generic", lambda v: (np.array(v.vec6(0)),)), ("zeros", lambda v: (np.zeros(6),))], mode="mut")
    E("Screw(arr6x1,frame)", g, lambda a, f: Screw(a, f), [("generic", lambda v: (np.array(v.vec6(0)).reshape(6, 1), T(v, 4))),
                                                          ("identity_frame", lambda v: (np.array(v.vec6(0)).reshape(6, 1), tm()))], mode="mut")


# ---- wrenches -------------------------------------------------------------------------------------------------------
def _table_wrench():
    tm, fsr, fmr, Screw, Wrench, mr = _lib()
    g = "Wrench"
    _screw_like_table(g, lambda v, i=0, frame=None, fi=4: WR(v, i, None, frame, fi=fi), "Wrench")
    one = [("generic", lambda v: (WR(v, 0),)), ("identity_frames", lambda v: (WR(v, 1, tm(), tm()),))]
    E("Wrench.getMoment", g, lambda a: a.getMoment(), one)
    E("Wrench.getForce", g, lambda a: a.getForce(), one)
    # two wrenches applied at different points of the same frame object, added / subtracted
    same = [("shared_frame_and_position_objects", lambda v: (lambda f, p: (WR(v, 0, p, f), WR(v, 1, p, f)))(T(v, 4), T(v, 3))),
            ("shared_frame_object", lambda v: (lambda f: (WR(v, 0, T(v, 3), f), WR(v, 1, T(v, 2), f)))(T(v, 4)))]
    E("Wrench+Wrench(shared tm objects)", g, lambda a, b: a + b, same)
    E("Wrench-Wrench(shared tm objects)", g, lambda a, b: a - b, same)
    # constructors from components build new data; position / frame objects are metadata
    f3 = [("list", lambda v: (v.vec3(0), T(v, 3), T(v, 4))), ("array", lambda v: (np.array(v.vec3(0)), T(v, 3), T(v, 4))),
          ("shared_pos_frame", lambda v: (lambda f: (np.array(v.vec3(0)), f, f))(T(v, 3)))]
    E("Wrench(force3,pos,frame)", g, lambda f, p, fr: Wrench(f, p, fr), f3)
    E("Wrench(force3)", g, lambda f: Wrench(f), [("list", lambda v: (v.vec3(0),)), ("array", lambda v: (np.array(v.vec3(0)),))])
    raw = [("col", lambda v: (np.array(v.vec6(0)).reshape(6, 1), T(v, 3), T(v, 4))), ("flat", lambda v: (np.array(v.vec6(0)), T(v, 3), T(v, 4)))]
    E("Wrench(arr6,pos,frame)", g, lambda d, p, fr: Wrench(d, p, fr), raw, mode="mut")
    # Screw -> Wrench conversion is excluded from the sharing clause; the screw must still be left as it was
    E("Wrench(Screw)", g, lambda s: Wrench(s), [("generic", lambda v: (SC(v, 0),)), ("from_wrench", lambda v: (WR(v, 0),))], mode="mut")


# ---- fsr helpers ----------------------------------------------------------------------------------------------------
def _table_fsr():
    tm, fsr, fmr, Screw, Wrench, mr = _lib()
    g = "fsr"
    two = [("generic", lambda v: (T(v, 0), T(v, 1))), ("same_object", lambda v: (lambda a: (a, a))(T(v, 0))),
           ("identity_second", lambda v: (T(v, 0), tm())), ("identity_first", lambda v: (tm(), T(v, 1)))]
    three = [("generic", lambda v: (T(v, 0), T(v, 1), T(v, 2))), ("first_is_third", lambda v: (lambda a: (a, T(v, 1), a))(T(v, 0)))]
    for nm in ("localToGlobal", "globalToLocal", "distance", "arcDistance", "tmAvgMidpoint", "tmInterpMidpoint", "poseError",
               "geometricError", "twistToGoal", "lookAt", "mirror", "getUnitVec"):
        E("fsr." + nm, g, getattr(fsr, nm), two)
    E("fsr.lookAt(vertical)", g, fsr.lookAt, [("straight_up", lambda v: (tm(), tm([0.0, 0.0, 1.0, 0.0, 0.0, 0.0]))),
                                              ("straight_down", lambda v: (T(v, 2), tm([2.0, 2.0, -1.0, 0.0, 0.0, 0.0])))])
    E("fsr.getUnitVec(dist,return_dist)", g, lambda a, b: fsr.getUnitVec(a, b, 2.5, True), two[:1] + two[2:3])
    E("fsr.distance(arrays)", g, fsr.distance, [("3d", lambda v: (np.array(v.vec3(0)), np.array(v.vec3(1)))),
                                                ("2d", lambda v: (np.array(v.vec3(0)[:2]), np.array(v.vec3(1)[:2])))])
    E("fsr.adjustRotationToMidpoint(mode=0)", g, lambda a, b, c: fsr.adjustRotationToMidpoint(a, b, c), three)
    E("fsr.adjustRotationToMidpoint(mode=1)", g, lambda a, b, c: fsr.adjustRotationToMidpoint(a, b, c, 1), three[:1] +
      [("refs_share_nothing_with_active", lambda v: (T(v, 2), T(v, 0), T(v, 1)))])
    gap = two[:3] + [("equal_value_zero_gap", lambda v: (T(v, 0), T(v, 0)))]
    E("fsr.closeLinearGap", g, lambda a, b: fsr.closeLinearGap(a, b, 0.1), gap)
    E("fsr.closeArcGap", g, lambda a, b: fsr.closeArcGap(a, b, 0.1), gap)
    E("fsr.IKPath", g, lambda a, b: fsr.IKPath(a, b, 4), two[:3])
    E("fsr.IKPath(steps=2)", g, lambda a, b: fsr.IKPath(a, b, 2), two[:1])
    E("fsr.angleBetween", g, fsr.angleBetween, three)
    E("fsr.planeFromThreePoints", g, fsr.planeFromThreePoints, three[:1] + [("arrays", lambda v: (np.array(v.vec3(0)), np.array(v.vec3(1)), np.array([0.0, 1.0, 7.0])))])
    E("fsr.planePointsFromTransform", g, fsr.planePointsFromTransform, [("generic", lambda v: (T(v, 0),)), ("identity", lambda v: (tm(),))])
    E("fsr.getSurfaceNormal", g, lambda a, b, c: fsr.getSurfaceNormal([a, b, c]), three[:1])
    E("fsr.getSurfaceNormal(center)", g, lambda a, b, c, d: fsr.getSurfaceNormal([a, b, c], d),
      [("outside", lambda v: (T(v, 0), T(v, 1), T(v, 2), tm([0.0, 0.0, 50.0, 0.0, 0.0, 0.0]))),
       ("other_side", lambda v: (T(v, 0), T(v, 1), T(v, 2), tm([0.0, 0.0, -50.0, 0.0, 0.0, 0.0])))])
    # documented to re-orient its first argument in place and return it: the second argument must stay untouched
    E("fsr.rotationFromVector", g, fsr.rotationFromVector, two[:1] + two[2:3], mode="mut", exempt=(0,))
    # wrenches
    E("fsr.makeWrench", g, lambda p, d: fsr.makeWrench(p, 2.0, d), [("array_dir", lambda v: (T(v, 3), np.array([0.0, 0.0, -9.81]))),
                                                                    ("list_dir", lambda v: (T(v, 3), [0.0, 0.0, -9.81])),
                                                                    ("identity_pos", lambda v: (tm(), np.array(v.vec3(0))))])
    E("fsr.makeWrench(frame)", g, lambda p, d, f: fsr.makeWrench(p, 2.0, d, f), [("generic", lambda v: (T(v, 3), np.array(v.vec3(0)), T(v, 4))),
                                                                                ("pos_is_frame", lambda v: (lambda f: (f, np.array(v.vec3(0)), f))(T(v, 3)))])
    E("fsr.transformWrenchFrame", g, fsr.transformWrenchFrame,
      [("generic", lambda v: (WR(v, 0), T(v, 4), T(v, 1))),
       ("old_is_own_frame_object", lambda v: (lambda w: (w, w.frame_applied, T(v, 1)))(WR(v, 0))),
       ("no_change_shortcut", lambda v: (WR(v, 0), T(v, 4), T(v, 4)))])
    E("fsr.transformWrenchFrame(frame shared by two wrenches)", g, lambda w, o, n, w2: fsr.transformWrenchFrame(w, o, n),
      [("shared", lambda v: (lambda f: (WR(v, 0, T(v, 3), f), f, T(v, 1), WR(v, 1, T(v, 2), f)))(T(v, 4)))])
    # twists / conversions on arrays
    E("fsr.twistFromTransform", g, fsr.twistFromTransform, [("generic", lambda v: (T(v, 0),)), ("identity", lambda v: (tm(),)), ("pure_translation", lambda v: (T(v, 2),))])
    E("fsr.transformFromTwist", g, fsr.transformFromTwist, [("flat", lambda v: (A6(v, 0)[[3, 4, 5, 0, 1, 2]],)), ("col", lambda v: (A61(v, 0),)), ("zeros", lambda v: (np.zeros(6),))])
    E("fsr.twistToScrew", g, fsr.twistToScrew, [("rotational", lambda v: (np.array(v.vec6(0)).reshape(6, 1),)),
                                                ("pure_translation", lambda v: (np.array([0.0, 0.0, 0.0, 1.0, 2.0, 2.0]).reshape(6, 1),))])
    E("fsr.normalizeTwist", g, fsr.normalizeTwist, [("rotational", lambda v: (np.array(v.vec6(0)),)), ("pure_translation", lambda v: (np.array([0.0, 0.0, 0.0, 1.0, 2.0, 2.0]),))])
    E("fsr.transformByVector", g, fsr.transformByVector, [("generic", lambda v: (T(v, 0), np.array(v.vec3(0)))), ("identity", lambda v: (tm(), np.array(v.vec3(0))))])
    E("fsr.TAAtoTM", g, fsr.TAAtoTM, [("col", lambda v: (A61(v, 0),)), ("flat", lambda v: (A6(v, 0),)), ("zeros", lambda v: (np.zeros((6, 1)),))])
    E("fsr.TMtoTAA", g, fsr.TMtoTAA, [("generic", lambda v: (M4(v, 0),)), ("identity", lambda v: (np.eye(4),))])
    E("fsr.chainJacobian", g, fsr.chainJacobian, [("3_joints", lambda v: (_chain(3)["S"], v.thetas(3))), ("1_joint", lambda v: (_chain(1)["S"], v.thetas(1)))])
    E("fsr.numericalJacobian", g, lambda x: fsr.numericalJacobian(lambda q: np.array([q[0] * q[1], q[1] + q[2], q[0] - q[2]]), x, 1e-4),
      [("generic", lambda v: (np.array(v.vec3(0)),)), ("zeros", lambda v: (np.zeros(3),))])
    E("fsr.setElements", g, fsr.setElements, [("arrays", lambda v: (np.array(v.vec6(0)), np.array([0, 2]), np.array([9.0, 8.0]))),
                                              ("lists", lambda v: (np.array(v.vec6(0)), [1], [9.0]))])
    E("fsr.deg2Rad(array)", g, fsr.deg2Rad, [("generic", lambda v: (np.array(v.vec3(0)),)), ("zeros", lambda v: (np.zeros(3),))])
    E("fsr.rad2Deg(array)", g, fsr.rad2Deg, [("generic", lambda v: (np.array(v.vec3(0)),)), ("zeros", lambda v: (np.zeros(3),))])


def _chain(n=3):
    """The UR5-like 3-link chain of the Modern Robotics dynamics examples (fresh arrays on every call)."""
    M01 = np.array([[1.0, 0, 0, 0], [0, 1, 0, 0], [0, 0, 1, 0.089159], [0, 0, 0, 1]])
    M12 = np.array([[0.0, 0, 1, 0.28], [0, 1, 0, 0.13585], [-1, 0, 0, 0], [0, 0, 0, 1]])
    M23 = np.array([[1.0, 0, 0, 0], [0, 1, 0, -0.1197], [0, 0, 1, 0.395], [0, 0, 0, 1]])
    M34 = np.array([[1.0, 0, 0, 0], [0, 1, 0, 0], [0, 0, 1, 0.14225], [0, 0, 0, 1]])
    G1 = np.diag([0.010267, 0.010267, 0.00666, 3.7, 3.7, 3.7])
    G2 = np.diag([0.22689, 0.22689, 0.0151074, 8.393, 8.393, 8.393])
    G3 = np.diag([0.0494433, 0.0494433, 0.004095, 2.275, 2.275, 2.275])
    S = np.array([[1.0, 0, 1, 0, 1, 0], [0, 1, 0, -0.089, 0, 0], [0, 1, 0, -0.089, 0, 0.425]]).T
    Ml = [M01, M12, M23, M34]
    Gl = [G1, G2, G3]
    M = np.eye(4)
    for X in Ml[:n + 1]:
        M = M @ X
    return {"S": np.ascontiguousarray(S[:, :n]), "Mlist": np.array(Ml[:n] + [Ml[n] if n < 3 else M34]), "Glist": np.array(Gl[:n]), "M": M}


# ---- ported Modern Robotics functions: arrays handed to them are left unaltered ------------------------------------------
def _table_mr():
    tm, fsr, fmr, Screw, Wrench, mr = _lib()
    g = "mr"

    def R_(v, i=0):
        return T(v, i).gRot()

    def w3(v, i=0):
        return np.array(v.taa(i)[3:])

    def V6(v, i=0):
        return np.array(v.taa(i))[[3, 4, 5, 0, 1, 2]].copy()

    HALF_X = lambda: np.diag([1.0, -1.0, -1.0])
    HALF_Z = lambda: np.diag([-1.0, -1.0, 1.0])

    def TH(R, p=(1.0, 2.0, 3.0)):
        M = np.eye(4)
        M[:3, :3] = R
        M[:3, 3] = p
        return M

    def M(name, fn, pals):
        E("mr." + name, g, fn, pals, mode="mut")

    M("NearZero", mr.NearZero, [("small", lambda v: (-1e-7,)), ("large", lambda v: (0.5,))])
    M("Normalize", mr.Normalize, [("generic", lambda v: (np.array(v.vec3(0)),)), ("unit", lambda v: (np.array([0.0, 0.0, 1.0]),))])
    M("Norm", mr.Norm, [("generic", lambda v: (np.array(v.vec3(0)),)), ("zeros", lambda v: (np.zeros(3),))])
    M("Norm6", mr.Norm6, [("generic", lambda v: (np.array(v.vec6(0)),)), ("col", lambda v: (np.array(v.vec6(0)).reshape(6, 1),))])
    M("RotInv", mr.RotInv, [("generic", lambda v: (R_(v),)), ("identity", lambda v: (np.eye(3),))])
    M("VecToso3", mr.VecToso3, [("generic", lambda v: (w3(v),)), ("zeros", lambda v: (np.zeros(3),))])
    M("so3ToVec", mr.so3ToVec, [("generic", lambda v: (mr.VecToso3(w3(v)),)), ("zeros", lambda v: (np.zeros((3, 3)),))])
    M("AxisAng3", mr.AxisAng3, [("generic", lambda v: (w3(v),)), ("unit", lambda v: (np.array([0.0, 1.0, 0.0]),))])
    M("MatrixExp3", mr.MatrixExp3, [("generic", lambda v: (mr.VecToso3(w3(v)),)), ("zero_rotation", lambda v: (np.zeros((3, 3)),)),
                                    ("below_cutoff", lambda v: (mr.VecToso3(np.array([5e-7, 0.0, 0.0])),))])
    M("SafeTrace", mr.SafeTrace, [("generic", lambda v: (R_(v),)), ("non_square", lambda v: (np.ones((2, 3)),))])
    M("SafeClip", mr.SafeClip, [("inside", lambda v: (0.5, -1.0, 1.0)), ("above", lambda v: (1.5, -1.0, 1.0))])
    M("MatrixLog3", mr.MatrixLog3, [("generic", lambda v: (R_(v),)), ("identity", lambda v: (np.eye(3),)), ("half_turn_x", lambda v: (HALF_X(),)),
                                    ("half_turn_z", lambda v: (HALF_Z(),))])
    M("RpToTrans", mr.RpToTrans, [("generic", lambda v: (R_(v), np.array(v.vec3(0)))), ("identity", lambda v: (np.eye(3), np.zeros(3)))])
    M("TransToRp", mr.TransToRp, [("generic", lambda v: (M4(v),)), ("identity", lambda v: (np.eye(4),))])
    M("TransInv", mr.TransInv, [("generic", lambda v: (M4(v),)), ("identity", lambda v: (np.eye(4),))])
    M("VecTose3", mr.VecTose3, [("generic", lambda v: (V6(v),)), ("zeros", lambda v: (np.zeros(6),))])
    M("se3ToVec", mr.se3ToVec, [("generic", lambda v: (mr.VecTose3(V6(v)),)), ("zeros", lambda v: (np.zeros((4, 4)),))])
    M("Adjoint", mr.Adjoint, [("generic", lambda v: (M4(v),)), ("identity", lambda v: (np.eye(4),))])
    M("ScrewToAxis", mr.ScrewToAxis, [("generic", lambda v: (np.array([3.0, 0.0, 0.0]), np.array([0.0, 0.0, 1.0]), 2.0)),
                                      ("zero_pitch", lambda v: (np.zeros(3), np.array([0.0, 0.0, 1.0]), 0))])
    M("AxisAng6", mr.AxisAng6, [("generic", lambda v: (V6(v),)), ("pure_translation", lambda v: (np.array([0.0, 0.0, 0.0, 1.0, 2.0, 2.0]),))])
    M("MatrixExp6", mr.MatrixExp6, [("generic", lambda v: (mr.VecTose3(V6(v)),)), ("pure_translation", lambda v: (mr.VecTose3(np.array([0.0, 0.0, 0.0, 1.0, 2.0, 3.0])),)),
                                    ("zeros", lambda v: (np.zeros((4, 4)),))])
    M("MatMul", mr.MatMul, [("generic", lambda v: (M4(v, 0), M4(v, 1))), ("same_object", lambda v: (lambda a: (a, a))(M4(v, 0)))])
    M("SafeDot", mr.SafeDot, [("generic", lambda v: (M4(v, 0), M4(v, 1))), ("same_object", lambda v: (lambda a: (a, a))(M4(v, 0)))])
    M("SafeCopy", mr.SafeCopy, [("generic", lambda v: (M4(v, 0),)), ("identity", lambda v: (np.eye(4),))])
    M("LocalToGlobal", mr.LocalToGlobal, [("generic", lambda v: (A61(v, 0), A61(v, 1))), ("identity_rel", lambda v: (A61(v, 0), np.zeros((6, 1)))),
                                          ("same_object", lambda v: (lambda a: (a, a))(A61(v, 0)))])
    M("GlobalToLocal", mr.GlobalToLocal, [("generic", lambda v: (A61(v, 0), A61(v, 1))), ("identity_ref", lambda v: (np.zeros((6, 1)), A61(v, 1))),
                                          ("same_object", lambda v: (lambda a: (a, a))(A61(v, 0)))])
    M("MatrixLog6", mr.MatrixLog6, [("generic", lambda v: (M4(v),)), ("pure_translation", lambda v: (TH(np.eye(3)),)), ("half_turn_x", lambda v: (TH(HALF_X()),)),
                                    ("identity", lambda v: (np.eye(4),))])
    near = lambda v: R_(v) + np.array([[0.01, -0.02, 0.0], [0.0, 0.01, 0.015], [-0.01, 0.0, 0.02]])
    refl = lambda: 1.25 * np.array([[0.0, -1.0, 0.0], [1.0, 0.0, 0.0], [0.0, 0.0, 1.0]])      # a scaled quarter turn
    M("ProjectToSO3", mr.ProjectToSO3, [("near_rotation", lambda v: (near(v),)), ("scaled_rotation", lambda v: (refl(),))])
    M("ProjectToSE3", mr.ProjectToSE3, [("near_rotation", lambda v: (TH(near(v)),)), ("scaled_rotation", lambda v: (TH(refl()),))])
    M("DistanceToSO3", mr.DistanceToSO3, [("near_rotation", lambda v: (near(v),)), ("scaled_rotation", lambda v: (refl(),))])
    M("DistanceToSE3", mr.DistanceToSE3, [("near_rotation", lambda v: (TH(near(v)),)), ("scaled_rotation", lambda v: (TH(refl()),))])
    M("TestIfSO3", mr.TestIfSO3, [("rotation", lambda v: (R_(v),)), ("near_rotation", lambda v: (near(v),))])
    M("TestIfSE3", mr.TestIfSE3, [("transform", lambda v: (M4(v),)), ("near", lambda v: (TH(near(v)),))])
    # chains

    def ch(n=3):
        return _chain(n)

    def body(c):
        return np.ascontiguousarray(mr.Adjoint(mr.TransInv(c["M"])) @ c["S"])

    M("FKinSpace", mr.FKinSpace, [("3_joints", lambda v: (lambda c: (c["M"], c["S"], v.thetas(3)))(ch())), ("zero_angles", lambda v: (lambda c: (c["M"], c["S"], np.zeros(3)))(ch())),
                                  ("1_joint", lambda v: (lambda c: (c["M"], c["S"], v.thetas(1)))(ch(1)))])
    M("FKinBody", mr.FKinBody, [("3_joints", lambda v: (lambda c: (c["M"], body(c), v.thetas(3)))(ch())), ("zero_angles", lambda v: (lambda c: (c["M"], body(c), np.zeros(3)))(ch()))])
    M("JacobianSpace", mr.JacobianSpace, [("3_joints", lambda v: (ch()["S"], v.thetas(3))), ("zero_angles", lambda v: (ch()["S"], np.zeros(3)))])
    M("JacobianBody", mr.JacobianBody, [("3_joints", lambda v: (body(ch()), v.thetas(3))), ("zero_angles", lambda v: (body(ch()), np.zeros(3)))])

    def ikargs(v, space, far=False):
        c = ch()
        th = v.thetas(3, 1)
        goal = mr.FKinSpace(c["M"], c["S"], th)
        if far:
            goal = goal.copy()
            goal[:3, 3] += 50.0
        th0 = th + np.array([0.05, -0.04, 0.03])
        return ((c["S"] if space else body(c)), c["M"], goal, th0, 1e-6, 1e-6)

    M("IKinSpace", mr.IKinSpace, [("converging", lambda v: ikargs(v, True)), ("unreachable", lambda v: ikargs(v, True, True))])
    M("IKinBody", mr.IKinBody, [("converging", lambda v: ikargs(v, False)), ("unreachable", lambda v: ikargs(v, False, True))])
    M("fmr.IKinSpaceConstrained", fmr.IKinSpaceConstrained,
      [("converging", lambda v: (lambda a: (a[0], a[1], a[2], a[3], 1e-6, 1e-6, -2.0 * np.ones(3), 2.0 * np.ones(3), 20))(ikargs(v, True))),
       ("start_outside_limits", lambda v: (lambda a: (a[0], a[1], a[2], a[3] + 3.0, 1e-6, 1e-6, -2.0 * np.ones(3), 2.0 * np.ones(3), 20))(ikargs(v, True)))])
    M("fmr.TrVec", fmr.TrVec, [("generic", lambda v: (M4(v), np.array(v.vec3(0)))), ("identity", lambda v: (np.eye(4), np.array(v.vec3(0))))])
    M("ad", mr.ad, [("generic", lambda v: (V6(v),)), ("zeros", lambda v: (np.zeros(6),))])
    # dynamics
    grav = lambda: np.array([0.0, 0.0, -9.8])
    ftip = lambda: np.array([1.0, 1.0, 1.0, 1.0, 1.0, 1.0])

    def dyn(v, zero=False):
        c = ch()
        th = np.zeros(3) if zero else v.thetas(3)
        return c, th, np.array([0.1, 0.2, 0.3]), np.array([2.0, 1.5, 1.0])

    M("InverseDynamics", mr.InverseDynamics, [("generic", lambda v: (lambda c, th, d, dd: (th, d, dd, grav(), ftip(), c["Mlist"], c["Glist"], c["S"]))(*dyn(v))),
                                              ("at_rest", lambda v: (lambda c, th, d, dd: (th, np.zeros(3), np.zeros(3), grav(), np.zeros(6), c["Mlist"], c["Glist"], c["S"]))(*dyn(v, True)))])
    M("MassMatrix", mr.MassMatrix, [("generic", lambda v: (lambda c, th, d, dd: (th, c["Mlist"], c["Glist"], c["S"]))(*dyn(v))),
                                    ("zero_angles", lambda v: (lambda c, th, d, dd: (th, c["Mlist"], c["Glist"], c["S"]))(*dyn(v, True)))])
    M("VelQuadraticForces", mr.VelQuadraticForces, [("generic", lambda v: (lambda c, th, d, dd: (th, d, c["Mlist"], c["Glist"], c["S"]))(*dyn(v))),
                                                    ("zero_angles", lambda v: (lambda c, th, d, dd: (th, d, c["Mlist"], c["Glist"], c["S"]))(*dyn(v, True)))])
    M("GravityForces", mr.GravityForces, [("generic", lambda v: (lambda c, th, d, dd: (th, grav(), c["Mlist"], c["Glist"], c["S"]))(*dyn(v))),
                                          ("zero_angles", lambda v: (lambda c, th, d, dd: (th, grav(), c["Mlist"], c["Glist"], c["S"]))(*dyn(v, True)))])
    M("EndEffectorForces", mr.EndEffectorForces, [("generic", lambda v: (lambda c, th, d, dd: (th, ftip(), c["Mlist"], c["Glist"], c["S"]))(*dyn(v))),
                                                  ("zero_angles", lambda v: (lambda c, th, d, dd: (th, ftip(), c["Mlist"], c["Glist"], c["S"]))(*dyn(v, True)))])
    M("ForwardDynamics", mr.ForwardDynamics, [("generic", lambda v: (lambda c, th, d, dd: (th, d, np.array([0.5, 0.6, 0.7]), grav(), ftip(), c["Mlist"], c["Glist"], c["S"]))(*dyn(v))),
                                              ("at_rest", lambda v: (lambda c, th, d, dd: (th, np.zeros(3), np.zeros(3), grav(), np.zeros(6), c["Mlist"], c["Glist"], c["S"]))(*dyn(v, True)))])
    M("EulerStep", mr.EulerStep, [("generic", lambda v: (v.thetas(3), np.array([0.1, 0.2, 0.3]), np.array([2.0, 1.5, 1.0]), 0.1)),
                                  ("zero_step", lambda v: (v.thetas(3), np.array([0.1, 0.2, 0.3]), np.array([2.0, 1.5, 1.0]), 0.0))])

    def traj(v, N=4):
        c = ch()
        a, b = v.thetas(3), v.thetas(3, 1) + 0.5
        th = np.array(mr.JointTrajectory(a, b, 1.0, N, 5))
        dth = np.gradient(th, axis=0) * (N - 1)
        ddth = np.gradient(dth, axis=0) * (N - 1)
        return c, np.ascontiguousarray(th), np.ascontiguousarray(dth), np.ascontiguousarray(ddth)

    M("InverseDynamicsTrajectory", mr.InverseDynamicsTrajectory,
      [("4_steps", lambda v: (lambda c, th, d, dd: (th, d, dd, grav(), np.ones((4, 6)), c["Mlist"], c["Glist"], c["S"]))(*traj(v))),
       ("2_steps", lambda v: (lambda c, th, d, dd: (th, d, dd, grav(), np.zeros((2, 6)), c["Mlist"], c["Glist"], c["S"]))(*traj(v, 2)))])
    M("ForwardDynamicsTrajectory", mr.ForwardDynamicsTrajectory,
      [("4_steps", lambda v: (lambda c: (v.thetas(3), np.array([0.1, 0.2, 0.3]), np.ones((4, 3)) * 0.5, grav(), np.ones((4, 6)), c["Mlist"], c["Glist"], c["S"], 0.1, 2))(ch())),
       ("intRes_1", lambda v: (lambda c: (v.thetas(3), np.array([0.1, 0.2, 0.3]), np.ones((3, 3)) * 0.5, grav(), np.zeros((3, 6)), c["Mlist"], c["Glist"], c["S"], 0.05, 1))(ch()))])
    M("CubicTimeScaling", mr.CubicTimeScaling, [("mid", lambda v: (2.0, 0.6)), ("end", lambda v: (2.0, 2.0))])
    M("QuinticTimeScaling", mr.QuinticTimeScaling, [("mid", lambda v: (2.0, 0.6)), ("end", lambda v: (2.0, 2.0))])
    M("JointTrajectory", mr.JointTrajectory, [("cubic", lambda v: (v.thetas(3), v.thetas(3, 1) + 0.5, 2.0, 4, 3)), ("quintic", lambda v: (v.thetas(3), v.thetas(3, 1) + 0.5, 2.0, 4, 5)),
                                              ("same_object", lambda v: (lambda a: (a, a, 2.0, 3, 3))(v.thetas(3)))])
    M("ScrewTrajectory", mr.ScrewTrajectory, [("cubic", lambda v: (M4(v, 0), M4(v, 1), 2.0, 4, 3)), ("quintic", lambda v: (M4(v, 0), M4(v, 1), 2.0, 4, 5)),
                                              ("same_object", lambda v: (lambda a: (a, a, 2.0, 3, 3))(M4(v, 0)))])
    M("CartesianTrajectory", mr.CartesianTrajectory, [("cubic", lambda v: (M4(v, 0), M4(v, 1), 2.0, 4, 3)), ("quintic", lambda v: (M4(v, 0), M4(v, 1), 2.0, 4, 5)),
                                                      ("same_object", lambda v: (lambda a: (a, a, 2.0, 3, 3))(M4(v, 0)))])
    M("ComputedTorque", mr.ComputedTorque,
      [("generic", lambda v: (lambda c: (v.thetas(3), np.array([0.1, 0.2, 0.3]), np.array([0.2, 0.2, 0.2]), grav(), c["Mlist"], c["Glist"], c["S"],
                                         np.array([1.0, 1.0, 1.0]), np.array([2.0, 1.2, 2.0]), np.array([0.1, 0.1, 0.1]), 1.3, 1.2, 1.1))(ch())),
       ("desired_is_actual", lambda v: (lambda c, th, d: (th, d, np.zeros(3), grav(), c["Mlist"], c["Glist"], c["S"], th, d, np.zeros(3), 1.3, 1.2, 1.1))(ch(), v.thetas(3), np.array([0.1, 0.2, 0.3])))])

    def simargs(v, N=3):
        c, th, dth, ddth = traj(v, N)
        c2 = ch()
        return (v.thetas(3), np.array([0.1, 0.2, 0.3]), grav(), np.ones((N, 6)), c["Mlist"], c["Glist"], c["S"], th, dth, ddth,
                np.array([0.8, 0.2, -8.8]), c2["Mlist"] * 1.0, c2["Glist"] * 1.1, 20.0, 10.0, 18.0, 0.1, 2)

    M("SimulateControl", mr.SimulateControl, [("3_steps", lambda v: simargs(v, 3)), ("2_steps", lambda v: simargs(v, 2))])


# ---- robot constructors and loaders ---------------------------------------------------------------------------------
def _dyn_parts():
    """Everything the 6R test arm of the repository's own suite is built from, as fresh objects."""
    tm, fsr = _lib()[0], _lib()[1]
    L1, L2, L3, W = 4.5, 3.75, 3.75, 0.1
    Tspace = [tm(np.array([[0], [0], [L1 / 2], [0], [0], [0]])), tm(np.array([[L2 / 2], [0], [L1], [0], [0], [0]])),
              tm(np.array([[L2 + (L3 / 2)], [0], [L1], [0], [0], [0]])), tm(np.array([[L2 + L3 + (W / 2)], [0], [L1], [0], [0], [0]])),
              tm(np.array([[L2 + L3 + W + (W / 2)], [0], [L1], [0], [0], [0]])), tm(np.array([[L2 + L3 + W + W + (W / 2)], [0], [L1], [0], [0], [0]]))]
    ee = tm(np.array([[L2 + L3 + 3 * W], [0], [L1], [0], [0], [0]]))
    axes = np.array([[0, 0, 1], [0, 1, 0], [0, 1, 0], [1, 0, 0], [0, 1, 0], [1, 0, 0]], float).T.copy()
    homes = np.array([[0, 0, 0], [0, 0, L1], [L2, 0, L1], [L2 + L3, 0, L1], [L2 + L3 + W, 0, L1], [L2 + L3 + 2 * W, 0, L1]], float).T.copy()
    S = np.zeros((6, 6))
    for i in range(6):
        S[0:6, i] = np.hstack((axes[0:3, i], np.cross(homes[0:3, i], axes[0:3, i])))
    dims = np.array([[W, W, L1], [L2, W, W], [L3, W, W], [W, W, W], [W, W, W], [W, W, W]]).T.copy()
    mt = [None] * 7
    mt[0] = Tspace[0].copy()
    for i in range(1, 6):
        mt[i] = Tspace[i - 1].inv() @ Tspace[i]
    mt[6] = Tspace[5].inv() @ ee
    masses = np.array([20.0, 20.0, 20.0, 1.0, 1.0, 1.0, 0.5])     # one entry per link frame incl. the tool (staticForcesWithLinkMasses)
    G = np.zeros((6, 6, 6))
    for i in range(6):
        G[i, :, :] = fsr.boxSpatialInertia(masses[i], dims[0, i], dims[1, i], dims[2, i])
    return {"base": tm(), "S": S, "ee": ee, "homes": homes, "axes": axes, "lo": -2 * PI * np.ones(6), "hi": 2 * PI * np.ones(6),
            "Tspace": Tspace, "masses": masses, "mt": mt, "G": G, "dims": dims}


def _dyn_build(base, S, ee, homes, axes, lo, hi, Tspace, masses, mt, G, dims):
    from basic_robotics.kinematics import Arm
    arm = Arm(base, S, ee, homes, axes)
    arm.setJointProperties(lo, hi)
    arm.setOrigins(link_homes_global=Tspace)
    arm.setMassProperties(masses, mt, G)
    arm.setVisColProperties(link_dimensions=dims)
    return arm


_DYN_KEYS = ("base", "S", "ee", "homes", "axes", "lo", "hi", "Tspace", "masses", "mt", "G", "dims")


def _dyn_arm():
    p = _dyn_parts()
    return _dyn_build(*[p[k] for k in _DYN_KEYS])


def _sp_parts(base_taa):
    """Joint tables and plate poses of a valid platform (taken from a platform the library's own generator lays out),
    as fresh arrays."""
    tm = _lib()[0]
    from basic_robotics.kinematics import sp_model
    sp = sp_model.newSP(0.9, 0.3, 9, 25, 0.1, 0.16, 0.9, 0.5, 1.0, 6.0, 0.2, 0.2, 0.75, 1.5, tm(), "probe")
    bj = np.array(sp._bottom_joints_local, float).copy()
    tj = np.array(sp._top_joints_local, float).copy()
    h = float(sp.getTopT()[2]) if hasattr(sp, "getTopT") else float(sp._end_effector_pos_global[2])
    bT = tm(list(base_taa))
    tT = bT @ tm([0.0, 0.0, h, 0.0, 0.0, 0.0])
    return bj, tj, bT, tT


_SP_JSON = {"Name": "Basic SP", "Type": "SP", "BottomPlate": {"Thickness": 0.1, "JointRadius": 0.9, "JointSpacing": 9, "Mass": 6},
            "TopPlate": {"Thickness": 0.16, "JointRadius": 0.3, "JointSpacing": 25, "Mass": 1},
            "Actuators": {"MinExtension": 0.75, "MaxExtension": 1.5, "MotorMass": 0.5, "ShaftMass": 0.9, "ForceLimit": 800, "MotorCOGD": 0.2, "ShaftCOGD": 0.2},
            "Drawing": {"TopRadius": 1, "BottomRadius": 1, "ShaftRadius": 0.1, "MotorRadius": 0.2},
            "Settings": {"MaxAngleDev": 55, "GenerateActuators": 0, "IgnoreRestHeight": 1, "UseSpin": 0, "AssignMasses": 1, "InferActuatorCOG": 1},
            "Params": {"RestHeight": 1.2, "Spin": 30}}
_SP_FILE = []


def _sp_file():
    if not _SP_FILE:
        d = tempfile.mkdtemp(prefix="c14_")
        with open(os.path.join(d, "sp.json"), "w") as f:
            json.dump(_SP_JSON, f)
        _SP_FILE.append(d + os.sep)
    return _SP_FILE[0]


def _table_robots():
    tm, fsr, fmr, Screw, Wrench, mr = _lib()
    from basic_robotics.kinematics import Arm, SP, loadArmFromURDF, loadSP, makeSP
    from basic_robotics.kinematics.sp_model import newSP
    from checks import armlib
    g = "robots"

    def chain_ops(kind, bname, with_axes=True):
        d = armlib.six_r_data() if kind == "6R" else armlib.gen_chain_data(kind)
        B = armlib.base_T(bname)
        return (tm(B.copy()), d["S"].copy(), tm(d["M"].copy()), d["homes"].copy(), d["axes"].copy() if with_axes else None)

    def th_of(arm, v, i=0):
        return np.asarray(v.thetas(arm.num_dof, i), float).copy()

    def op_ik(arm, v):
        goal = arm.FK(th_of(arm, v, 1)).copy()
        with armlib.scripted_random([0.5, 0.25, 0.75]):
            arm.IK(goal, th_of(arm, v, 0))

    def op_tool(arm, v):
        arm.setArbitraryHome(arm.getEEPos() @ tm([0.1, 0.0, 0.2, 0.0, 0.1, 0.0]))
        arm.FK(th_of(arm, v))
        arm.restoreOriginalEE()

    arm_ops = [("FK", lambda arm, v: arm.FK(th_of(arm, v))),
               ("IK", op_ik),
               ("move", lambda arm, v: arm.move(tm([1.0, 2.0, 3.0, 0.2, 0.3, -0.4]))),
               ("move+FK", lambda arm, v: (arm.move(tm([1.0, 2.0, 3.0, 0.2, 0.3, -0.4])), arm.FK(th_of(arm, v)))),
               ("tool_change", op_tool),
               ("jacobians", lambda arm, v: (arm.jacobian(th_of(arm, v)), arm.jacobianBody(th_of(arm, v)), arm.getJointTransforms()))]
    E("Arm(base,screws,home,joint_homes,axes)", g, lambda b, S, M, h, a: Arm(b, S, M, h, a),
      [("6R@identity", lambda v: chain_ops("6R", "I")), ("3R@B0", lambda v: chain_ops("3R", "B0")), ("2RP@B2_no_axes", lambda v: chain_ops("2RP", "B2", False)),
       ("7R@B1", lambda v: chain_ops("7R", "B1"))], mode="ctor", postops=arm_ops)

    def op_dyn(arm, v):
        th, thd = th_of(arm, v), np.array([0.1, -0.2, 0.3, 0.1, 0.2, -0.1])
        arm.massMatrix(th)
        arm.inverseDynamics(th, thd, np.zeros(6))
        arm.staticForcesWithLinkMasses(fsr.makeWrench(tm(), 5.0, [0.0, 0.0, -9.81]), th)
        arm.forwardDynamicsE(th, thd, np.zeros(6))

    def dyn_ops(v, base=None):
        p = _dyn_parts()
        if base is not None:
            p["base"] = tm(list(base))
        return tuple(p[k] for k in _DYN_KEYS)

    E("Arm(...)+setJointProperties+setOrigins+setMassProperties+setVisColProperties", g, _dyn_build,
      [("6R@identity", lambda v: dyn_ops(v)), ("6R@B0", lambda v: dyn_ops(v, armlib.BASES["B0"]))], mode="ctor", postops=arm_ops + [("dynamics", op_dyn)])
    urdf = lambda n: os.path.join(armlib.URDF_DIR, armlib.URDFS[n])
    E("loadArmFromURDF(file)", g, loadArmFromURDF, [("ur5", lambda v: (urdf("ur5"),)), ("irb2400", lambda v: (urdf("irb2400"),))], mode="ctor", postops=arm_ops[:1] + arm_ops[2:3])
    # platforms
    sp_ops = [("IK", lambda sp, v: sp.IK(top_plate_pos=sp.getBottomT() @ tm([0.05, -0.03, 1.15, 0.05, 0.02, -0.04]), protect=True)),
              ("FK", lambda sp, v: sp.FK(np.array(sp.getLens(), float).copy() * 1.01, protect=True)),
              ("move", lambda sp, v: sp.move(tm([1.0, 2.0, 3.0, 0.0, 0.0, 0.3]), protect=True))]
    E("SP(bottom_joints,top_joints,bT,tT,...)", g, lambda bj, tj, bT, tT: SP(bj, tj, bT, tT, 0.75, 1.5, 0.1, 0.16, "c14"),
      [("at_identity", lambda v: _sp_parts([0.0] * 6)), ("at_B0", lambda v: _sp_parts(armlib.BASES["B0"]))], mode="ctor", postops=sp_ops)
    E("newSP(...,base_location,...)", g, lambda b: newSP(0.9, 0.3, 9, 25, 0.1, 0.16, 0.9, 0.5, 1.0, 6.0, 0.2, 0.2, 0.75, 1.5, b, "c14"),
      [("identity", lambda v: (tm(),)), ("B0", lambda v: (tm(list(armlib.BASES["B0"])),))], mode="ctor", postops=sp_ops)
    E("loadSP(file,dir,baseloc)", g, lambda b: loadSP("sp.json", _sp_file(), b), [("B0", lambda v: (tm(list(armlib.BASES["B0"])),)), ("identity", lambda v: (tm(),))],
      mode="ctor", postops=sp_ops)
    E("makeSP(...,baseT,...)", g, lambda b: makeSP(0.9, 0.3, 9, b, 1.1, 1, 0.1)[0], [("identity", lambda v: (tm(),)), ("B0", lambda v: (tm(list(armlib.BASES["B0"])),))],
      mode="ctor", postops=sp_ops)


# ---- second constructions ---------------------------------------------------------------------------------------------
def _ident_problems(t, what):
    out = []
    if not np.array_equal(np.asarray(t.TM), np.eye(4)):
        out.append(what + ".TM is not the identity: " + str(np.asarray(t.TM).ravel()[:8].tolist()))
    if not np.array_equal(np.asarray(t.TAA).reshape(-1), np.zeros(6)):
        out.append(what + ".TAA is not zero: " + str(np.asarray(t.TAA).ravel().tolist()))
    return out


def _zero_screw_problems(s, frames=("frame_applied",)):
    out = []
    if not np.array_equal(np.asarray(s.data).reshape(-1), np.zeros(6)):
        out.append("data is not zero: " + str(np.asarray(s.data).ravel().tolist()))
    for f in frames:
        out += _ident_problems(getattr(s, f), f)
    return out


def _table_defaults():
    tm, fsr, fmr, Screw, Wrench, mr = _lib()
    g = "defaults"
    none = [("no_arguments", lambda v: ())]
    E("default tm()", g, lambda: tm(), none, mode="fresh", getters=("gTM", "gTAA", "gPos", "gRot"),
      fresh={"again": lambda v, ops, pn: tm(), "absolute": lambda t: _ident_problems(t, "tm()")})
    E("default tm(rpy=True)", g, lambda: tm(rpy=True), none, mode="fresh", getters=("gTM", "gTAA", "gPos"),
      fresh={"again": lambda v, ops, pn: tm(rpy=True), "absolute": lambda t: _ident_problems(t, "tm(rpy=True)")})
    E("default Screw()", g, lambda: Screw(), none, mode="fresh", getters=("getData", "flatten"),
      fresh={"again": lambda v, ops, pn: Screw(), "absolute": lambda s: _zero_screw_problems(s)})
    E("default Screw(frame_applied=f)", g, lambda f: Screw(frame_applied=f), [("generic_frame", lambda v: (T(v, 4),)), ("identity_frame", lambda v: (tm(),))],
      mode="fresh", getters=("getData",),
      fresh={"again": lambda v, ops, pn: Screw(frame_applied=ops[0].copy()), "absolute": lambda s: _zero_screw_problems(s, ())})
    E("default Wrench()", g, lambda: Wrench(), none, mode="fresh", getters=("getData", "getForce", "getMoment"),
      fresh={"again": lambda v, ops, pn: Wrench(), "absolute": lambda s: _zero_screw_problems(s, ("frame_applied", "position_applied"))})
    E("default Wrench(position_applied=p)", g, lambda p: Wrench(position_applied=p), [("generic_position", lambda v: (T(v, 3),)), ("identity_position", lambda v: (tm(),))],
      mode="fresh", getters=("getData",),
      fresh={"again": lambda v, ops, pn: Wrench(position_applied=ops[0].copy()), "absolute": lambda s: _zero_screw_problems(s, ("frame_applied",))})
    mkw = [("array_dir", lambda v: (T(v, 3), np.array([0.0, 0.0, -9.81]))), ("identity_pos", lambda v: (tm(), np.array(v.vec3(0))))]
    E("default fsr.makeWrench(frame_applied)", g, lambda p, d: fsr.makeWrench(p, 2.0, d), mkw, mode="fresh", getters=("getData",),
      fresh={"again": lambda v, ops, pn: fsr.makeWrench(*dict(mkw)[pn.split("~")[0]](v)[:1], 2.0, dict(mkw)[pn.split("~")[0]](v)[1]),
             "absolute": lambda w: _ident_problems(w.frame_applied, "frame_applied")})
    # Wrench() defaults of the Arm methods (arm_model.py): the arm is context (its state legitimately changes)
    th = lambda: np.array([0.1, 0.4, -0.3, 0.25, -0.5, 0.2])
    thd = lambda: np.array([0.1, -0.2, 0.3, 0.1, 0.2, -0.1])
    thdd = lambda: np.array([0.5, 0.4, -0.3, 0.2, 0.1, -0.2])
    tau = lambda: np.array([1.0, -2.0, 0.5, 0.1, 0.0, 0.2])
    methods = {
        "staticForcesWithCrossMoments": (lambda arm, **k: arm.staticForcesWithCrossMoments(theta=th(), **k)),
        "staticForcesWithLinkMasses": (lambda arm, **k: arm.staticForcesWithLinkMasses(theta=th(), **k)),
        "inverseDynamicsEMR": (lambda arm, **k: arm.inverseDynamicsEMR(th(), thd(), thdd(), **k)),
        "inverseDynamics": (lambda arm, **k: arm.inverseDynamics(th(), thd(), thdd(), **k)),
        "inverseDynamicsC": (lambda arm, **k: arm.inverseDynamicsC(th(), thd(), thdd(), **k)),
        "forwardDynamicsE": (lambda arm, **k: arm.forwardDynamicsE(th(), thd(), tau(), **k)),
        "forwardDynamics": (lambda arm, **k: arm.forwardDynamics(th(), thd(), tau(), **k)),
        "integrateForwardDynamics": (lambda arm, **k: arm.integrateForwardDynamics(th(), thd(), tau(), dt=0.01, **k)),
    }
    for nm in methods:
        f = methods[nm]
        E("default Arm.%s(end_effector_wrench)" % nm, g, (lambda f: lambda arm: f(arm))(f),
          [("second_call_on_fresh_arm", lambda v: (_dyn_arm(),)), ("second_call_on_same_arm", lambda v: (_dyn_arm(),))], mode="fresh", opaque=1,
          fresh={"again": (lambda f: lambda v, ops, pn: f(ops[0]) if pn.startswith("second_call_on_same_arm") else f(_dyn_arm()))(f),
                 "explicit": (lambda f: lambda v: f(_dyn_arm(), end_effector_wrench=Wrench()))(f)})
    why = ("the Modern-Robotics based dynamics cannot take a Wrench object as Ftip (np.array(Wrench) is (6,1)), so the call with the "
           "default - and with an explicit Wrench() - raises; D19 for inverseDynamicsEMR; both belong to C08")
    RAISE_OWNED_ELSEWHERE["default Arm.inverseDynamicsEMR(end_effector_wrench)"] = why
    RAISE_OWNED_ELSEWHERE["default Arm.forwardDynamics(end_effector_wrench)"] = why


# ------------------------------------------------------------------------------------------------ enumeration
def palette_ids(e, seed, tier="quick"):
    """[(palette id, variant)]: every palette with the fixed values; the first palette (thorough tier: every palette)
    once more with the seed-generic values when that changes an operand (or, for constructors, the arguments of the
    follow-up calls)."""
    out = [(pn, "fixed") for pn, _ in e.pals]
    for pn, fac in (e.pals if tier == "thorough" else e.pals[:1]):
        if e.mode == "ctor":
            out.append((pn + "~seed", "seed"))
        else:
            with contextlib.redirect_stdout(io.StringIO()):
                a = _values(list(fac(Vals(seed, "fixed"))[e.opaque:]))
                b = _values(list(fac(Vals(seed, "seed"))[e.opaque:]))
            if a != b:
                out.append((pn + "~seed", "seed"))
    # transforms whose rotation vector is wound beyond a full turn (helpers that normalise angles must do so on a copy)
    if e.group in ("tm", "fsr") and e.mode != "ctor":
        pn, fac = e.pals[0]
        with contextlib.redirect_stdout(io.StringIO()):
            a = _values(list(fac(Vals(seed, "fixed"))[e.opaque:]))
            c = _values(list(fac(Vals(seed, "wound"))[e.opaque:]))
        if a != c:
            out.append((pn + "~wound", "wound"))
    return out


def _variant(pid):
    return "seed" if pid.endswith("~seed") else ("wound" if pid.endswith("~wound") else "fixed")


def explore(seed, acc, only=None, tier="quick"):
    build_table()
    per_group, raised, views, site_skips, returns_operand = {}, {}, {}, {}, 0
    samples, sampled, sampled_kinds = [], {}, {}
    restored = 0
    for e in TABLE:
        if only and e.name not in only:
            continue
        gstat = per_group.setdefault(e.group, {"entries": 0, "cases": 0, "sites": 0})
        gstat["entries"] += 1
        for pid, variant in palette_ids(e, seed, tier):
            r = run_history(e, pid, variant, "call", seed)
            nontriv = r["info"].get("operand_arrays", 0) > 0 or e.mode == "fresh"
            acc.case(key="%s|%s|call" % (e.name, pid), nontrivial=nontriv)
            gstat["cases"] += 1
            restored += r["info"].get("restored_defaults", 0)
            returns_operand += r["info"].get("returns_operand", 0)
            if "raised" in r["info"]:
                raised[e.name] = r["info"]["raised"][:160]
                acc.outcome("raised")
            else:
                acc.outcome("call_ok")
            if r["info"].get("views_of_operand"):
                views[e.name] = r["info"]["views_of_operand"][:2]
            for clause, obs in r["viols"]:
                acc.violation(clause, case_of(e, pid, "call", seed), obs)
            for site in r["sites"]:
                r2 = run_history(e, pid, variant, site, seed)
                st = r2["info"].get("site_status", "not-reached")
                acc.case(key="%s|%s|%s" % (e.name, pid, site), nontrivial=nontriv and st == "done")
                gstat["sites"] += 1
                restored += r2["info"].get("restored_defaults", 0)
                if st != "done":
                    site_skips["%s|%s|%s" % (e.name, pid, site)] = st
                    acc.outcome("site_" + st.split(":")[0])
                else:
                    acc.outcome("site_done")
                for clause, obs in r2["viols"]:
                    acc.violation(clause, case_of(e, pid, site, seed), obs)
                if st == "done" and nontriv and sampled.get(e.group, 0) < 2 and pid != e.pals[0][0] and site.split(":")[0] not in sampled_kinds.get(e.group, ()):
                    sampled[e.group] = sampled.get(e.group, 0) + 1
                    sampled_kinds.setdefault(e.group, set()).add(site.split(":")[0])
                    samples.append({"entry": e.name, "palette": pid, "site": site,
                                    "history": ["1 build fresh operands (palette %s): %d ndarrays fingerprinted (+ %d default objects)" % (pid, r2["info"].get("operand_arrays", 0), len(registry().objs)),
                                                "2 call %s: operands unchanged, %d result arrays share nothing" % (e.name, r2["info"].get("result_arrays", 0)),
                                                "3 mutate result at %s: operands and defaults still unchanged" % site]})
    registry().restore()
    return {"samples": samples, "per_group": per_group, "raised": raised, "mut_mode_results_viewing_operands": views, "site_not_done": site_skips,
            "results_that_are_an_operand_itself": returns_operand, "default_arrays_restored_between_histories": restored}


RULE = ("complete product  table entries x operand palettes (fixed palettes + the first palette - thorough tier: every palette - with one seed-generic element) x "
        "mutation sites discovered on the result (element / slice assignment and changeFrame on every tm/Screw/Wrench, "
        "arr[...]=sentinel on every exposed ndarray; constructors: one follow-up method call); every history is executed from "
        "scratch in one process; distinct = distinct (entry, palette, site) keys; non-trivial = at least one ndarray reachable "
        "from the operands (default-construction entries: the hidden default objects) and, for site cases, the mutation was performed")


def run(ctx):
    import warnings
    warnings.filterwarnings("ignore")
    acc = lattice.Acc(max_viol=600)
    build_table()
    ctx.log("table: %d entries" % len(TABLE))
    with np.errstate(all="ignore"):
        extra = explore(ctx.seed, acc, tier=ctx.tier)
    m = lattice.merge([acc.result()])
    m["complete"] = True
    # one representative of every (entry, clause) first, so the written replays cover every distinct finding
    seen, first, rest = set(), [], []
    for r in m["viols"]:
        k = (r["case"]["entry"], r["clause"])
        (rest if k in seen else first).append(r)
        seen.add(k)
    m["viols"] = first + rest
    ctx.log("histories=%d distinct_nontrivial=%d violations=%d" % (m["evals"], len(m["keys"]) + m["ntc"], m["nviol"]))
    lattice.fill(ctx, [("histories", m)], RULE,
                 {"entries": len(TABLE), "groups": {k: v["entries"] for k, v in extra["per_group"].items()},
                  "hidden_default_objects": registry().names})
    ctx.coverage["samples"] = extra["samples"]
    ctx.coverage["table_entries"] = [e.name for e in TABLE]
    ctx.coverage["per_group"] = extra["per_group"]
    ctx.coverage["raised_outside_this_property"] = {k: {"error": v, "owner": RAISE_OWNED_ELSEWHERE.get(k, "VIOLATION raised")} for k, v in extra["raised"].items()}
    ctx.coverage["mut_mode_results_viewing_operands"] = extra["mut_mode_results_viewing_operands"]
    ctx.coverage["site_not_done"] = extra["site_not_done"]
    ctx.coverage["results_that_are_an_operand_itself"] = extra["results_that_are_an_operand_itself"]
    ctx.coverage["default_arrays_restored_between_histories"] = extra["default_arrays_restored_between_histories"]
    ctx.coverage["max_depth_completed"] = 3
    ctx.assumptions += [
        "histories have exactly three steps (build, call, one mutation); interactions needing two different mutations are not explored",
        "sharing is judged on ndarray storage (np.shares_memory, exact) and on byte/identity/extent fingerprints; Python lists and scalars are compared by value",
        "frame/position metadata objects of screws and wrenches are neither scanned for sharing nor written to (property exclusion)",
        "for the ported Modern Robotics functions only 'arguments left unaltered' is demanded; results that are views of an argument are listed, not flagged",
    ]
    if extra["raised"]:
        ctx.notes.append("entries that raised (owned by other properties unless listed as violation): " + ", ".join(sorted(extra["raised"])))


def replay(rec):
    import warnings
    warnings.filterwarnings("ignore")
    build_table()
    c = rec["case"]
    e = _BY_NAME[c["entry"]]
    with np.errstate(all="ignore"):
        r = run_history(e, c["palette"], _variant(c["palette"]), c["site"], int(c.get("seed", rec.get("seed", 0))))
    registry().restore()
    return [{"clause": cl, "observed": obs} for cl, obs in r["viols"] if cl == rec["clause"]]
