"""C06 - arm Jacobians are the derivative of forward kinematics; statics is the transpose (LX over structural histories).

For every arm, every structural history of length <= 2 over {move B1, move B2, setArbitraryHome(X, g1),
setArbitraryHome(X2, None), restoreOriginalEE} (31 states: "after move and tool change" is covered structurally) and a
palette of joint vectors, each clause is evaluated against Richardson-extrapolated central differences of the library's
own FK (steps 1e-4 / 2e-4) and against the independent product-of-exponentials reference.
"""
import copy
import itertools

import numpy as np

from checks import armlib, c05
from mc import lattice
from oracles import poe, se3

MOD = "checks.c06"
STRUCT = ["move:B1", "move:B2", "tool:X:g1", "tool:X2:None", "tool:X3:None", "restore"]
WBASIS = [np.eye(6)[i] for i in range(6)] + [np.array([1.5, -2.0, 0.7, 3.0, -1.0, 2.5])]


def histories():
    H = [()]
    for a in STRUCT:
        H.append((a,))
    for a, b in itertools.product(STRUCT, STRUCT):
        H.append((a, b))
    return H


def arms_for(tier, seed):
    arms = list(armlib.ALL_ARMS if tier == "thorough" else armlib.QUICK_ARMS)
    if seed and tier != "thorough":
        arms.append("gen:3S@BS")
    return arms


def apply_hist(arm, ref, hist, TH):
    from basic_robotics.general import tm
    X = se3.T_from([0.2, 0.1, -0.3], [0.1, 0.2, 0.3])
    X2 = se3.T_from([0.0, 0.0, 0.0], [0.0, 0.0, 0.25])
    X3 = se3.T_from([0.0, 0.0, np.pi / 3], [0.0, 0.0, 0.0])     # turns the tool frame about the tool point only
    for h in hist:
        parts = h.split(":")
        if parts[0] == "move":
            B = armlib.base_T(parts[1])
            with armlib.quiet():
                arm.move(tm(B.copy()))
            ref.base = B.copy()
        elif parts[0] == "tool":
            Xm = {"X": X, "X2": X2, "X3": X3}[parts[1]]
            if parts[2] == "None":
                used = arm.getEEPos().gTM()
                arm.setArbitraryHome(tm((used @ Xm).copy()), None)
            else:
                thc = ref.clamp(TH[parts[2]])
                used = ref.fk(thc)
                arm.setArbitraryHome(tm((used @ Xm).copy()), TH[parts[2]].copy())
                ref.th = thc
            ref.M = ref.M @ se3.tinv(used) @ (used @ Xm)
        elif parts[0] == "restore":
            arm.restoreOriginalEE()
            ref.M = ref.M0.copy()
    return arm, ref


def theta_points(ref, seed):
    TH = c05.theta_palette(ref)
    pts = {"g1": TH["g1"], "g2": TH["g2"], "zero": TH["zero"]}
    lo, hi = np.maximum(ref.lo, -6.2), np.minimum(ref.hi, 6.2)
    pts["q"] = lo + (hi - lo) * np.array([0.45, 0.58, 0.4, 0.7, 0.35, 0.62, 0.5])[:ref.n]
    if seed:
        pts["seed"] = lo + (hi - lo) * (0.15 + 0.7 * np.random.default_rng([seed, 61]).random(ref.n))
    # joint values of a few 1e-5 rad (far above the exponential's 1e-6 cut-off, far below any 'is it at home?' shortcut that
    # is wider than that) on two non-last joints, where the limits allow it
    tiny = pts["q"].copy()
    for i, v in ((0, 5e-5), (2, -8e-5)):
        if i < ref.n - 1 and ref.lo[i] + 1e-3 < v < ref.hi[i] - 1e-3:
            tiny[i] = v
    if not np.array_equal(tiny, pts["q"]):
        pts["tiny"] = tiny
    return pts


def near_singular_points(ref):
    """Joint vectors a few micro-radians away from a singular configuration, found with the reference Jacobian alone: along
    each joint coordinate through a generic point the smallest singular value is scanned, its zeros are refined, and the
    joint is set 3e-4 / 3e-5 rad beside each zero.  There the Jacobian still has full rank (sigma_min/sigma_max 1e-7..1e-4),
    which is all 'mapping torques back returns the wrench' asks for.  -> [(name, theta, sigma_min/sigma_max)]"""
    n = ref.n
    if n < 6:
        return []
    S_space = poe.space_screws(ref.base, ref.S)
    lo, hi = np.maximum(ref.lo, -6.2) + 1e-3, np.minimum(ref.hi, 6.2) - 1e-3
    base = lo + (hi - lo) * np.array([0.45, 0.58, 0.4, 0.7, 0.35, 0.62, 0.5])[:n]

    def sv(k, g):
        q = base.copy()
        q[k] = g
        s = np.linalg.svd(poe.jac_space(S_space, q), compute_uv=False)
        return float(s[min(5, len(s) - 1)]), float(s[0])
    out = []
    for k in range(n):
        if not hi[k] - lo[k] > 1e-2:
            continue
        grid = np.linspace(lo[k], hi[k], 721)
        vals = [sv(k, g)[0] for g in grid]
        for i in range(1, len(grid) - 1):
            if vals[i] < vals[i - 1] and vals[i] <= vals[i + 1] and vals[i] < 0.02:
                a, b = grid[i - 1], grid[i + 1]
                gr = (np.sqrt(5.0) - 1) / 2
                c, d = b - gr * (b - a), a + gr * (b - a)
                for _ in range(80):
                    if sv(k, c)[0] < sv(k, d)[0]:
                        b = d
                    else:
                        a = c
                    c, d = b - gr * (b - a), a + gr * (b - a)
                g0 = 0.5 * (a + b)
                s6, s1 = sv(k, g0)
                if s6 < 1e-7 * s1:
                    for off in (3e-4, -3e-5):
                        g = g0 + off
                        if lo[k] < g < hi[k]:
                            q = base.copy()
                            q[k] = g
                            s6b, s1b = sv(k, g)
                            if s6b > 1e-9 * s1b:
                                out.append(("near_singular:j%d%+.0e" % (k, off), q, s6b / s1b))
        if len(out) >= 4:
            break
    return out[:4]


def eval_near_singular(acc, arm, ref, case, th, ratio):
    """Inverse statics beside a singularity: staticForcesInv(J^T F) == F to (rounding x condition number)."""
    from basic_robotics.general import Wrench
    S_space = poe.space_screws(ref.base, ref.S)
    J_or = poe.jac_space(S_space, th)
    jn = max(1.0, float(np.linalg.norm(J_or)))
    T_or = ref.fk(th)
    AdT = se3.adj(se3.tinv(T_or))
    for Fv in WBASIS:
        fn = max(1.0, float(np.linalg.norm(Fv)))
        # rounding times the condition number - squared for solvers that go through the normal equations (still 'returns the
        # wrench' at these ratios); a truncated pseudo-inverse loses a whole component, an error of order 1
        tol = max(1e-11 / ratio, 1e-15 / ratio ** 2) * fn * jn + 1e-9
        for name, tau, want in (("staticForcesInv", J_or.T @ Fv, Fv), ("staticForcesInvBody", (AdT @ J_or).T @ Fv, Fv)):
            a = copy.deepcopy(arm)
            fn_ = getattr(a, name, None)
            if fn_ is None:
                continue
            try:
                back = fn_(tau.copy(), th.copy())
            except Exception as e:
                acc.violation("raised", dict(case, call=name), repr(e))
                continue
            bv = np.asarray(back.data if hasattr(back, "data") else back, float).reshape(-1)
            acc.evals += 1
            err = rel(bv, want)
            acc.resid("statics_inverse_near_singular", err)
            if not (err <= tol):
                acc.violation("statics_inverse_near_singular", dict(case, call=name), err, tol, flags={"sigma_ratio": ratio})


def rel(a, b):
    return float(np.abs(np.asarray(a) - np.asarray(b)).max())


def has_link_masses(am, n):
    m, c = getattr(am, "_link_masses", None), getattr(am, "_link_mass_grav_centers", None)
    return m is not None and c is not None and len(np.atleast_1d(m)) >= n + 1 and len(c) >= n + 1


def eval_point(acc, arm, ref, case, th):
    from basic_robotics.general import Wrench
    n = ref.n
    S_space = poe.space_screws(ref.base, ref.S)
    J_or = poe.jac_space(S_space, th)
    T_or = ref.fk(th)
    jn = max(1.0, float(np.linalg.norm(J_or)))

    def flag(clause, err, tol, **kw):
        acc.resid(clause, err / tol * 1e-9 if False else err)
        if not (err <= tol):
            acc.violation(clause, case, err, tol, **kw)

    a = copy.deepcopy(arm)
    J = a.jacobian(th.copy())
    flag("space_vs_reference", rel(J, J_or), 1e-9 * jn)
    # derivative of the library's own FK (Richardson central differences, steps >= 1e-4)
    af = copy.deepcopy(arm)
    J_fd = poe.fd_jac_space(lambda q: af.FK(q.copy()).gTM(), th, 1e-4)
    flag("space_vs_fk_derivative", rel(J, J_fd), 1e-6 * jn)
    a = copy.deepcopy(arm)
    T = a.FK(th.copy()).gTM()
    flag("fk_vs_reference", rel(T, T_or), 1e-7 * max(1.0, float(np.abs(T_or[:3, 3]).max())))
    a = copy.deepcopy(arm)
    Jb = a.jacobianBody(th.copy())
    flag("body_is_adjoint_of_space", rel(Jb, se3.adj(se3.tinv(T_or)) @ J_or), 1e-8 * jn * max(1.0, float(np.abs(T_or[:3, 3]).max())))
    a = copy.deepcopy(arm)
    E = np.eye(4)
    E[:3, 3] = T_or[:3, 3]
    flag("ee_aligned_variant", rel(a.jacobianEETrans(th.copy()), se3.adj(se3.tinv(E)) @ J_or), 1e-8 * jn * max(1.0, float(np.abs(T_or[:3, 3]).max())))
    a = copy.deepcopy(arm)
    flag("numerical_variant", rel(a.numericalJacobian(th.copy()), J_or), 1e-4 * jn)
    # link variants
    if ref.L and len(ref.L) >= n:
        for i in range(n):
            a = copy.deepcopy(arm)
            T_link = ref.base @ poe.poe(ref.S, th, upto=i + 1) @ ref.L[i]
            want = np.hstack((se3.adj(se3.tinv(T_link)) @ J_or[:, :i + 1], np.zeros((6, n - i - 1))))
            try:
                got = a.jacobianLink(i, th.copy())
                Tl = copy.deepcopy(arm).FKLink(th.copy(), i).gTM()
            except Exception as e:
                acc.violation("raised", dict(case, call="jacobianLink", link=i), repr(e))
                continue
            sc = max(1.0, float(np.abs(T_link[:3, 3]).max()))
            flag("link_pose", rel(Tl, T_link), 1e-7 * sc, flags={"link": i})
            flag("link_variant", rel(got, want), 1e-8 * jn * sc, flags={"link": i})
    # velocity and statics
    qd_set = [np.eye(n)[i] for i in range(n)] + [np.linspace(0.7, -1.1, n)]
    for k, qd in enumerate(qd_set):
        a = copy.deepcopy(arm)
        V = np.asarray(a.velocityAtEndEffector(qd.copy(), th.copy()), float).reshape(-1)
        flag("velocity_is_J_qd", rel(V, J_or @ qd), 1e-9 * jn * max(1.0, float(np.abs(qd).max())))
    smin = float(np.linalg.svd(J_or, compute_uv=False).min()) if n >= 6 else 0.0
    for k, Fv in enumerate(WBASIS):
        a = copy.deepcopy(arm)
        tau = np.asarray(a.staticForces(Wrench(Fv.copy()), th.copy()), float).reshape(-1)
        fn = max(1.0, float(np.linalg.norm(Fv)))
        flag("statics_is_transpose", rel(tau, J_or.T @ Fv), 1e-9 * jn * fn)
        # power balance on every basis rate
        for qd in qd_set:
            flag("power_balance", abs(float(tau @ qd) - float(Fv @ (J_or @ qd))), 1e-9 * jn * fn * max(1.0, float(np.abs(qd).max())))
        if n >= 6 and smin >= 0.05:
            a = copy.deepcopy(arm)
            back = a.staticForcesInv(tau.copy(), th.copy())
            bv = np.asarray(back.data if hasattr(back, "data") else back, float).reshape(-1)
            flag("statics_inverse", rel(bv, Fv), 1e-8 * fn * jn / smin)
    # gravity loading by link weights
    am = arm
    # (the library keeps the link masses and their centres of gravity in private tables with no getter; an arm that does not
    # have them under these names is counted, and the clause is not evaluated for it)
    if has_link_masses(am, n):
        a1, a2, a3 = copy.deepcopy(arm), copy.deepcopy(arm), copy.deepcopy(arm)
        Fv = WBASIS[-1]
        t_with = np.asarray(a1.staticForcesWithLinkMasses(Wrench(Fv.copy()), th.copy()), float).reshape(-1)
        t_plain = np.asarray(a2.staticForces(Wrench(Fv.copy()), th.copy()), float).reshape(-1)
        a3.FK(th.copy())
        frames = [x.gTM() for x in a3.getJointTransforms()]
        g = np.asarray(a3.grav, float)
        add = np.zeros(n)
        for k in range(n):                      # joint k carries the links k+1 .. n (library's indexing of its mass tables)
            for l in range(k + 1, n + 1):
                p = (frames[l] @ a3._link_mass_grav_centers[l].gTM())[:3, 3]
                W = np.concatenate([np.cross(p, a3._link_masses[l] * g), a3._link_masses[l] * g])
                add[k] += J_or[:, k] @ W
        flag("link_weight_moments", rel(t_with - t_plain, add), 1e-8 * max(1.0, float(np.abs(add).max())))
        # the same with one intermediate link massless (a spacer / flange): its own weight vanishes, the weights beyond it do not
        a4 = copy.deepcopy(arm)
        m0 = np.array(a4._link_masses, float).copy()
        kz = max(1, n // 2 + 1)
        m0[kz] = 0.0
        a4.setMassProperties(link_masses=m0)
        t0 = np.asarray(a4.staticForcesWithLinkMasses(Wrench(Fv.copy()), th.copy()), float).reshape(-1)
        add0 = np.zeros(n)
        for k in range(n):
            for l in range(k + 1, n + 1):
                p = (frames[l] @ a3._link_mass_grav_centers[l].gTM())[:3, 3]
                W = np.concatenate([np.cross(p, m0[l] * g), m0[l] * g])
                add0[k] += J_or[:, k] @ W
        flag("link_weight_moments", rel(t0 - t_plain, add0), 1e-8 * max(1.0, float(np.abs(add0).max())), flags={"massless_link": int(kz)})


def eval_pairs(acc, arm, ref, case, th):
    """Every ordered pair (A, B) of Jacobian / statics queries on ONE arm object with SHARED argument objects (the same
    theta array, the same Wrench): B's answer must still be the oracle's, and the shared arguments must come back
    unchanged.  A == B covers calling a query twice.  (Queries that cache, or that scribble on the cached tool pose, on
    the stored joint vector or on their arguments, are only wrong for the *next* caller.)"""
    from basic_robotics.general import Wrench
    n = ref.n
    S_space = poe.space_screws(ref.base, ref.S)
    J = poe.jac_space(S_space, th)
    T = ref.fk(th)
    jn = max(1.0, float(np.linalg.norm(J)))
    sp = max(1.0, float(np.abs(T[:3, 3]).max()))
    E = np.eye(4)
    E[:3, 3] = T[:3, 3]
    Fv = WBASIS[-1]
    qd = np.linspace(0.7, -1.1, n)
    have_links = bool(ref.L) and len(ref.L) >= n
    am = arm
    have_mass = has_link_masses(am, n)
    Q = {
        "FK": (lambda a, q, W, v: a.FK(q).gTM(), T, 1e-7 * sp),
        "jacobian": (lambda a, q, W, v: a.jacobian(q), J, 1e-9 * jn),
        "jacobianBody": (lambda a, q, W, v: a.jacobianBody(q), se3.adj(se3.tinv(T)) @ J, 1e-8 * jn * sp),
        "jacobianEETrans": (lambda a, q, W, v: a.jacobianEETrans(q), se3.adj(se3.tinv(E)) @ J, 1e-8 * jn * sp),
        "numericalJacobian": (lambda a, q, W, v: a.numericalJacobian(q), J, 1e-4 * jn),
        "velocityAtEndEffector": (lambda a, q, W, v: np.asarray(a.velocityAtEndEffector(v, q), float).reshape(-1), J @ qd, 1e-9 * jn * 2),
        "staticForces": (lambda a, q, W, v: np.asarray(a.staticForces(W, q), float).reshape(-1), J.T @ Fv, 1e-9 * jn * 5),
    }
    if have_links:
        for i in sorted({0, n - 1}):
            T_link = ref.base @ poe.poe(ref.S, th, upto=i + 1) @ ref.L[i]
            want = np.hstack((se3.adj(se3.tinv(T_link)) @ J[:, :i + 1], np.zeros((6, n - i - 1))))
            Q["jacobianLink%d" % i] = (lambda a, q, W, v, i=i: a.jacobianLink(i, q), want, 1e-8 * jn * max(1.0, float(np.abs(T_link[:3, 3]).max())))
    if have_mass:
        a0 = copy.deepcopy(arm)
        base_val = np.asarray(a0.staticForcesWithLinkMasses(Wrench(Fv.copy()), th.copy()), float).reshape(-1)
        Q["staticForcesWithLinkMasses"] = (lambda a, q, W, v: np.asarray(a.staticForcesWithLinkMasses(W, q), float).reshape(-1),
                                           base_val, 1e-8 * max(1.0, float(np.abs(base_val).max())))
    names = list(Q)
    for A in names:
        for B in names:
            a = copy.deepcopy(arm)
            q, W, v = th.copy(), Wrench(Fv.copy()), qd.copy()
            try:
                Q[A][0](a, q, W, v)
                got = Q[B][0](a, q, W, v)
            except Exception as e:
                acc.violation("raised", dict(case, pair=[A, B]), repr(e))
                continue
            acc.evals += 1
            err = rel(got, Q[B][1])
            if not (err <= Q[B][2]):
                acc.violation("query_after_query", dict(case, pair=[A, B]), err, Q[B][2])
            marg = max(rel(q, th), rel(np.asarray(W.data, float).reshape(-1), Fv), rel(v, qd))
            if not (marg <= 0.0):
                acc.violation("shared_argument_modified", dict(case, pair=[A, B]), marg, 0.0)
    acc.outcome("query_pairs", len(names) ** 2)
    # the same argument BUFFER with new values: ask B at th, let the caller advance its joint vector in place, ask B again
    # (a result remembered under a reference to the caller's array is only wrong here)
    lo, hi = np.maximum(ref.lo, -6.2), np.minimum(ref.hi, 6.2)
    th2 = ref.clamp(th + 0.37 * (hi - lo) * np.array([0.3, -0.2, 0.25, -0.35, 0.2, -0.3, 0.15])[:n])
    if np.abs(th2 - th).max() > 1e-3:
        J2 = poe.jac_space(S_space, th2)
        T2 = ref.fk(th2)
        E2 = np.eye(4)
        E2[:3, 3] = T2[:3, 3]
        want2 = {"FK": T2, "jacobian": J2, "jacobianBody": se3.adj(se3.tinv(T2)) @ J2, "jacobianEETrans": se3.adj(se3.tinv(E2)) @ J2,
                 "numericalJacobian": J2, "velocityAtEndEffector": J2 @ qd, "staticForces": J2.T @ Fv}
        for A in ("jacobian", "FK"):
            for B in want2:
                a = copy.deepcopy(arm)
                q, W, v = th.copy(), Wrench(Fv.copy()), qd.copy()
                try:
                    Q[A][0](a, q, W, v)
                    Q[B][0](a, q, W, v)
                    q[:] = th2
                    got = Q[B][0](a, q, W, v)
                except Exception as e:
                    acc.violation("raised", dict(case, pair=[A, B], advanced=True), repr(e))
                    continue
                acc.evals += 1
                err = rel(got, want2[B])
                if not (err <= Q[B][2] * 2):
                    acc.violation("query_after_argument_advanced_in_place", dict(case, pair=[A, B], advanced=True), err, Q[B][2] * 2)


def prime(arm, pts):
    """Ask the Jacobian / statics queries on THIS arm object (results dropped): whatever they remember is now remembered."""
    from basic_robotics.general import Wrench
    with armlib.quiet():
        for th in pts.values():
            for f in (lambda q: arm.FK(q), lambda q: arm.jacobian(q), lambda q: arm.jacobianBody(q), lambda q: arm.jacobianEETrans(q),
                      lambda q: arm.staticForces(Wrench(WBASIS[-1].copy()), q), lambda q: arm.getJointTransforms()):
                try:
                    f(th.copy())
                except Exception:
                    pass            # a raising query is reported where it is judged, not here
        for f in (lambda: arm.jacobian(), lambda: arm.jacobianBody()):
            try:
                f()
            except Exception:
                pass


def primed_state(an, hist, seed):
    """The arm on which every query has been asked at the evaluation points BEFORE the single structural change `hist`."""
    arm, ref = armlib.build(an, seed)
    TH = c05.theta_palette(ref)
    pts0 = theta_points(ref, seed)
    lim = {k: np.minimum(np.maximum(ref.clamp(v), ref.lo + 1e-3), ref.hi - 1e-3) for k, v in pts0.items()}
    prime(arm, lim)
    return apply_hist(arm, ref, hist, TH)


def work(p):
    arms = arms_for(p["tier"], p["seed"])
    H = histories()
    acc = lattice.Acc()
    cases = [(a, h) for a in arms for h in range(len(H))]
    for an, hi in cases[p["lo"]:p["hi"]]:
        try:
            arm, ref = armlib.build(an, p["seed"])
            TH = c05.theta_palette(ref)
            arm, ref = apply_hist(arm, ref, H[hi], TH)
            pts = theta_points(ref, p["seed"])
        except Exception as e:
            acc.violation("raised", {"arm": an, "history": list(H[hi]), "theta": None}, repr(e))
            continue
        for tn, th in pts.items():
            case = {"arm": an, "history": list(H[hi]), "theta": tn}
            # strictly inside the limits: the derivative clauses step 2e-4 to either side, and FK clamps at the limits
            thc = np.minimum(np.maximum(ref.clamp(th), ref.lo + 1e-3), ref.hi - 1e-3)
            try:
                eval_point(acc, arm, ref, case, thc)
                if len(H[hi]) <= 1 and tn in ("g1", "q"):
                    eval_pairs(acc, arm, ref, case, thc)
            except Exception as e:
                import traceback
                acc.violation("raised", case, repr(e) + traceback.format_exc()[-400:])
            acc.case((an, hi, tn), nontrivial=tn != "zero" or hi > 0)
        if len(H[hi]) == 1:
            # query, THEN change the structure, then query again at the very same joint vectors (a result remembered across a
            # tool change or a move is only wrong here)
            try:
                arm_p, ref_p = primed_state(an, H[hi], p["seed"])
                for tn in ("g1", "q"):
                    thc = np.minimum(np.maximum(ref_p.clamp(pts[tn]), ref_p.lo + 1e-3), ref_p.hi - 1e-3)
                    eval_point(acc, arm_p, ref_p, {"arm": an, "history": list(H[hi]), "theta": tn, "primed": True}, thc)
                    acc.case((an, hi, tn, "primed"), nontrivial=True)
            except Exception as e:
                import traceback
                acc.violation("raised", {"arm": an, "history": list(H[hi]), "theta": None, "primed": True}, repr(e) + traceback.format_exc()[-400:])
        if hi == 0:
            try:
                for tn, th, ratio in near_singular_points(ref):
                    case = {"arm": an, "history": list(H[hi]), "theta": tn, "theta_values": [float(x) for x in th]}
                    eval_near_singular(acc, arm, ref, case, th, ratio)
                    acc.case((an, hi, tn), nontrivial=True)
                    acc.outcome("near_singular_points", 1)
            except Exception as e:
                import traceback
                acc.violation("raised", {"arm": an, "history": list(H[hi]), "theta": "near_singular"}, repr(e) + traceback.format_exc()[-400:])
        if hi == 7:
            acc.sample({"arm": an, "history": list(H[hi]), "thetas": list(pts)})
    return acc.result()


def run(ctx):
    arms = arms_for(ctx.tier, ctx.seed)
    H = histories()
    with ctx.pool() as pool:
        m = lattice.run(ctx, pool, MOD, "work", len(arms) * len(H), nshards=pool.workers * 2, part="jacobians")
    lattice.fill(ctx, [("jacobians", m)],
                 "arms x all structural histories of length <= 2 over {move x2, setArbitraryHome x3 (offset+turn, offset only, turn only), restoreOriginalEE} x joint-vector palette; "
                 "in the 7 states of history length <= 1 additionally every ordered pair of queries on one arm object with shared arguments; per point: 6 Jacobian variants, all link indices, velocity and statics on the complete rate / wrench bases (+1 generic each); "
                 "non-trivial = non-zero joint vector or non-empty history",
                 {"arms": len(arms), "histories": len(H), "wrench_basis": len(WBASIS)})
    ctx.assumptions += ["derivative by Richardson-extrapolated central differences of the library's own FK with steps 1e-4 and 2e-4",
                        "statics inverse only where n >= 6 and sigma_min(J) >= 0.05",
                        "link-weight clause uses the link masses / centres of gravity stored by the loader as data and the arm's joint frames (validated by C05)"]


def replay(rec):
    c = rec["case"]
    acc = lattice.Acc()
    arm, ref = armlib.build(c["arm"], rec.get("seed", 0))
    TH = c05.theta_palette(ref)
    try:
        if c.get("primed"):
            arm, ref = primed_state(c["arm"], tuple(c["history"]), rec.get("seed", 0))
        else:
            arm, ref = apply_hist(arm, ref, tuple(c["history"]), TH)
        pts = theta_points(ref, rec.get("seed", 0))
        if str(c.get("theta", "")).startswith("near_singular"):
            for tn, th, ratio in near_singular_points(ref):
                if tn == c["theta"]:
                    eval_near_singular(acc, arm, ref, {k: v for k, v in c.items() if k != "call"}, th, ratio)
            return [v for v in acc.viols if v["clause"] == rec["clause"] and v["case"].get("call") == c.get("call")]
        if c.get("theta"):
            thc = np.minimum(np.maximum(ref.clamp(pts[c["theta"]]), ref.lo + 1e-3), ref.hi - 1e-3)
            eval_point(acc, arm, ref, c, thc)
            if c.get("pair"):
                eval_pairs(acc, arm, ref, {k: v for k, v in c.items() if k not in ("pair", "advanced")}, thc)
    except Exception as e:
        acc.violation("raised", c, repr(e))
    return [v for v in acc.viols if v["clause"] == rec["clause"] and (not c.get("pair") or v["case"].get("pair") == c.get("pair"))]
