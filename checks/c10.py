"""C10 - Stewart platform state stays coherent and 'valid' means valid over any history (HX, model checking).

State: one real `SP` plus the boring reference of oracles/sp_state.py (plate-fixed joint coordinates read ONCE from the
fresh platform through the public getters, neutral relative pose, limits).  One exploration per (geometry, subset of
the four validation switches).  After EVERY call:
  * the call returned normally (an exception is clause `raised`);
  * published joints == plate pose o plate-fixed coordinates, published lengths == joint-to-joint distances,
    published relative transform == inv(bottom)*top                       (1e-9 * platform size);
  * a verdict `True` (IK / FK / validate) implies every ENABLED constraint holds, recomputed from the two plate poses;
  * every un-invert of the top plate (the mirror step inside FK) kept the joint-to-joint distances and left the top
    plate not below the bottom plate (1e-9 * size);
  * pure queries (validate(donothing), inverseJacobian, staticForces, carryMassCalc, all getters) leave both plate
    poses unchanged on the same object (1e-12).
Solver answers (which pose FK lands on, what a corrective action does) are environment answers: never predicted,
only checked against the invariant.
"""
import contextlib
import io
import time

import numpy as np

from mc import canon, explorer
from mc.explorer import Op
from oracles import se3
from oracles import sp_state as sps

import threading

_QUIET_LOCK = threading.RLock()
MOD = "checks.c10"
COH = 1e-9          # coherence, relative to the platform size
PURE = 1e-12        # plate poses across a pure query
SPIN = 0.4

# ---- geometries (constructed fresh for every initial state) ------------------------------------------------------------
# newSP(bottom_radius, top_radius, bJointSpace, tJointSpace, bottom_thickness, top_thickness, shaft_mass, motor_mass,
#       plate_top_mass, plate_bot_mass, motor_cog, shaft_cog, leg_min, leg_max, base, name, rot)
GEOS = {
    # the platform of tests/test_kinematics_sp.py (loadSP of its JSON does exactly these calls)
    "G1": {"args": (0.9, 0.3, 9, 25, 0.1, 0.16, 0.9, 0.5, 1, 6, 0.2, 0.2, 0.75, 1.5), "base": None, "maxdev": 55,
           "draw": (1, 1, 0.1, 0.2)},
    # other radius, ratio, spacing, thickness, stroke; standing on a generic base
    "G2": {"args": (0.5, 0.32, 14, 30, 0.04, 0.07, 0.4, 0.3, 2, 3, 0.1, 0.15, 0.5, 0.95),
           "base": (0.4, -0.3, 0.2, 0.1, -0.15, 0.3), "maxdev": 50, "draw": (0.6, 0.4, 0.05, 0.1)},
    # the parametric constructor makeSP(bRad, tRad, spacing, base, platOffset, rot, plate_thickness_avg, altRot) with thick
    # plates; it fixes the leg range to (0, 1), the range is set through the public attributes
    "G3": {"make": (1.0, 0.7, 20, 1.15, 1, 0.1), "legs": (0.8, 1.6), "base": (0.2, 0.1, -0.3, 0.0, 0.1, -0.2), "maxdev": 55,
           "draw": (1, 0.7, 0.05, 0.1)},
}
# quick tier: the makeSP geometry runs for these switch subsets only
QUICK_G3 = ["0000", "1111"]
# quick: none, all, and every single switch (a predicate whose margin is loosened shows only where the other switches
# cannot repair the pose first); the re-spun start runs for the subsets in QUICK_SPUN
QUICK_SUBSETS = ["0000", "1111", "1000", "0100", "0010", "0001"]
QUICK_SPUN = ["1111", "1000", "0010"]
ALL_SUBSETS = ["%d%d%d%d" % (a, b, c, d) for a in (0, 1) for b in (0, 1) for c in (0, 1) for d in (0, 1)]
SWITCH_NAMES = sps.NAMES        # validation_settings[i] <-> legs, above, deflection, tilt

# relative targets (multiples of the neutral height h for the translation; rotation vector in rad) and what they are for
IK_TARGETS = [
    ("in", (0.09, 0.045, 1.10, 0.10, -0.05, 0.15)),
    ("high", (0.0, 0.0, 2.2, 0.0, 0.0, 0.0)),
    ("low", (0.0, 0.0, 0.27, 0.0, 0.0, 0.0)),
    ("tilted", (0.18, 0.0, 0.97, 0.0, 1.2, 0.0)),
    ("below", (0.0, 0.0, -0.9, 0.0, 0.0, 0.0)),
    ("side", (0.8, 0.0, 0.9, 0.0, 0.0, 0.0)),
]
# targets just beyond one limit each (one value on the far side of every comparison the predicates make); the
# relative poses are solved for from the reference in edge_targets(): how far beyond is EDGE[name]
EDGE = {"legs_hi_edge": 5e-4, "legs_lo_edge": 5e-4, "tilt_edge": 2e-4, "deflection_edge": 1e-3, "above_edge": 1e-3}
# leg-length vectors as leg_min + f * (leg_max - leg_min)
FK_LENS = [
    ("in", (0.51, 0.63, 0.65, 0.63, 0.65, 0.73)),
    ("short", (-0.33, -0.20, -0.07, -0.20, -0.33, -0.20)),
    ("long", (1.13, 1.27, 1.40, 1.13, 1.27, 1.53)),
    ("mixed", (-0.20, 1.27, 0.07, 1.13, -0.07, 1.53)),
]
# scripted np.random.uniform for randomPos: the i-th draw returns low + SCRIPT[i] * (high - low)
RAND = {
    # accepted at the first draw (valid and far enough from home) on both geometries
    "A": [(0.35, 0.6, 0.4, 0.7, 0.3, 0.65), (0.5, 0.5, 0.5, 0.5, 0.5, 0.5), (0.5, 0.5, 0.5, 0.5, 0.5, 0.5)],
    # home-like first draw (all legs equal: rejected by min_deviation), a wild second one, a mild third one
    "B": [(0.5, 0.5, 0.5, 0.5, 0.5, 0.5), (0.15, 0.85, 0.30, 0.70, 0.20, 0.90), (0.6, 0.4, 0.7, 0.5, 0.45, 0.65)],
}
RAND_ATTEMPTS = 3
MOVE_B = (1.0, 2.0, 0.5, 0.2, -0.1, 0.3)
FORCE = (1.0, 2.0, 3.0, 4.0, 5.0, -60.0)


@contextlib.contextmanager
def quiet():
    # redirect_stdout is process-global; the run() below drives several explorations from threads of the parent, so only
    # one thread at a time may be inside a redirect (otherwise the nesting breaks and stdout stays redirected)
    with _QUIET_LOCK:
        with contextlib.redirect_stdout(io.StringIO()):
            yield


@contextlib.contextmanager
def calling(sp, log):
    """Everything a transition does to the platform happens inside this context: stdout silenced, and the private
    un-invert helper `_fixUpsideDown` (reached from FK, also from corrective FK inside validate) observed through an
    instance-level wrapper that is removed again before the state is snapshotted.  The wrapper changes nothing; it
    records, for every un-invert, how much the joint-to-joint distances changed (a mirror image keeps them) and the
    height of the top plate in the bottom frame afterwards (un-inverted means not below)."""
    orig = getattr(sp, "_fixUpsideDown", None)
    if orig is None:            # a library without that private helper: un-inverts are not observed, everything else is
        with quiet():
            yield
        return

    def observed():
        L0 = np.linalg.norm(np.array(sp.getTopJoints(), float) - np.array(sp.getBottomJoints(), float), axis=0)
        orig()
        L1 = np.linalg.norm(np.array(sp.getTopJoints(), float) - np.array(sp.getBottomJoints(), float), axis=0)
        B, T = poses(sp)
        log.append([float(np.abs(L1 - L0).max()), float(sps.rel(B, T)[2, 3])])
    sp._fixUpsideDown = observed
    try:
        with quiet():
            yield
    finally:
        sp.__dict__.pop("_fixUpsideDown", None)


class Horizon(BaseException):
    """The scripted random source ran dry: a harness error (the scripts are as long as max_attempts), never a verdict."""


@contextlib.contextmanager
def scripted_uniform(script):
    """np.random.uniform replaced by a scripted source for the duration of the call, then restored."""
    old = np.random.uniform
    n = [0]

    def uniform(low=0.0, high=1.0, size=None):
        if n[0] >= len(script):
            raise Horizon("scripted random source exhausted after %d draws" % n[0])
        fr = np.array(script[n[0]], float)
        n[0] += 1
        if size is not None and int(np.prod(size)) != fr.size:
            raise Horizon("unexpected draw size %r" % (size,))
        return low + fr * (high - low)
    np.random.uniform = uniform
    try:
        yield n
    finally:
        np.random.uniform = old


def taa_T(v):
    v = np.asarray(v, float)
    return se3.T_from(v[3:6], v[0:3])


def build(geo):
    """A fresh platform of the named geometry (library calls only; nothing cached between calls)."""
    from basic_robotics.general import tm
    from basic_robotics.kinematics.sp_model import makeSP, newSP
    g = GEOS[geo]
    base = tm() if g["base"] is None else tm(list(g["base"]))
    with quiet():
        if "make" in g:
            m = g["make"]
            sp, _, _ = makeSP(m[0], m[1], m[2], base, m[3], m[4], m[5])
            sp.leg_ext_min, sp.leg_ext_max = g["legs"]
        else:
            sp = newSP(*g["args"], base, geo, 1)
        sp.setDrawingParameters(*g["draw"])
        sp.setMaxAngleDev(g["maxdev"])
    return sp


def read_ref(sp):
    """Plate-fixed coordinates, read once from the fresh platform through the public getters and the plate poses."""
    B, T = sp.getBottomT().gTM().copy(), sp.getTopT().gTM().copy()
    bl = sps.apply(sps.tinv(B), np.array(sp.getBottomJoints(), float))
    tl = sps.apply(sps.tinv(T), np.array(sp.getTopJoints(), float))
    return sps.Ref(bl, tl, sps.rel(B, T), sp.leg_ext_min, sp.leg_ext_max, sp.joint_deflection_max, sp.plate_rotation_limit)


def _bisect(f, lo, hi):
    """Root of an increasing f on [lo, hi] (harness assertion if the bracket is not one)."""
    if not (f(lo) < 0 < f(hi)):
        raise AssertionError("C10 edge target: no sign change on the bracket (%r, %r)" % (f(lo), f(hi)))
    for _ in range(200):
        mid = 0.5 * (lo + hi)
        if f(mid) < 0:
            lo = mid
        else:
            hi = mid
    return hi


def edge_targets(ref, h):
    """Relative poses that violate the named limit by EDGE[name] (computed from the reference alone; on some geometries
    another limit is violated as well - that is why every single-switch subset is run)."""
    B = np.eye(4)

    def Tz(z):
        return se3.T_from([0, 0, 0], [0, 0, z])

    def Tx(x):
        return se3.T_from([0, 0, 0], [x, 0, h])
    out = {}
    z = _bisect(lambda z: ref.lengths(B, Tz(z)).max() - (ref.leg_max + EDGE["legs_hi_edge"]), h, 3 * h)
    out["legs_hi_edge"] = Tz(z)
    z = _bisect(lambda z: -(ref.lengths(B, Tz(h - z)).min() - (ref.leg_min - EDGE["legs_lo_edge"])), 0.0, 0.9 * h)
    out["legs_lo_edge"] = Tz(h - z)
    a = float(np.arccos(ref.tilt_limit - sps.TILT_MARGIN - EDGE["tilt_edge"]))
    out["tilt_edge"] = se3.T_from([0, a, 0], [0, 0, h])
    x = _bisect(lambda x: ref.deflections(B, Tx(x)).max() - (ref.deflection_max + EDGE["deflection_edge"]), 0.0, 3 * h)
    out["deflection_edge"] = Tx(x)
    out["above_edge"] = Tz(-EDGE["above_edge"])
    # a pose inside every limit whose joint deflection exceeds the limit by EDGE once the platform is re-spun by SPIN
    # (the deflection depends on the plate-fixed tables, which a re-spin rewrites without moving a plate)
    import copy as _copy
    spun = _copy.deepcopy(ref)
    spun.spin(SPIN)
    for name, mk in (("tilt_x", lambda v: se3.T_from([v, 0, 0], [0, 0, h])),
                     ("tilt_y", lambda v: se3.T_from([0, v, 0], [0, 0, h])),
                     ("tilt_nx", lambda v: se3.T_from([-v, 0, 0], [0, 0, h])),
                     ("offset_x", lambda v: se3.T_from([0, 0, 0], [v * h, 0, h]))):
        try:
            v = _bisect(lambda v: spun.deflections(B, mk(v)).max() - (ref.deflection_max + EDGE["deflection_edge"]), 0.0, 1.4)
        except AssertionError:
            continue
        if all(c[0] for c in ref.constraints(B, mk(v)).values()):
            out["respin_deflection"] = mk(v)
            break
    return out


class PState:
    def __init__(self, sp, ref):
        self.sp = sp
        self.ref = ref


def poses(sp):
    return sp.getBottomT().gTM().copy(), sp.getTopT().gTM().copy()


def drift(before, after):
    return max(float(np.abs(before[0] - after[0]).max()), float(np.abs(before[1] - after[1]).max()))


class Spec:
    expand_violating = False

    def __init__(self, geo, bits, seed, start="fresh"):
        from basic_robotics.general import tm, Wrench
        self.tm, self.Wrench = tm, Wrench
        self.geo, self.bits, self.seed, self.start = geo, bits, seed, start
        self.switches = [int(c) for c in bits]
        sp = build(geo)
        ref = read_ref(sp)
        self.h = float(sps.rel(*poses(sp))[2, 3])                         # neutral height, from the fresh platform
        self.lmin, self.lmax = ref.leg_min, ref.leg_max
        self.targets = {}
        for k, v in IK_TARGETS:
            w = np.array(v, float)
            w[:3] *= self.h
            self.targets[k] = taa_T(w)
        self.targets.update(edge_targets(ref, self.h))
        # "T": tilted 69 degrees off vertical (row/column mix-ups of the base rotation change sign only beyond 45 degrees)
        self.moves = {"B": MOVE_B, "I": (0.0,) * 6, "T": (0.3, -0.2, 0.5, 1.2, 0.0, 0.0)}
        if seed:
            rng = np.random.default_rng(7000 + seed)
            # ONE generic in-workspace target and ONE generic base pose
            for _ in range(100):    # rejection on the explicit predicate "inside every limit", so any seed is usable
                w = np.concatenate([rng.uniform(-0.08, 0.08, 2) * self.h, rng.uniform(1.0, 1.12, 1) * self.h,
                                    rng.uniform(-0.12, 0.12, 3)])
                if all(v[0] for v in ref.constraints(np.eye(4), taa_T(w)).values()):
                    break
            self.targets["seed"] = taa_T(w)
            self.moves["seed"] = tuple(np.concatenate([rng.uniform(-2, 2, 3), rng.uniform(-0.6, 0.6, 3)]).tolist())
        self._check_palette(ref)
        ops = []
        for k in self.targets:
            ops.append(Op("IK", k, self._ik(k, False)))
        ops.append(Op("IK_protect", "side", self._ik("side", True)))
        for mode in (1, 0):
            for k, _ in FK_LENS:
                ops.append(Op("FK", {"lengths": k, "fk_mode": mode}, self._fk(k, mode, False)))
        for k, _ in FK_LENS:        # reversed FK with every length vector (out-of-range ones are corrected INSIDE the reversed call)
            ops.append(Op("FK_reverse", {"lengths": k, "fk_mode": 1}, self._fk(k, 1, True)))
        for k in self.moves:
            ops.append(Op("move", k, self._move(k)))
        ops.append(Op("spinCustom", SPIN, self._spin()))
        ops.append(Op("spinCustom_then_validate", SPIN, self._spin(validate=True)))
        for k in ("in", "mixed"):
            ops.append(Op("FK_at", {"lengths": k, "fk_mode": 1, "plate_pos": "B"}, self._fk(k, 1, False, at="B")))
        ops.append(Op("validate", None, self._validate(False)))
        ops.append(Op("validate_donothing", None, self._validate(True)))
        ops.append(Op("inverseJacobian", None, self._query("inverseJacobian")))
        ops.append(Op("inverseJacobian_at", "B", self._query("inverseJacobian_at")))
        ops.append(Op("staticForces_at", "B", self._query("staticForces_at")))
        ops.append(Op("staticForces", "F", self._query("staticForces")))
        ops.append(Op("carryMassCalc", "F", self._query("carryMassCalc")))
        for k in RAND:
            ops.append(Op("randomPos", k, self._rand(k)))

        def then_second_platform(first):
            # one call on this platform, then ANOTHER platform (another geometry) is built and driven in the same process -
            # both FK solvers, IK, a move - inside ONE transition (states are snapshotted by deep copy between transitions,
            # which would silently un-share an array two live platforms hold in common).  Nothing of the second platform's
            # activity may show on this one: the invariant is asked of this platform afterwards, the model is untouched.
            def f(st):
                st, obs = first(st)
                other = [g for g in ("G2", "G1") if g != self.geo][0]
                b = build(other)
                fr = np.array(dict(FK_LENS)["mixed"], float)
                with quiet():
                    for mode, fsel in ((0, 0.35 + 0.3 * fr.clip(0, 1)), (1, 0.6 - 0.2 * fr.clip(0, 1))):
                        b.FK(b.leg_ext_min + fsel * (b.leg_ext_max - b.leg_ext_min), fk_mode=mode)
                    b.move(self.tm(list(MOVE_B)))
                    b.validate()
                st.second = b        # stays alive with the state
                return st, obs
            return f
        ops.append(Op("FK_then_a_second_platform_is_built_and_driven", {"lengths": "in", "fk_mode": 0},
                      then_second_platform(self._fk("in", 0, False))))
        ops.append(Op("IK_then_a_second_platform_is_built_and_driven", "in", then_second_platform(self._ik("in", False))))
        self.ops = ops

    # the palette must sit where its names say (harness assertion: a vacuous palette is a harness error, not silence)
    def _check_palette(self, ref):
        B = np.eye(4)
        c = {k: ref.constraints(B, self.targets[k]) for k in self.targets}
        L = {k: ref.lengths(B, self.targets[k]) for k in self.targets}
        ok = all(v[0] for v in c["in"].values())
        ok = ok and L["high"].min() > ref.leg_max and L["low"].max() < ref.leg_min
        ok = ok and not c["tilted"]["tilt"][0] and not c["below"]["above"][0]
        ok = ok and not c["side"]["legs"][0] and c["side"]["above"][0]
        for k, name in (("legs_hi_edge", "legs"), ("legs_lo_edge", "legs"), ("tilt_edge", "tilt"),
                        ("deflection_edge", "deflection"), ("above_edge", "above")):
            ok = ok and not c[k][name][0] and abs(c[k][name][1] - EDGE[k]) < 1e-6
        if "seed" in c:
            ok = ok and all(v[0] for v in c["seed"].values())
        if "respin_deflection" in c:
            ok = ok and all(v[0] for v in c["respin_deflection"].values())
        if not ok:
            raise AssertionError("C10 palette of %s does not sit on the intended sides of the limits: %r" % (self.geo, c))

    def _rel_T(self, k):
        return self.targets[k].copy()

    def _lens(self, k):
        f = np.array(dict(FK_LENS)[k], float)
        return self.lmin + f * (self.lmax - self.lmin)

    def initials(self):
        sp = build(self.geo)
        ref = read_ref(sp)
        if self.start == "spun":        # non-initial start: the fresh platform re-spun once (that call itself is checked as
            with quiet():               # the first operation of the histories that begin at the fresh platform)
                sp.spinCustom(SPIN)
            ref.spin(SPIN)
        sp.validation_settings = list(self.switches)
        return [("%s|%s|%s" % (self.geo, self.bits, self.start), PState(sp, ref))]

    def state_key(self, st):
        r = st.ref
        return canon.flatten([st.sp, r.bl, r.tl, r.home_t_in_b, r.home_b_in_t, r.spins, getattr(st, "second", None) is not None])

    # ---- transitions -------------------------------------------------------------------------------------------
    def _ik(self, k, protect):
        def f(st):
            sp, log = st.sp, []
            X = self._rel_T(k)
            with calling(sp, log):
                goal = self.tm(sp.getBottomT().gTM() @ X)
                r = sp.IK(top_plate_pos=goal, protect=protect)
            return st, {"verdict": None if protect else bool(r[1]), "returned": bool(r[1]), "uninverts": log}
        return f

    def _fk(self, k, mode, reverse, at=None):
        def f(st):
            L, log = self._lens(k).copy(), []
            with calling(st.sp, log):
                if at is None:
                    r = st.sp.FK(L, fk_mode=mode, reverse=reverse)
                else:       # forward kinematics standing on an explicitly given base plate pose
                    r = st.sp.FK(L, self.tm(list(self.moves[at])), fk_mode=mode)
            return st, {"verdict": bool(r[1]), "uninverts": log}
        return f

    def _move(self, k):
        def f(st):
            log = []
            with calling(st.sp, log):
                st.sp.move(self.tm(list(self.moves[k])))
            return st, {"verdict": None, "uninverts": log}
        return f

    def _spin(self, validate=False):
        def f(st):
            log = []
            with calling(st.sp, log):
                st.sp.spinCustom(SPIN)
                v = st.sp.validate() if validate else None
            st.ref.spin(SPIN)
            return st, {"verdict": None if v is None else bool(v), "uninverts": log}
        return f

    def _validate(self, donothing):
        def f(st):
            before, log = poses(st.sp), []
            with calling(st.sp, log):
                v = st.sp.validate(True) if donothing else st.sp.validate()
            obs = {"verdict": bool(v), "uninverts": log}
            if donothing:
                obs["query_drift"] = drift(before, poses(st.sp))
            return st, obs
        return f

    def _query(self, name):
        def f(st):
            sp, log = st.sp, []
            before = poses(sp)
            with calling(sp, log):
                if name in ("inverseJacobian_at", "staticForces_at"):
                    # the query for explicitly given poses of BOTH plates somewhere else (the neutral pose on the base B)
                    Bq = taa_T(MOVE_B)
                    top, bot = self.tm((Bq @ self._rel_T("in")).copy()), self.tm(Bq.copy())
                    r = sp.inverseJacobian(top, bot) if name == "inverseJacobian_at" else sp.staticForces(
                        self.Wrench(np.array(FORCE)), top, bot)
                elif name == "inverseJacobian":
                    r = sp.inverseJacobian()
                elif name == "staticForces":
                    r = sp.staticForces(self.Wrench(np.array(FORCE)))
                else:
                    r = sp.carryMassCalc(self.Wrench(np.array(FORCE)))[0]
            r = np.asarray(r, float)
            return st, {"verdict": None, "query_drift": drift(before, poses(sp)), "finite": bool(np.all(np.isfinite(r))),
                        "uninverts": log}
        return f

    def _rand(self, k):
        def f(st):
            log = []
            with scripted_uniform(RAND[k]) as n, calling(st.sp, log):
                st.sp.randomPos(max_attempts=RAND_ATTEMPTS)
            return st, {"verdict": None, "draws": n[0], "uninverts": log}
        return f

    # ---- invariant ---------------------------------------------------------------------------------------------
    def invariant(self, st, obs, op, hist):
        return check_state(st, obs, self.switches)


GETTERS = ("getBottomJoints", "getTopJoints", "getCurrentLocalTransform", "getLens", "getTopT", "getBottomT",
           "getJointAnglesFromNorm", "getJointAnglesFromVertical", "componentForces", "sumActuatorWrenches",
           "getBasePos", "getEEPos")


def check_state(st, obs, switches):
    bad = []
    sp, ref = st.sp, st.ref
    B, T = poses(sp)
    size = ref.size(B, T)
    if not (np.all(np.isfinite(B)) and np.all(np.isfinite(T))):
        return [{"clause": "nonfinite_pose", "observed": "a plate pose holds NaN/inf"}]
    res = sps.coherence(ref, B, T, sp.getBottomJoints(), sp.getTopJoints(), sp.getLens(),
                        sp.getCurrentLocalTransform().gTM())
    for k, v in res.items():
        tol = COH * size + (sps.tiny_rotation_allowance(B, T) if k == "relative_transform" else 0.0)
        if not (v <= tol):
            bad.append({"clause": k, "observed": v, "tolerance": tol, "quantities": {"spins": ref.spins}})
    if obs.get("verdict") is True:
        c = ref.constraints(B, T, slack=COH * size)
        for i, name in enumerate(SWITCH_NAMES):
            if switches[i] and not c[name][0]:
                bad.append({"clause": "valid_but_" + name, "observed": c[name][1], "tolerance": COH * size,
                            "quantities": {"spins": ref.spins}})
    for dL, z in obs.get("uninverts", []):
        if not (dL <= COH * size):
            bad.append({"clause": "uninvert_changed_lengths", "observed": dL, "tolerance": COH * size})
        if not (z >= -COH * size):
            bad.append({"clause": "uninvert_still_inverted", "observed": z, "tolerance": COH * size})
    if "query_drift" in obs and not (obs["query_drift"] <= PURE):
        bad.append({"clause": "query_moved_plates", "observed": obs["query_drift"], "tolerance": PURE})
    if obs.get("finite") is False:
        bad.append({"clause": "query_nonfinite", "observed": "NaN/inf in the returned array"})
    # getters are pure too
    before = (B, T)
    with quiet():
        for g in GETTERS:
            getattr(sp, g)()
        for i in range(6):
            for kind in ("m", "b", "t"):
                sp.getActuatorLoc(i, kind)
    d = drift(before, poses(sp))
    if not (d <= PURE):
        bad.append({"clause": "getter_moved_plates", "observed": d, "tolerance": PURE})
    return bad


_SPECS = {}


def get_spec(name):
    if name not in _SPECS:
        geo, bits, seed, start = name.split("|")
        _SPECS[name] = Spec(geo, bits, int(seed), start)
    return _SPECS[name]


def run(ctx):
    thorough = ctx.tier == "thorough"
    depth = 3 if thorough else 2
    subsets = ALL_SUBSETS if thorough else QUICK_SUBSETS
    ctx.level = "model_checking"
    if ctx.deadline is None:            # wall-clock guard; a run that hits it reports the depth it completed, exhaustive: false
        ctx.deadline = ctx.t0 + (800.0 if thorough else 900.0)
    # the quick subsets first, so a capped thorough run has at least finished them
    subsets = [b for b in QUICK_SUBSETS if b in subsets] + [b for b in subsets if b not in QUICK_SUBSETS]
    # quick: depth 2 from the fresh platform and depth 2 from the re-spun one; thorough: depth 3 from the fresh platform
    # (which contains every depth-2 history of the re-spun start, because spinCustom is in the alphabet)
    starts = ["fresh"] if thorough else ["fresh", "spun"]
    results, skipped = [], []
    names = []
    for bits in subsets:
        for geo in GEOS:
            for start in starts:
                if start == "spun" and bits not in QUICK_SPUN:
                    continue
                if geo == "G3" and not thorough and (bits not in QUICK_G3 or start == "spun"):
                    continue
                names.append("%s|%s|%d|%s" % (geo, bits, ctx.seed, start))
    # thorough: depth 3 for the six quick switch subsets (makeSP geometry: its two), depth 2 for the other ten subsets - the
    # whole plan then fits the wall-clock guard on a busy machine instead of being cut off at an arbitrary point
    depth_of = {}
    for nm in names:
        geo, bits = nm.split("|")[0], nm.split("|")[1]
        deep = thorough and bits in QUICK_SUBSETS and (geo != "G3" or bits in QUICK_G3)
        depth_of[nm] = 3 if deep else 2

    # the explorations are independent and each is a chain of small levels: four of them share the worker pool at a time
    # (results are collected in plan order, so the outcome does not depend on the interleaving)
    import concurrent.futures as cf
    with ctx.pool() as pool:
        pool.always_submit = True

        def one(name):
            if ctx.deadline - time.time() < 45.0:       # not enough left to finish a level: say so, do not start it
                return None
            return explorer.explore(ctx, MOD, name, depth_of[name], pool, chunk=4, replay_cap=600 if thorough else None)
        with cf.ThreadPoolExecutor(4) as tp:
            futs = [(name, tp.submit(one, name)) for name in names]
            for name, f in futs:
                r = f.result()
                if r is None:
                    skipped.append(name)
                else:
                    results.append((name, r))
    cov = explorer.merge(results)
    cov["alphabet_size"] = results[0][1]["alphabet_size"]
    cov["geometries"] = list(GEOS)
    cov["switch_subsets"] = subsets
    cov["depth_requested"] = depth
    cov["depth_per_exploration"] = {"3": sorted(n for n, d in depth_of.items() if d == 3), "2": sorted(n for n, d in depth_of.items() if d == 2)}
    cov["starts"] = starts if thorough else {"fresh": subsets, "spun": QUICK_SPUN}
    sp0 = get_spec(results[0][0])
    cov["rule"] = ("BFS over histories of {IK x%d targets (in, too high, too low, tilted, below the base, far sideways, five targets "
                   "just beyond one limit each%s), IK(protect) far sideways, FK x4 length vectors x2 fk_modes, reverse FK, "
                   "move x%d, spinCustom(0.4), validate, validate(donothing), inverseJacobian, staticForces, carryMassCalc, "
                   "randomPos x2 scripts, FK(fsolve) / IK followed by a second platform built and driven alongside} per (geometry, switch subset, start); coherence, honesty of 'valid' and purity of "
                   "queries checked after every call" % (len(sp0.targets), ", one seed-generic" if ctx.seed else "", len(sp0.moves)))
    cov["skipped_specs"] = skipped
    if skipped:
        cov["exhaustive"] = False
    cov["capped_by_wall_clock"] = bool(skipped) or not cov["exhaustive"]
    ctx.coverage.update(cov)
    ctx.assumptions += [
        "plate-fixed joint coordinates and the neutral relative pose are read once from the fresh platform through the public "
        "getters; after spinCustom(a) the reference rotates them about the plate z axis by a (it never re-reads the library's tables)",
        "joint deflection = angle, in the joint's own plate frame, between the current leg and the neutral-pose leg; "
        "leg, above and deflection limits carry no margin in the library, tilt carries 1e-4; a slack of 1e-9*size covers rounding",
        "relative-transform clause: the library computes it through six-vectors, whose exponential is the identity below 1e-6 rad "
        "(C03's band); when the bottom pose, the top pose or their relative rotation has an angle in (0, 1e-6] that angle times "
        "the lever |p_top - p_bottom| is added to the tolerance (zero otherwise)",
        "un-inverts are observed through an instance-level wrapper around the private `_fixUpsideDown`, installed for the "
        "duration of each call and removed before the state is snapshotted; it only records distances before/after",
        "which pose FK converges to and what a corrective action does are environment answers: checked, never predicted",
        "randomPos runs with max_attempts=%d under a scripted np.random.uniform (2 scripts)" % RAND_ATTEMPTS,
        "thorough tier: the from-scratch replay pass is capped at 600 histories per (geometry, subset)" if thorough else
        "every distinct state's shortest history is replayed from scratch",
    ]


def replay(rec):
    spec = get_spec(rec["case"]["spec"])
    hist = rec["case"]["hist"]
    st = spec.initials()[0][1]
    found = []
    h = [hist[0]]
    for i in hist[1:]:
        op = spec.ops[i]
        try:
            st, obs = op.fn(st)
            bad = spec.invariant(st, obs, op, h)
        except Exception as e:
            bad = [{"clause": "raised", "observed": repr(e)}]
        h.append(i)
        found += [b for b in bad if b["clause"] == rec["clause"]]
        if bad:
            break
    return found
