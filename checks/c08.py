"""C08 - rigid-body dynamics are physically consistent (LX, exploration).

Complete products of small palettes through the real dynamics functions of the Numba port
(InverseDynamics, MassMatrix, VelQuadraticForces, GravityForces, EndEffectorForces, ForwardDynamics) and through the
Arm-level re-implementations (inverseDynamics, inverseDynamicsC, inverseDynamicsEMR, forwardDynamics,
forwardDynamicsE, massMatrix, coriolisGravity).  Nothing is compared with stored numbers: every clause is a physical
identity judged with the closed-form product-of-exponentials oracle of oracles/dynamics.py.

Parts
  chains   n = 1..3: every joint sequence over the 6-joint revolute palette x 4 link-frame schemes x 3 inertia schemes
           x q in {0, 0.3, -1.2, pi/2}^n (+ one seed-generic q), and per state the vector palettes {0, e_i, generic}.
  windows  n = 4..7: the 7 cyclic windows of a fixed 7-joint sequence, q in {0.3, -1.2}^n (+ one seed-generic q).
  energy   every chain configuration of the two parts above: 50 RK4 steps (4 ms) of ForwardDynamics with zero torque
           and zero tip wrench, total energy judged by the oracle.  A drift above 1e-6 is re-integrated over the same
           0.2 s with the step halved (down to 62.5 us); it is a violation when two consecutive halvings fail to
           reduce it 4-fold (RK4 truncation falls 16-fold per halving, a physical inconsistency does not fall).
  arms     the 6R arm of the test-suite and generated arms, given link frames / masses / inertias through
           setOrigins / setMassProperties, at a palette of states: the same physical clauses on the arm's data plus
           every Arm-level implementation against the port.

Clauses (REL = 1e-8 relative to the largest torque term involved; FD = 1e-6 where a Richardson difference of M or of
the potential enters)
  mass_symmetric, mass_positive, mass_sum_JGJ, gravity_gradient, tip_wrench_JT, passivity, coriolis_lagrange,
  decomposition, fd_inverts_id, id_inverts_fd, energy_drift, arm_<method>, raised.

Convention for Ftip (from the reference's docstrings): the wrench applied BY the end-effector, expressed in the
end-effector frame {n+1}; the torque that creates it is Jb_tip(q)^T Ftip with Jb_tip the body Jacobian of {n+1}.
"""
import itertools
import json
import os

import numpy as np

from checks import dynlib
from mc import canon, lattice
from oracles import dynamics as dyn
from oracles import se3

MOD = "checks.c08"
REL = 1e-8
FDT = 1e-6
ENERGY_TOL = 1e-6
ENERGY_DT = 4e-3
ENERGY_STEPS = 50
H = 1e-4


def _mr():
    from basic_robotics.modern_robotics_numba import modern_high_performance as mr
    return mr


class LibRaised(Exception):
    def __init__(self, fn, exc):
        Exception.__init__(self, "%s raised %r" % (fn, exc))
        self.fn, self.exc = fn, exc


RETRIED = [0]
ARG_MUT = []        # (function name, argument index, max change): arrays handed to a dynamics function are the caller's


def call(fn, f, *a):
    """One library call on fresh copies of its array arguments; an exception is a finding, not a harness error.
    The call is repeated once before it is believed: the JIT's on-disk cache directory can be pruned by a concurrent
    run of another check (observed: FileNotFoundError out of a kernel's first call), which is not the library's doing;
    a defect of the library raises again."""
    try:
        cp = [x.copy() if isinstance(x, np.ndarray) else x for x in a]
        out = f(*cp)
        for i, (x, y) in enumerate(zip(a, cp)):
            if isinstance(x, np.ndarray) and not (x.shape == y.shape and np.array_equal(x, y, equal_nan=True)):
                ARG_MUT.append((fn, i, float(np.abs(np.asarray(x, float) - np.asarray(y, float)).max()) if x.shape == y.shape else -1.0))
        return out
    except Exception:  # noqa: BLE001
        RETRIED[0] += 1
    try:
        return f(*[x.copy() if isinstance(x, np.ndarray) else x for x in a])
    except Exception as e:  # noqa: BLE001 - any exception of the library on a valid input is a violation
        raise LibRaised(fn, e)


def amax(*xs):
    return max([0.0] + [float(np.abs(np.asarray(x, float)).max()) for x in xs if np.size(x)])


def finite(*xs):
    return all(np.all(np.isfinite(np.asarray(x, float))) for x in xs)


# ------------------------------------------------------------------------------------------------ vectors
class Vecs:
    """Argument palettes for n joints: {0, e_i, one seed-generic of inf-norm in [20, 100]}."""

    def __init__(self, n, seed):
        self.n = n
        self.qd = dynlib.vec_palette(seed, 100, n)
        self.qdd = dynlib.vec_palette(seed, 120, n)
        self.tau = dynlib.vec_palette(seed, 140, n)
        self.g = [np.zeros(3)] + [np.eye(3)[i] for i in range(3)] + [dynlib.generic(seed, 160, 3)]
        self.F = [np.zeros(6)] + [np.eye(6)[i] for i in range(6)] + [dynlib.generic(seed, 170, 6)]
        # energy run: moderate initial speed and earth-like gravity in a generic direction
        self.qd_e = dynlib.generic(seed, 180 + n, n, 1.0, 2.0)
        ge = dynlib.generic(seed, 190, 3, 1.0, 1.0)
        self.g_e = 9.81 * ge / np.linalg.norm(ge)
        r = dynlib.palettes.seed_rng(seed, 200 + n)
        self.q_gen = r.uniform(-np.pi, np.pi, size=n)

    def combos(self, sidx):
        """(iqd, iqdd, ig, iF, with_fd): the complete product {0, generic}^4 and six one-hot combinations that walk
        through the unit vectors; ForwardDynamics is inverted on the eight products with generic qdd."""
        n = self.n
        G = {"qd": n + 1, "qdd": n + 1, "g": 4, "F": 7}
        out = []
        for a, b, c, d in itertools.product((0, 1), repeat=4):
            out.append((a * G["qd"], b * G["qdd"], c * G["g"], d * G["F"], bool(b)))
        for t in range(6):
            out.append((1 + (sidx + t) % n, 1 + (sidx + t + 1) % n, 1 + (sidx + t) % 3, 1 + (sidx + t) % 6, False))
        return out


_VECS = {}


def vecs(n, seed):
    if (n, seed) not in _VECS:
        _VECS[(n, seed)] = Vecs(n, seed)
    return _VECS[(n, seed)]


# ------------------------------------------------------------------------------------------------ one state
def port_partials(mr, Ml, Gl, S, q):
    """dM/dq_k of the library's MassMatrix by Richardson differences (steps 1e-4, 2e-4)."""
    return dyn.gradient(lambda x: call("MassMatrix", mr.MassMatrix, x, Ml, Gl, S), q, H)


def eval_state(acc, mr, base, Ml, Gl, S, q, V, sidx):
    """All physical clauses for one chain at one configuration.  `base` is the case descriptor without arguments."""
    n = len(q)

    def case(**kw):
        c = dict(base)
        c["q"] = q
        c.update(kw)
        return c

    try:
        M = call("MassMatrix", mr.MassMatrix, q, Ml, Gl, S)
        Mo = dyn.mass_matrix(Ml, Gl, S, q)
        sM = amax(Mo)
        acc.evals += 3
        if np.shape(M) != (n, n) or not finite(M):
            acc.violation("mass_sum_JGJ", case(), M)
            return
        r = amax(M - M.T) / sM
        acc.resid("mass_symmetric", r)
        if r > REL:
            acc.violation("mass_symmetric", case(), r, REL)
        lam = np.linalg.eigvalsh(0.5 * (M + M.T))
        acc.resid("mass_min_eig_neg", -lam[0] / lam[-1])
        if not lam[0] > 1e-12 * lam[-1]:
            acc.violation("mass_positive", case(), {"lambda_min": lam[0], "lambda_max": lam[-1]}, 0.0)
        r = amax(M - Mo) / sM
        acc.resid("mass_sum_JGJ", r)
        if r > REL:
            acc.violation("mass_sum_JGJ", case(), {"rel": r, "port": M, "oracle": Mo}, REL)

        # gravity term = gradient of the potential
        D = dyn.mass_moment_jacobian(Ml, Gl, S, q, H)
        mm = amax(dyn.mass_moment(Ml, Gl, S, q))
        gq = []
        for g in V.g:
            t = call("GravityForces", mr.GravityForces, q, g, Ml, Gl, S)
            want = -D @ g
            gq.append(t)
            acc.evals += 1
            r = amax(t - want) / max(1.0, amax(t), amax(want), amax(g) * mm) if finite(t) else np.inf
            acc.resid("gravity_gradient", r)
            if not r <= FDT:
                acc.violation("gravity_gradient", case(g=g), {"rel": r, "port": t, "grad_potential": want}, FDT)

        # tip wrench term = Jb_tip^T F
        Jt = dyn.link_jacobians(Ml, S, q)[-1]
        eF = []
        for F in V.F:
            t = call("EndEffectorForces", mr.EndEffectorForces, q, F, Ml, Gl, S)
            want = Jt.T @ F
            eF.append(t)
            acc.evals += 1
            r = amax(t - want) / max(1.0, amax(want), amax(F)) if finite(t) else np.inf
            acc.resid("tip_wrench_JT", r)
            if not r <= REL:
                acc.violation("tip_wrench_JT", case(F=F), {"rel": r, "port": t, "JT_F": want}, REL)

        # velocity-product term: passivity and the Lagrangian form, from differences of the library's own M
        DM = port_partials(mr, Ml, Gl, S, q)
        cq = []
        for qd in V.qd:
            c = call("VelQuadraticForces", mr.VelQuadraticForces, q, qd, Ml, Gl, S)
            cq.append(c)
            acc.evals += 2
            Md = np.tensordot(qd, DM, axes=(0, 0))
            ke2 = float(qd @ M @ qd)
            sc = max(1.0, float(np.abs(qd * c).sum()), ke2 * amax(qd))
            lhs, rhs = float(qd @ c), 0.5 * float(qd @ Md @ qd)
            r = abs(lhs - rhs) / sc if finite(c) else np.inf
            acc.resid("passivity", r)
            if not r <= FDT:
                acc.violation("passivity", case(qd=qd), {"rel": r, "qd_dot_c": lhs, "half_qd_Mdot_qd": rhs}, FDT)
            clag = Md @ qd - 0.5 * np.array([float(qd @ DM[k] @ qd) for k in range(n)])
            r = amax(c - clag) / max(1.0, amax(c), amax(clag), ke2 * amax(qd)) if finite(c) else np.inf
            acc.resid("coriolis_lagrange", r)
            if not r <= FDT:
                acc.violation("coriolis_lagrange", case(qd=qd), {"rel": r, "port": c, "christoffel": clag}, FDT)

        # tau = M qdd + c + g + J^T F, term by term; ForwardDynamics inverts it
        for iqd, iqdd, ig, iF, with_fd in V.combos(sidx):
            qd, qdd, g, F = V.qd[iqd], V.qdd[iqdd], V.g[ig], V.F[iF]
            tau = call("InverseDynamics", mr.InverseDynamics, q, qd, qdd, g, F, Ml, Gl, S)
            terms = (M @ qdd, cq[iqd], gq[ig], eF[iF])
            T = max(1.0, amax(tau), *[amax(t) for t in terms])
            acc.evals += 1
            r = amax(tau - sum(terms)) / T if finite(tau) else np.inf
            acc.resid("decomposition", r)
            if not r <= REL:
                acc.violation("decomposition", case(qd=qd, qdd=qdd, g=g, F=F),
                              {"rel": r, "tau": tau, "M_qdd": terms[0], "c": terms[1], "g": terms[2], "JT_F": terms[3]}, REL)
            if with_fd:
                back = call("ForwardDynamics", mr.ForwardDynamics, q, qd, tau, g, F, Ml, Gl, S)
                acc.evals += 1
                r = amax(M @ (np.asarray(back, float) - qdd)) / T if np.shape(back) == (n,) and finite(back) else np.inf
                acc.resid("fd_inverts_id", r)
                if not r <= REL:
                    acc.violation("fd_inverts_id", case(qd=qd, qdd=qdd, g=g, F=F), {"rel_torque_space": r, "qdd_back": back}, REL)
        # rates and wrench components that CANCEL in a plain sum without being zero (a lazy "is it all zero?" test sums them)
        if n >= 2:
            for qd_c in ([np.array(([1.5, -1.5] + [0.0] * n)[:n])] + ([np.array(([2.0, -3.0, 1.0] + [0.0] * n)[:n])] if n >= 3 else [])):
                F_c = np.array([0.0, 0.0, 3.0, 0.0, 0.0, -3.0])
                qdd, g = V.qdd[n + 1], V.g[4]
                tau = call("InverseDynamics", mr.InverseDynamics, q, qd_c, qdd, g, F_c, Ml, Gl, S)
                cq_c = call("VelQuadraticForces", mr.VelQuadraticForces, q, qd_c, Ml, Gl, S)
                eF_c = call("EndEffectorForces", mr.EndEffectorForces, q, F_c, Ml, Gl, S)
                terms = (M @ qdd, cq_c, gq[4], eF_c)
                T = max(1.0, amax(tau), *[amax(t) for t in terms])
                acc.evals += 2
                r = amax(tau - sum(terms)) / T if finite(tau) else np.inf
                if not r <= REL:
                    acc.violation("decomposition", case(qd=qd_c, qdd=qdd, g=g, F=F_c, cancelling=True), {"rel": r, "tau": tau}, REL)
                back = call("ForwardDynamics", mr.ForwardDynamics, q, qd_c, tau, g, F_c, Ml, Gl, S)
                r = amax(M @ (np.asarray(back, float) - qdd)) / T if np.shape(back) == (n,) and finite(back) else np.inf
                acc.resid("fd_inverts_id", r)
                if not r <= REL:
                    acc.violation("fd_inverts_id", case(qd=qd_c, qdd=qdd, g=g, F=F_c, cancelling=True), {"rel_torque_space": r, "qdd_back": back}, REL)
        # whole radians handed over as an INTEGER array and as a plain list of ints: the same numbers, the same answers
        qi = np.array([1, -1, 2, 0, -2, 1, 3][:n], dtype=np.int64)
        qf = qi.astype(float)
        qdd_i, qd_i, g_i = V.qdd[n + 1], V.qd[n + 1], V.g[4]
        want_tau = call("InverseDynamics", mr.InverseDynamics, qf, qd_i, qdd_i, g_i, V.F[7], Ml, Gl, S)
        want_M = call("MassMatrix", mr.MassMatrix, qf, Ml, Gl, S)
        for label, qq in (("int64 array", qi), ("list of ints", [int(x) for x in qi])):
            try:
                got_tau = np.asarray(mr.InverseDynamics(qq, qd_i, qdd_i, g_i, V.F[7], Ml, Gl, S), float)
                got_M = np.asarray(mr.MassMatrix(qq, Ml, Gl, S), float)
            except Exception:
                continue            # a form the compiled kernels reject outright is C17's business, not a wrong value
            acc.evals += 2
            r = max(amax(got_tau - want_tau) / max(1.0, amax(want_tau)), amax(got_M - want_M) / max(1.0, amax(want_M)))
            if not r <= REL:
                acc.violation("integer_typed_joint_vector", case(q_form=label, q_int=[int(x) for x in qi]), {"rel": r}, REL)
        qd, g, F = V.qd[-1], V.g[-1], V.F[-1]
        for tau in V.tau:
            a = call("ForwardDynamics", mr.ForwardDynamics, q, qd, tau, g, F, Ml, Gl, S)
            t2 = call("InverseDynamics", mr.InverseDynamics, q, qd, np.asarray(a, float), g, F, Ml, Gl, S)
            T = max(1.0, amax(tau), amax(cq[-1]), amax(gq[-1]), amax(eF[-1]))
            acc.evals += 1
            r = amax(t2 - tau) / T if finite(t2) else np.inf
            acc.resid("id_inverts_fd", r)
            if not r <= REL:
                acc.violation("id_inverts_fd", case(qd=qd, tau=tau, g=g, F=F), {"rel": r, "tau_back": t2, "qdd": a}, REL)
    except LibRaised as e:
        acc.violation("raised", case(fn=e.fn), repr(e.exc))
    return


ENERGY_LEVELS = 7


def eval_energy(acc, mr, base, Ml, Gl, S, V):
    """Zero torque, zero tip wrench: total energy along 50 RK4 steps (4 ms each) of the library's ForwardDynamics.
    RK4 is not symplectic and the 500:1 mass ratios make some chains stiff, so a drift above the tolerance is not
    blamed on the library at once: the same 0.2 s are integrated again with the step halved (up to 6 times, 62.5 us).
    Truncation error falls about 16-fold per halving, a physical inconsistency does not fall at all.  Violation: the
    drift is above the tolerance and two consecutive halvings each failed to reduce it 4-fold.  A chain whose drift is
    still above the tolerance at the finest step although it keeps converging is counted as skipped (never seen)."""
    n = S.shape[1]
    q0 = np.array([(0.3, -1.2, np.pi / 2)[i % 3] for i in range(n)])
    qd0, g = V.qd_e, V.g_e
    z, zF = np.zeros(n), np.zeros(6)
    c = dict(base)
    c.update({"q": q0, "qd": qd0, "g": g, "dt": ENERGY_DT, "steps": ENERGY_STEPS})
    ke0 = dyn.kinetic(Ml, Gl, S, q0, qd0)
    pe0 = abs(dyn.potential(Ml, Gl, S, q0, g))
    hist, stalled, verdict = [], 0, "unresolved"
    for level in range(ENERGY_LEVELS):
        k = 2 ** level
        try:
            traj = dyn.rk4(lambda q, qd: np.asarray(call("ForwardDynamics", mr.ForwardDynamics, q, qd, z, g, zF, Ml, Gl, S), float),
                           q0, qd0, ENERGY_DT / k, ENERGY_STEPS * k)
        except LibRaised as e:
            acc.violation("raised", dict(c, fn=e.fn), repr(e.exc))
            return
        E = [dyn.energy(Ml, Gl, S, q, qd, g) for q, qd in traj[::5 * k]]
        ok = bool(np.all(np.isfinite(E)))
        sc = max(1.0, ke0 + pe0, max(abs(e) for e in E) if ok else 1.0)
        r = (max(E) - min(E)) / sc if ok else np.inf
        if r <= ENERGY_TOL:
            hist.append(r)
            verdict = "conserved"
            break
        stalled = stalled + 1 if (hist and not r <= hist[-1] / 4.0) else 0
        hist.append(r)
        if stalled >= 2:
            verdict = "drifts"
            break
        acc.outcome("energy_step_halved")
    acc.evals += 1
    acc.resid("energy_drift_first_level", hist[0])
    acc.resid("energy_path_length", amax(traj[-1][0] - q0))
    acc.resid("energy_levels_used", len(hist))
    if verdict == "conserved":
        acc.resid("energy_drift", hist[-1])
    elif verdict == "drifts":
        acc.violation("energy_drift", c, {"rel_per_level": hist, "E": E}, ENERGY_TOL)
    else:
        acc.skip("energy_stiff_chain_not_resolved_at_finest_step")


# ------------------------------------------------------------------------------------------------ items
_ITEMS = {}


def _cached(f):
    def g(tier):
        if (f.__name__, tier) not in _ITEMS:
            _ITEMS[(f.__name__, tier)] = f(tier)
        return _ITEMS[(f.__name__, tier)]
    g.__name__ = f.__name__
    return g


@_cached
def chain_items(tier):
    """(joints, frames, inertia, state index | 'E' | 'G' | 'T'): 'G' is the seed-generic state, 'T' the state with joint values
    of a few 1e-5 rad, 'E' the energy run."""
    out = []
    combos = [(f, i) for f in dynlib.FRAME_SCHEMES for i in dynlib.INERTIA_SCHEMES]
    for n in (1, 2, 3):
        for ci, joints in enumerate(itertools.product(range(dynlib.NJ), repeat=n)):
            cfg = combos if (tier == "thorough" or n < 3) else [(dynlib.FRAME_SCHEMES[ci % 4], dynlib.INERTIA_SCHEMES[(ci // 4) % 3])]
            for f, i in cfg:
                for s in list(range(4 ** n)) + ["G", "T", "E"]:
                    out.append((joints, f, i, s))
    return out


@_cached
def window_items(tier):
    out = []
    for n in (4, 5, 6, 7):
        for k in range(7):
            w = (n - 4) * 7 + k
            for j in range(4 if tier == "thorough" else 1):
                f, i = dynlib.FRAME_SCHEMES[(w + j) % 4], dynlib.INERTIA_SCHEMES[(w + 2 * j) % 3]
                states = [s for s in range(2 ** n) if tier == "thorough" or n <= 5 or s % 4 == k % 4]
                for s in states + ["G", "T", "E"]:
                    out.append((tuple(dynlib.window_joints(n, k)), f, i, s))
    return out


@_cached
def arm_items(tier):
    out = []
    for name in (dynlib.ARMS_THOROUGH if tier == "thorough" else dynlib.ARMS):
        n = {"6R": 6, "gen:3R": 3, "gen:7R": 7}[name.split("@")[0]]
        ns = len(dynlib.arm_states(n, -7 * np.ones(n), 7 * np.ones(n), tier))
        out += [(name, s) for s in range(ns)]
    return out


_CH = {}


def chain(joints, f, i, seed):
    k = (tuple(joints), f, i, seed)
    if k not in _CH:
        if len(_CH) > 64:
            _CH.clear()
        _CH[k] = dynlib.Chain(joints, f, i, seed)
    return _CH[k]


def chain_state(ch, s, V, windows):
    if s == "G":
        return V.q_gen.copy()
    if s == "T":        # joint values of a few 1e-5 rad: above the exponential's 1e-6 cut-off, below any wider 'parked at home' test
        return np.array([5e-5, -8e-5, 0.3, 7e-5, -1.2, 3e-5, 0.3])[:ch.n].copy()
    return dynlib.state(dynlib.Q_WINDOW if windows else dynlib.Q_VALUES, ch.n, s)


def _drain_arg_mut(acc, case):
    seen = set()
    while ARG_MUT:
        fn, i, d = ARG_MUT.pop()
        if (fn, i) not in seen:
            seen.add((fn, i))
            acc.violation("argument_modified", dict(case, fn=fn, arg_index=i), d, 0.0)


def run_chain_item(acc, mr, item, seed, windows):
    joints, f, i, s = item
    ch = chain(joints, f, i, seed)
    V = vecs(ch.n, seed)
    base = dict(ch.desc(), part="windows" if windows else "chains", state=s)
    Ml, Gl, S = ch.args()
    if s == "E":
        acc.keys.add(lattice.hash_key(("E", S, Ml, Gl)))
        eval_energy(acc, mr, base, Ml, Gl, S, V)
        return
    q = chain_state(ch, s, V, windows)
    if np.any(q != 0):
        acc.keys.add(lattice.hash_key((S, Ml, Gl, q)))
    eval_state(acc, mr, base, Ml, Gl, S, q, V, s if isinstance(s, int) else 0)
    _drain_arg_mut(acc, dict(base, q=q))
    if s == 1 and len(acc.samples) < 2:
        acc.sample({"case": dict(base, q=q), "vectors": {"qd": V.qd[-1], "qdd": V.qdd[-1], "g": V.g[-1], "F": V.F[-1]},
                    "M_port": call("MassMatrix", mr.MassMatrix, q, Ml, Gl, S)})


def work_chains(p):
    mr = _mr()
    acc = lattice.Acc()
    items = chain_items(p["tier"])[::p.get("stride", 1)]
    r0 = RETRIED[0]
    for it in items[p["lo"]:p["hi"]]:
        run_chain_item(acc, mr, it, p["seed"], False)
    if RETRIED[0] > r0:
        acc.outcome("library_call_repeated_after_exception", RETRIED[0] - r0)
    return acc.result()


def work_windows(p):
    mr = _mr()
    acc = lattice.Acc()
    items = window_items(p["tier"])[::p.get("stride", 1)]
    r0 = RETRIED[0]
    for it in items[p["lo"]:p["hi"]]:
        run_chain_item(acc, mr, it, p["seed"], True)
    if RETRIED[0] > r0:
        acc.outcome("library_call_repeated_after_exception", RETRIED[0] - r0)
    return acc.result()


# ------------------------------------------------------------------------------------------------ arms
_ARMS = {}


def arm_case(name, seed):
    if (name, seed) not in _ARMS:
        with dynlib_quiet():
            _ARMS[(name, seed)] = dynlib.build_arm(name, seed)
    return _ARMS[(name, seed)]


def dynlib_quiet():
    from checks import armlib
    return armlib.quiet()


def flat(x):
    return np.asarray(x, float).reshape(-1)


def eval_arm_state(acc, mr, ac, q, V, sidx, raised_seen):
    """Every Arm-level implementation against the port fed with the same link frames / inertias / screws."""
    arm, n = ac.arm, ac.n
    Ml, Gl, S = ac.Ml, ac.Gl, ac.S
    base = {"part": "arms", "arm": ac.name, "state": sidx, "q": q}

    def libcall(fn, f, *a):
        try:
            with dynlib_quiet():
                return call(fn, f, *a)
        except LibRaised as lr:
            e = lr.exc
            k = (ac.name, fn, type(e).__name__)
            c = dict(base, fn=fn)
            if k not in raised_seen:
                raised_seen.add(k)
                acc.violation("raised", dict(c, args=[x for x in a]), repr(e))
            else:
                acc.nviol += 1
            return None

    def compare(clause, got, want, T, case, space=None):
        acc.evals += 1
        if got is None:
            return
        got = flat(got)
        if got.shape != flat(want).shape or not finite(got):
            acc.violation(clause, case, {"got": got, "want": want})
            return
        d = got - flat(want)
        if space is not None:
            d = space @ d
        r = amax(d) / T
        acc.resid(clause, r)
        if not r <= REL:
            acc.violation(clause, case, {"rel": r, "arm": got, "port": want}, REL)

    M = call("MassMatrix", mr.MassMatrix, q, Ml, Gl, S)
    sM = amax(M)
    compare("arm_massMatrix", libcall("massMatrix", arm.massMatrix, q), M, sM, base)
    for iqd, iqdd, ig, iF, with_fd in [(n + 1, n + 1, 4, 7, True), (0, 0, 4, 0, True), (n + 1, 0, 0, 0, True), (0, 0, 0, 7, True),
                                       (0, n + 1, 0, 0, True)] + V.combos(sidx)[-2:]:
        qd, qdd, g, F = V.qd[iqd], V.qdd[iqdd], V.g[ig], V.F[iF]
        c = dict(base, qd=qd, qdd=qdd, g=g, F=F)
        tau = call("InverseDynamics", mr.InverseDynamics, q, qd, qdd, g, F, Ml, Gl, S)
        cv = call("VelQuadraticForces", mr.VelQuadraticForces, q, qd, Ml, Gl, S)
        gv = call("GravityForces", mr.GravityForces, q, g, Ml, Gl, S)
        ev = call("EndEffectorForces", mr.EndEffectorForces, q, F, Ml, Gl, S)
        T = max(1.0, amax(tau), amax(M @ qdd), amax(cv), amax(gv), amax(ev))
        r = libcall("inverseDynamics", arm.inverseDynamics, q, qd, qdd, g, F)
        compare("arm_inverseDynamics", None if r is None else r[0], tau, T, c)
        r = libcall("inverseDynamicsC", arm.inverseDynamicsC, q, qd, qdd, g, F.reshape(6, 1))
        compare("arm_inverseDynamicsC", None if r is None else r[0], tau, T, c)
        compare("arm_inverseDynamicsC_M", None if r is None else r[1], M, sM, c)
        compare("arm_inverseDynamicsEMR", libcall("inverseDynamicsEMR", arm.inverseDynamicsEMR, q, qd, qdd, g, F), tau, T, c)
        compare("arm_coriolisGravity", libcall("coriolisGravity", arm.coriolisGravity, q, qd, g), cv + gv, T, c)
        fd = call("ForwardDynamics", mr.ForwardDynamics, q, qd, tau, g, F, Ml, Gl, S)
        afd = libcall("forwardDynamics", arm.forwardDynamics, q, qd, tau, g, F)
        compare("arm_forwardDynamics", afd, fd, T, c, space=M)
        r = libcall("forwardDynamicsE", arm.forwardDynamicsE, q, qd, tau, g, F)
        compare("arm_forwardDynamicsE", None if r is None else r[0], fd, T, c, space=M)
        if r is not None:
            compare("arm_forwardDynamicsE_M", r[1], M, sM, c)
            compare("arm_forwardDynamicsE_h", r[2], cv + gv, T, c)
            compare("arm_forwardDynamicsE_ee", r[3], ev, T, c)
        # the round trip through the arm's own pair
        compare("arm_fd_inverts_id", afd, qdd, T, c, space=M)


def eval_arm_reuse(acc, mr, ac, states, V):
    """One arm object, ONE set of argument buffers overwritten in place from state to state (as an integrator does with
    `q += dt*qd`): every Arm-level answer must belong to the values the buffers hold NOW.  A result cached under a
    reference to the caller's array, or a scratch buffer handed out twice, is only wrong here."""
    arm, n = ac.arm, ac.n
    Ml, Gl, S = ac.Ml, ac.Gl, ac.S
    qb, qdb, qddb, gb, Fb = np.zeros(n), np.zeros(n), np.zeros(n), np.zeros(3), np.zeros(6)
    held = []
    # after each of the first three states two tiny steps (1e-6, then 2e-7 more on every joint), as a finite difference or a
    # slow trajectory takes them: the answers differ by ~1e-6 relative, a result remembered for a 'close enough' argument is wrong
    # (only from states with no joint value near 0: a joint value inside the exponential's 1e-6 cut-off is C01's business)
    seq, stepped = [], 0
    for k, q in enumerate(states):
        seq.append(np.array(q, float))
        if stepped < 3 and float(np.abs(q).min()) > 1e-2:
            stepped += 1
            seq.append(np.array(q, float) + 1e-6)
            seq.append(np.array(q, float) + 1.2e-6)
    for k, q in enumerate(seq):
        qb[:] = q
        qdb[:] = V.qd[(k % (n + 1)) + 1] if k % 2 else V.qd[0]
        qddb[:] = V.qdd[n + 1] if k % 3 == 0 else V.qdd[0]
        gb[:] = V.g[4] if k % 2 == 0 else V.g[0]
        Fb[:] = V.F[7] if k % 4 == 1 else V.F[0]
        base = {"part": "arms_reuse", "arm": ac.name, "step": k, "q": q.copy()}
        M = call("MassMatrix", mr.MassMatrix, q.copy(), Ml, Gl, S)
        tau = call("InverseDynamics", mr.InverseDynamics, q.copy(), qdb.copy(), qddb.copy(), gb.copy(), Fb.copy(), Ml, Gl, S)
        fd = call("ForwardDynamics", mr.ForwardDynamics, q.copy(), qdb.copy(), tau.copy(), gb.copy(), Fb.copy(), Ml, Gl, S)
        sM = amax(M)
        T = max(1.0, amax(tau), amax(M @ qddb))
        try:
            with dynlib_quiet():
                got = {"massMatrix": flat(arm.massMatrix(qb)),
                       "inverseDynamics": flat(arm.inverseDynamics(qb, qdb, qddb, gb, Fb)[0]),
                       "forwardDynamicsE_M": flat(arm.forwardDynamicsE(qb, qdb, tau, gb, Fb)[1]),
                       "forwardDynamicsE": flat(arm.forwardDynamicsE(qb, qdb, tau, gb, Fb)[0]),
                       "coriolisGravity": flat(arm.coriolisGravity(qb, qdb, gb))}
        except Exception as e:
            acc.violation("raised", dict(base, fn="reuse sequence"), repr(e))
            continue
        cg = call("VelQuadraticForces", mr.VelQuadraticForces, q.copy(), qdb.copy(), Ml, Gl, S) + \
            call("GravityForces", mr.GravityForces, q.copy(), gb.copy(), Ml, Gl, S)
        want = {"massMatrix": (flat(M), sM), "inverseDynamics": (flat(tau), T), "forwardDynamicsE_M": (flat(M), sM),
                "forwardDynamicsE": (flat(fd), max(1.0, amax(fd))), "coriolisGravity": (flat(cg), T)}
        for name, (w, sc) in want.items():
            acc.evals += 1
            r = amax(got[name] - w) / sc if got[name].shape == w.shape and finite(got[name]) else float("inf")
            acc.resid("arm_reused_buffers", r)
            if not r <= (1e-6 if name == "forwardDynamicsE" else REL):
                acc.violation("arm_reused_buffers", dict(base, fn=name), {"rel": r}, REL)
        # answers handed out earlier must not have been overwritten by later calls
        for k0, name, arr, snap in held:
            if not np.array_equal(arr, snap):
                acc.violation("earlier_result_overwritten", dict(base, fn=name, from_step=k0), {"diff": amax(arr - snap)}, 0.0)
        held = [(k, name, arr, arr.copy()) for name, arr in got.items()]
        if max(amax(qb - q), 0.0) != 0.0:
            acc.violation("arm_reused_buffers", dict(base, fn="argument modified"), {"diff": amax(qb - q)}, 0.0)


def eval_arm_after_setter(acc, mr, ac, q, V):
    """History on ONE arm object: every dynamics function is asked once, the inertias are replaced through the public
    setter, every function is asked again - and must answer for the NEW inertias, as the port does when fed them."""
    import copy as _copy
    arm = _copy.deepcopy(ac.arm)
    n = ac.n
    Ml, S = ac.Ml, ac.S
    G2 = np.array(ac.Gl, float) * 1.7
    G2[:, 0, 0] *= 1.3
    qd, qdd, g, F = V.qd[n + 1], V.qdd[n + 1], V.g[4], V.F[7]
    base = {"part": "arms_setter", "arm": ac.name, "q": q}

    def ask():
        with dynlib_quiet():
            r = {"massMatrix": flat(arm.massMatrix(q.copy())),
                 "inverseDynamics": flat(arm.inverseDynamics(q.copy(), qd.copy(), qdd.copy(), g.copy(), F.copy())[0]),
                 "inverseDynamicsC": flat(arm.inverseDynamicsC(q.copy(), qd.copy(), qdd.copy(), g.copy(), F.copy().reshape(6, 1))[0]),
                 "inverseDynamicsEMR": flat(arm.inverseDynamicsEMR(q.copy(), qd.copy(), qdd.copy(), g.copy(), F.copy())),
                 "coriolisGravity": flat(arm.coriolisGravity(q.copy(), qd.copy(), g.copy()))}
            tau = r["inverseDynamics"].copy()
            r["forwardDynamicsE"] = flat(arm.forwardDynamicsE(q.copy(), qd.copy(), tau, g.copy(), F.copy())[0])
        return r
    try:
        ask()
        with dynlib_quiet():
            arm.setMassProperties(box_spatial_links=G2.copy())
        got = ask()
    except Exception as e:
        acc.violation("raised", dict(base, fn="setter history"), repr(e))
        return
    M = call("MassMatrix", mr.MassMatrix, q, Ml, G2, S)
    tau = call("InverseDynamics", mr.InverseDynamics, q, qd, qdd, g, F, Ml, G2, S)
    cg = call("VelQuadraticForces", mr.VelQuadraticForces, q, qd, Ml, G2, S) + call("GravityForces", mr.GravityForces, q, g, Ml, G2, S)
    T = max(1.0, amax(tau))
    want = {"massMatrix": (flat(M), amax(M)), "inverseDynamics": (flat(tau), T), "inverseDynamicsC": (flat(tau), T),
            "inverseDynamicsEMR": (flat(tau), T), "coriolisGravity": (flat(cg), T), "forwardDynamicsE": (flat(qdd), max(1.0, amax(qdd)))}
    for name, (w, sc) in want.items():
        acc.evals += 1
        r = amax(got[name] - w) / sc if got[name].shape == w.shape and finite(got[name]) else float("inf")
        acc.resid("arm_after_inertia_setter", r)
        if not r <= (1e-6 if name == "forwardDynamicsE" else REL):
            acc.violation("arm_after_inertia_setter", dict(base, fn=name), {"rel": r}, REL)
    # second stage on the same object: the LINK FRAMES are replaced through setOrigins (+ the matching setMassProperties);
    # every function must answer for the new frames, as the port does when fed the new link-frame list
    from basic_robotics.general import tm
    link_global, X = [], np.eye(4)
    for i in range(n):
        X = X @ np.array(Ml[i], float)
        link_global.append(X.copy())
    tip_global = X @ np.array(Ml[n], float)
    D = se3.T_from([0.0, 0.0, 0.4], [0.05, -0.02, 0.03])
    new_global = [link_global[i] @ (D if i % 2 == 0 else se3.tinv(D)) for i in range(n)]
    Ml3 = np.array([new_global[0]] + [se3.tinv(new_global[i - 1]) @ new_global[i] for i in range(1, n)] + [se3.tinv(new_global[n - 1]) @ tip_global])
    try:
        with dynlib_quiet():
            arm.setOrigins(link_homes_global=[tm(T.copy()) for T in new_global])
            cgl = [tm(T.copy()) for T in Ml3]        # the caller keeps this list (third stage)
            arm.setMassProperties(ac.masses.copy(), cgl, G2.copy())
        got = ask()
    except Exception as e:
        acc.violation("raised", dict(base, fn="link-frame setter history"), repr(e))
        return
    M = call("MassMatrix", mr.MassMatrix, q, Ml3, G2, S)
    tau = call("InverseDynamics", mr.InverseDynamics, q, qd, qdd, g, F, Ml3, G2, S)
    cg = call("VelQuadraticForces", mr.VelQuadraticForces, q, qd, Ml3, G2, S) + call("GravityForces", mr.GravityForces, q, g, Ml3, G2, S)
    T = max(1.0, amax(tau))
    want = {"massMatrix": (flat(M), amax(M)), "inverseDynamics": (flat(tau), T), "inverseDynamicsC": (flat(tau), T),
            "inverseDynamicsEMR": (flat(tau), T), "coriolisGravity": (flat(cg), T), "forwardDynamicsE": (flat(qdd), max(1.0, amax(qdd)))}
    for name, (w, sc) in want.items():
        acc.evals += 1
        r = amax(got[name] - w) / sc if got[name].shape == w.shape and finite(got[name]) else float("inf")
        acc.resid("arm_after_link_frame_setter", r)
        if not r <= (1e-6 if name == "forwardDynamicsE" else REL):
            acc.violation("arm_after_link_frame_setter", dict(base, fn=name), {"rel": r}, REL)

    # third stage: the caller EDITS THE ENTRIES of the list it passed (same list object, same pose objects, new values: each
    # link frame shifted along its own z) and hands the same list to the setters again; every function must answer for the
    # values the entries hold now - a stacked copy remembered under the identity of the list is stale here
    try:
        for i in range(n):
            cgl[i][2] = float(cgl[i][2]) + 0.04 * (i + 1)
        Ml5 = [np.array(c.gTM(), float).copy() for c in cgl[:n]]
        glob5, X = [], np.eye(4)
        for i in range(n):
            X = X @ Ml5[i]
            glob5.append(X.copy())
        tip = tm(se3.tinv(glob5[n - 1]) @ tip_global)
        for j in range(6):
            cgl[n][j] = float(tip[j])
        Ml5 = np.array(Ml5 + [np.array(cgl[n].gTM(), float).copy()])
        with dynlib_quiet():
            arm.setOrigins(link_homes_global=[tm(T.copy()) for T in glob5])
            arm.setMassProperties(ac.masses.copy(), cgl, G2.copy())
        got = ask()
        with dynlib_quiet():
            got["forwardDynamics"] = flat(arm.forwardDynamics(q.copy(), qd.copy(), got["inverseDynamics"].copy(), g.copy(), F.copy()))
    except Exception as e:
        acc.violation("raised", dict(base, fn="link-frame entries edited in place"), repr(e))
        return
    M = call("MassMatrix", mr.MassMatrix, q, Ml5, G2, S)
    tau = call("InverseDynamics", mr.InverseDynamics, q, qd, qdd, g, F, Ml5, G2, S)
    cg = call("VelQuadraticForces", mr.VelQuadraticForces, q, qd, Ml5, G2, S) + call("GravityForces", mr.GravityForces, q, g, Ml5, G2, S)
    T = max(1.0, amax(tau))
    want = {"massMatrix": (flat(M), amax(M)), "inverseDynamics": (flat(tau), T), "inverseDynamicsC": (flat(tau), T),
            "inverseDynamicsEMR": (flat(tau), T), "coriolisGravity": (flat(cg), T), "forwardDynamicsE": (flat(qdd), max(1.0, amax(qdd))),
            "forwardDynamics": (flat(qdd), max(1.0, amax(qdd)))}
    for name, (w, sc) in want.items():
        acc.evals += 1
        r = amax(got[name] - w) / sc if got[name].shape == w.shape and finite(got[name]) else float("inf")
        acc.resid("arm_after_link_frames_edited_in_place", r)
        if not r <= (1e-6 if name.startswith("forwardDynamics") else REL):
            acc.violation("arm_after_link_frames_edited_in_place", dict(base, fn=name), {"rel": r}, REL)


def eval_arm_narrow_limits(acc, mr, ac, q, V):
    """The same arm with joint ranges NARROWER than the state asked for (|q_i| up to pi is inside the statement's range, the
    arm's own limits are the caller's choice): the library clamps joint values to the limits silently, so an answer may
    belong to q as given or to q clamped - but to ONE of the two as a whole, never to link poses of one and Jacobians of
    the other.  Both readings are computed with the port; an answer is accepted when it matches either."""
    import copy as _copy
    arm = _copy.deepcopy(ac.arm)
    n = ac.n
    Ml, Gl, S = ac.Ml, ac.Gl, ac.S
    lim = 0.45 * max(1e-3, float(np.abs(q).max()))
    if not float(np.abs(q).max()) > 1e-3:
        return
    with dynlib_quiet():
        arm.setJointProperties(-lim * np.ones(n), lim * np.ones(n))
    qc = np.clip(q, -lim, lim)
    qd, qdd, g, F = V.qd[n + 1], V.qdd[n + 1], V.g[4], V.F[7]
    base = {"part": "arms_narrow", "arm": ac.name, "q": q, "limit": lim}
    want = {}
    for tag, qq in (("as_given", q), ("clamped", qc)):
        M = call("MassMatrix", mr.MassMatrix, qq, Ml, Gl, S)
        tau = call("InverseDynamics", mr.InverseDynamics, qq, qd, qdd, g, F, Ml, Gl, S)
        cgv = call("VelQuadraticForces", mr.VelQuadraticForces, qq, qd, Ml, Gl, S) + call("GravityForces", mr.GravityForces, qq, g, Ml, Gl, S)
        want[tag] = {"massMatrix": (flat(M), amax(M)), "inverseDynamicsC_M": (flat(M), amax(M)), "forwardDynamicsE_M": (flat(M), amax(M)),
                     "inverseDynamics": (flat(tau), max(1.0, amax(tau))), "inverseDynamicsC": (flat(tau), max(1.0, amax(tau))),
                     "inverseDynamicsEMR": (flat(tau), max(1.0, amax(tau))), "coriolisGravity": (flat(cgv), max(1.0, amax(tau)))}
    try:
        with dynlib_quiet():
            got = {"massMatrix": flat(arm.massMatrix(q.copy()))}
            r = arm.inverseDynamicsC(q.copy(), qd.copy(), qdd.copy(), g.copy(), F.copy().reshape(6, 1))
            got["inverseDynamicsC"], got["inverseDynamicsC_M"] = flat(r[0]), flat(r[1])
            got["inverseDynamics"] = flat(arm.inverseDynamics(q.copy(), qd.copy(), qdd.copy(), g.copy(), F.copy())[0])
            got["inverseDynamicsEMR"] = flat(arm.inverseDynamicsEMR(q.copy(), qd.copy(), qdd.copy(), g.copy(), F.copy()))
            got["coriolisGravity"] = flat(arm.coriolisGravity(q.copy(), qd.copy(), g.copy()))
            got["forwardDynamicsE_M"] = flat(arm.forwardDynamicsE(q.copy(), qd.copy(), got["inverseDynamics"].copy(), g.copy(), F.copy())[1])
    except Exception as e:
        acc.violation("raised", dict(base, fn="narrow limits"), repr(e))
        return
    for name, v in got.items():
        acc.evals += 1
        rs = []
        for tag in ("as_given", "clamped"):
            w, sc = want[tag][name]
            rs.append(amax(v - w) / sc if v.shape == w.shape and finite(v) else float("inf"))
        r = min(rs)
        acc.resid("arm_narrow_limits_one_reading", r)
        if not r <= REL:
            acc.violation("arm_narrow_limits_one_reading", dict(base, fn=name), {"rel_as_given": rs[0], "rel_clamped": rs[1]}, REL)


def other_arm_first(name, seed):
    """Before an arm is asked anything, ANOTHER arm (another geometry; the same joint count where the palette has one) is
    built and asked for its mass matrix and inverse dynamics in the same process - explicitly, in the run and in the replay
    alike, so that what an arm answers never depends on which worker happened to serve which arm before.  Anything the
    library keeps at class or module level (a memo keyed by link index, a scratch buffer) is shared between the two."""
    names = list(dynlib.ARMS_THOROUGH)
    n_of = lambda nm: nm.split("@")[0]
    cand = [x for x in names if x != name and n_of(x) == n_of(name)] or [x for x in names if x != name]
    oc = arm_case(cand[0], seed + 1 if n_of(cand[0]) != "6R" else seed)
    q = 0.3 * np.ones(oc.n)
    with dynlib_quiet():
        oc.arm.massMatrix(q.copy())
        oc.arm.inverseDynamics(q.copy(), q.copy(), q.copy(), np.array([0, 0, -9.81]), np.zeros(6))
        oc.arm.inverseDynamicsEMR(q.copy(), q.copy(), q.copy(), np.array([0, 0, -9.81]), np.zeros(6))


def work_arms(p):
    mr = _mr()
    acc = lattice.Acc()
    items = arm_items(p["tier"])[::p.get("stride", 1)]
    raised_seen = set()
    for name, s in items[p["lo"]:p["hi"]]:
        other_arm_first(name, p["seed"])
        ac = arm_case(name, p["seed"])
        V = vecs(ac.n, p["seed"])
        q = dynlib.arm_states(ac.n, ac.lo, ac.hi, p["tier"])[s]
        if np.any(q != 0):
            acc.keys.add(lattice.hash_key((ac.name, ac.S, ac.Ml, ac.Gl, q)))
        try:
            eval_arm_state(acc, mr, ac, q, V, s, raised_seen)
        except LibRaised as e:
            acc.violation("raised", {"part": "arms", "arm": name, "state": s, "q": q, "fn": e.fn}, repr(e.exc))
        # the physical clauses on the arm's own link frames and inertias (through the port)
        eval_state(acc, mr, {"part": "arms", "arm": name, "state": s, "physical": True}, ac.Ml.copy(), ac.Gl.copy(), ac.S.copy(), q, V, s)
        _drain_arg_mut(acc, {"part": "arms", "arm": name, "state": s, "q": q})
        if s == 1:
            acc.sample({"case": {"part": "arms", "arm": name, "q": q}})
            try:
                eval_arm_after_setter(acc, mr, ac, q, V)
            except LibRaised as e:
                acc.violation("raised", {"part": "arms_setter", "arm": name, "fn": e.fn}, repr(e.exc))
            try:
                eval_arm_narrow_limits(acc, mr, ac, q, V)
            except LibRaised as e:
                acc.violation("raised", {"part": "arms_narrow", "arm": name, "fn": e.fn}, repr(e.exc))
            sts = dynlib.arm_states(ac.n, ac.lo, ac.hi, p["tier"])
            try:
                eval_arm_reuse(acc, mr, ac, [sts[i] for i in sorted({len(sts) - 1 - j * max(1, len(sts) // 9) for j in range(9)} | {0})], V)
            except LibRaised as e:
                acc.violation("raised", {"part": "arms_reuse", "arm": name, "fn": e.fn}, repr(e.exc))
    return acc.result()


# ------------------------------------------------------------------------------------------------ driver
def _empty():
    m = lattice.merge([])
    m["complete"] = False
    return m


def _mark(m, stride):
    if stride > 1:
        m["complete"] = False
    return m


def warm(seed):
    """Compile every kernel the check touches once in the parent: on a tree whose JIT cache is cold, 16 workers
    compiling and writing the on-disk cache at the same time race (observed: FileNotFoundError out of a kernel call)."""
    acc = lattice.Acc()
    mr = _mr()
    run_chain_item(acc, mr, ((0, 3), "R", "gen", 5), seed, False)
    try:
        ac = arm_case("gen:3R@B1", seed)
        eval_arm_state(acc, mr, ac, dynlib.arm_states(ac.n, ac.lo, ac.hi, "quick")[3], vecs(ac.n, seed), 3, set())
    except Exception:  # noqa: BLE001 - whatever is wrong with the tree is reported by the enumeration itself
        pass


def run(ctx):
    tier = ctx.tier
    warm(ctx.seed)
    ctx.log("kernels warm")
    ci, wi, ai = chain_items(tier), window_items(tier), arm_items(tier)
    parts = [x for x in os.environ.get("VERIF_C08_PARTS", "chains,windows,arms").split(",") if x]   # development aids only:
    stride = max(1, int(os.environ.get("VERIF_C08_STRIDE", "1") or 1))                                # a run that uses them is not exhaustive
    if stride > 1:
        ci, wi, ai = ci[::stride], wi[::stride], ai[::stride]
    ex = {"stride": stride}
    with ctx.pool() as pool:
        k = 40 if tier == "thorough" else 12
        m1 = lattice.run(ctx, pool, MOD, "work_chains", len(ci), extra=ex, nshards=pool.workers * k, part="chains") if "chains" in parts else _empty()
        m2 = lattice.run(ctx, pool, MOD, "work_windows", len(wi), extra=ex, nshards=pool.workers * k, part="windows") if "windows" in parts else _empty()
        m3 = lattice.run(ctx, pool, MOD, "work_arms", len(ai), extra=ex, nshards=pool.workers * 6, part="arms") if "arms" in parts else _empty()
    # an Arm method that raises does so at every state: keep the first record per (arm, method, exception), count the rest
    seen, kept = set(), []
    for v in m3["viols"]:
        if v["clause"] == "raised":
            k = (v["case"].get("arm"), v["case"].get("fn"), str(v["observed"])[:60])
            if k in seen:
                m3["outcomes"]["raised_same_method_further_states"] = m3["outcomes"].get("raised_same_method_further_states", 0) + 1
                continue
            seen.add(k)
        kept.append(v)
    m3["viols"] = kept
    thin = ("" if tier == "thorough" else
            "; QUICK thinning: n=3 chains use ONE (frames, inertia) pair per chain, pair = (schemes[c mod 4], schemes[(c div 4) mod 3]) for "
            "chain number c (all 12 pairs occur 18 times); each window uses one pair and for n=6,7 only the states with index = window "
            "number mod 4; three arms instead of four")
    lattice.fill(ctx, [("chains", _mark(m1, stride)), ("windows", _mark(m2, stride)), ("arms", _mark(m3, stride))],
                 "complete product: joint sequences (6^n, n=1..3) x 4 link-frame schemes x 3 inertia schemes x {0,0.3,-1.2,pi/2}^n "
                 "(+1 seed-generic q), 7 cyclic windows for n=4..7 x {0.3,-1.2}^n, arms x state palette; per state the clauses run over "
                 "g in {0,e_i,generic}, F in {0,e_i,generic}, qd in {0,e_i,generic}, the product {0,generic}^4 of (qd,qdd,g,F) plus six one-hot "
                 "combinations, and tau in {0,e_i,generic}; one 50-step RK4 energy run per chain configuration. evaluations = clause "
                 "evaluations; distinct_nontrivial = number of distinct hashed (screws, link frames, inertias, q) states with q != 0 plus "
                 "distinct energy runs (hash of the rounded numeric data, measured)" + thin,
                 {"joints": dynlib.NJ, "frame_schemes": dynlib.FRAME_SCHEMES, "inertia_schemes": dynlib.INERTIA_SCHEMES,
                  "q_values": dynlib.Q_VALUES, "q_window": dynlib.Q_WINDOW, "chain_items": len(ci), "window_items": len(wi),
                  "arm_items": len(ai), "arms": dynlib.ARMS_THOROUGH if tier == "thorough" else dynlib.ARMS,
                  "energy": {"dt": ENERGY_DT, "steps": ENERGY_STEPS}})
    ctx.assumptions += [
        "Ftip is the wrench applied by the end-effector expressed in the end-effector frame (reference docstring); tip term = Jb_tip^T Ftip",
        "spatial inertias are symmetric positive definite 6x6 matrices of the form [[I, m[c]],[-m[c], m 1]] in the link frame "
        "(centre of mass at c; c = 0 for the box and full schemes)",
        "relative tolerances are taken against the largest torque term of the case (floor 1); the forward-dynamics round trip is "
        "measured in torque space, M (qdd_back - qdd)",
        "arms are used at their construction base (no move); inverseDynamicsC is given the wrench as a 6x1 column as in the test-suite",
    ]


# ------------------------------------------------------------------------------------------------ replay
def _same(a, b):
    return json.dumps(canon.jsonable(a), sort_keys=True) == json.dumps(canon.jsonable(b), sort_keys=True)


def replay(rec):
    c = rec["case"]
    seed, tier = rec.get("seed", 0), rec.get("tier", "quick")
    mr = _mr()
    acc = lattice.Acc(max_viol=100000)
    if str(c.get("part", "")).startswith("arms"):
        other_arm_first(c["arm"], seed)
    if c["part"] == "arms_setter":
        ac = dynlib.build_arm(c["arm"], seed)
        V = vecs(ac.n, seed)
        try:
            eval_arm_after_setter(acc, mr, ac, np.array(c["q"], float), V)
        except LibRaised as e:
            acc.violation("raised", {"part": "arms_setter", "arm": c["arm"], "fn": e.fn}, repr(e.exc))
        return [v for v in acc.viols if v["clause"] == rec["clause"] and v["case"].get("fn") == c.get("fn")]
    if c["part"] == "arms_narrow":
        ac = dynlib.build_arm(c["arm"], seed)
        V = vecs(ac.n, seed)
        try:
            eval_arm_narrow_limits(acc, mr, ac, np.array(c["q"], float), V)
        except LibRaised as e:
            acc.violation("raised", {"part": "arms_narrow", "arm": c["arm"], "fn": e.fn}, repr(e.exc))
        return [v for v in acc.viols if v["clause"] == rec["clause"] and v["case"].get("fn") == c.get("fn")]
    if rec["clause"] == "argument_modified":
        pass        # falls through: re-evaluating the item drains ARG_MUT into acc below
    if c["part"] == "arms_reuse":
        ac = dynlib.build_arm(c["arm"], seed)
        V = vecs(ac.n, seed)
        sts = dynlib.arm_states(ac.n, ac.lo, ac.hi, tier)
        try:
            eval_arm_reuse(acc, mr, ac, [sts[i] for i in sorted({len(sts) - 1 - j * max(1, len(sts) // 9) for j in range(9)} | {0})], V)
        except LibRaised as e:
            acc.violation("raised", {"part": "arms_reuse", "arm": c["arm"], "fn": e.fn}, repr(e.exc))
        return [v for v in acc.viols if v["clause"] == rec["clause"] and v["case"].get("fn") == c.get("fn")
                and v["case"].get("step") == c.get("step")]
    if c["part"] in ("chains", "windows"):
        run_chain_item(acc, mr, (tuple(c["joints"]), c["frames"], c["inertia"], c["state"]), seed, c["part"] == "windows")
    else:
        ac = dynlib.build_arm(c["arm"], seed)
        V = vecs(ac.n, seed)
        q = dynlib.arm_states(ac.n, ac.lo, ac.hi, tier)[c["state"]]
        if c.get("physical"):
            eval_state(acc, mr, {"part": "arms", "arm": c["arm"], "state": c["state"], "physical": True}, ac.Ml.copy(), ac.Gl.copy(),
                       ac.S.copy(), q, V, c["state"])
        else:
            try:
                eval_arm_state(acc, mr, ac, q, V, c["state"], set())
            except LibRaised as e:
                acc.violation("raised", {"part": "arms", "arm": c["arm"], "state": c["state"], "q": q, "fn": e.fn}, repr(e.exc))
    return [v for v in acc.viols if v["clause"] == rec["clause"] and _same(v["case"], c)]
