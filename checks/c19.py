"""C19 - the message router delivers each received message exactly once per active rule (HX + TLC conformance).

Part 1 (always): explicit-state exploration of operation histories on a real `Comms` hub.  Endpoints are in-memory
doubles of the CommsObject interface registered in the hub's endpoint table, plus (configurations udp2 / mix3) a real
`UDPObject` created with `newComPort` whose socket is a scripted fake.  The environment's answer at every receive
position ({message, empty message, no data}; time-out on the fake socket) is chosen by the explorer.  After every
transition: registration return == "it changed the rule set" (reference model), bags of deliveries at every endpoint
and sink == the model's, a no-data / closed / unknown-port receive delivers nothing and raises nothing, every spin
sends each source's value once, rule tables and open flags == the model's.

Part 2 (when `tlc` is on PATH): the complete state graph of tla/Router.tla is dumped by TLC and EVERY edge is replayed
against the real hub (oracles/tlc_bridge.py); the Python reference model is checked against the same graph.
TLC runs in the background while Part 1 explores.  Without `tlc` the check is Part 1 alone and says so in its evidence.

Bounds: quick = depth 4 on two endpoints (doubles a,b; double a + UDP u), TLC with tla/RouterQuick.cfg;
thorough = depth 6 on a,b, depth 5 on a,u, depth 4 on a,b,u, depth 6 on a single endpoint, TLC with tla/Router.cfg
(VERIF_C19_DEPTH=<n> overrides the depth of the a,b run).
"""
import functools
import json
import os
from collections import Counter

import numpy as np

from mc import explorer
from mc.explorer import Op
from mc.pool import HarnessError
from oracles import router_model as rm
from oracles import tlc_bridge as tb

MOD = "checks.c19"
_NOVALS = np.zeros(0)
UNKNOWN = "zz"
SINKS = ("k1", "k2")
SRCS = ("s1", "s0")
CONFIGS = {          # registration order = tuple order
    "dbl2": {"eps": ("a", "b"), "udp": ()},
    "udp2": {"eps": ("a", "u"), "udp": ("u",)},
    "mix3": {"eps": ("a", "b", "u"), "udp": ("u",)},
    "dbl1": {"eps": ("a",), "udp": ()},
    # two real UDP objects that carry the SAME display name (CommsObject.setName - a label; the hub's key is what identifies
    # an endpoint): whatever the hub compares, looks up or removes must go by endpoint, not by what the label says
    "udpn": {"eps": ("u", "v"), "udp": ("u", "v"), "display": "link"},
}
# fields of an endpoint that are logs of the current transition (observations), not state
_EP_LOGS = ("script", "sent", "polls")
# diagnostic fields no method of the alphabet reads (UDPObject / CommsObject): kept out of the state key in the
# quick tier to keep it small, included in the thorough tier
_EP_DIAG = ("last_rx_success", "last_tx_success", "last_rx_data", "last_source_address")


def msg(e, j=0):
    """The message the environment hands to the j-th receive position of endpoint e inside one transition."""
    return "m:%s:%d" % (e, j)


def _datum(x):
    """What was delivered, in a hashable and JSON-friendly form (texts and None as they are)."""
    return x if isinstance(x, str) or x is None else "<%s> %r" % (type(x).__name__, x)


class World:
    """The explored state: the real hub, handles on its endpoints / sinks / sources, and the reference model."""

    def __init__(self, cfg, hub, eps, sinks, srcs, model, full_key):
        self.cfg, self.hub, self.eps, self.sinks, self.srcs, self.model = cfg, hub, eps, sinks, srcs, model
        self.full_key = full_key

    # -- plumbing ---------------------------------------------------------------------------------------------------
    @staticmethod
    def _handle(obj, as_bound_method):
        """Sink k1 is registered as the callable object itself; k2 and the sources as a bound method, which is a NEW
        object on every registration (equal, not identical, to the previous one) - what user code typically passes."""
        return obj.__call__ if as_bound_method else obj

    @staticmethod
    def _owner(x):
        return getattr(x, "__self__", x)

    def _io(self, name):
        """The object holding script / sent / polls for endpoint `name` (the double, or the UDP object's fake socket)."""
        ep = self.eps[name]
        if isinstance(ep, rm.Dbl):
            return ep
        h = ep.comm_handle
        return h if isinstance(h, rm.FakeSocket) else None

    def reset_logs(self):
        for name in self.eps:
            io = self._io(name)
            if io is not None:
                io.script, io.sent, io.polls = [], [], 0
        for k in self.sinks.values():
            k.got = []
        for s in self.srcs.values():
            s.calls = 0

    def script(self, name, answers):
        if name in self.eps:
            io = self._io(name)
            if io is not None:
                io.script = list(answers)

    def is_open(self, name):
        return bool(self.eps[name].open)

    # -- one action on the real hub (plain calls; exceptions propagate to `step`) ---------------------------------------
    def apply(self, a):
        hub, kind = self.hub, a[0]
        if kind == "fwd":
            return hub.setForwardData(a[1], a[2])
        if kind == "del":
            return hub.deleteForwardingRule(a[1], a[2])
        if kind == "sink":
            return hub.setDataSink(a[1], None if a[2] is None else self._handle(self.sinks[a[2]], a[2] != "k1"))
        if kind == "src":
            return hub.setDataSource(a[1], None if a[2] is None else self._handle(self.srcs[a[2]], True))
        if kind == "recv":
            self.script(a[1], [a[2]])
            return hub.getData(a[1])
        if kind == "send":
            return hub.sendData(a[1], a[2])
        if kind == "open":
            return hub.openCom(a[1])
        if kind == "close":
            return hub.closeCom(a[1])
        if kind == "spin":
            for e, answers in a[2].items():
                self.script(e, answers)
            return hub.spin(a[1])
        raise HarnessError("unknown action %r" % (a,))

    # -- observation -----------------------------------------------------------------------------------------------
    def observe(self):
        sent, polls = Counter(), {}
        for name, ep in self.eps.items():
            io = self._io(name)
            if io is None:
                continue
            polls[name] = io.polls
            for x in io.sent:
                if isinstance(io, rm.FakeSocket):
                    x = x[0].decode("utf-8")
                sent[(name, _datum(x))] += 1
        sunk = Counter((k, _datum(x)) for k, s in self.sinks.items() for x in s.got)
        calls = Counter({s: o.calls for s, o in self.srcs.items() if o.calls})
        return sent, sunk, calls, polls

    def tables(self):
        """The hub's rule set, OBSERVED, not read: how the hub stores its rules is its own business (names, objects, one
        table or three).  On a pickled copy of this world every endpoint is opened, handed one probe message and asked to
        receive it, then one spin runs with no data anywhere; who was served is the rule set (with multiplicities).
        The copy is thrown away, so probing leaves no trace in the explored state."""
        import pickle
        probe = pickle.loads(pickle.dumps(self, protocol=4))
        hub = probe.hub
        fwd, sinks, srcs = Counter(), Counter(), Counter()
        try:
            for name in probe.eps:
                if not probe.eps[name].open:
                    hub.openCom(name)
            for name in probe.eps:
                probe.reset_logs()
                probe.script(name, ["probe:" + name])
                hub.getData(name)
                sent, sunk, _, _ = probe.observe()
                for (dest, x), n in sent.items():
                    fwd[(name, dest if x == "probe:" + name else "?%s:%r" % (dest, x))] += n
                for (k, x), n in sunk.items():
                    sinks[(name, k if x == "probe:" + name else "?%s:%r" % (k, x))] += n
            probe.reset_logs()
            for name in probe.eps:
                probe.script(name, [None])
            hub.spin(1)
            sent, sunk, calls, _ = probe.observe()
            for (dest, x), n in sent.items():
                if x is None:
                    continue        # a no-data receive that fans out None is the delivery clauses' business, not a rule
                sname = "s0" if x == "" else (x[4:] if isinstance(x, str) and x.startswith("src:") else "?%r" % (x,))
                srcs[(dest, sname)] += n
            for (k, x), n in sunk.items():
                if x is not None:
                    sinks[("?spin", "%s:%r" % (k, x))] += n
        except Exception as e:      # a probe that raises is an observation (it will not match the model's tables)
            fwd[("?probe raised", "%s: %s" % (type(e).__name__, str(e)[:120]))] += 1
        return {"fwd": fwd, "sinks": sinks, "srcs": srcs, "open": {n for n, ep in self.eps.items() if ep.open}}

    def key_struct(self):
        hub = self.hub
        name_of = {id(ep): n for n, ep in self.eps.items()}
        fn_of = {id(o): "sink:" + n for n, o in self.sinks.items()}
        fn_of.update({id(o): "src:" + n for n, o in self.srcs.items()})

        def ref(x, depth=0):
            # containers are rendered element by element (a field that caches a tuple of handlers must not collapse to
            # "some tuple": two states that differ only inside it have different futures); a bound method is its owner plus
            # its name
            if isinstance(x, dict) and depth < 6:
                return {"dict": sorted(([repr(k), ref(v, depth + 1)] for k, v in x.items()), key=lambda kv: kv[0])}
            if isinstance(x, (list, tuple)) and depth < 6:
                return {type(x).__name__: [ref(v, depth + 1) for v in x]}
            if isinstance(x, (set, frozenset)) and depth < 6:
                return {"set": sorted((json.dumps(ref(v, depth + 1), sort_keys=True, default=repr) for v in x))}
            meth = getattr(x, "__name__", None) if hasattr(x, "__self__") else None
            x = self._owner(x)
            if id(x) in name_of:
                r = "ep:" + name_of[id(x)]
            else:
                r = fn_of.get(id(x), x if isinstance(x, (str, int, float, bool, type(None))) else "?" + type(x).__name__)
            return r if meth is None or id(x) in fn_of else "%s.%s" % (r, meth)
        d = {"hub": {}}
        for f, v in vars(hub).items():
            if f == "endpoints":
                d["hub"][f] = list(v.keys())
            elif isinstance(v, dict):
                d["hub"][f] = {k: [ref(x) for x in lst] if isinstance(lst, list) else ref(lst) for k, lst in v.items()}
            else:
                d["hub"][f] = ref(v)
        skip = _EP_LOGS if self.full_key else _EP_LOGS + _EP_DIAG
        eps = {}
        for n, ep in self.eps.items():
            fields = {}
            for f, v in vars(ep).items():
                if f in skip:
                    continue
                if f == "comm_handle" and isinstance(v, rm.FakeSocket):
                    v = {g: w for g, w in vars(v).items() if g not in _EP_LOGS and g != "_pair"}
                fields[f] = v
            eps[n] = fields
        d["eps"] = eps
        d["model"] = self.model.key()
        return d


def build_world(cfg_name, full_key=False, hub_cls=None):
    cfg = CONFIGS[cfg_name]
    if hub_cls is None:
        from basic_robotics.interfaces.comms_core import Comms as hub_cls
    hub = hub_cls()
    eps = {}
    for i, name in enumerate(cfg["eps"]):
        if name in cfg["udp"]:
            rm.install_fake_socket()
            # (a tiny time-out: a library that really waits for a descriptor then waits 0.2 ms per empty receive)
            hub.newComPort(name, "UDP", "127.0.0.1", 8000 + i, 9000 + i, 0.0002)
            if hub.openCom(name) is not True or not isinstance(hub.getCom(name).comm_handle, rm.FakeSocket):
                raise HarnessError("could not open the UDP endpoint on the fake socket")
            if cfg.get("display"):
                hub.getCom(name).setName(cfg["display"])
        else:
            hub.endpoints[name] = rm.Dbl(name)
        eps[name] = hub.endpoints[name]
    sinks = {k: rm.Sink(k) for k in SINKS}
    srcs = {s: rm.Src(s) for s in SRCS}
    return World(cfg_name, hub, eps, sinks, srcs, rm.RouterModel(cfg["eps"], SINKS, SRCS), full_key)


def _bag(c):
    return sorted([list(k) + [n] for k, n in c.items()], key=repr)


def step_full(w, a):
    """One transition: reference model first, then the real hub; returns (world, full observation)."""
    w.reset_logs()
    exp = w.model.step(a)
    # what a closed UDP endpoint is asked to send never reaches its socket: not observable there
    exp_sent = Counter({k: n for k, n in exp["sent"].items()
                        if not (k[0] in CONFIGS[w.cfg]["udp"] and not w.model.open[k[0]])})
    ret, exc = None, None
    try:
        ret = w.apply(a)
    except Exception as e:  # a library call that raises on a valid history is reportable, not a crash
        exc = "%s: %s" % (type(e).__name__, str(e)[:160])
    sent, sunk, calls, polls = w.observe()
    tab, mtab = w.tables(), w.model.tables()
    obs = {"ret": ret if isinstance(ret, (bool, str, int, type(None))) else repr(ret), "exc": exc,
           "sent": _bag(sent), "sunk": _bag(sunk), "src_calls": dict(calls), "polls": polls,
           "exp_changed": exp["changed"], "exp_returns": None if exp["returns"] is None else list(exp["returns"]),
           "exp_sent": _bag(exp_sent), "exp_sunk": _bag(exp["sunk"]), "exp_src_calls": dict(exp["src_calls"]),
           "nodata": exp["nodata"], "kind": a[0],
           "tables": {k: _bag(tab[k]) for k in ("fwd", "sinks", "srcs")}, "open": sorted(tab["open"]),
           "exp_tables": {k: _bag(mtab[k]) for k in ("fwd", "sinks", "srcs")}, "exp_open": sorted(mtab["open"])}
    return w, obs


def step(w, a):
    """Transition function handed to the explorer: the observation is compacted to one canonical string (what the
    hub did) plus the verdict, so that hashing it stays cheap."""
    w, full = step_full(w, a)
    seen = json.dumps([full["kind"], full["ret"], full["exc"], full["sent"], full["sunk"], full["src_calls"],
                       full["polls"]], sort_keys=True, default=repr)
    return w, {"seen": seen, "bad": judge(full)}


def judge(obs):
    """The property, on one observation.  -> list of violation dicts (clause, observed, expected...)."""
    bad = []

    def v(clause, observed, expected, **kw):
        bad.append(dict({"clause": clause, "observed": observed, "expected": expected, "tolerance": None,
                         "flags": {"no_data_receive": bool(obs["nodata"])}}, **kw))
    if obs["exc"] is not None:
        v("raised", obs["exc"], "no exception")
    if obs["exp_changed"] is not None and obs["kind"] in ("fwd", "del", "sink", "src"):
        if bool(obs["ret"]) != obs["exp_changed"]:
            v("registration_return", obs["ret"], obs["exp_changed"])
    if obs["exp_returns"] is not None and obs["exc"] is None:
        want = obs["exp_returns"][1] if obs["exp_returns"][0] == "msg" else None
        if obs["ret"] != want:
            v("receive_return", obs["ret"], want)
    for got, want, what in ((obs["sent"], obs["exp_sent"], "endpoints"), (obs["sunk"], obs["exp_sunk"], "sinks")):
        if got != want:
            extra = [x for x in got if x not in want]
            missing = [x for x in want if x not in got]
            only_none = (not missing) and all(x[1] is None for x in extra)
            if obs["exc"] is not None and not extra:
                continue                      # deliveries cut short by the exception already reported
            clause = "nodata_delivered" if (only_none or (obs["nodata"] and not missing)) else "delivery_bag"
            v("%s_%s" % (clause, what), got, want)
    if obs["src_calls"] != obs["exp_src_calls"] and obs["exc"] is None:
        v("spin_sources", obs["src_calls"], obs["exp_src_calls"])
    if obs["tables"] != obs["exp_tables"]:
        v("rule_table", obs["tables"], obs["exp_tables"])
    if obs["open"] != obs["exp_open"]:
        v("open_state", obs["open"], obs["exp_open"])
    return bad


def alphabet(cfg_name, seed):
    """List of (op name, action) - simplest first."""
    eps = CONFIGS[cfg_name]["eps"]
    names = list(eps) + [UNKNOWN]
    acts = []
    for i in names:
        for o in names:
            acts.append(("setForwardData", ("fwd", i, o)))
    for i in names:
        for k in SINKS:
            acts.append(("setDataSink", ("sink", i, k)))
    acts.append(("setDataSink", ("sink", eps[0], None)))
    for o in names:
        for s in SRCS:
            acts.append(("setDataSource", ("src", o, s)))
    acts.append(("setDataSource", ("src", eps[0], None)))
    extra = None
    if seed:
        rng = np.random.default_rng(1900 + seed)
        pool = "abcXYZ09 _-éµ中☃"
        extra = "".join(pool[int(j)] for j in rng.integers(0, len(pool), int(rng.integers(1, 9))))
    for e in names:
        acts.append(("getData", ("recv", e, msg(e))))
        acts.append(("getData", ("recv", e, None)))
        acts.append(("getData", ("recv", e, "")))
        if extra is not None:
            acts.append(("getData", ("recv", e, extra)))
    for i in names:
        for o in names:
            acts.append(("deleteForwardingRule", ("del", i, o)))
    for e in names:
        acts.append(("sendData", ("send", e, "x:" + e)))
    for e in names:
        acts.append(("closeCom", ("close", e)))
        acts.append(("openCom", ("open", e)))
    for k in (1, 2):
        n = len(eps) * k
        for bits in range(2 ** n - 1, -1, -1):          # all-messages first
            scripts = {e: [msg(e, it) if (bits >> (it * len(eps) + j)) & 1 else None for it in range(k)]
                       for j, e in enumerate(eps)}
            acts.append(("spin", ("spin", k, scripts)))
    return acts


class Spec:
    def __init__(self, name):
        cfg, seed, full = name.split(":")
        self.name, self.cfg, self.seed, self.full = name, cfg, int(seed), full == "full"
        from basic_robotics.interfaces.comms_object import CommsObject
        gaps = rm.interface_gaps(CommsObject)
        if gaps:
            raise HarnessError("the endpoint double lacks members of CommsObject: %r" % gaps)
        if CONFIGS[cfg]["udp"]:
            rm.install_fake_socket()
        self.ops = [Op(nm, list(a), (lambda w, a=a: step(w, a))) for nm, a in alphabet(cfg, self.seed)]

    def initials(self):
        return [("fresh", build_world(self.cfg, self.full))]

    def state_key(self, w):
        # every field of the hub, of every endpoint and of the model, as one canonical string (no floats are computed
        # anywhere in this state, so nothing needs rounding)
        return (json.dumps(w.key_struct(), sort_keys=True, default=repr),), _NOVALS

    def invariant(self, w, obs, op, hist):
        return obs["bad"]


_SPECS = {}


def get_spec(name):
    if name not in _SPECS:
        _SPECS[name] = Spec(name)
    return _SPECS[name]


# ---------------------------------------------------------------------------------------------------------------------
# TLC conformance adapter
# ---------------------------------------------------------------------------------------------------------------------
def _payload(x):
    """Implementation datum -> the tagged tuple the TLA+ model uses."""
    if isinstance(x, str):
        p = x.split(":")
        if p[0] == "m" and len(p) == 3:
            return ("m", p[1])
        if p[0] in ("src", "x") and len(p) == 2:
            return (p[0], p[1])
        return ("?", x)
    return ("?", repr(x))


def _pairs(c):
    return frozenset(k if n == 1 else k + (n,) for k, n in c.items())


class Adapter:
    """Drives the real hub with the actions of tla/Router.tla and abstracts it to the model's variables."""

    LABELS = {"fwd": "SetForward", "del": "DelForward", "sink": "SetSink", "src": "SetSource", "recv": "Recv",
              "send": "Send", "open": "Open", "close": "Close", "spin": "Spin"}

    def __init__(self, name):
        # "dbl2" = the library's hub; "toy:<cfg>:<fault>" = oracles.router_model.ToyHub (self-tests)
        if name.startswith("toy:"):
            _, self.cfg, fault = name.split(":")
            self.hub_cls = functools.partial(rm.ToyHub, fault or None)
        else:
            self.cfg = name
            from basic_robotics.interfaces.comms_core import Comms
            self.hub_cls = Comms

    def label_of(self, act):
        return self.LABELS.get(act[0])

    @staticmethod
    def split(state):
        return (state["fwd"], state["sinks"], state["srcs"], state["open"]), state["obs"]["act"]

    def to_action(self, act):
        kind = act[0]
        eps = CONFIGS[self.cfg]["eps"]
        if kind in ("fwd", "del", "sink", "src"):
            return (kind, act[1], act[2])
        if kind == "recv":
            return ("recv", act[1], msg(act[1]) if act[2] == "m" else None)
        if kind == "send":
            return ("send", act[1], "x:" + act[1])
        if kind in ("open", "close"):
            return (kind, act[1])
        if kind == "spin":
            return ("spin", 1, {e: [msg(e) if e in act[1] else None] for e in eps})
        raise HarnessError("TLC adapter: unknown action %r" % (act,))

    @staticmethod
    def _state(tables, act, ret, sent, sunk):
        return tb.Rec(fwd=_pairs(tables["fwd"]), sinks=_pairs(tables["sinks"]), srcs=_pairs(tables["srcs"]),
                      open=frozenset(tables["open"]),
                      obs=tb.Rec(act=act, ret=ret, sent=frozenset((d, _payload(x), n) for (d, x), n in sent.items()),
                                 sunk=frozenset((k, _payload(x), n) for (k, x), n in sunk.items())))

    def execute(self, path, actions):
        import pickle
        w = build_world(self.cfg, hub_cls=self.hub_cls)
        for act in path:
            w.reset_logs()
            w.model.step(self.to_action(act))
            w.apply(self.to_action(act))
        blob = pickle.dumps(w, protocol=4)
        out = []
        for act in actions:
            w = pickle.loads(blob)
            a = self.to_action(act)
            w.reset_logs()
            exp = w.model.step(a)
            try:
                r = w.apply(a)
                exc = None
            except Exception as e:
                r, exc = None, "raised %s" % type(e).__name__
            sent, sunk, calls, polls = w.observe()
            kind = act[0]
            if exc is not None:
                ret = exc
            elif kind in ("fwd", "del", "sink", "src", "open", "close"):
                ret = "true" if bool(r) else "false"
            elif kind == "recv":
                ret = "none" if r is None else ("msg" if r == a[2] else "other:%r" % (r,))
            else:
                ret = "none"
            impl = self._state(w.tables(), act, ret, sent, sunk)
            if kind in ("fwd", "del", "sink", "src", "open", "close"):
                mret = "true" if exp["changed"] else "false"
            elif kind == "recv":
                mret = "msg" if exp["returns"][0] == "msg" else "none"
            else:
                mret = "none"
            model = self._state(w.model.tables(), act, mret, exp["sent"], exp["sunk"])
            out.append((impl, model))
        return out


_ADAPTERS = {}


def get_adapter(name):
    if name not in _ADAPTERS:
        _ADAPTERS[name] = Adapter(name)
    return _ADAPTERS[name]


def _tla_dir():
    return os.path.join(os.path.dirname(os.path.dirname(os.path.abspath(__file__))), "tla")


def tlc_part(ctx, pool, cfg_file, handle):
    info = tb.wait_tlc(handle)
    ctx.log("TLC %s: %d distinct states, %d generated, depth %s, %.1fs" % (cfg_file, info["distinct"], info["generated"],
                                                                         info["depth"], info["wall_s"]))
    try:
        size = os.path.getsize(info["dot"])
        g = tb.read_graph(info["dot"])
    finally:
        tb.cleanup(info)            # the dot file goes as soon as it is read
    if len(g.states) != info["distinct"] or g.n_edges() != info["generated"] - len(g.init):
        raise HarnessError("dot dump (%d states, %d edges) does not match TLC's own count (%d, %d)"
                           % (len(g.states), g.n_edges(), info["distinct"], info["generated"] - len(g.init)))
    res = tb.conformance(g, MOD, "dbl2", pool, log=ctx.log)
    if res["model_disagreements"]:
        raise HarnessError("ORACLE-DISAGREEMENT: the Python reference model and the TLA+ model differ on %d executions; first: %r"
                           % (res["model_disagreements"], res["model_mismatches"][:1]))
    for m in res["mismatches"]:
        case = {"kind": "tlc", "cfg": cfg_file, "path": [_jact(a) for a in m["path"]], "action": _jact(m["action"]),
                "expected_state": tb.cstr(m["expected"])}
        eo, oo = m["expected"]["obs"], m["observed"]["obs"]
        nodata = (m["action"][0] == "recv" and eo["ret"] == "none" and not eo["sent"] and not eo["sunk"]
                  and bool(oo["sent"] or oo["sunk"]))
        ctx.violation("tlc_nodata_delivered" if nodata else "tlc_conformance", case, observed=tb.cstr(m["observed"]),
                      flags={"no_data_receive": nodata}, detail="%d edges of the TLC graph share this execution" % m["edges"])
    cov = {k: res[k] for k in ("states", "transitions", "abstract_states", "executions", "edges_validated",
                               "edges_mismatching", "mismatching_executions", "edges_per_action", "max_path_len")}
    cov.update({"cfg": cfg_file, "tlc_wall_s": info["wall_s"], "tlc_depth": info["depth"], "dot_bytes": size,
                "python_model_agrees_with_tlc": True, "cmd": info["cmd"]})
    return cov


def _jact(a):
    return [sorted(x) if isinstance(x, frozenset) else x for x in a]


def _unj(a):
    return tuple(frozenset(x) if isinstance(x, list) else x for x in a)


# ---------------------------------------------------------------------------------------------------------------------
def run(ctx):
    ctx.level = "model_checking"
    thorough = ctx.tier == "thorough"
    full = "full" if thorough else "lean"
    plan = [("dbl2", 6), ("udp2", 5), ("mix3", 4), ("dbl1", 6), ("udpn", 5)] if thorough else [("dbl2", 4), ("udp2", 4), ("udpn", 4)]
    if thorough and os.environ.get("VERIF_C19_DEPTH"):
        plan[0] = ("dbl2", int(os.environ["VERIF_C19_DEPTH"]))
    results = []
    cfg_file = "Router.cfg" if thorough else "RouterQuick.cfg"
    handle = None
    if tb.tlc_available():      # TLC (one Java thread) works on the model while the direct exploration runs
        handle = tb.start_tlc(os.path.join(_tla_dir(), "Router.tla"), os.path.join(_tla_dir(), cfg_file),
                              "c19-%s-%d" % (ctx.tier, os.getpid()))
    try:
        # quick tier: everything in this process (a spawned worker would spend longer importing the library than working)
        with ctx.pool(ctx.workers if thorough else 1) as pool:
            for cfg, depth in plan:
                name = "%s:%d:%s" % (cfg, ctx.seed, full)
                results.append((name, explorer.explore(ctx, MOD, name, depth, pool, chunk=400)))
            cov = explorer.merge(results)
            cov["depth_completed_per_configuration"] = {n.split(":")[0]: r["max_depth_completed"] for n, r in results}
            cov["hx_states"], cov["hx_transitions"] = cov["states"], cov["transitions"]
            cov["hx_histories_replayed_from_scratch"] = cov["traces_validated_against_impl"]
            if handle is not None:
                h, handle = handle, None
                t = tlc_part(ctx, pool, cfg_file, h)
                cov["tlc"] = t
                cov["traces_validated_against_impl"] = t["edges_validated"]
                cov["traces_validated_rule"] = (
                    "edges of TLC's complete state graph whose successor state equals the abstraction of the real hub "
                    "after the same action (all edges, not a sample); the HX from-scratch history replays are counted in "
                    "hx_histories_replayed_from_scratch")
                cov["tlc_states"], cov["tlc_transitions"] = t["states"], t["transitions"]
            else:
                cov["tlc"] = "tlc is not on PATH: TLC conformance skipped, direct exploration (Part 1) only"
                ctx.notes.append(cov["tlc"])
    finally:
        if handle is not None:
            tb.abort_tlc(handle)
    _diverse_first(ctx)
    cov["rule"] = ("BFS over histories of hub calls on the real Comms with endpoint doubles / a UDPObject on a fake socket; "
                   "alphabet = {setForwardData, deleteForwardingRule} x names^2, setDataSink x names x {k1,k2} (+ a None "
                   "handle), setDataSource x names x {s1} (+ None), getData x {message, no data, empty message (+1 seeded text)}, sendData, open/closeCom, "
                   "spin(1), spin(2) x every message/no-data script over the receive positions; names = endpoints + one "
                   "unknown name; every transition judged against oracles/router_model.py; "
                   "then every edge of TLC's state graph of tla/Router.tla replayed on the real hub")
    ctx.coverage.update(cov)
    ctx.assumptions += [
        "endpoint doubles record every hub->endpoint sendData call (open or closed); a closed UDPObject drops the datum "
        "before its socket, so deliveries to a closed UDP endpoint are not observed",
        "the environment's answers are per endpoint and per receive position inside one call; logs are cleared between calls",
        "quick tier merges states that differ only in the UDPObject/CommsObject diagnostic fields last_rx_*/last_tx_* "
        "(no method of the alphabet reads them); the thorough tier keeps them in the state key",
        "`socket` inside basic_robotics.interfaces.udp_bridge is replaced by a scripted fake for the UDP endpoint",
        "which endpoints a spin polls when they have no active rule is not judged (a message consumed there reaches nothing)",
    ]


def _diverse_first(ctx):
    """The runner writes out the first dozen distinct violations: put one shortest representative of every
    (clause, configuration, last operation) in front, the rest after (order otherwise unchanged)."""
    def group(r):
        c = r["case"]
        if c.get("kind") == "tlc":
            return (r["clause"], "tlc", c["action"][0])
        return (r["clause"], c["spec"].split(":")[0], c["history"][-1]["op"])

    def size(r):
        c = r["case"]
        return len(c["path"]) + 1 if c.get("kind") == "tlc" else len(c["hist"])
    best = {}
    for i, r in enumerate(ctx.violations):
        g = group(r)
        if g not in best or size(r) < size(ctx.violations[best[g]]):
            best[g] = i
    front = sorted(best.values(), key=lambda i: (size(ctx.violations[i]), i))
    chosen = set(front)
    ctx.violations[:] = [ctx.violations[i] for i in front] + [r for i, r in enumerate(ctx.violations) if i not in chosen]


def replay(rec):
    case = rec["case"]
    if case.get("kind") == "tlc":
        ad = get_adapter("dbl2")
        impl, _ = ad.execute([_unj(a) for a in case["path"]], [_unj(case["action"])])[0]
        got = tb.cstr(impl)
        return [] if got == case["expected_state"] else [{"clause": rec["clause"], "observed": got,
                                                          "expected": case["expected_state"]}]
    spec = get_spec(case["spec"])
    hist = case["hist"]
    w = spec.initials()[0][1]
    found = []
    for i in hist[1:]:
        op = spec.ops[i]
        w, obs = op.fn(w)
        bad = obs["bad"]
        found += [b for b in bad if b["clause"] == rec["clause"]]
        if bad:
            break
    return found
