"""C11 - Stewart platform inverse Jacobian is d(legs)/d(twist); leg forces balance the load (LX, exploration).

Conventions (read from the code, verified by part "conv" against oracles/se3.py and elementary statics): twists are
(w, v) and wrenches (m, f) - angular / moment part FIRST, about the space origin; Wrench(f3, position) = (p x f, f);
tm.adjoint() is the Modern Robotics Ad(T) = [[R, 0], [p^R, R]]; staticForces returns tau = J^T F with
J = pinv(inverseJacobian()), so equilibrium reads  inverseJacobian()^T tau = F  (legs pushing the top plate along
+n_i with force tau_i carry the wrench F); the body interface takes F_body with F_space = Ad(T_top^-1)^T F_body.

Lattice: geometries / bases of C09 (checks/splib.py) x relative poses of the 3^6 grid that are inside the workspace and
have cond(J^-1) <= 1e4 (decided on the ORACLE's matrix).  Two evaluation levels:
  full  all clauses below on 6 wrench-basis vectors + one fixed generic + one seed-generic wrench
  lite  the Jacobian clauses and the space-frame statics of the generic wrench
Quick: 6 geometries x {I, B1} x all 729 poses (full) + the same geometries at the seed-generic base BS (lite) + the one
seed-generic geometry 'seedgeo<seed>' at B1 (lite).
Thorough: quick geometries x {I, B1, BS} x {s0, s0.4} x 729 (full); all 432 geometries x {I, B1, BS} x the 81-pose
sub-grid (full) and x 729 poses (lite).

Clauses
  invjac_derivative      inverseJacobian() columns = Richardson central differences (h = 1e-4, 2e-4) of the library's own IK
                         leg lengths along exp([e_i] h) T_top, bottom plate fixed                     (1e-6 absolute)
  invjac_geometry        inverseJacobian() = rows (t_i x n_i, n_i) of the independent geometry         (1e-6)
  invjac_args            inverseJacobian(top, bottom) asked from the neutral state = the same matrix   (1e-9)
  static_equilibrium     legs_wrench(staticForces(F)) = F                                             (1e-8 |F|)
  sum_actuator_wrenches  sumActuatorWrenches(tau) = -F  (argument form and remembered-forces form)     (1e-8 |F|)
  static_inverse         staticForcesInv(staticForces(F)) = F                                          (1e-8 |F|)
  static_body_equilibrium  legs_wrench(staticForcesBody(Fb)) = Ad(T_top^-1)^T Fb                       (1e-8 |F|)
  static_body_inverse    staticForcesInvBody(staticForcesBody(Fb)) = Fb                                (1e-8 |Fb|)
  carry_mass             legs_wrench(carryMassCalc(F)[0]) = F + top-plate weight at the top-plate origin + six shaft
                         weights at (top joint + shaft_cog towards the bottom joint)                   (1e-8 |load|)
  actuator_loc           getActuatorLoc(i,'t') / (i,'b') = those points                                (1e-9)
  convention             the four conventions above on a palette of poses / points
  raised                 a library call raised
Recorded but not judged (C10's subject): the largest change of a plate pose caused by one of the queries.
"""
import hashlib
import os
import time

import numpy as np

from checks import splib
from mc import lattice, palettes
from mc.pool import shards
from oracles import platform_geometry as pg
from oracles import se3

MOD = "checks.c11"
TOL_J = 1e-6
TOL_ARGS = 1e-9
TOL_F = 1e-8
COND_MAX = 1e4
H = 1e-4
F_GENERIC = np.array([1.0, -2.0, 3.0, 4.0, 5.0, -60.0])
ALL = tuple(range(splib.GRID_N))


def wrenches(seed):
    W = [np.eye(6)[k] for k in range(6)] + [F_GENERIC.copy()]
    W.append(palettes.seed_rng(seed, 97).normal(size=6) * np.array([1, 1, 1, 10, 10, 10.0]))
    return W


def plan(tier, seed=0):
    """-> list of blocks (gid, base, spin, level, poses)"""
    q = list(splib.QUICK_GIDS)
    sg = "seedgeo%d" % seed
    if tier != "thorough":
        return ([(g, b, "s0", "full", ALL) for g in q for b in ("I", "B1")] +
                [(g, "BS", "s0", "lite", ALL) for g in q] + [(sg, "B1", "s0", "lite", ALL)] +
                # a far base: the property admits condition numbers up to 1e4; only there do they exceed 1e3
                [(g, "BF", "s0", "full", splib.FK_SUBGRID) for g in q if g.startswith("r0.2-")])
    allg = [g.gid for g in splib.family()]
    return ([(g, b, s, "full", ALL) for g in q + [sg] for b in ("I", "B1", "BS") for s in ("s0", "s0.4")] +
            [(g, "BF", "s0", "full", splib.FK_SUBGRID) for g in q] +
            [(g, b, "s0", "full", splib.FK_SUBGRID) for g in allg if g not in q for b in ("I", "B1", "BS")] +
            [(g, b, "s0", "lite", ALL) for g in allg for b in ("I", "B1", "BS")])


_PLAT = {}


def platform(gid, base, spin, seed):
    k = (gid, base, spin, seed if base == "BS" else 0)
    if k not in _PLAT:
        if len(_PLAT) > 6:
            _PLAT.clear()
        try:
            _PLAT[k] = splib.build(splib.geo(gid), base, spin, seed)
        except splib.Infeasible:
            _PLAT[k] = None
        except splib.BuildError as e:
            _PLAT[k] = e
    return _PLAT[k]


def _vec(x):
    if hasattr(x, "getData"):
        x = x.getData()
    return np.array(x, float).reshape(6)


def eval_pose(P, pose, level, seed, out, info):
    """All clauses at one (platform, pose).  out gets (clause, residual, tolerance, wrench index or None);
    returns 'outside' / 'illcond' / 'ok'."""
    from basic_robotics.general import tm, Wrench
    B = P.B
    Tt = B @ splib.rel_pose(P.h, pose)
    s = P.fresh()
    L, ok = splib.place(s, Tt, B)
    if not ok:
        return "outside"
    Jo = pg.inverse_jacobian(B, Tt, P.bl, P.tl)
    c = np.linalg.cond(Jo)
    info["cond"] = float(c)
    if not c <= COND_MAX:
        return "illcond"

    def moved():
        return max(np.abs(splib.T_of(s.getBottomT()) - B).max(), np.abs(splib.T_of(s.getTopT()) - Tt).max())

    with splib.quiet():
        Jl = np.array(s.inverseJacobian(), float)
        info["plate_change"] = max(info.get("plate_change", 0.0), moved())
        out.append(("invjac_geometry", float(np.abs(Jl - Jo).max()), TOL_J, None))
        # derivative of the library's own IK along the spatial twist of the top plate
        scratch = P.fresh()
        D = np.zeros((6, 6))
        for k in range(6):
            e = np.zeros(6)
            e[k] = 1.0

            def lens(hh, e=e):
                Lx, _ = scratch.IK(tm(se3.exp6(e * hh) @ Tt), tm(B.copy()), protect=True)
                return np.array(Lx, float).reshape(6)
            D[:, k] = pg.richardson(lens, H)
        out.append(("invjac_derivative", float(np.abs(Jl - D).max()), TOL_J, None))
        s2 = P.fresh()
        J2 = np.array(s2.inverseJacobian(tm(Tt.copy()), tm(B.copy())), float)
        out.append(("invjac_args", float(np.abs(J2 - Jl).max()), TOL_ARGS, None))
        info["plate_change"] = max(info["plate_change"], np.abs(splib.T_of(s2.getBottomT()) - P.B_read).max(),
                                   np.abs(splib.T_of(s2.getTopT()) - P.Tt_read).max())

        W = wrenches(seed)
        todo = range(len(W)) if level == "full" else (6,)
        AdT = se3.adj(se3.tinv(Tt)).T
        for k in todo:
            F = W[k]
            nF = float(np.linalg.norm(F))
            tau = np.array(s.staticForces(Wrench(F.copy())), float).reshape(6)
            out.append(("static_equilibrium", float(np.abs(pg.legs_wrench_on_top(B, Tt, P.bl, P.tl, tau) - F).max()) / nF, TOL_F, k))
            if k % 2 == 0:
                sw = 2.0 * _vec(s.sumActuatorWrenches(0.5 * tau))    # argument form, forces differing from the remembered ones
            else:
                sw = _vec(s.sumActuatorWrenches())                   # uses the forces remembered by staticForces
            out.append(("sum_actuator_wrenches", float(np.abs(sw + F).max()) / nF, TOL_F, k))
            if level == "full":
                out.append(("static_inverse", float(np.abs(_vec(s.staticForcesInv(tau.reshape(6, 1).copy())) - F).max()) / nF, TOL_F, k))
                tb = np.array(s.staticForcesBody(Wrench(F.copy())), float).reshape(6)
                Fs = AdT @ F
                out.append(("static_body_equilibrium",
                            float(np.abs(pg.legs_wrench_on_top(B, Tt, P.bl, P.tl, tb) - Fs).max()) / max(nF, float(np.linalg.norm(Fs))), TOL_F, k))
                out.append(("static_body_inverse", float(np.abs(_vec(s.staticForcesInvBody(tb.reshape(6, 1).copy())) - F).max()) / nF, TOL_F, k))
            info["plate_change"] = max(info["plate_change"], moved())
        if level == "full":
            m = P.masses
            cs = pg.shaft_cog(B, Tt, P.bl, P.tl, m["shaft_cog"])
            cm = pg.motor_cog(B, Tt, P.bl, P.tl, m["motor_cog"])
            ra = 0.0
            for i in range(6):
                ra = max(ra, np.abs(splib.T_of(s.getActuatorLoc(i, 't'))[:3, 3] - cs[:, i]).max(),
                         np.abs(splib.T_of(s.getActuatorLoc(i, 'b'))[:3, 3] - cm[:, i]).max())
            out.append(("actuator_loc", float(ra), TOL_ARGS, None))
            weights = pg.point_force_wrench(Tt[:3, 3], m["top"] * m["grav"])
            for i in range(6):
                weights = weights + pg.point_force_wrench(cs[:, i], m["shaft"] * m["grav"])
            for k, F in ((6, W[6]), (-1, np.zeros(6))):
                load = F + weights
                tc, total = s.carryMassCalc(Wrench(F.copy()))
                tc = np.array(tc, float).reshape(6)
                out.append(("carry_mass", float(np.abs(pg.legs_wrench_on_top(B, Tt, P.bl, P.tl, tc) - load).max()) / float(np.linalg.norm(load)), TOL_F, k))
                tot = load.copy()
                for i in range(6):
                    tot = tot + pg.point_force_wrench(cm[:, i], m["motor"] * m["grav"])
                tot = tot + pg.point_force_wrench(B[:3, 3], m["bottom"] * m["grav"])
                info["carry_total_wrench"] = max(info.get("carry_total_wrench", 0.0), float(np.abs(_vec(total) - tot).max()) / float(np.linalg.norm(tot)))
            info["plate_change"] = max(info["plate_change"], moved())
            # ---- queries are functions of (platform geometry, poses, wrench): two-call histories on ONE platform object
            F = W[6]
            nF = float(np.linalg.norm(F))
            load = F + weights
            Wobj = Wrench(F.copy())                         # the SAME wrench object handed over twice
            for name, call, want in (("staticForces", lambda: s.staticForces(Wobj), F),
                                     ("carryMassCalc", lambda: s.carryMassCalc(Wobj)[0], load)):
                call()
                t2 = np.array(call(), float).reshape(6)
                out.append(("second_call_same_argument", float(np.abs(pg.legs_wrench_on_top(B, Tt, P.bl, P.tl, t2) - want).max()) / float(np.linalg.norm(want)), TOL_F, 6))
                out.append(("argument_modified", float(np.abs(_vec(Wobj) - F).max()), 1e-15, 6))
            if pose % 7 == 3:
                # a query at an explicitly given OTHER pose (here the neutral one) is a pure query: the argument-less queries that
                # follow still refer to the platform's own poses
                s4 = P.fresh()
                splib.place(s4, Tt, B)
                Q = B @ splib.rel_pose(P.h, 0)
                tau6 = np.array(s.staticForces(Wrench(F.copy())), float).reshape(6)
                for qname, q in (("inverseJacobian", lambda: s4.inverseJacobian(tm(Q.copy()), tm(B.copy()))),
                                 ("staticForces", lambda: s4.staticForces(Wrench(F.copy()), tm(Q.copy()), tm(B.copy())))):
                    q()
                    sw4 = _vec(s4.sumActuatorWrenches(tau6.copy()))
                    out.append(("query_after_query_elsewhere", float(np.abs(sw4 + F).max()) / nF, TOL_F, 6))
                    q()
                    tc4 = np.array(s4.carryMassCalc(Wrench(F.copy()))[0], float).reshape(6)
                    out.append(("query_after_query_elsewhere",
                                float(np.abs(pg.legs_wrench_on_top(B, Tt, P.bl, P.tl, tc4) - load).max()) / float(np.linalg.norm(load)), TOL_F, 6))
                    q()
                    out.append(("query_after_query_elsewhere", float(np.abs(np.array(s4.inverseJacobian(), float) - Jo).max()), TOL_J, None))
                info["plate_change"] = max(info["plate_change"], np.abs(splib.T_of(s4.getBottomT()) - B).max(),
                                           np.abs(splib.T_of(s4.getTopT()) - Tt).max())
            if pose % 7 == 0:
                # re-spin between two queries at unchanged plate poses: the joint tables change, the poses do not
                s3 = P.fresh()
                splib.place(s3, Tt, B)
                s3.staticForces(Wrench(F.copy()))
                s3.inverseJacobian()
                s3.spinCustom(0.4)
                splib.place(s3, Tt, B)
                bl2, tl2 = pg.spin_points(P.bl, 0.4), pg.spin_points(P.tl, 0.4)
                t3 = np.array(s3.staticForces(Wrench(F.copy())), float).reshape(6)
                out.append(("query_after_respin", float(np.abs(pg.legs_wrench_on_top(B, Tt, bl2, tl2, t3) - F).max()) / nF, TOL_F, 6))
                J3 = np.array(s3.inverseJacobian(), float)
                out.append(("query_after_respin", float(np.abs(J3 - pg.inverse_jacobian(B, Tt, bl2, tl2)).max()), TOL_J, None))
                tb3 = np.array(s3.staticForcesBody(Wrench(F.copy())), float).reshape(6)
                Fs3 = AdT @ F
                out.append(("query_after_respin", float(np.abs(pg.legs_wrench_on_top(B, Tt, bl2, tl2, tb3) - Fs3).max()) / max(nF, float(np.linalg.norm(Fs3))), TOL_F, 6))
    return "ok"


# ------------------------------------------------------------------------------------------------ workers
def _locate(blocks, offs, idx):
    b = int(np.searchsorted(offs, idx, side="right") - 1)
    return b, idx - int(offs[b])


def _offsets(blocks):
    return np.concatenate([[0], np.cumsum([len(b[4]) for b in blocks])]).astype(np.int64)


def work(p):
    acc = lattice.Acc(max_viol=400)
    blocks = plan(p["tier"], p["seed"])
    offs = _offsets(blocks)
    seed = p["seed"]
    done = p["lo"]
    for idx in range(p["lo"], p["hi"]):
        if time.time() > p["deadline"]:
            break
        b, j = _locate(blocks, offs, idx)
        gid, base, spin, level, poses = blocks[b]
        pose = poses[j]
        done = idx + 1
        P = platform(gid, base, spin, seed)
        if P is None:
            acc.skip("pruned_infeasible")
            continue
        case = {"gid": gid, "base": base, "spin": spin, "bs_seed": seed if base == "BS" else 0, "pose": pose, "level": level, "wseed": seed}
        if isinstance(P, splib.BuildError):
            acc.violation("raised", dict(case, pose=-1, stage=P.stage), repr(P.exc))
            continue
        out, info = [], {}
        try:
            st = eval_pose(P, pose, level, seed, out, info)
        except Exception as e:
            acc.violation("raised", case, repr(e))
            acc.case(nontrivial=False)
            continue
        if st != "ok":
            acc.skip("outside_workspace" if st == "outside" else "cond_above_1e4")
            continue
        acc.case(hashlib.blake2b(("%s/%s/%s/%d/%d/%s" % (gid, base, spin, case["bs_seed"], pose, level)).encode(), digest_size=8).digest())
        acc.outcome("poses_" + level)
        acc.outcome("clause_evaluations", len(out))
        acc.resid("cond_invjac_info", info["cond"])
        acc.resid("query_plate_change_info", info.get("plate_change", 0.0))
        if "carry_total_wrench" in info:
            acc.resid("carry_total_wrench_info", info["carry_total_wrench"])
        for clause, r, tol, k in out:
            acc.resid(clause, r)
            if not r <= tol:
                acc.violation(clause, dict(case, wrench=k), r, tol, quantities={"cond": info["cond"]})
        if idx % 3001 == 0:
            acc.sample({"case": case, "cond": info["cond"], "residuals": {c: r for c, r, _, _ in out}})
    r = acc.result()
    r["done"] = (p["lo"], done, p["hi"])
    return r


def conv_cases(seed):
    T = [np.eye(4), splib.base_T("B1"), splib.base_T("BS", seed), se3.T_from([0, 0, 2.0], [0, 0, 1.0]), se3.T_from([0.3, -1.1, 0.4], [-2.0, 0.5, 3.0]),
         se3.T_from([1.2, 0, 0], [5.0, 0, 0])]
    pts = [np.array(v, float) for v in ((0, 0, 0), (1, 0, 0), (0.3, -0.7, 2.0), (-4.0, 1.5, 0.2))]
    fs = [np.array(v, float) for v in ((0, 0, -9.81), (1, 0, 0), (2.0, -3.0, 0.5))]
    return T, pts, fs


def work_conv(p):
    from basic_robotics.general import tm, fsr, Wrench
    acc = lattice.Acc()
    T, pts, fs = conv_cases(p["seed"])
    n = 0
    for i, Ti in enumerate(T):
        try:
            r = float(np.abs(np.array(tm(Ti.copy()).adjoint(), float) - se3.adj(Ti)).max())
            r2 = float(np.abs(np.array(tm(Ti.copy()).inv().adjoint(), float) - se3.adj(se3.tinv(Ti))).max())
        except Exception as e:
            acc.violation("raised", {"conv": "adjoint", "i": i}, repr(e))
            continue
        acc.case(nontrivial=i > 0)
        acc.resid("convention_adjoint", max(r, r2))
        if not max(r, r2) <= 1e-12 * max(1.0, np.abs(Ti[:3, 3]).max()):
            acc.violation("convention", {"conv": "adjoint", "i": i}, max(r, r2), 1e-12)
    for i, q in enumerate(pts):
        for j, f in enumerate(fs):
            want = pg.point_force_wrench(q, f)
            try:
                a = _vec(Wrench(f.copy(), tm([q[0], q[1], q[2], 0, 0, 0])))
                b = _vec(fsr.makeWrench(tm([q[0], q[1], q[2], 0, 0, 0]), 2.5, f.copy()))
                c = _vec(fsr.makeWrench(q.copy(), 2.5, f.copy()))
                w = Wrench(want.copy())
                d = max(np.abs(np.array(w.getMoment(), float).reshape(3) - want[:3]).max(), np.abs(np.array(w.getForce(), float).reshape(3) - want[3:]).max())
            except Exception as e:
                acc.violation("raised", {"conv": "wrench", "i": i, "j": j}, repr(e))
                continue
            r = max(np.abs(a - want).max(), np.abs(b - 2.5 * want).max(), np.abs(c - 2.5 * want).max(), d)
            acc.case(nontrivial=i > 0)
            acc.resid("convention_wrench", r)
            if not r <= 1e-12:
                acc.violation("convention", {"conv": "wrench", "i": i, "j": j}, float(r), 1e-12)
    return acc.result()


# ------------------------------------------------------------------------------------------------ driver
def warm():
    P = splib.build(splib.geo(splib.QUICK_GIDS[0]), "B1", "s0")
    eval_pose(P, 1, "full", 0, [], {})


def run(ctx):
    blocks = plan(ctx.tier, ctx.seed)
    offs = _offsets(blocks)
    total = int(offs[-1])
    budget = float(os.environ.get("VERIF_BUDGET_S", "0") or 0) or (840.0 if ctx.tier == "thorough" else 300.0)
    deadline = ctx.t0 + budget
    warm()
    ctx.log("kernels warm")
    with ctx.pool() as pool:
        mc_ = lattice.run(ctx, pool, MOD, "work_conv", 1, part="conv")
        nsh = pool.workers * (40 if ctx.tier == "thorough" else 8)
        # interleave: shard k takes a contiguous range, but full-level and lite-level blocks cost differently, so use many shards
        payloads = [{"lo": lo, "hi": hi, "seed": ctx.seed, "tier": ctx.tier, "deadline": deadline} for lo, hi in shards(total, nsh)]
        res = pool.map(MOD, "work", payloads)
    m = lattice.merge(res)
    undone = [list(r["done"]) for r in res if r["done"][1] < r["done"][2]]
    m["complete"] = not undone
    m["total"] = total
    ctx.log("LX poses: evals=%d distinct=%d violations=%d complete=%s" % (m["evals"], len(m["keys"]), m["nviol"], m["complete"]))
    lattice.fill(ctx, [("conv", mc_), ("poses", m)],
                 "(geometry, base, spin, pose, level) tuples hashed; counted when the pose is inside the workspace and cond(J^-1) <= 1e4 "
                 "(every such pose is non-trivial: the Jacobian is dense); convention cases: non-identity pose / non-origin point",
                 {"blocks": len(blocks), "geometries": len({b[0] for b in blocks}), "bases": sorted({b[1] for b in blocks}),
                  "spins": sorted({b[2] for b in blocks}), "levels": {lv: sum(1 for b in blocks if b[3] == lv) for lv in ("full", "lite")},
                  "pose_grid": splib.GRID_N, "sub_grid": len(splib.FK_SUBGRID), "wrenches_full": 8, "wrenches_lite": 1,
                  "richardson_steps": [H, 2 * H]})
    ctx.coverage["completed"] = {"total_indices": total, "unfinished_index_ranges": undone[:40]}
    ctx.assumptions += ["in-workspace as in C09 (IK protect=True, then validate(donothing=True))",
                        "cond(J^-1) taken from the oracle's matrix (plain 2-norm condition number, no unit scaling)",
                        "equilibrium residuals are relative to the Euclidean norm of the 6-vector (m, f)"]
    if not m["complete"]:
        ctx.notes.append("time cap reached: coverage.completed lists the index ranges not evaluated")


def replay(rec):
    c = rec["case"]
    if "conv" in c:
        r = work_conv({"seed": rec.get("seed", 0)})
        return [v for v in r["viols"] if v["clause"] == rec["clause"] and v["case"] == c]
    _PLAT.clear()
    P = platform(c["gid"], c["base"], c["spin"], c.get("bs_seed", 0))
    if isinstance(P, splib.BuildError):
        return [{"clause": "raised", "observed": repr(P.exc)}]
    if P is None:
        return []
    out, info = [], {}
    try:
        st = eval_pose(P, c["pose"], c["level"], c.get("wseed", 0), out, info)
    except Exception as e:
        return [{"clause": "raised", "observed": repr(e)}] if rec["clause"] == "raised" else []
    return [{"clause": cl, "observed": r, "wrench": k} for cl, r, tol, k in out
            if cl == rec["clause"] and k == c.get("wrench") and not r <= tol]
