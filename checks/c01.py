"""C01 - rigid-motion primitives: exp/log are inverse, inverse/adjoint are homomorphic (LX).

Complete products of the axis / angle / translation palettes through the public kernels of the Numba port, each clause
judged with plain NumPy algebra from oracles/se3.py.  Inside the known-finding band of MatrixLog3 (0 < pi-angle < 3e-5)
the port is additionally required to equal the vendored reference, so a *new* defect there is still seen by value.
"""
import itertools

import numpy as np

from mc import lattice, palettes
from oracles import se3

MOD = "checks.c01"
PI = np.pi
TOL = 5e-6
REL = 1e-9


def _mr():
    from basic_robotics.modern_robotics_numba import modern_high_performance as mr
    return mr


def _ref():
    from vendor import modern_robotics_ref as ref
    return ref


def build(tier, seed):
    A = palettes.axes(seed)
    TH = palettes.angles(refined=(tier == "thorough"))
    if tier == "thorough":
        for s in (21, 22, 23):
            A.append(se3.unit(palettes.seed_rng(seed, s).normal(size=3)))
    V = palettes.translations(seed)
    return A, TH, V


def scale(*xs):
    return max([1.0] + [float(np.abs(np.asarray(x)).max()) for x in xs])


def check_rot(acc, mr, a, th, ia, ith):
    w = a * th
    case = {"part": "rot", "axis": a, "angle": th}
    ang_true = th if th <= PI else 2 * PI - th           # principal angle of exp(w)
    q = {"pi_minus_angle": PI - ang_true, "angle": th}
    W = mr.VecToso3(w)
    r = np.abs(W + W.T).max()
    acc.resid("hat3_skew", r)
    if r > 0 or not np.array_equal(mr.so3ToVec(W), w):
        acc.violation("hatvee3", case, {"skew": r, "vee": mr.so3ToVec(W)})
    R = mr.MatrixExp3(W)
    if R.shape != (3, 3) or not se3.is_so3(R, TOL):
        acc.violation("exp3_proper", case, R)
        return
    e = np.abs(R - se3.rexp(w)).max()
    acc.resid("exp3_vs_true", e)
    if not (e <= TOL):
        acc.violation("exp3_value", case, e, TOL, q)
    L = mr.MatrixLog3(R)
    w2 = mr.so3ToVec(L)
    port_eq_ref = bool(np.allclose(L, _ref().MatrixLog3(R), rtol=0, atol=1e-12))
    e = np.abs(mr.MatrixExp3(L) - R).max()
    acc.resid("explog3", e if not (0 <= PI - ang_true < 3e-5) else 0.0)
    if not np.all(np.isfinite(L)):
        acc.violation("log3_not_finite", case, L, None, q)
        return
    if not (e <= TOL) or not (np.abs(L + L.T).max() <= 1e-12):
        acc.violation("explog3", case, e, TOL, q, {"port_equals_reference": port_eq_ref})
    if th < PI:
        e = np.abs(w2 - w).max()
        acc.resid("logexp3", e if not (0 <= PI - ang_true < 3e-5) else 0.0)
        if not (e <= TOL):
            acc.violation("logexp3", case, e, TOL, q, {"port_equals_reference": port_eq_ref})
    if 0 <= PI - ang_true < 3e-5 and not port_eq_ref:
        # not a clause of C01: a port that differs from the reference next to pi (another, equally valid logarithm; a better
        # half-turn branch) only loses the cover of the known finding - its round trips above are then judged unsuppressed
        acc.outcome("band_port_differs_from_reference", 1)


def check_twist(acc, mr, a, th, v):
    w = a * th
    V = np.concatenate([w, v])
    case = {"part": "twist", "axis": a, "angle": th, "v": v}
    ang_true = th if th <= PI else 2 * PI - th
    q = {"pi_minus_angle": PI - ang_true, "angle": th}
    sv = scale(v)
    M = mr.VecTose3(V)
    if not (np.array_equal(mr.se3ToVec(M), V) and np.array_equal(M[3], np.zeros(4)) and np.abs(M[:3, :3] + M[:3, :3].T).max() == 0):
        acc.violation("hatvee6", case, M)
    T = mr.MatrixExp6(M)
    if T.shape != (4, 4) or not np.array_equal(T[3], np.array([0, 0, 0, 1.0])) or not se3.is_so3(T[:3, :3], TOL) \
            or not np.all(np.isfinite(T)):
        acc.violation("exp6_proper", case, T)
        return
    e = np.abs(T - se3.exp6(V)).max() / sv
    acc.resid("exp6_vs_true", e)
    if not (e <= TOL):
        acc.violation("exp6_value", case, e, TOL, q)
    Lg = mr.MatrixLog6(T)
    if not np.all(np.isfinite(Lg)):
        acc.violation("log6_not_finite", case, Lg, None, q)
        check_group_single(acc, mr, T, case)
        return
    port_eq_ref = _log6_equals_reference(mr, T, Lg)
    inband = 0 <= PI - ang_true < 3e-5
    e = np.abs(mr.MatrixExp6(Lg) - T).max() / scale(T[:3, 3])
    acc.resid("explog6", 0.0 if inband else e)
    if not (e <= TOL) or not np.array_equal(Lg[3], np.zeros(4)):
        acc.violation("explog6", case, e, TOL, q, {"port_equals_reference": port_eq_ref})
    if th < PI:
        e = np.abs(mr.se3ToVec(Lg) - V).max() / sv
        acc.resid("logexp6", 0.0 if inband else e)
        if not (e <= TOL):
            acc.violation("logexp6", case, e, TOL, q, {"port_equals_reference": port_eq_ref})
    # group structure on this T
    check_group_single(acc, mr, T, case)


def _log6_equals_reference(mr, T, Lg):
    """The known finding about the logarithm near pi may only absorb a failure of the 6-D logarithm if the port's
    MatrixLog6 still is what the reference computes.  Where the reference itself returns non-finite values (its
    unclipped arccos) the comparison is with the reference's formula evaluated with the clipped argument."""
    with np.errstate(all="ignore"):
        R6 = _ref().MatrixLog6(T)
    if np.all(np.isfinite(R6)):
        return bool(np.allclose(Lg, R6, rtol=1e-9, atol=1e-9))
    # the reference's own formula with its arccos argument clipped into [-1, 1] (all the port adds to it): rotation part from the
    # reference's MatrixLog3, translational part G^-1 p with theta from the clipped trace
    Rr = np.ascontiguousarray(T[:3, :3])
    with np.errstate(all="ignore"):
        om = np.asarray(_ref().MatrixLog3(Rr), float)
        if np.array_equal(om, np.zeros((3, 3))):
            want = np.zeros((4, 4))
            want[:3, 3] = T[:3, 3]
        else:
            theta = float(np.arccos(min(1.0, max(-1.0, (np.trace(Rr) - 1) / 2.0))))
            Ginv_p = (np.eye(3) - om / 2.0 + (1.0 / theta - 1.0 / np.tan(theta / 2.0) / 2) * (om @ om) / theta) @ T[:3, 3]
            want = np.zeros((4, 4))
            want[:3, :3] = om
            want[:3, 3] = Ginv_p
    return bool(np.all(np.isfinite(want)) and np.allclose(Lg, want, rtol=1e-9, atol=1e-9))


BASIS6 = [np.eye(6)[i] for i in range(6)] + [np.array([0.3, -0.7, 0.2, 1.5, -2.0, 0.4])]


def check_group_single(acc, mr, T, case):
    Tc = np.ascontiguousarray(T)
    sp = scale(T[:3, 3])
    Ti = mr.TransInv(Tc)
    e = max(np.abs(Ti @ T - np.eye(4)).max(), np.abs(T @ Ti - np.eye(4)).max()) / sp
    acc.resid("inv", e)
    if not (e <= 1e-9):
        acc.violation("inverse", case, e, 1e-9)
    e = np.abs(Ti - se3.tinv(T)).max() / sp
    if not (e <= 1e-9):
        acc.violation("inverse_value", case, e, 1e-9)
    A = mr.Adjoint(Tc)
    e = np.abs(A - se3.adj(T)).max() / sp
    acc.resid("adjoint_value", e)
    if not (e <= 1e-9):
        acc.violation("adjoint_value", case, e, 1e-9)
    Ai = mr.Adjoint(np.ascontiguousarray(Ti))
    e = np.abs(Ai @ A - np.eye(6)).max() / (sp * sp)
    acc.resid("adjoint_inverse", e)
    if not (e <= 1e-9):
        acc.violation("adjoint_inverse", case, e, 1e-9)
    for k, Vb in enumerate(BASIS6):
        lhs = T @ mr.VecTose3(Vb) @ Ti
        rhs = mr.VecTose3(A @ Vb)
        e = np.abs(lhs - rhs).max() / (sp * scale(Vb))
        acc.resid("conjugation", e)
        if not (e <= 1e-9):
            acc.violation("conjugation", dict(case, basis=k), e, 1e-9)
        adV = mr.ad(Vb)
        want = np.zeros((6, 6))
        want[:3, :3] = se3.skew(Vb[:3])
        want[3:, 3:] = se3.skew(Vb[:3])
        want[3:, :3] = se3.skew(Vb[3:])
        if not (np.abs(adV - want).max() <= 1e-12):
            acc.violation("ad_value", dict(case, basis=k), adV)


def work_rot(p):
    mr = _mr()
    A, TH, V = build(p["tier"], p["seed"])
    acc = lattice.Acc()
    cases = list(itertools.product(range(len(A)), range(len(TH))))
    for ia, ith in cases[p["lo"]:p["hi"]]:
        a, th = A[ia], TH[ith]
        try:
            check_rot(acc, mr, a, th, ia, ith)
        except Exception as e:
            acc.violation("raised", {"part": "rot", "axis": a, "angle": th}, repr(e))
        acc.case(("r", tuple(np.round(a * th, 13))), nontrivial=th > 0)
        if (ia, ith) in ((0, 5), (10, 20)):
            acc.sample({"axis": a, "angle": th})
    return acc.result()


def work_twist(p):
    mr = _mr()
    A, TH, V = build(p["tier"], p["seed"])
    acc = lattice.Acc()
    cases = list(itertools.product(range(len(A)), range(len(TH)), range(len(V))))
    for ia, ith, iv in cases[p["lo"]:p["hi"]]:
        a, th, v = A[ia], TH[ith], V[iv]
        try:
            check_twist(acc, mr, a, th, v)
        except Exception as e:
            acc.violation("raised", {"part": "twist", "axis": a, "angle": th, "v": v}, repr(e))
        acc.case(("t", tuple(np.round(a * th, 13)), tuple(v)), nontrivial=(th > 0 or np.any(v != 0)))
        if (ia, ith, iv) == (11, 12, 2):
            acc.sample({"axis": a, "angle": th, "v": v})
    return acc.result()


def pose_palette(tier, seed):
    P = palettes.poses_T(seed, n_axes=None if tier == "thorough" else 15)
    if tier != "thorough":
        P = P[::1]
    return P


def work_pairs(p):
    mr = _mr()
    P = pose_palette(p["tier"], p["seed"])
    n = len(P)
    acc = lattice.Acc()
    Ad = [mr.Adjoint(np.ascontiguousarray(T)) for _, _, T in P]
    for idx in range(p["lo"], p["hi"]):
        i, j = divmod(idx, n)
        T1, T2 = P[i][2], P[j][2]
        try:
            A12 = mr.Adjoint(np.ascontiguousarray(T1 @ T2))
        except Exception as e:
            acc.violation("raised", {"part": "pair", "i": i, "j": j}, repr(e))
            continue
        s = scale(T1[:3, 3]) * scale(T2[:3, 3])
        e = np.abs(A12 - Ad[i] @ Ad[j]).max() / s
        acc.resid("adjoint_homomorphism", e)
        if not (e <= 1e-9):
            acc.violation("adjoint_homomorphism", {"part": "pair", "i": i, "j": j, "w1": P[i][0], "p1": P[i][1], "w2": P[j][0], "p2": P[j][1]}, e, 1e-9)
        ti = mr.TransInv(np.ascontiguousarray(T1 @ T2))
        e2 = np.abs(ti - mr.TransInv(np.ascontiguousarray(T2)) @ mr.TransInv(np.ascontiguousarray(T1))).max() / s
        acc.resid("inverse_antihomomorphism", e2)
        if not (e2 <= 1e-9):
            acc.violation("inverse_antihomomorphism", {"part": "pair", "i": i, "j": j, "w1": P[i][0], "p1": P[i][1], "w2": P[j][0], "p2": P[j][1]}, e2, 1e-9)
        acc.evals += 1
        if i != j:
            acc.nontrivial_count += 1
    return acc.result()


def se3_member(a, th, pos, sym=False):
    """(R, p) as a 4x4 matrix; sym: the half turn about `a` written as the exactly symmetric matrix 2 a a^T - I (what a
    caller who builds a half turn by hand passes in; its trace may round to either side of -1)."""
    T = se3.T_from(np.asarray(a, float) * th, pos)
    if sym:
        a = np.asarray(a, float)
        T[:3, :3] = 2.0 * np.outer(a, a) - np.eye(3)
    return T


def work_se3(p):
    """exp(log T) = T for every palette member T given directly as (R, p), including |p| = 1e3."""
    mr = _mr()
    A, TH, V = build(p["tier"], p["seed"])
    acc = lattice.Acc()
    cases = list(itertools.product(range(len(A)), range(len(TH)), range(len(V))))
    todo = []
    for ia, ith, iv in cases[p["lo"]:p["hi"]]:
        todo.append((ia, ith, iv, False))
        if TH[ith] == PI:
            todo.append((ia, ith, iv, True))        # the half turn also as the exactly symmetric matrix 2 a a^T - I
    for ia, ith, iv, sym in todo:
        a, th, pos = A[ia], TH[ith], V[iv]
        T = se3_member(a, th, pos, sym)
        ang_true = th if th <= PI else 2 * PI - th
        q = {"pi_minus_angle": PI - ang_true, "angle": th}
        case = {"part": "se3", "axis": a, "angle": th, "p": pos}
        if sym:
            case["symmetric_half_turn"] = True
        try:
            Lg = mr.MatrixLog6(np.ascontiguousarray(T))
            if not np.all(np.isfinite(Lg)):
                acc.violation("log6_not_finite", case, Lg, None, q)
                acc.case(("s", sym, tuple(np.round(a * th, 13)), tuple(pos)))
                continue
            T2 = mr.MatrixExp6(Lg)
            port_eq_ref = _log6_equals_reference(mr, T, Lg)
        except Exception as e:
            acc.violation("raised", case, repr(e))
            continue
        e = np.abs(T2 - T).max() / scale(pos)
        inband = 0 <= PI - ang_true < 3e-5
        acc.resid("explog6", 0.0 if inband else e)
        if not (e <= TOL):
            acc.violation("explog6", case, e, TOL, q, {"port_equals_reference": port_eq_ref})
        acc.case(("s", sym, tuple(np.round(a * th, 13)), tuple(pos)), nontrivial=(ang_true > 1e-6 and np.any(pos != 0)))
    return acc.result()


def run(ctx):
    A, TH, V = build(ctx.tier, ctx.seed)
    P = pose_palette(ctx.tier, ctx.seed)
    with ctx.pool(8 if ctx.tier == "quick" else None) as pool:
        m1 = lattice.run(ctx, pool, MOD, "work_rot", len(A) * len(TH), part="rot")
        m2 = lattice.run(ctx, pool, MOD, "work_twist", len(A) * len(TH) * len(V), part="twist")
        m4 = lattice.run(ctx, pool, MOD, "work_se3", len(A) * len(TH) * len(V), part="se3")
        m3 = lattice.run(ctx, pool, MOD, "work_pairs", len(P) ** 2, part="pairs")
    lattice.fill(ctx, [("rot", m1), ("twist", m2), ("se3", m4), ("pairs", m3)],
                 "complete products axes x angles (rotation vectors), axes x angles x translations (twists and SE(3) members), "
                 "all ordered pairs of the pose palette; non-trivial = non-zero rotation or translation, distinct after rounding to 1e-13",
                 {"axes": len(A), "angles": len(TH), "translations": len(V), "pose_palette": len(P)})
    ctx.assumptions += ["true exponential/logarithm from oracles/se3.py (validated against scipy.linalg.expm in the self-tests)",
                        "unit-scale clauses to 5e-6 absolute, group identities to 1e-9 relative to max(1,|p|) factors"]


def replay(rec):
    mr = _mr()
    c = rec["case"]
    acc = lattice.Acc()
    try:
        if c["part"] == "rot":
            check_rot(acc, mr, np.array(c["axis"]), c["angle"], 0, 0)
        elif c["part"] == "twist":
            check_twist(acc, mr, np.array(c["axis"]), c["angle"], np.array(c["v"]))
        elif c["part"] == "se3":
            T = se3_member(np.array(c["axis"]), c["angle"], c["p"], bool(c.get("symmetric_half_turn")))
            T2 = mr.MatrixExp6(mr.MatrixLog6(np.ascontiguousarray(T)))
            if not (np.abs(T2 - T).max() / scale(c["p"]) <= TOL):
                acc.violation("explog6", c)
        else:
            T1 = se3.T_from(c["w1"], c["p1"])
            T2 = se3.T_from(c["w2"], c["p2"])
            s = scale(T1[:3, 3]) * scale(T2[:3, 3])
            A12 = mr.Adjoint(np.ascontiguousarray(T1 @ T2))
            if not (np.abs(A12 - mr.Adjoint(np.ascontiguousarray(T1)) @ mr.Adjoint(np.ascontiguousarray(T2))).max() / s <= 1e-9):
                acc.violation("adjoint_homomorphism", c)
            ti = mr.TransInv(np.ascontiguousarray(T1 @ T2))
            if not (np.abs(ti - mr.TransInv(np.ascontiguousarray(T2)) @ mr.TransInv(np.ascontiguousarray(T1))).max() / s <= 1e-9):
                acc.violation("inverse_antihomomorphism", c)
    except Exception as e:
        acc.violation("raised", c, repr(e))
    return [v for v in acc.viols if v["clause"] == rec["clause"]]
