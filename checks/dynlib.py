"""Chains, palettes and arms for the dynamics check C08.

Everything a case needs is rebuilt deterministically from a small descriptor (joint indices or window, the names of
the link-frame and inertia schemes, the seed), so a replay file only stores the descriptor and the numeric
arguments.  Construction data handed to the library is always a fresh copy; the reference description
(Slist, Mlist, Glist in the base's coordinates) is kept on this side and never read back from the arm.
"""
import numpy as np

from mc import palettes
from oracles import dynamics as dyn
from oracles import se3

PI = np.pi

# ---------------------------------------------------------------- joints
# (axis, point on the axis): three coordinate axes through different points, one generic axis, one parallel pair
# (1,4: a planar 2R sub-chain), one antiparallel offset pair (0,5).  Index 6 only occurs in the n = 4..7 windows.
JOINTS = [((0, 0, 1), (0, 0, 0)), ((0, 1, 0), (0, 0, 0.4)), ((1, 0, 0), (0.3, 0, 0.4)),
          (tuple(se3.unit((1, -2, 3))), (0.5, 0.2, 1.0)), ((0, 1, 0), (0.6, 0.1, 0.4)), ((0, 0, -1), (0.2, -0.3, 0)),
          (tuple(se3.unit((-0.3, 0.5, 0.81))), (0.8, 0.1, 0.6))]
NJ = 6
WINDOW_SEQ = [0, 1, 4, 2, 3, 5, 6]


def screw(j):
    a, p = JOINTS[j]
    a, p = np.asarray(a, float), np.asarray(p, float)
    return np.concatenate([a, np.cross(p, a)])


def window_joints(n, k):
    return [WINDOW_SEQ[(k + i) % len(WINDOW_SEQ)] for i in range(n)]


# ---------------------------------------------------------------- link frames
FRAME_SCHEMES = ["I", "T", "R", "G"]
_LT = [((0, 0, 0), (0, 0, 0.3)), ((0, 0, 0), (0.25, 0.1, 0)), ((0, 0, 0), (0, -0.2, 0.15)), ((0, 0, 0), (0.1, 0.05, 0.1))]
_LR = [((0, PI / 2, 0), (0.28, 0.136, 0)), ((-PI / 2, 0, 0), (0, -0.12, 0.395)), ((0, 0, PI / 2), (0.1, 0, 0.142)),
       (tuple(0.7 * se3.unit((1, 1, 1))), (-0.1, 0.2, 0.05))]


def frames(scheme, n, seed):
    """n+1 matrices M_{i-1,i}: 'I' all identity (every link frame coincides with the space frame), 'T' pure
    translations, 'R' rotations by quarter turns and a generic one with translations, 'G' seed-generic."""
    if scheme == "I":
        return np.array([np.eye(4) for _ in range(n + 1)])
    if scheme in ("T", "R"):
        L = _LT if scheme == "T" else _LR
        return np.array([se3.T_from(*L[i % 4]) for i in range(n + 1)])
    r = palettes.seed_rng(seed, 81)
    out = []
    for _ in range(8):  # always draw 8 so that the frames of a chain do not depend on its length
        w = se3.unit(r.normal(size=3)) * r.uniform(0.3, 1.5)
        out.append(se3.T_from(w, r.uniform(-0.4, 0.4, size=3)))
    return np.array(out[:n + 1])


# ---------------------------------------------------------------- inertias
INERTIA_SCHEMES = ["box", "full", "gen"]
_DIMS = [(0.1, 0.1, 0.45), (0.375, 0.1, 0.1), (0.1, 0.2, 0.3)]
_KROT = [(0.4, -0.2, 0.3), (-0.5, 0.6, 0.1), (0.2, 0.9, -0.4)]
_KDIAG = [(0.02, 0.05, 0.04), (0.006, 0.004, 0.003), (0.09, 0.05, 0.06)]


def box_inertia(m, l, w, h):
    return dyn.spatial_inertia(np.diag([m * (w * w + h * h) / 12, m * (l * l + h * h) / 12, m * (w * w + l * l) / 12]), m)


def inertias(scheme, n, seed):
    """'box': diagonal box inertias, masses 50, 0.1, 50, ...; 'full': rotational inertia with off-diagonal terms
    (principal axes turned against the link frame), masses 0.1, 50, 0.1, ...; 'gen': seed-generic SPD rotational
    inertia, mass in [0.1, 50] and a centre of mass displaced from the link-frame origin (full 6x6 matrix)."""
    out = []
    if scheme == "box":
        for i in range(n):
            out.append(box_inertia((50.0, 0.1)[i % 2], *_DIMS[i % 3]))
    elif scheme == "full":
        for i in range(n):
            m = (0.1, 50.0)[i % 2]
            R = se3.rexp(_KROT[i % 3])
            out.append(dyn.spatial_inertia(m * (R @ np.diag(_KDIAG[i % 3]) @ R.T), m))
    else:
        r = palettes.seed_rng(seed, 83)
        for i in range(8):
            A = r.normal(size=(3, 3))
            m = r.uniform(0.1, 50.0)
            out.append(dyn.spatial_inertia(m * (0.02 * (A @ A.T) + 0.005 * np.eye(3)), m, r.uniform(-0.15, 0.15, size=3)))
        out = out[:n]
    return np.array(out)


class Chain:
    def __init__(self, joints, fs, ins, seed):
        self.joints = [int(j) for j in joints]
        self.fs, self.ins, self.seed = fs, ins, int(seed)
        self.n = len(self.joints)
        self.S = np.array([screw(j) for j in self.joints]).T.copy()
        self.Ml = frames(fs, self.n, seed)
        self.Gl = inertias(ins, self.n, seed)

    def desc(self):
        return {"joints": self.joints, "frames": self.fs, "inertia": self.ins}

    def args(self):
        """Fresh copies for one library call."""
        return self.Ml.copy(), self.Gl.copy(), self.S.copy()


# ---------------------------------------------------------------- vectors
def generic(seed, salt, n, lo=20.0, hi=100.0):
    """One generic vector: every component non-zero (>= 10 % of the largest), inf-norm in [lo, hi]."""
    r = palettes.seed_rng(seed, salt)
    while True:
        v = r.uniform(-1, 1, size=n)
        if np.abs(v).min() >= 0.1 * np.abs(v).max():
            return v / np.abs(v).max() * r.uniform(lo, hi)


def vec_palette(seed, salt, n):
    """{0, e_1..e_n, generic}."""
    return [np.zeros(n)] + [np.eye(n)[i] for i in range(n)] + [generic(seed, salt + n, n)]


Q_VALUES = [0.0, 0.3, -1.2, PI / 2]
Q_WINDOW = [0.3, -1.2]


def state(values, n, idx):
    """idx-th element of values^n (first joint most significant)."""
    b = len(values)
    q = np.zeros(n)
    for i in range(n - 1, -1, -1):
        idx, d = divmod(idx, b)
        q[i] = values[d]
    return q


# ---------------------------------------------------------------- arms through the public setters
ARMS = ["6R@I", "gen:3R@B1", "gen:7R@I"]
ARMS_THOROUGH = ARMS + ["6R@B0"]


class ArmCase:
    pass


def build_arm(name, seed=0):
    """Returns an ArmCase with .arm (the library object, link frames / masses / inertias given through setOrigins and
    setMassProperties exactly like tests/test_kinematics_arm.py does) and the reference Slist/Mlist/Glist in global
    coordinates, computed here from the construction data."""
    from basic_robotics.general import tm
    from basic_robotics.kinematics import Arm
    from checks import armlib
    kind, bname = name.split("@")
    B = armlib.base_T(bname, seed)
    if kind == "6R":
        d = armlib.six_r_data()
        L1, L2, L3, W = d["dims"]
        link_local = [se3.T_from([0, 0, 0], p) for p in ((0, 0, L1 / 2), (L2 / 2, 0, L1), (L2 + L3 / 2, 0, L1), (L2 + L3 + W / 2, 0, L1),
                                                         (L2 + L3 + W + W / 2, 0, L1), (L2 + L3 + 2 * W + W / 2, 0, L1))]
        dims = [(W, W, L1), (L2, W, W), (L3, W, W), (W, W, W), (W, W, W), (W, W, W)]
        masses = np.array([20.0, 20.0, 20.0, 1.0, 1.0, 1.0])
        G = np.array([box_inertia(masses[i], *dims[i]) for i in range(6)])
    else:
        d = armlib.gen_chain_data(kind[4:], seed)
        n = d["S"].shape[1]
        homes = d["homes"]
        tip = d["M"][:3, 3]
        link_local = []
        for i in range(n):
            nxt = homes[:, i + 1] if i + 1 < n else tip
            w = _LR[i % 4][0] if i % 2 else (0, 0, 0)        # every other link frame is turned against the base
            link_local.append(se3.T_from(w, 0.5 * (homes[:, i] + nxt)))
        masses = np.array([(50.0, 0.1, 7.0)[i % 3] for i in range(n)])
        G = np.array([dyn.spatial_inertia(masses[i] * (se3.rexp(_KROT[i % 3]) @ np.diag(_KDIAG[i % 3]) @ se3.rexp(_KROT[i % 3]).T), masses[i])
                      for i in range(n)])
    n = d["S"].shape[1]
    link_global = [B @ T for T in link_local]
    tip_global = B @ d["M"]
    Ml = [link_global[0]] + [se3.tinv(link_global[i - 1]) @ link_global[i] for i in range(1, n)] + [se3.tinv(link_global[n - 1]) @ tip_global]
    arm = Arm(tm(B.copy()), d["S"].copy(), tm(d["M"].copy()), d["homes"].copy(), d["axes"].copy())
    lo, hi = -2 * PI * np.ones(n), 2 * PI * np.ones(n)      # wide limits: the arm methods clamp theta silently
    arm.setJointProperties(lo.copy(), hi.copy())
    arm.setOrigins(link_homes_global=[tm(T.copy()) for T in link_global])
    arm.setMassProperties(masses.copy(), [tm(T.copy()) for T in Ml], G.copy())
    c = ArmCase()
    c.name, c.arm, c.n = name, arm, n
    c.S = se3.adj(B) @ d["S"]
    c.Ml = np.array(Ml)
    c.Gl = G
    c.masses = masses.copy()
    c.lo, c.hi = lo, hi
    return c


def arm_states(n, lo, hi, tier):
    """Home, every single joint at each palette value, {0.3,-1.2}^n (n <= 6; for n = 7 the 64 vectors with an even
    number of -1.2 entries), clipped into the joint limits (the arm methods clamp silently)."""
    out = [np.zeros(n)]
    for i in range(n):
        for v in Q_VALUES[1:]:
            q = np.zeros(n)
            q[i] = v
            out.append(q)
    for idx in range(2 ** n):
        q = state(Q_WINDOW, n, idx)
        if n >= 7 and int(np.sum(q < 0)) % 2:
            continue
        out.append(q)
    if tier == "thorough" and n <= 3:
        out += [state(Q_VALUES, n, idx) for idx in range(4 ** n)]
    res, seen = [], set()
    for q in out:
        q = np.minimum(np.maximum(q, lo + 1e-3), hi - 1e-3)
        k = tuple(np.round(q, 9))
        if k not in seen:
            seen.add(k)
            res.append(q)
    return res
