import sys; sys.path.insert(0, "/tmp/scratch/repo")
exec(open('/tmp/scratch/t12.py').read().split("t0=time.time(); base=mk()")[0])
def constraints(s):
    out={}
    L=np.asarray(s.getLens()).flatten()
    vs=s.validation_settings
    if vs[0]: out['legs']= bool(np.all(L>=s.leg_ext_min-1e-4) and np.all(L<=s.leg_ext_max+1e-4))
    rel=np.linalg.inv(s.getBottomT().gTM())@s.getTopT().gTM()
    if vs[1]: out['above']= rel[2,3]>=-1e-4
    if vs[3]: out['tilt']= all(rel[i,i]>s.plate_rotation_limit-2e-4 for i in range(3))
    if vs[2]:
        a=np.abs(s.getJointAnglesFromNorm()); out['angles']= bool(not np.any(np.isnan(a)) and np.all(a<=s.joint_deflection_max+1e-4))
    return out
base=mk(); names=list(OPS); res=collections.Counter(); bad=[]
QUERIES={'validate_dn':lambda s:s.validate(True),'invJ':OPS['invJ'],'static':OPS['static'],'carry':OPS['carry']}
import itertools
for vs in itertools.product([0,1],repeat=4):
  for seq in itertools.product(names, repeat=2):
    s=copy.deepcopy(base); s.validation_settings=list(vs)
    try:
        for k,o in enumerate(seq):
            r=OPS[o](s)
            valid=None
            if o.startswith('IK') or o.startswith('FK'): valid=r[1]
            if o=='validate': valid=r
            if valid is True:
                c=constraints(s)
                if not all(c.values()): res['validlie']+=1; bad.append((vs,seq[:k+1],'validlie',c)); 
            for q,f in QUERIES.items():
                b0=s.getBottomT().gTM().copy(); t0_=s.getTopT().gTM().copy(); L0=np.asarray(s.getLens()).copy()
                s2=copy.deepcopy(s); f(s2)
                if np.abs(s2.getBottomT().gTM()-b0).max()>1e-9 or np.abs(s2.getTopT().gTM()-t0_).max()>1e-9:
                    res['impure']+=1; bad.append((vs,seq[:k+1],'impure',q))
        res['ok']+=1
    except Exception as e:
        res['exc']+=1; bad.append((vs,seq,'EXC',type(e).__name__,str(e)[:80]))
print(res)
seen=set()
for b in bad:
    key=(b[1][-1], b[2], str(b[3])[:30])
    if key in seen: continue
    seen.add(key); print(b)
