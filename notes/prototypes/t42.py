import sys; sys.path.insert(0, "/tmp/scratch/repo")
import numpy as np, warnings, itertools, collections, copy
warnings.filterwarnings('ignore')
from basic_robotics.general import tm, fsr, Screw, Wrench, Twist
from basic_robotics.modern_robotics_numba import mr
def arrays(o, seen=None, depth=0, meta_ok=True):
    """all ndarrays reachable from o (excluding frame/position metadata of screws)"""
    out=[]
    if seen is None: seen=set()
    if id(o) in seen or depth>4: return out
    seen.add(id(o))
    if isinstance(o,np.ndarray):
        if o.dtype!=object: out.append(o)
        else:
            for x in o.ravel(): out+=arrays(x,seen,depth+1)
    elif isinstance(o,tm): out+=[o.TM,o.TAA]
    elif isinstance(o,Screw): out+=[o.data]
    elif isinstance(o,(list,tuple)):
        for x in o: out+=arrays(x,seen,depth+1)
    return out
def fp(o): return [a.tobytes() for a in arrays(o)]
def T(): return tm([1,-2,3,0.3,-0.2,0.5])
def U(): return tm([0.5,0.25,-1,0.1,0.4,-0.3])
def S(): return Screw(np.array([1.,2,3,4,5,6]).reshape(6,1), tm([1,0,0,0,0,0.2]))
def S2(): return Screw(np.array([-1.,0,2,1,1,0]).reshape(6,1), tm([0,2,0,0.1,0,0]))
def W(): return Wrench(np.array([1.,2,3,4,5,6]).reshape(6,1), tm([0,0,1,0,0,0]), tm([1,0,0,0,0,0.2]))
def W2(): return Wrench(np.array([-1.,0,2,1,1,0]).reshape(6,1), tm(), tm([0,2,0,0.1,0,0]))
A6=lambda: np.array([0.1,0.2,0.3,0.4,0.5,0.6]); A61=lambda: A6().reshape(6,1); M4=lambda: U().gTM()
OPS={
 'tm+tm':(lambda a,b:a+b,(T,U)),'tm-tm':(lambda a,b:a-b,(T,U)),'tm@tm':(lambda a,b:a@b,(T,U)),'tm*tm':(lambda a,b:a*b,(T,U)),'tm//tm':(lambda a,b:a//b,(T,U)),
 'tm+arr':(lambda a,b:a+b,(T,A6)),'tm+col':(lambda a,b:a+b,(T,A61)),'tm-arr':(lambda a,b:a-b,(T,A6)),'tm@M':(lambda a,b:a@b,(T,M4)),'tm//M':(lambda a,b:a//b,(T,M4)),
 'tm*k':(lambda a:a*2.0,(T,)),'k*tm':(lambda a:2.0*a,(T,)),'tm/k':(lambda a:a/2.0,(T,)),'abs':(lambda a:abs(a),(T,)),'inv':(lambda a:a.inv(),(T,)),'copy':(lambda a:a.copy(),(T,)),
 'tm(tm)':(lambda a:tm(a),(T,)),'tm(arr[tm])':(lambda a:tm(np.array([a])),(T,)),'tm(M)':(lambda m:tm(m),(M4,)),'tm(a6)':(lambda v:tm(v),(A6,)),'tm(col)':(lambda v:tm(v),(A61,)),
 'T()':(lambda a:a.T(),(T,)),'cT':(lambda a:a.cT(),(T,)),'pinv':(lambda a:a.pinv(),(T,)),
 'gTM':(lambda a:a.gTM(),(T,)),'gTAA':(lambda a:a.gTAA(),(T,)),'gRot':(lambda a:a.gRot(),(T,)),'gPos':(lambda a:a.gPos(),(T,)),'getQuat':(lambda a:a.getQuat(),(T,)),'adjoint':(lambda a:a.adjoint(),(T,)),'exp6':(lambda a:a.exp6(),(T,)),'approx':(lambda a:a.approx(),(T,)),
 'tripleUnit':(lambda a:a.tripleUnit(),(T,)),
 'S+S':(lambda a,b:a+b,(S,S2)),'S+Ssame':(lambda a:a+a.copy(),(S,)),'S-S':(lambda a,b:a-b,(S,S2)),'S*S':(lambda a,b:a*b,(S,S2)),'S@S':(lambda a,b:a@b,(S,S2)),'S+arr':(lambda a,b:a+b,(S,A6)),'arr+S':(lambda a,b:b+a,(S,A6)),'S-arr':(lambda a,b:a-b,(S,A6)),'arr-S':(lambda a,b:b-a,(S,A6)),
 'S*k':(lambda a:a*2.0,(S,)),'k*S':(lambda a:2.0*a,(S,)),'S/k':(lambda a:a/2.0,(S,)),'k/S':(lambda a:2.0/a,(S,)),'S//k':(lambda a:a//2.0,(S,)),'absS':(lambda a:abs(a),(S,)),'S.copy':(lambda a:a.copy(),(S,)),
 'S.getData':(lambda a:a.getData(),(S,)),'S.flatten':(lambda a:a.flatten(),(S,)),'S.reshape':(lambda a:a.reshape((6,)),(S,)),'S.cross':(lambda a,b:a.cross(b),(S,S2)),'S.dot':(lambda a,b:a.dot(b),(S,S2)),'S.dual':(lambda a:a.dualScalarMultiply([2.0,0.5]),(S,)),'S*[2]':(lambda a:a*[2.0,0.5],(S,)),
 'W+W':(lambda a,b:a+b,(W,W2)),'W-W':(lambda a,b:a-b,(W,W2)),'W*k':(lambda a:a*2.0,(W,)),'k*W':(lambda a:2.0*a,(W,)),'W/k':(lambda a:a/2.0,(W,)),'absW':(lambda a:abs(a),(W,)),'W.copy':(lambda a:a.copy(),(W,)),'W.getMoment':(lambda a:a.getMoment(),(W,)),'W.getForce':(lambda a:a.getForce(),(W,)),'W+arr':(lambda a,b:a+b,(W,A6)),
 'l2g':(lambda a,b:fsr.localToGlobal(a,b),(T,U)),'g2l':(lambda a,b:fsr.globalToLocal(a,b),(T,U)),'distance':(lambda a,b:fsr.distance(a,b),(T,U)),'arcDistance':(lambda a,b:fsr.arcDistance(a,b),(T,U)),
 'poseError':(lambda a,b:fsr.poseError(a,b),(T,U)),'geometricError':(lambda a,b:fsr.geometricError(a,b),(T,U)),'tmAvgMidpoint':(lambda a,b:fsr.tmAvgMidpoint(a,b),(T,U)),'tmInterpMidpoint':(lambda a,b:fsr.tmInterpMidpoint(a,b),(T,U)),
 'closeLinearGap':(lambda a,b:fsr.closeLinearGap(a,b,0.1),(T,U)),'closeArcGap':(lambda a,b:fsr.closeArcGap(a,b,0.1),(T,U)),'IKPath':(lambda a,b:fsr.IKPath(a,b,4),(T,U)),'mirror':(lambda a,b:fsr.mirror(a,b),(T,U)),'lookAt':(lambda a,b:fsr.lookAt(a,b),(T,U)),
 'adjustRot0':(lambda a,b,c:fsr.adjustRotationToMidpoint(a,b,c),(T,U,lambda: tm([2,2,2,0,0,0]))),'adjustRot1':(lambda a,b,c:fsr.adjustRotationToMidpoint(a,b,c,1),(T,U,lambda: tm([2,2,2,0,0,0]))),
 'twistToGoal':(lambda a,b:fsr.twistToGoal(a,b),(T,U)),'twistFromTransform':(lambda a:fsr.twistFromTransform(a),(T,)),'transformFromTwist':(lambda v:fsr.transformFromTwist(v),(A6,)),'transformByVector':(lambda a,v:fsr.transformByVector(a,v),(T,lambda: np.array([1.,2,3]))),
 'planeFrom3':(lambda a,b,c:fsr.planeFromThreePoints(a,b,c),(T,U,lambda: tm([2,2,2,0,0,0]))),'planePoints':(lambda a:fsr.planePointsFromTransform(a),(T,)),'getUnitVec':(lambda a,b:fsr.getUnitVec(a,b),(T,U)),'angleBetween':(lambda a,b,c:fsr.angleBetween(a,b,c),(T,U,lambda: tm([2,2,2,0,0,0]))),
 'transformWrenchFrame':(lambda w,a,b:fsr.transformWrenchFrame(w,a,b),(W,T,U)),'makeWrench':(lambda a,v:fsr.makeWrench(a,2.0,v),(T,lambda: np.array([0,0,-1.]))),'TAAtoTM':(lambda v:fsr.TAAtoTM(v),(A61,)),'TMtoTAA':(lambda m:fsr.TMtoTAA(m),(M4,)),
 'getSurfaceNormal':(lambda a,b,c:fsr.getSurfaceNormal([a,b,c],tm([0,0,5,0,0,0])),(T,U,lambda: tm([2,2,2,0,0,0]))),'setElements':(lambda v:fsr.setElements(v,[0,2],[9.,9.]),(A6,)),'chainJac':(lambda S_,th:fsr.chainJacobian(S_,th),(lambda: np.eye(6)[:, :3].copy(), lambda: np.array([.1,.2,.3]))),
}
res=collections.OrderedDict()
for name,(f,facs) in OPS.items():
    ops=[g() for g in facs]; before=[fp(o) for o in ops]
    try: r=f(*ops)
    except Exception as e: res[name]='EXC %s %s'%(type(e).__name__,str(e)[:50]); continue
    issues=[]
    for i,o in enumerate(ops):
        if fp(o)!=before[i]: issues.append('MUTATES operand %d'%i)
    ra=arrays(r)
    for i,o in enumerate(ops):
        for oa in arrays(o):
            for x in ra:
                if np.shares_memory(x,oa): issues.append('ALIAS result<->operand %d'%i)
    # behavioural: scribble on result arrays, recheck operands
    for x in ra:
        try: x[...] = x*0+7.5
        except Exception: pass
    if isinstance(r,(tm,Screw)):
        try: r[0]=9.0
        except Exception: pass
    for i,o in enumerate(ops):
        if fp(o)!=before[i] and 'MUTATES operand %d'%i not in issues: issues.append('scribble reaches operand %d'%i)
    if issues: res[name]=sorted(set(issues))
for k,v in res.items(): print(k,v)
print('scanned',len(OPS),'flagged',len(res))
# default-constructed freshness
t=tm(); t[0]=5; t.TM[0,0]=9; t.TAA[1,0]=3; print('tm() fresh', np.abs(tm().gTM()-np.eye(4)).max(), np.abs(tm().gTAA()).max())
s=Screw(); s[0]=5; s.data[1,0]=3; print('Screw() fresh', np.abs(Screw().getData()).max())
w=Wrench(); w[0]=5; w.data[1,0]=3; w.frame_applied[0]=4; w.position_applied[0]=4; print('Wrench() fresh', np.abs(Wrench().getData()).max(), np.abs(Wrench().frame_applied.gTAA()).max())
