import sys; sys.path.insert(0, "/tmp/scratch/repo")
import numpy as np, warnings, itertools
warnings.filterwarnings('ignore')
from basic_robotics.modern_robotics_numba import mr
from scipy.linalg import expm, logm
np.set_printoptions(precision=9, suppress=False, linewidth=200)
axes=[np.array(a,float)/np.linalg.norm(a) for a in [(1,0,0),(0,1,0),(0,0,1),(-1,0,0),(0,-1,0),(0,0,-1),(1,1,0),(1,0,1),(0,1,1),(1,1,1),(1,-2,3),(-0.3,0.5,0.81),(1e-3,1,0),(1,1e-9,0)]]
pi=np.pi
angs=[0,1e-12,1e-9,5e-7,9.9e-7,1e-6,1.01e-6,2e-6,1e-5,1e-4,1e-3,0.1,1,pi/2,2,3,pi-1e-2,pi-1e-3,pi-1e-4,pi-1e-5,pi-1e-6,pi-1e-7,pi-1e-8,pi-1e-9,pi-1e-12,pi,pi+1e-9,pi+1e-6,pi+1e-3,4,5,2*pi-1e-3,2*pi-1e-6,2*pi-1e-7,2*pi]
worst={}
def upd(k,v,info):
    if k not in worst or v>worst[k][0]: worst[k]=(v,info)
for a in axes:
    for th in angs:
        w=a*th; so=mr.VecToso3(w); R=mr.MatrixExp3(so)
        upd('orth', np.abs(R@R.T-np.eye(3)).max(), (a,th)); upd('det', abs(np.linalg.det(R)-1),(a,th))
        upd('exp_vs_expm', np.abs(R-expm(so)).max(), (a,th))
        L=mr.MatrixLog3(R); 
        upd('explog', np.abs(mr.MatrixExp3(L)-R).max(), (a,th))
        if th<pi: 
            e=np.abs(mr.so3ToVec(L)-w).max()
            bucket = 'logexp<pi-1e-3' if th<=pi-1e-3 else 'logexp_near_pi'
            upd(bucket, e, (a,th))
for k,v in worst.items(): print(k, v)
# SE3
worst={}
vs=[np.zeros(3), np.array([1,2,3.]), np.array([1e3,-1e3,5e2]), np.array([1e-7,0,0])]
for a in axes:
    for th in angs:
        for v in vs:
            V=np.r_[a*th, v]; se=mr.VecTose3(V); T=mr.MatrixExp6(se)
            upd('exp6_vs_expm_rel', np.abs(T-expm(se)).max()/max(1,np.abs(v).max()), (a,th,v))
            Lg=mr.MatrixLog6(T)
            upd('explog6_rel', np.abs(mr.MatrixExp6(Lg)-T).max()/max(1,np.abs(T[:3,3]).max()), (a,th,v))
            if th<=pi-1e-3: upd('logexp6_rel', np.abs(mr.se3ToVec(Lg)-V).max()/max(1,np.abs(v).max()), (a,th,v))
            Ti=mr.TransInv(T); upd('inv', np.abs(Ti@T-np.eye(4)).max()/max(1,np.abs(v).max()), (a,th,v))
for k,v in worst.items(): print(k, v)
