import sys; sys.path.insert(0, "/tmp/scratch/repo")
import numpy as np, warnings
warnings.filterwarnings('ignore')
from armlib import *
np.set_printoptions(precision=6, suppress=True, linewidth=200)
th=np.array([0.3,-0.4,0.5,0.2,-0.1,0.7])
arm=mkarm(tm()); S0=arm.screw_list.copy(); M0=arm._end_effector_home.gTM().copy()
def poe(S,M,th,B=np.eye(4)):
    T=np.eye(4)
    for i in range(len(th)): T=T@ref.MatrixExp6(ref.VecTose3(S[:,i]*th[i]))
    return B@T@M
print('--- D12: reported pose after setArbitraryHome')
new=arm.FK(th.copy())@tm([0.1,0.2,0.3,0.2,0.1,-0.3])
arm.setArbitraryHome(new.copy(), th.copy())
print('getEEPos vs new', np.abs(arm.getEEPos().gTM()-new.gTM()).max(), ' FK(theta) vs new', np.abs(arm.FK(th.copy()).gTM()-new.gTM()).max())
print('--- D13: tool change then move')
X=np.linalg.inv(poe(S0,M0,th))@new.gTM(); Mnew=M0@X
B=tm([1,2,3,0.2,0.3,-0.4]); arm.move(B)
print('FK after move vs B*PoE*Mnew', np.abs(arm.FK(th.copy()).gTM()-poe(S0,Mnew,th,B.gTM())).max(), ' vs B*PoE*M0 (tool lost)', np.abs(arm.FK(th.copy()).gTM()-poe(S0,M0,th,B.gTM())).max())
print('--- restoreOriginalEE reported pose')
arm=mkarm(tm()); arm.setArbitraryHome(new.copy(), th.copy()); arm.FK(th.copy()); arm.restoreOriginalEE()
print('getEEPos vs FK(theta)', np.abs(arm.getEEPos().gTM()-arm.FK(arm._theta.copy()).gTM()).max())
print('--- D16: tolerance swap witness')
arm=mkarm(tm()); th0=np.array([0.5,0.4,-0.3,0.2,0.6,-0.2]); T0=arm.FK(th0.copy()).gTM()
arm.pos_tolerance=1e-2; arm.rot_tolerance=1e-6
goal=tm(ref.MatrixExp6(ref.VecTose3(np.array([0,0,5e-3,0,0,0])))@T0)   # pure rotation about space origin
for protect in (False,True):
    a=mkarm(tm()); a.pos_tolerance=1e-2; a.rot_tolerance=1e-6
    t1,ok=a.IK(goal.copy(), th0.copy(), protect=protect)
    E=ref.se3ToVec(ref.MatrixLog6(ref.TransInv(ref.FKinSpace(a._end_effector_home.gTM(), a.screw_list, t1))@goal.gTM()))
    print('protect',protect,'success',ok,'orientation err',np.linalg.norm(E[:3]),'(rot_tol 1e-6)')
