import sys; sys.path.insert(0, "/tmp/scratch/repo")
import numpy as np, warnings, glob
warnings.filterwarnings('ignore')
import xml.etree.ElementTree as ET
from basic_robotics.general import tm, fsr, Wrench
from basic_robotics.kinematics import loadArmFromURDF
import modern_robotics as ref
np.set_printoptions(precision=5, suppress=True, linewidth=200)
def e3(w): return ref.MatrixExp3(ref.VecToso3(np.asarray(w,float)))
def rpyR(r,p,y): return e3([0,0,y])@e3([0,p,0])@e3([r,0,0])
def parse(path):
    root=ET.parse(path).getroot(); joints={}; children=set(); links={}
    for l in root.findall('link'):
        inn=l.find('inertial'); m=None; T=np.eye(4)
        if inn is not None:
            m=float(inn.find('mass').get('value')); o=inn.find('origin')
            if o is not None:
                xyz=[float(x) for x in (o.get('xyz') or '0 0 0').split()]; rpy=[float(x) for x in (o.get('rpy') or '0 0 0').split()]
                T[:3,:3]=rpyR(*rpy); T[:3,3]=xyz
        links[l.get('name')]=(m,T)
    for j in root.findall('joint'):
        o=j.find('origin'); xyz=[0,0,0]; rpy=[0,0,0]
        if o is not None:
            if o.get('xyz') is not None: xyz=[float(x) for x in o.get('xyz').split()]
            if o.get('rpy') is not None: rpy=[float(x) for x in o.get('rpy').split()]
        a=j.find('axis'); ax=[1,0,0]
        if a is not None and a.get('xyz') is not None: ax=[float(x) for x in a.get('xyz').split()]
        joints[j.get('name')]=dict(type=j.get('type'),parent=j.find('parent').get('link'),child=j.find('child').get('link'),xyz=xyz,rpy=rpy,axis=ax); children.add(j.find('child').get('link'))
    rootl=[l for l in links if l not in children][0]; bypar={}
    for n,j in joints.items(): bypar.setdefault(j['parent'],[]).append(n)
    return links,joints,rootl,bypar
def link_world(path, th):
    """returns list of (mass, cg_world, index of last moving joint before this link (-1 for base))"""
    links,joints,rootl,bypar=parse(path); T=np.eye(4); link=rootl; k=0; out=[]
    m,Tc=links[link]; 
    if m is not None: out.append((m,(T@Tc)[:3,3],-1,link))
    while link in bypar:
        j=joints[bypar[link][0]]; O=np.eye(4); O[:3,:3]=rpyR(*j['rpy']); O[:3,3]=j['xyz']; T=T@O
        if j['type'] in ('revolute','continuous'):
            R=np.eye(4); R[:3,:3]=e3(np.array(j['axis'])*th[k]); T=T@R; k+=1
        link=j['child']; m,Tc=links[link]
        if m is not None: out.append((m,(T@Tc)[:3,3],k-1,link))
    return out
for f in sorted(glob.glob('/repo/tests/test_helpers/*.urdf')+['/repo/tests/test_helpers/ur_description/ur10.urdf']):
    arm=loadArmFromURDF(f); n=arm.num_dof
    print(f.split('/')[-1], 'n',n,'masses',None if arm._link_masses is None else len(arm._link_masses), 'cgs', len(arm._link_mass_grav_centers))
    if arm._link_masses is None or len(arm._link_masses)==0: continue
    rng=np.random.default_rng(0)
    for t in range(3):
        th=np.zeros(n) if t==0 else rng.uniform(np.maximum(arm.joint_mins,-3),np.minimum(arm.joint_maxs,3))
        F=Wrench(np.array([1.,-2,3,4,5,-6]))
        try:
            tau=arm.staticForcesWithLinkMasses(F, th.copy()).flatten()
        except Exception as e:
            print('   EXC',type(e).__name__,e); break
        J=arm.jacobian(th.copy()); base=(J.T@F.getData()).flatten()
        extra=np.zeros(n); g=arm.grav
        for (m,p,kj,name) in link_world(f,th):
            w=np.r_[np.cross(p,m*g), m*g]
            for j in range(n):
                if j<=kj: extra[j]+=J[:,j]@w
        print('   diff', np.abs(tau-(base+extra)).max(), 'tau',tau.round(3), 'exp',(base+extra).round(3))
