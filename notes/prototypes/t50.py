import sys; sys.path.insert(0, "/tmp/scratch/repo")
import os
os.environ['NUMBA_NUM_THREADS']='1'; os.environ['OMP_NUM_THREADS']='1'; os.environ['OPENBLAS_NUM_THREADS']='1'
import numpy as np, warnings, time, itertools, collections, copy, json, multiprocessing as mp
warnings.filterwarnings('ignore')
def geos():
    out=[]
    for r in (0.2,0.9,2.0):
      for ratio in (0.3,0.6,1.0):
        for (bs,ts) in ((5,5),(9,25),(40,40)):
          for thick in (0.0,0.1):
            for lmin,stroke in ((0.8,2.0),(1.5,1.5)):
              for rot in (1,-1):
                  out.append((r,ratio,bs,ts,thick,lmin,stroke,rot))
    return out
def work(g):
    from basic_robotics.general import tm, fsr, Wrench
    from basic_robotics.kinematics.sp_model import newSP
    import modern_robotics as ref
    r,ratio,bs,ts,thick,lmin,stroke,rot=g
    W=collections.defaultdict(float); cnt=collections.Counter()
    for B in (tm(), tm([1,2,0.5,0.2,-0.1,0.3])):
      for spin in (None,0.4,-np.pi/3):
        sp=newSP(r,r*ratio,bs,ts,thick*r,thick*r,0.9,0.5,1,6,0.2,0.2,lmin*r,lmin*r*stroke,B.copy(),'sp',rot)
        h=sp._nominal_height
        # plate-fixed points from public getters at neutral pose
        bT=sp.getBottomT().gTM(); tT=sp.getTopT().gTM()
        bl0=np.linalg.inv(bT)[:3,:3]@(sp.getBottomJoints()-bT[:3,3:4]); tl0=np.linalg.inv(tT)[:3,:3]@(sp.getTopJoints()-tT[:3,3:4])
        if spin is not None:
            sp.spinCustom(spin)
            Rz=ref.MatrixExp3(ref.VecToso3([0,0,spin])); bl=Rz@bl0; tl=Rz@tl0
            bT=sp.getBottomT().gTM(); tT=sp.getTopT().gTM()
            bl1=np.linalg.inv(bT)[:3,:3]@(sp.getBottomJoints()-bT[:3,3:4]); tl1=np.linalg.inv(tT)[:3,:3]@(sp.getTopJoints()-tT[:3,3:4])
            W['spin_local']=max(W['spin_local'],np.abs(bl1-bl).max()/r,np.abs(tl1-tl).max()/r)
            W['base_after_spin']=max(W['base_after_spin'],np.abs(bT-B.gTM()).max())
        else: bl,tl=bl0,tl0
        for dx,dz,rx,rz in itertools.product((-0.2,0,0.2),(-0.15,0,0.15),(-0.3,0,0.3),(-0.3,0,0.3)):
            rel=tm([dx*h,0.1*dx*h,h*(1+dz),rx,0.5*rx,rz]); top=B@rel
            s=copy.deepcopy(sp); L,v=s.IK(top.copy(), B.copy(), protect=True)
            Tt=top.gTM(); Tb=B.gTM()
            exp=np.linalg.norm((Tt[:3,:3]@tl+Tt[:3,3:4])-(Tb[:3,:3]@bl+Tb[:3,3:4]),axis=0)
            W['ik_dist']=max(W['ik_dist'],np.abs(L.flatten()-exp).max()/r); cnt['ik']+=1
            # rigid motion invariance
            G=tm([0.3,-0.7,0.2,-0.4,0.2,0.6]); s2=copy.deepcopy(sp); L2,_=s2.IK(G@top, G@B, protect=True)
            W['rigid_inv']=max(W['rigid_inv'],np.abs(L2-L).max()/r)
            if not s.validate(True): continue
            iJ=s.inverseJacobian(); c=np.linalg.cond(iJ)
            if c>1e4: cnt['illcond']+=1; continue
            D=np.zeros((6,6))
            for k in range(6):
                V=np.zeros(6); V[k]=1
                def lens(hh):
                    T=ref.MatrixExp6(ref.VecTose3(V*hh))@Tt; s3=copy.deepcopy(sp); Lx,_=s3.IK(tm(T),B.copy(),protect=True); return Lx.flatten()
                d1=(lens(1e-4)-lens(-1e-4))/2e-4; d2=(lens(2e-4)-lens(-2e-4))/4e-4; D[:,k]=(4*d1-d2)/3
            W['invJ_deriv']=max(W['invJ_deriv'],np.abs(iJ-D).max()/max(1,np.abs(iJ).max())); cnt['jac']+=1
            F=Wrench(np.array([1.,-2,3,4,5,-60])); tau=s.staticForces(F)
            W['equil']=max(W['equil'],np.abs(iJ.T@tau-F.getData()).max()/np.linalg.norm(F.getData()))
            W['sumAct']=max(W['sumAct'],np.abs(s.sumActuatorWrenches(tau).getData()+F.getData()).max()/np.linalg.norm(F.getData()))
            W['inv']=max(W['inv'],np.abs(s.staticForcesInv(tau).getData()-F.getData()).max()/np.linalg.norm(F.getData()))
            b0=s.getBottomT().gTM().copy(); t0_=s.getTopT().gTM().copy()
            W['purity']=max(W['purity'],np.abs(s.getBottomT().gTM()-b0).max(),np.abs(s.getTopT().gTM()-t0_).max())
    return dict(g=g,W=dict(W),cnt=dict(cnt))
if __name__=='__main__':
    mp.set_start_method('spawn'); t0=time.time()
    G=geos()[::3]
    with mp.Pool(16) as p: res=p.map(work,G,chunksize=1)
    tot=collections.defaultdict(float); cnt=collections.Counter()
    for r in res:
        for k,v in r['W'].items(): tot[k]=max(tot[k],v)
        cnt.update(r['cnt'])
    print(len(G),'geometries',dict(cnt)); 
    for k,v in tot.items(): print(f'{k:16s} {v:.3e}')
    print('t',round(time.time()-t0,1))
