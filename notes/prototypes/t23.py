import sys; sys.path.insert(0, "/tmp/scratch/repo")
import numpy as np, warnings, time, itertools
warnings.filterwarnings('ignore')
from fractions import Fraction as Fr
from basic_robotics.general import tm
from basic_robotics.path_planning.pathplanner import RRTStar, PathNode
r=RRTStar(tm())
pts=list(itertools.product(range(-2,3),repeat=3)); nodes=[PathNode(tm([x,y,z,0,0,0])) for x,y,z in pts]
def exact(p,q,lo,hi):
    t0,t1=Fr(0),Fr(1)
    for k in range(3):
        d=q[k]-p[k]
        if d==0:
            if p[k]<lo[k] or p[k]>hi[k]: return False
        else:
            a=Fr(lo[k]-p[k],d); b=Fr(hi[k]-p[k],d)
            if a>b: a,b=b,a
            t0=max(t0,a); t1=min(t1,b)
            if t0>t1: return False
    return True
boxes=[(lo,hi) for lo in itertools.product(range(-1,2),repeat=3) for hi in itertools.product(range(-1,2),repeat=3) if all(l<=h for l,h in zip(lo,hi))]
print(len(pts),len(boxes))
mism=0; n=0; t=time.time()
for lo,hi in boxes[:40]:
    r.obstructions=[]; r.addObstruction(list(lo),list(hi))
    for i,p in enumerate(pts):
        for j,q in enumerate(pts):
            n+=1
            if r.obstruction(nodes[i],nodes[j])!=exact(p,q,lo,hi): mism+=1
el=time.time()-t; print('evals',n,'mism',mism,'us/eval',el/n*1e6)
t=time.time()
for i in range(20000): r.obstruction(nodes[i%125],nodes[(i*7)%125])
print('impl only us', (time.time()-t)/20000*1e6)
