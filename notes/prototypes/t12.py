import sys; sys.path.insert(0, "/tmp/scratch/repo")
import numpy as np, warnings, time, copy, itertools, collections
warnings.filterwarnings('ignore')
from basic_robotics.general import tm, fsr, fmr, Wrench
from basic_robotics.kinematics.sp_model import newSP, SP
np.set_printoptions(precision=5, suppress=True, linewidth=200)
def mk(base=None, rot=1):
    return newSP(0.9,0.3,9,25,0.1,0.16,0.9,0.5,1,6,0.2,0.2,0.75,1.5, base if base is not None else tm(), 'sp', rot)
def coherent(sp):
    b=sp.getBottomT().gTM(); t=sp.getTopT().gTM()
    bj = (b[:3,:3]@sp._bottom_joints_local + b[:3,3:4]); tj=(t[:3,:3]@sp._top_joints_local+t[:3,3:4])
    e1=np.abs(bj-sp.getBottomJoints()).max(); e2=np.abs(tj-sp.getTopJoints()).max()
    L=np.linalg.norm(sp.getTopJoints()-sp.getBottomJoints(),axis=0); e3=np.abs(L-np.asarray(sp.getLens()).flatten()).max()
    e4=np.abs(np.linalg.inv(b)@t - sp.getCurrentLocalTransform().gTM()).max()
    return max(e1,e2,e3,e4),(e1,e2,e3,e4)
h=1.1321
OPS={
 'IKin': lambda s: s.IK(s.getBottomT()@tm([0.1,0.05,1.25,0.1,-0.05,0.15])),
 'IKhigh': lambda s: s.IK(s.getBottomT()@tm([0,0,2.5,0,0,0])),
 'IKlow': lambda s: s.IK(s.getBottomT()@tm([0,0,0.3,0,0,0])),
 'IKtilt': lambda s: s.IK(s.getBottomT()@tm([0.2,0,1.1,0,1.2,0])),
 'IKbelow': lambda s: s.IK(s.getBottomT()@tm([0,0,-1.0,0,0,0])),
 'IKside': lambda s: s.IK(s.getBottomT()@tm([0.9,0,1.0,0,0,0])),
 'FKin': lambda s: s.FK(np.array([1.13,1.22,1.24,1.22,1.24,1.30])),
 'FKshort': lambda s: s.FK(np.array([0.5,0.6,0.7,0.6,0.5,0.6])),
 'FKlong': lambda s: s.FK(np.array([1.6,1.7,1.8,1.6,1.7,1.9])),
 'FKmix': lambda s: s.FK(np.array([0.6,1.7,0.8,1.6,0.7,1.9])),
 'FK0': lambda s: s.FK(np.array([1.13,1.22,1.24,1.22,1.24,1.30]), fk_mode=0),
 'FK0mix': lambda s: s.FK(np.array([0.6,1.7,0.8,1.6,0.7,1.9]), fk_mode=0),
 'FKrev': lambda s: s.FK(np.array([1.13,1.22,1.24,1.22,1.24,1.30]), reverse=True),
 'move': lambda s: s.move(tm([1,2,0.5,0.2,-0.1,0.3])),
 'move0': lambda s: s.move(tm()),
 'spin': lambda s: s.spinCustom(0.4),
 'validate': lambda s: s.validate(),
 'invJ': lambda s: s.inverseJacobian(),
 'static': lambda s: s.staticForces(Wrench(np.array([1.,2,3,4,5,-60]))),
 'carry': lambda s: s.carryMassCalc(Wrench(np.array([1.,2,3,4,5,-60]))),
}
t0=time.time(); base=mk(); print('built', time.time()-t0)
names=list(OPS)
res=collections.Counter(); bad=[]
for vs in ([1,0,0,1],[1,1,1,1]):
  for seq in itertools.product(names, repeat=2):
    s=copy.deepcopy(base); s.validation_settings=list(vs)
    try:
        for k,o in enumerate(seq):
            r=OPS[o](s)
            c,d=coherent(s)
            if c>1e-9:
                res['incoh']+=1; bad.append((vs,seq[:k+1],d)); break
        else: res['ok']+=1
    except Exception as e:
        res['exc']+=1; bad.append((vs,seq,'EXC',type(e).__name__,str(e)[:80]))
print(res, time.time()-t0)
seen=set()
for b in bad:
    key=(tuple(b[0]), b[1][-1] if isinstance(b[1],tuple) else b[1], b[2] if b[2]=='EXC' else 'incoh')
    if key in seen: continue
    seen.add(key); print(b)
