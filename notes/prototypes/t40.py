import sys; sys.path.insert(0, "/tmp/scratch/repo")
import numpy as np, warnings, itertools, collections, io, contextlib, traceback, os
warnings.filterwarnings('ignore')
import xml.etree.ElementTree as ET
from basic_robotics.kinematics import loadArmFromURDF
import modern_robotics as ref
def e3(w): return ref.MatrixExp3(ref.VecToso3(np.asarray(w,float)))
def rpyR(r,p,y): return e3([0,0,y])@e3([0,p,0])@e3([r,0,0])
def interp(path, th):
    root=ET.parse(path).getroot(); joints={}; children=set()
    for j in root.findall('joint'):
        o=j.find('origin'); xyz=[0,0,0]; rpy=[0,0,0]
        if o is not None:
            if o.get('xyz') is not None: xyz=[float(x) for x in o.get('xyz').split()]
            if o.get('rpy') is not None: rpy=[float(x) for x in o.get('rpy').split()]
        a=j.find('axis'); ax=[1,0,0]
        if a is not None and a.get('xyz') is not None: ax=[float(x) for x in a.get('xyz').split()]
        lim=j.find('limit'); lo=hi=None
        if lim is not None and lim.get('lower') is not None: lo=float(lim.get('lower')); hi=float(lim.get('upper'))
        joints[j.get('name')]=dict(type=j.get('type'),parent=j.find('parent').get('link'),child=j.find('child').get('link'),xyz=xyz,rpy=rpy,axis=ax,lo=lo,hi=hi); children.add(j.find('child').get('link'))
    links=[l.get('name') for l in root.findall('link')]; roots=[l for l in links if l not in children]
    bypar={}; 
    for n,j in joints.items(): bypar.setdefault(j['parent'],[]).append(n)
    T=np.eye(4); link=roots[0]; k=0; names=[]; lims=[]
    while link in bypar:
        n=bypar[link][0]; j=joints[n]
        O=np.eye(4); O[:3,:3]=rpyR(*j['rpy']); O[:3,3]=j['xyz']; T=T@O
        if j['type'] in ('revolute','continuous'):
            R=np.eye(4); R[:3,:3]=e3(np.array(j['axis'])*th[k]); T=T@R; k+=1; names.append(n); lims.append((j['lo'],j['hi']))
        link=j['child']
    return T,k,names,lims
ORIG={'full':lambda x,r:f'<origin xyz="{x}" rpy="{r}"/>','norpy':lambda x,r:f'<origin xyz="{x}"/>','noxyz':lambda x,r:f'<origin rpy="{r}"/>','none':lambda x,r:''}
AX={'x':'<axis xyz="1 0 0"/>','z':'<axis xyz="0 0 1"/>','-z':'<axis xyz="0 0 -1"/>','gen':'<axis xyz="0.36 0.48 0.8"/>','none':''}
XYZ=["0.25 0 1.5","0 -0.25 0.5","1.5 0.25 0"]; RPY=["0.3 -1.1 2.0","1.5707963267948966 0 0","0 0 -1.5707963267948966","3.14159265359 0 0.3"]
def build(njoint, variants, fixed_mask, world, inertial, types):
    links=[]; joints=[]; li=0
    def newlink():
        nonlocal li; name=f"L{li}"; li+=1
        inn = f'<inertial><origin xyz="0 0 0.1" rpy="0 0 0"/><mass value="1.5"/><inertia ixx="0.1" ixy="0" ixz="0" iyy="0.1" iyz="0" izz="0.1"/></inertial>' if inertial else ''
        links.append(f'<link name="{name}">{inn}</link>'); return name
    cur = 'world' if world else newlink()
    if world: links.append('<link name="world"/>')
    ji=0
    def addjoint(kind, ov, av, t):
        nonlocal cur, ji
        ch=newlink(); x=XYZ[ji%3]; r=RPY[ji%4]
        if kind=='fixed':
            joints.append(f'<joint name="F{ji}" type="fixed"><parent link="{cur}"/><child link="{ch}"/>{ORIG[ov](x,r)}</joint>')
        else:
            lim='<limit lower="-2.5" upper="2.0" effort="10" velocity="3"/>' if t=='revolute' else ''
            joints.append(f'<joint name="J{ji}" type="{t}"><parent link="{cur}"/><child link="{ch}"/>{ORIG[ov](x,r)}{AX[av]}{lim}</joint>')
        ji+=1; cur=ch
    for k in range(njoint):
        if fixed_mask[k]: addjoint('fixed','full','x','fixed')
        ov,av=variants[k]; addjoint('rev',ov,av,types[k])
    if fixed_mask[njoint]: addjoint('fixed','full','x','fixed')
    return '<robot name="g">'+''.join(links)+''.join(joints)+'</robot>'
res=collections.Counter(); bad=collections.OrderedDict()
path='/tmp/scratch/gen.urdf'
for n in (1,2):
    for variants in itertools.product(itertools.product(ORIG,AX),repeat=n):
        if n==2 and (variants[0][0] not in('full','none') ): continue
        for fixed_mask in itertools.product((0,1),repeat=n+1):
            for world in (0,1):
                for inertial in (0,1):
                    for types in itertools.product(('revolute','continuous'),repeat=n):
                        xml=build(n,variants,fixed_mask,world,inertial,types); open(path,'w').write(xml)
                        key=(n,variants,fixed_mask,world,inertial,types)
                        try:
                            with contextlib.redirect_stdout(io.StringIO()): arm=loadArmFromURDF(path)
                        except Exception as e:
                            res['load_exc']+=1; bad.setdefault(('load_exc',type(e).__name__,str(e)[:60], world, inertial, fixed_mask[0]), key); continue
                        T0,k,names,lims=interp(path,np.zeros(n))
                        if arm.num_dof!=k: res['dof']+=1; bad.setdefault(('dof',arm.num_dof,k,world,fixed_mask),key); continue
                        if list(arm.joint_names)!=names: res['names']+=1; bad.setdefault(('names',),key)
                        okl=True
                        for i,(lo,hi) in enumerate(lims):
                            if lo is not None and (abs(arm.joint_mins[i]-lo)>1e-12 or abs(arm.joint_maxs[i]-hi)>1e-12): okl=False
                        if not okl: res['limits']+=1; bad.setdefault(('limits',),key)
                        worst=0
                        for th in (np.zeros(n), np.full(n,0.7), np.array([1.3,-0.9][:n])):
                            T,_,_,_=interp(path,th)
                            try: d=np.abs(arm.FK(th.copy()).gTM()-T).max()
                            except Exception as e: d=np.inf
                            worst=max(worst,d)
                        if worst>1e-6: res['fk']+=1; bad.setdefault(('fk',world,inertial,fixed_mask,tuple(v[0] for v in variants),tuple(v[1] for v in variants)), (key,worst))
                        else: res['ok']+=1
print(res)
for k,v in list(bad.items())[:40]: print(k,'->',v)
