import sys; sys.path.insert(0, "/tmp/scratch/repo")
import numpy as np, warnings, itertools
warnings.filterwarnings('ignore')
from basic_robotics.general import tm, fsr, Screw, Wrench
from basic_robotics.modern_robotics_numba import mr
from scipy.spatial.transform import Rotation as Rsc
import modern_robotics as ref
np.set_printoptions(precision=6, suppress=True, linewidth=200)
pi=np.pi
worst={}
def upd(k,v,info=None):
    if not np.isfinite(v): v=np.inf
    if k not in worst or v>worst[k][0]: worst[k]=(v,info)
axes=[[1,0,0],[0,1,0],[0,0,1],[0.6,0,0.8],[1/3**.5]*3,[-0.2,0.5,-0.84]]
angs=[0,1e-7,0.5,1,pi/2,2.5,pi-1e-3]
poss=[(0,0,0),(1,-2,3),(1e3,-1e3,500)]
poses=[(p,tuple(np.array(a)/np.linalg.norm(a)*t)) for p in poss for a in axes for t in angs]
for p,w in poses:
    R=Rsc.from_rotvec(w).as_matrix(); T=np.eye(4); T[:3,:3]=R; T[:3,3]=p
    sc=max(1,np.abs(p).max())
    forms={'list6':tm(list(p)+list(w)),'arr6':tm(np.array(list(p)+list(w))),'col6':tm(np.array(list(p)+list(w)).reshape(6,1)),
      'quat_list':tm(list(p)+list(Rsc.from_rotvec(w).as_quat())),'quat_arr':tm(np.array(list(p)+list(Rsc.from_rotvec(w).as_quat()))),
      'mat':tm(T.copy()),'pair':tm([list(p),list(w)]),'tm':tm(tm(T.copy())),'arr_tm':tm(np.array([tm(T.copy())]))}
    e=Rsc.from_rotvec(w).as_euler('XYZ')  # intrinsic XYZ = Rx*Ry*Rz
    forms['rpy6']=tm(list(p)+list(e),True)
    for k,f in forms.items(): upd(k, np.abs(f.gTM()-T).max()/sc,(p,w))
    if p==(0,0,0):
        upd('list3', np.abs(tm(list(w)).gTM()-T).max()); upd('arr3', np.abs(tm(np.array(w)).gTM()-T).max()); upd('rpy3', np.abs(tm(list(e),True).gTM()-T).max())
    t=tm(T.copy()); q=t.getQuat(); t.setQuat(q); upd('quat_roundtrip', np.abs(t.gTM()-T).max()/sc)
for k,v in worst.items(): print(k, v[0], v[1] if v[0]>5e-6 else '')
# group laws on small palette
worst={}
small=[tm(list(p)+list(w)) for p,w in poses[::5]]
print(len(small))
for a,b,c in itertools.product(small[:12],repeat=3):
    sc=max(1,np.abs(a.gTM()@b.gTM()@c.gTM()).max())
    upd('matmul', np.abs((a@b).gTM()-a.gTM()@b.gTM()).max()/sc)
    upd('assoc', np.abs(((a@b)@c).gTM()-(a@(b@c)).gTM()).max()/sc,(a,b,c))
    upd('l2g', np.abs(fsr.localToGlobal(a,b).gTM()-a.gTM()@b.gTM()).max()/sc,(a,b))
    upd('g2l', np.abs(fsr.globalToLocal(a,b).gTM()-np.linalg.inv(a.gTM())@b.gTM()).max()/sc,(a,b))
    upd('l2g∘g2l', np.abs(fsr.localToGlobal(a,fsr.globalToLocal(a,b)).gTM()-b.gTM()).max()/sc)
    upd('inv', np.abs((a.inv()@a).gTM()-np.eye(4)).max()/sc)
for k,v in worst.items(): print(k, v[0], [x.gTAA().T for x in v[1]] if v[0]>5e-6 and v[1] else '')
