import sys; sys.path.insert(0, "/tmp/scratch/repo")
import numpy as np, warnings, time, copy
warnings.filterwarnings('ignore')
from basic_robotics.general import tm, fsr, fmr, Wrench
from basic_robotics.kinematics.sp_model import newSP, SP
np.set_printoptions(precision=6, suppress=True)
def mk(base=None, rot=1):
    return newSP(0.9,0.3,9,25,0.1,0.16,0.9,0.5,1,6,0.2,0.2,0.75,1.5, base if base is not None else tm(), 'sp', rot)
def coherent(sp):
    b=sp.getBottomT().gTM(); t=sp.getTopT().gTM()
    bj = (b[:3,:3]@sp._bottom_joints_local + b[:3,3:4]); tj=(t[:3,:3]@sp._top_joints_local+t[:3,3:4])
    e1=np.abs(bj-sp.getBottomJoints()).max(); e2=np.abs(tj-sp.getTopJoints()).max()
    L=np.linalg.norm(sp.getTopJoints()-sp.getBottomJoints(),axis=0); e3=np.abs(L-sp.getLens().flatten()).max()
    e4=np.abs(np.linalg.inv(b)@t - sp.getCurrentLocalTransform().gTM()).max()
    return e1,e2,e3,e4
t0=time.time(); sp=mk(); print('build',time.time()-t0)
print('nominal h', sp._nominal_height, sp.getLens().T)
goal = tm([0.1,0.05,1.25,0.1,-0.05,0.15])
t0=time.time(); L,v = sp.IK(goal); print('IK',time.time()-t0, L.T, v, coherent(sp))
sp.IK(tm([0,0,sp._nominal_height,0,0,0]))
t0=time.time(); top,v = sp.FK(L.copy()); print('FK',time.time()-t0, np.abs(top.gTM()-goal.gTM()).max(), v, coherent(sp), np.abs(sp.getLens().flatten()-L.flatten()).max())
t0=time.time(); top,v = sp.FK(L.copy()); print('FK again',time.time()-t0)
print('--- moved base')
B = tm([1,2,0.5,0.2,-0.1,0.3])
sp=mk(B); g2 = B@goal
L2,v=sp.IK(g2); print(np.abs(L2-L).max(), v, coherent(sp))
sp.IK(B@tm([0,0,sp._nominal_height,0,0,0]))
top,v=sp.FK(L2.copy()); print('FK moved', np.abs(top.gTM()-g2.gTM()).max(), v, coherent(sp))
print('--- spin')
sp=mk(); sp.spinCustom(0.4)
L3,v=sp.IK(goal); print(L3.T, v, coherent(sp))
sp.IK(tm([0,0,sp._nominal_height,0,0,0]))
top,v=sp.FK(L3.copy()); print('FK spun', np.abs(top.gTM()-goal.gTM()).max(), v, coherent(sp), np.abs(sp.getLens().flatten()-L3.flatten()).max())
print('--- fk_mode 0')
sp=mk(); sp.fk_mode=0
sp.IK(tm([0,0,sp._nominal_height,0,0,0]))
t0=time.time(); top,v=sp.FK(L.copy()); print('FKsolve', time.time()-t0, np.abs(top.gTM()-goal.gTM()).max(), v, coherent(sp))
print('--- out of workspace')
sp=mk()
t0=time.time(); Lx,v = sp.IK(tm([0,0,2.5,0,0,0])); print(time.time()-t0, Lx.T, v, sp.getLens().T, coherent(sp), sp.validation_error)
Lx,v = sp.IK(tm([0.6,0,1.0,0,0.6,0])); print(Lx.T, v, sp.getLens().T, coherent(sp), sp.validation_error)
top,v = sp.FK(np.array([0.5,1.6,0.9,1.0,1.2,2.0])); print(v, sp.getLens().T, coherent(sp), sp.validation_error)
