import sys; sys.path.insert(0, "/tmp/scratch/repo")
import numpy as np, warnings, itertools, io, contextlib, re, collections, time
warnings.filterwarnings('ignore')
from basic_robotics.utilities.disp import disp
from basic_robotics.general import tm, Wrench
res=collections.Counter(); bad=collections.OrderedDict(); t0=time.time()
num=re.compile(r'[-+]?(?:\d+\.\d*|\d+|\.\d+)(?:[eE][-+]?\d+)?|[-+]?inf|nan')
def call(x,**kw):
    with contextlib.redirect_stdout(io.StringIO()) as f: s=disp(x,**kw)
    return s,f.getvalue()
shapes=[()]
for r in range(1,6): shapes+=list(itertools.product(range(5),repeat=r))
print(len(shapes))
for shp in shapes:
    size=int(np.prod(shp)) if shp else 1
    for dt in ('f','i','b'):
        base=np.arange(size).reshape(shp) if shp else np.array(3)
        if dt=='f': arr=((base*1.37-2.5)*(-1)**base).astype(float)
        elif dt=='i': arr=(base*3-7).astype(np.int64)
        else: arr=(base%2==0)
        nds=range(0,9) if len(shp)<=2 else (0,3,8)
        for nd in nds:
            for title in ('MATRIX','odd','even'):
                try:
                    s,out=call(arr,title=title,nd=nd)
                except Exception as e:
                    res['EXC']+=1; bad.setdefault(('EXC',type(e).__name__,str(e)[:50],len(shp),dt),(shp,nd,title)); continue
                if not isinstance(s,str): res['notstr']+=1; continue
                if out!=s+'\n': res['printmismatch']+=1; bad.setdefault(('print',len(shp)),(shp,nd,title))
                if len(shp)<=4 and len(shp)>=1:
                    # parse numeric fields from row lines (those containing box-drawing row markers)
                    rows=[l for l in s.split('\n') if l and l[0] in '║╔╚' and ('BEGIN' not in l and 'END' not in l)]
                    vals=[]
                    for l in rows:
                        body=l[1:-1]
                        vals+=[float(t) for t in body.replace('║','').replace('╗','').replace('╝','').split(',') if t.strip()!='']
                    exp=[round(float(v),nd) for v in np.asarray(arr,float).ravel()]
                    if len(vals)!=len(exp): res['count']+=1; bad.setdefault(('count',len(shp),dt,title!='MATRIX'),(shp,nd,title,len(vals),len(exp),s[:200]))
                    elif any(abs(a-b)>0.5*10**(-nd)+1e-12 for a,b in zip(vals,exp)): res['value']+=1; bad.setdefault(('value',len(shp),dt),(shp,nd,title,vals[:5],exp[:5]))
                    else: res['ok']+=1
                else: res['ok_noparse']+=1
print(res, round(time.time()-t0,1))
for k,v in list(bad.items())[:20]: print(k,v)
