import sys; sys.path.insert(0, "/tmp/scratch/repo")
import numpy as np, warnings, time, itertools, io, contextlib, collections
warnings.filterwarnings('ignore')
from basic_robotics.general import tm, fsr
from basic_robotics.path_planning import pathplanner as pp
from basic_robotics.path_planning.pathplanner import RRTStar, PathNode
class Horizon(Exception): pass
MENU=[(1,0,0,0,0,0),(2,0,0,0,0,0),(0.05,0,0,0,0,0),(200,0,0,0,0,0),(0,3,0,0,0,0),(1,0,0,0,0,1.0),(1.5,1.5,0,0,0,0),(3,3,0,0,0,0),(0,-1,0,0,0,0),(1,1e-9,0,0,0,0)]
def run(seq, iters, boxes, nnl=15, dmode=0):
    r=RRTStar(tm()); r.iterations=iters; r.nearest_neighbors_limit=nnl; r.dmode=dmode; r.maximum_distance=5; r.minimum_distance=0.1
    for lo,hi in boxes: r.addObstruction(lo,hi)
    it=iter(seq); log=[]
    def gen():
        try: c=next(it)
        except StopIteration: raise Horizon()
        return PathNode(tm(list(MENU[c])))
    def dist(a,b): return r.distance(a,b)
    def coll(a,b):
        res=r.obstruction(a,b); log.append((a,b,res)); return res
    with contextlib.redirect_stdout(io.StringIO()):
        r.generalGenerateTree(gen,dist,coll)
    return r,log
def check(r,iters):
    nodes=[x.object for x in r.r6_tree_graph.getAll()]
    assert len(nodes)==iters+1==r.r6_tree_graph.getCount(), ('count',len(nodes))
    roots=[n for n in nodes if n.getParent() is None]; assert len(roots)==1 and np.allclose(roots[0].getPosition().gTAA(),0), ('roots',len(roots))
    for n in nodes:
        steps=0; m=n
        while m.getParent() is not None:
            steps+=1; assert steps<=iters+1, 'cycle'; m=m.getParent()
        assert np.allclose(m.getPosition().gTAA(),0), 'chain does not end at root'
        if n.getParent() is not None:
            assert abs(n.getCost()-(n.getParent().getCost()+r.distance(n.getPosition(),n.getParent().getPosition())))<1e-12, 'cost'
            assert not r.obstruction(n,n.getParent()), 'edge blocked'
    return len(nodes)
boxes=[([0.4,-0.5,-0.5],[0.6,0.5,0.5])]
t0=time.time(); stats=collections.Counter(); trees=set()
for iters in (2,):
    for seq in itertools.product(range(len(MENU)),repeat=iters+2):
        try:
            r,log=run(seq,iters,boxes); check(r,iters); stats['ok']+=1
            trees.add(tuple(sorted((tuple(np.round(n.object.getPosition().gTAA().flatten(),6)), None if n.object.getParent() is None else tuple(np.round(n.object.getParent().getPosition().gTAA().flatten(),6))) for n in r.r6_tree_graph.getAll())))
        except Horizon: stats['horizon']+=1
        except AssertionError as e: stats['VIOL']+=1; (stats['VIOL']<5) and print('VIOL',seq,e)
print(stats, 'distinct trees', len(trees), 't', round(time.time()-t0,1))
