import sys; sys.path.insert(0, "/tmp/scratch/repo")
import numpy as np, warnings
warnings.filterwarnings('ignore')
from basic_robotics.modern_robotics_numba import mr
import modern_robotics as ref
rng=np.random.default_rng(7)
def rot(w): return ref.MatrixExp3(ref.VecToso3(np.asarray(w,float)))
def se3(w,p): return ref.RpToTrans(rot(w), np.asarray(p,float))
for n in (1,2,3,5,7):
    S=np.zeros((6,n))
    for i in range(n):
        w=rng.normal(size=3); w/=np.linalg.norm(w); q=rng.normal(size=3); S[:,i]=np.r_[w,np.cross(q,w)]
    Ml=np.array([se3(rng.normal(size=3)*0.5, rng.normal(size=3)*0.5) for _ in range(n+1)]); Gl=[]; masses=[]
    for i in range(n):
        A=rng.normal(size=(3,3)); I=A@A.T+np.eye(3)*0.1; m=rng.uniform(0.1,50); G=np.zeros((6,6)); G[:3,:3]=I; G[3:,3:]=m*np.eye(3); Gl.append(G); masses.append(m)
    Gl=np.array(Gl)
    q=rng.uniform(-np.pi,np.pi,n); qd=rng.normal(size=n)*3; g=np.array([1.0,-2.0,-9.8])
    M=lambda q: mr.MassMatrix(q,Ml,Gl,S)
    c=mr.VelQuadraticForces(q,qd,Ml,Gl,S)
    def Mdot(h): return (M(q+h*qd)-M(q-h*qd))/(2*h)
    Md=(4*Mdot(1e-4)-Mdot(2e-4))/3
    lhs=qd@c; rhs=0.5*qd@Md@qd
    # potential
    def linkframes(q):
        out=[]; 
        for i in range(n):
            Mi=np.eye(4)
            for k in range(i+1): Mi=Mi@Ml[k]
            T=np.eye(4)
            for k in range(i+1): T=T@ref.MatrixExp6(ref.VecTose3(S[:,k]*q[k]))
            out.append(T@Mi)
        return out
    def P(q): return sum(-masses[i]*g@linkframes(q)[i][:3,3] for i in range(n))
    grad=np.zeros(n)
    for k in range(n):
        e=np.zeros(n); e[k]=1
        d1=(P(q+1e-4*e)-P(q-1e-4*e))/2e-4; d2=(P(q+2e-4*e)-P(q-2e-4*e))/4e-4; grad[k]=(4*d1-d2)/3
    gf=mr.GravityForces(q,g,Ml,Gl,S)
    # M = sum J^T G J with body jacobians of link frames
    Msum=np.zeros((n,n)); LF=linkframes(q)
    Js=ref.JacobianSpace(S,q)
    for i in range(n):
        Ji=np.zeros((6,n)); Ji[:,:i+1]=(ref.Adjoint(ref.TransInv(LF[i]))@Js)[:,:i+1]; Msum+=Ji.T@Gl[i]@Ji
    Mq=M(q)
    print(n, 'passivity rel', abs(lhs-rhs)/max(1,abs(lhs)), ' gravity rel', np.abs(grad-gf).max()/max(1,np.abs(gf).max()), ' M=sumJGJ rel', np.abs(Msum-Mq).max()/np.abs(Mq).max(), 'sym', np.abs(Mq-Mq.T).max()/np.abs(Mq).max(), 'eigmin', np.linalg.eigvalsh((Mq+Mq.T)/2).min())
