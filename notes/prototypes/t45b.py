import sys; sys.path.insert(0, "/tmp/scratch/repo")
import numpy as np, warnings, itertools, collections
warnings.filterwarnings('ignore')
from basic_robotics.modern_robotics_numba import mr as port
import modern_robotics as ref
def rot(w): return ref.MatrixExp3(ref.VecToso3(np.asarray(w,float)))
def se3(w,p): return ref.RpToTrans(rot(w), np.asarray(p,float))
rng=np.random.default_rng(3)
J=[np.r_[np.array(a,float),np.cross(q,a)] for a,q in (([1,0,0],[0,0,0]),([0,1,0],[0.3,0,0.2]),([0,0,1],[0,0.4,0]),([0.6,0,0.8],[0.1,0.2,0.3]))]+[np.r_[0,0,0,1,0,0.],np.r_[0,0,0,0.6,0,0.8]]
res=collections.Counter(); worst=0; W=collections.defaultdict(float)
for n in (1,2,3,4,6,7):
    combos=list(itertools.product(range(len(J)),repeat=n)) if n<=2 else [tuple(rng.integers(0,len(J),n)) for _ in range(40)]
    for c in combos:
        S=np.array([J[i] for i in c]).T.copy(); M=se3([0.2,-0.1,0.3],[0.5,0.2,1.0]); B=np.array([ref.Adjoint(ref.TransInv(M))@S[:,i] for i in range(n)]).T.copy()
        th=rng.uniform(-1,1,n); Tg=ref.FKinSpace(M,S,th)
        for off in (0,0.02,0.3,2.0):
            for (eo,ev) in ((1e-2,1e-3),(1e-6,1e-3),(1e-3,1e-6)):
                for nm,args in (('IKinSpace',(S,M,Tg,th+off,eo,ev)),('IKinBody',(B,M,Tg,th+off,eo,ev))):
                    r,rs=getattr(ref,nm)(*args); q,qs=getattr(port,nm)(*args)
                    res[(nm,bool(rs),bool(qs))]+=1
                    if qs:
                        T=ref.FKinSpace(M,S,q) if nm=='IKinSpace' else ref.FKinBody(M,B,q)
                        if nm=='IKinSpace': E=ref.Adjoint(T)@ref.se3ToVec(ref.MatrixLog6(ref.TransInv(T)@Tg))
                        else: E=ref.se3ToVec(ref.MatrixLog6(ref.TransInv(T)@Tg))
                        if np.linalg.norm(E[:3])>eo*(1+1e-9)+1e-15 or np.linalg.norm(E[3:])>ev*(1+1e-9)+1e-15: res[(nm,'success_but_inaccurate')]+=1
                    if rs and qs:
                        d=np.abs(np.asarray(r)-np.asarray(q)).max(); worst=max(worst,d); W[(off,eo,ev)]=max(W[(off,eo,ev)],d)
print(dict(res)); print({k:float('%.2g'%v) for k,v in sorted(W.items())}); print('worst diff when both converge', worst)
