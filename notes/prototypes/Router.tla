---- MODULE Router ----
EXTENDS Naturals, FiniteSets, TLC
CONSTANTS E, K, S, NoData
VARIABLES fwd, sinks, srcs, open, polled, obs

vars == <<fwd, sinks, srcs, open, polled, obs>>
Msg == "m"
Payload == {Msg, NoData}

Init == /\ fwd = {} /\ sinks = {} /\ srcs = {} /\ open = E /\ polled = {}
        /\ obs = [act |-> "init", ret |-> "none", sent |-> {}, sunk |-> {}]

Obs(a, r, se, su) == [act |-> a, ret |-> r, sent |-> se, sunk |-> su]
B(b) == IF b THEN "true" ELSE "false"

SetForward(i, o) ==
  /\ fwd' = fwd \cup {<<i, o>>}
  /\ polled' = polled \cup {i}
  /\ obs' = Obs("fwd", B(<<i, o>> \notin fwd), {}, {})
  /\ UNCHANGED <<sinks, srcs, open>>

DelForward(i, o) ==
  /\ fwd' = fwd \ {<<i, o>>}
  /\ obs' = Obs("del", B(<<i, o>> \in fwd), {}, {})
  /\ UNCHANGED <<sinks, srcs, open, polled>>

SetSink(i, k) ==
  /\ sinks' = sinks \cup {<<i, k>>}
  /\ polled' = polled \cup {i}
  /\ obs' = Obs("sink", B(<<i, k>> \notin sinks), {}, {})
  /\ UNCHANGED <<fwd, srcs, open>>

SetSource(o, s) ==
  /\ srcs' = srcs \cup {<<o, s>>}
  /\ obs' = Obs("src", B(<<o, s>> \notin srcs), {}, {})
  /\ UNCHANGED <<fwd, sinks, open, polled>>

\* deliveries of payload p received on endpoint e : sets of <<dest, count>> with count always 1
Deliver(e, p) == IF p = NoData \/ e \notin open THEN <<{}, {}>>
                 ELSE << {<<d, p>> : d \in {o \in E : <<e, o>> \in fwd}},
                         {<<k, p>> : k \in {kk \in K : <<e, kk>> \in sinks}} >>

Recv(e, p) ==
  /\ obs' = Obs("recv", IF p = NoData \/ e \notin open THEN "none" ELSE p, Deliver(e, p)[1], Deliver(e, p)[2])
  /\ UNCHANGED <<fwd, sinks, srcs, open, polled>>

Open(e)  == /\ open' = open \cup {e} /\ obs' = Obs("open", B(e \notin open), {}, {}) /\ UNCHANGED <<fwd, sinks, srcs, polled>>
Close(e) == /\ open' = open \ {e}    /\ obs' = Obs("close", B(e \in open), {}, {}) /\ UNCHANGED <<fwd, sinks, srcs, polled>>

Next == \/ \E i \in E, o \in E : SetForward(i, o) \/ DelForward(i, o)
        \/ \E i \in E, k \in K : SetSink(i, k)
        \/ \E o \in E, s \in S : SetSource(o, s)
        \/ \E e \in E, p \in Payload : Recv(e, p)
        \/ \E e \in E : Open(e) \/ Close(e)

Spec == Init /\ [][Next]_vars

\* model-level statement of the property: a receive with no data delivers nothing;
\* with data it delivers to exactly the active rules.
NoDataDeliversNothing == (obs.act = "recv" /\ obs.ret = "none") => (obs.sent = {} /\ obs.sunk = {})
====
