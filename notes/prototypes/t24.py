import sys, os; sys.path.insert(0, "/tmp/scratch/repo")
import numpy as np, warnings, time
warnings.filterwarnings('ignore')
t0=time.time()
from armlib import *
from basic_robotics.kinematics.sp_model import newSP
print('mode', os.environ.get('NUMBA_BOUNDSCHECK'), os.environ.get('NUMBA_DISABLE_JIT'), 'cache', os.environ.get('NUMBA_CACHE_DIR'))
from basic_robotics.modern_robotics_numba import mr
print(type(mr.MatrixExp3).__name__, type(mr.TransToRp).__name__)
arm=mkarm(tm()); th=np.array([0.3,-0.4,0.5,0.2,-0.1,0.7])
print('FK', arm.FK(th.copy()).gTAA().T)
for f,name in ((lambda: arm.FKLink(th.copy(),2),'FKLink'),(lambda: arm.massMatrix(th.copy()),'massMatrix'),(lambda: arm.jacobianLink(3,th.copy()),'jacLink'),(lambda: arm.IK(arm.FK(th.copy()).copy(), th+0.01),'IK')):
    try: r=f(); print(name,'ok', np.asarray(r[0].gTAA() if hasattr(r,'gTAA') else (r[0] if isinstance(r,tuple) else r)).ravel()[:3])
    except Exception as e: print(name,'EXC',type(e).__name__, str(e)[:80])
sp=newSP(0.9,0.3,9,25,0.1,0.16,0.9,0.5,1,6,0.2,0.2,0.75,1.5, tm(), 'sp', 1)
L,v=sp.IK(tm([0.1,0.05,1.25,0.1,-0.05,0.15])); sp.IK(tm([0,0,sp._nominal_height,0,0,0])); top,v=sp.FK(L.copy()); print('SP', L.T, top.gTAA().T)
T=np.asfortranarray(arm.FK(th.copy()).gTM())
for nm,f in (('TransInv F-order',lambda: mr.TransInv(T)),('Adjoint sliced',lambda: mr.Adjoint(np.zeros((5,5))[:4,:4]+np.eye(4))),('VecToso3 int',lambda: mr.VecToso3(np.array([1,2,3]))),('MatrixExp3 F',lambda: mr.MatrixExp3(np.asfortranarray(mr.VecToso3(np.array([.1,.2,.3])))))):
    try: print(nm, np.asarray(f()).ravel()[:4])
    except Exception as e: print(nm,'EXC',type(e).__name__, str(e)[:60])
print('elapsed', round(time.time()-t0,1))
