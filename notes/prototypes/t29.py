import sys; sys.path.insert(0, "/tmp/scratch/repo")
import numpy as np, warnings, glob, collections, copy
warnings.filterwarnings('ignore')
from armlib import *
from basic_robotics.kinematics import loadArmFromURDF
arms={'6R':mkarm(tm())}
for f in sorted(glob.glob('/repo/tests/test_helpers/*.urdf')+glob.glob('/repo/tests/test_helpers/ur_description/ur10.urdf')):
    arms[f.split('/')[-1]]=loadArmFromURDF(f)
rng=np.random.default_rng(0); res=collections.Counter(); bad=[]
for name,arm in arms.items():
    n=arm.num_dof; lo=np.maximum(arm.joint_mins,-2*np.pi)+0.15; hi=np.minimum(arm.joint_maxs,2*np.pi)-0.15
    k=0; tries=0
    while k<30 and tries<2000:
        tries+=1
        ths=rng.uniform(lo,hi)
        J=arm.jacobian(ths.copy()); sm=np.linalg.svd(J,compute_uv=False).min()
        if sm<0.05: continue
        k+=1
        goal=arm.FK(ths.copy()).copy()
        for i in range(n):
            for sgn in (1,-1):
                for protect in (False,True):
                    a=copy.deepcopy(arm); st=ths.copy(); st[i]+=0.02*sgn
                    th1,ok=a.IK(goal.copy(), st, check=False, protect=protect)
                    E=ref.se3ToVec(ref.MatrixLog6(ref.TransInv(a.FK(np.array(th1,float).copy()).gTM())@goal.gTM()))
                    res[(name,protect,bool(ok))]+=1
                    if not ok: bad.append((name,protect,ths.round(3),i,sgn,sm))
                    elif np.linalg.norm(E[:3])>1e-4 or np.linalg.norm(E[3:])>1e-4: res[(name,'inaccurate')]+=1
for k,v in sorted(res.items(),key=str): print(k,v)
for b in bad[:10]: print(b)
