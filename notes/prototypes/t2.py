import sys; sys.path.insert(0, "/tmp/scratch/repo")
import numpy as np, warnings, sys
warnings.filterwarnings('ignore')
from basic_robotics.general import tm, fsr, Screw, Wrench
from basic_robotics.kinematics import Arm, loadArmFromURDF
from basic_robotics.modern_robotics_numba import mr
import modern_robotics as ref
np.set_printoptions(precision=6, suppress=True)

def mkarm(base):
    L1=4.5;L2=3.75;L3=3.75;W=0.1
    ee = fsr.TAAtoTM(np.array([[L2+L3+W+W+W],[0],[L1],[0],[0],[0]]))
    axes = np.array([[0, 0, 1],[0, 1, 0],[0, 1, 0],[1, 0, 0],[0, 1, 0],[1, 0, 0]]).T
    homes = np.array([[0, 0, 0],[0, 0, L1],[L2, 0, L1],[L2+L3, 0, L1],[L2+L3+W, 0, L1],[L2+L3+2*W, 0, L1]]).T
    S = np.zeros((6,6))
    for i in range(6):
        S[:,i] = np.hstack((axes[:,i], np.cross(homes[:,i], axes[:,i])))
    S0 = S.copy()
    arm = Arm(base, S, ee, homes, axes)
    return arm, S0, S, ee

def poe(base, S0, ee, th):
    T = np.eye(4)
    for i in range(len(th)):
        T = T @ ref.MatrixExp6(ref.VecTose3(S0[:,i]*th[i]))
    return base.gTM() @ T @ ee

th = np.array([0.3,-0.4,0.5,0.2,-0.1,0.7])
print("--- identity base")
arm,S0,S,ee = mkarm(tm())
print(np.abs(arm.FK(th.copy()).gTM()-poe(tm(),S0,ee,th)).max())
print("--- base B at construction")
B = tm([1,2,3,0.2,0.3,-0.4])
arm,S0,S,ee = mkarm(B)
print("caller array mutated:", np.abs(S-S0).max())
print(np.abs(arm.FK(th.copy()).gTM()-poe(B,S0,ee,th)).max())
print("--- then move to C")
C = tm([-1,0.5,2,0.1,-0.2,0.3])
arm.move(C)
print(np.abs(arm.FK(th.copy()).gTM()-poe(C,S0,ee,th)).max())
print("--- identity construct then move C")
arm,S0,S,ee = mkarm(tm())
arm.move(C)
print(np.abs(arm.FK(th.copy()).gTM()-poe(C,S0,ee,th)).max())
arm.move(B)
print(np.abs(arm.FK(th.copy()).gTM()-poe(B,S0,ee,th)).max())
print('base', np.abs(arm.getBasePos().gTM()-B.gTM()).max())
