import sys; sys.path.insert(0, "/tmp/scratch/repo")
import numpy as np, warnings, itertools, collections, copy, io, contextlib, glob, time
warnings.filterwarnings('ignore')
from armlib import *
from basic_robotics.kinematics import loadArmFromURDF, Arm
from basic_robotics.kinematics import arm_model
np.set_printoptions(precision=5, suppress=True, linewidth=200)
def PoE(S,th):
    T=np.eye(4)
    for i in range(len(th)): T=T@ref.MatrixExp6(ref.VecTose3(S[:,i]*th[i]))
    return T
class Model:
    def __init__(s, arm, base0):
        # capture local data from a freshly built arm (at base0)
        Bi=np.linalg.inv(base0.gTM())
        s.base=base0.gTM().copy(); s.S=ref.Adjoint(Bi)@arm.screw_list.copy(); s.M=Bi@arm._end_effector_home.gTM(); s.M0=s.M.copy()
        s.lo=arm.joint_mins.copy(); s.hi=arm.joint_maxs.copy(); s.th=np.zeros(arm.num_dof)
    def fk(s,th=None):
        th=s.th if th is None else th
        return s.base@PoE(s.S,th)@s.M
    def clamp(s,th): return np.minimum(np.maximum(th,s.lo),s.hi)
class ScriptedRandom:
    def __init__(s, vec): s.vec=list(vec); s.i=0
    def uniform(s,a,b):
        v=s.vec[s.i%len(s.vec)]; s.i+=1; return min(max(v,a),b)
def mkops(n, lo, hi, reach):
    rng=np.random.default_rng(5)
    thg=lo+(hi-lo)*rng.uniform(0.3,0.7,n); thg2=lo+(hi-lo)*rng.uniform(0.2,0.8,n)
    over=thg.copy(); over[0]=hi[0]+0.5
    B1=tm([1,2,3,0.2,0.3,-0.4]); B2=tm([-1,0.5,2,0.1,-0.2,0.3])
    X=tm([0.1,0.2,0.3,0.2,0.1,-0.3])
    ops=[]
    for nm,th in (('FK0',np.zeros(n)),('FKg',thg),('FKover',over),('FKlo',np.maximum(lo,-6.0)),('FKg2',thg2)):
        ops.append((nm,('FK',th)))
    for nm,th in (('near',thg+0.02),('far',thg2)):
        for protect in (False,True):
            ops.append((f'IK_{nm}_{"free" if protect else "lim"}',('IK',th,protect)))
    for protect in (False,True): ops.append((f'IK_unreach_{"free" if protect else "lim"}',('IKu',protect)))
    ops+= [('moveB1',('move',B1,False)),('moveB2',('move',B2,False)),('moveB1stat',('move',B1,True)),
           ('toolX_th',('tool',X,thg)),('toolX_none',('tool',X,None)),('restore',('restore',)),('randomPos',('rand',thg2))]
    return ops
def apply(arm, m, op):
    kind=op[0]; obs=None
    if kind=='FK':
        th=op[1].copy(); r=arm.FK(th); m.th=m.clamp(op[1]); exp=m.fk(); 
        return [('FKret',np.abs(r.gTM()-exp).max())]
    if kind=='IK':
        goal=tm(m.fk(m.clamp(op[1]-0.02 if False else op[1]))); th0=m.th.copy()
        # goal = model FK of target; start from target+offset handled by name: use current state as start for 'far', explicit for near
        th,ok=arm.IK(goal.copy(), m.clamp(op[1])+0.0 if False else None, protect=op[2]) if False else arm.IK(goal.copy(), (m.clamp(op[1])+0.02), protect=op[2])
        th=np.asarray(th,float); out=[]
        if ok:
            E=ref.se3ToVec(ref.MatrixLog6(ref.TransInv(m.base@PoE(m.S,th)@m.M)@goal.gTM()))
            out.append(('IKacc_rot',max(0,np.linalg.norm(E[:3])-arm.rot_tolerance))); out.append(('IKacc_pos',max(0,np.linalg.norm(E[3:])-arm.pos_tolerance-np.linalg.norm(goal.gTM()[:3,3])*arm.rot_tolerance)))
            if not op[2]: out.append(('IKlimits', max(0,(th-m.hi).max(),(m.lo-th).max())))
        else: out.append(('IK_near_failed',1.0))
        m.th=np.asarray(arm._theta,float).copy(); return out
    if kind=='IKu':
        far=tm(m.base@np.array([[1,0,0,500.],[0,1,0,0],[0,0,1,0],[0,0,0,1]]))
        with contextlib.redirect_stdout(io.StringIO()): th,ok=arm.IK(far, None, protect=op[1])
        m.th=np.asarray(arm._theta,float).copy(); return [('unreach_claimed', 1.0 if ok else 0.0)]
    if kind=='move':
        B=op[1]; old=m.fk().copy(); m.base=B.gTM().copy(); m.th=m.clamp(m.th)
        with contextlib.redirect_stdout(io.StringIO()): arm.move(B.copy(), op[2])
        if op[2]:
            m.th=np.asarray(arm._theta,float).copy(); return []   # stationary: solver answer
        return []
    if kind=='tool':
        X,th=op[1],op[2]
        if th is not None:
            thc=m.clamp(th); cur=m.fk(thc); new=cur@X.gTM(); arm.setArbitraryHome(tm(new), th.copy()); m.th=thc
        else:
            cur=arm.getEEPos().gTM(); new=cur@X.gTM(); thu0=m.th.copy(); arm.setArbitraryHome(tm(new), None)
            m.M = np.linalg.inv(m.base@PoE(m.S,thu0))@new; m.th=m.clamp(m.th); return []
        # model: M' = M * inv(FKlocal(th_used)) ... => after call FK(th_used) == new
        thu=m.th; m.M = np.linalg.inv(m.base@PoE(m.S,thu))@new
        return []
    if kind=='restore':
        arm.restoreOriginalEE(); m.M=m.M0.copy(); m.th=m.clamp(m.th); return []
    if kind=='rand':
        arm_model.random=ScriptedRandom(op[1]); r=arm.randomPos(); import random as _r; arm_model.random=_r
        m.th=m.clamp(op[1]); return [('randret',np.abs(r.gTM()-m.fk()).max())]
def invariants(arm,m):
    out=[]
    out.append(('base',np.abs(arm.getBasePos().gTM()-m.base).max()))
    tha=np.asarray(arm._theta,float)
    out.append(('theta',np.abs(np.sin(tha)-np.sin(m.th)).max()+np.abs(np.cos(tha)-np.cos(m.th)).max()))
    out.append(('EEpos_vs_model',np.abs(arm.getEEPos().gTM()-m.fk(tha)).max()))
    a2=copy.deepcopy(arm); out.append(('jac_default',np.abs(a2.jacobian()-a2.jacobian(tha.copy())).max()))
    a2=copy.deepcopy(arm); out.append(('FK(state)',np.abs(a2.FK(tha.copy(), protect=True).gTM()-m.fk(tha)).max()))
    a2=copy.deepcopy(arm); jt=a2.getJointTransforms(); out.append(('JT_last',np.abs(jt[-1].gTM()-m.fk(m.clamp(tha))).max())); out.append(('JT_base',np.abs(jt[0].gTM()[:3,3]-( (arm.getBasePos()@arm._fixed_base_offset).gTM()[:3,3] if arm._fixed_base_offset is not None else m.base[:3,3])).max()))
    return out
def canon(arm):
    parts=[np.round(np.asarray(arm._theta,float),7), np.round(arm.getEEPos().gTM(),7), np.round(arm.getBasePos().gTM(),7), np.round(arm._end_effector_home.gTM(),7), np.round(arm.screw_list,7), np.round(arm.screw_list_body,7)]
    return b''.join((p+0.0).tobytes() for p in parts)
def explore(name, factory, base0, depth=2):
    arm0=factory(); m0=Model(arm0, base0); ops=mkops(arm0.num_dof, np.maximum(arm0.joint_mins,-6.2), np.minimum(arm0.joint_maxs,6.2), None)
    seen={canon(arm0)}; frontier=[(arm0,m0,[])]; viol=collections.OrderedDict(); trans=0
    for d in range(depth):
        nxt=[]
        for arm,m,h in frontier:
            for nm,op in ops:
                a=copy.deepcopy(arm); mm=copy.deepcopy(m); trans+=1
                try:
                    res=apply(a,mm,op); res+=invariants(a,mm)
                except Exception as e:
                    viol.setdefault((nm,'EXC',type(e).__name__),(h+[nm],str(e)[:100])); continue
                for k,v in res:
                    tol=1e-7 
                    if k=='EEpos_vs_model' and nm.startswith('IK') : tol=max(1e-7, 20*(a.pos_tolerance+a.rot_tolerance*(1+np.abs(mm.fk()[:3,3]).max())))
                    if v>tol: viol.setdefault((nm,k),(h+[nm],v))
                c=canon(a)
                if c not in seen: seen.add(c); nxt.append((a,mm,h+[nm]))
        frontier=nxt
    print(f'{name}: states {len(seen)} transitions {trans} violations {len(viol)}')
    for k,v in list(viol.items())[:12]: print('   ',k,v)
t0=time.time()
explore('6R@I', lambda: mkarm(tm()), tm(), 3)
B0=tm([0.5,-1,2,0.3,0.1,-0.2])
explore('6R@B0', lambda: mkarm(B0.copy()), B0, 3)
for f in ('irb_2400.urdf','ur5.urdf','puma_560.urdf'):
    explore(f, lambda f=f: loadArmFromURDF('/repo/tests/test_helpers/'+f), tm(), 3)
print('t',round(time.time()-t0,1))
