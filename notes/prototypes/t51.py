import sys; sys.path.insert(0, "/tmp/scratch/repo")
import numpy as np, warnings, itertools, collections
warnings.filterwarnings('ignore')
from basic_robotics.general import tm, fsr
from basic_robotics.modern_robotics_numba import mr
import modern_robotics as ref
pi=np.pi; W=collections.defaultdict(float); info={}
def upd(k,v,i=None):
    v=float(v)
    if not np.isfinite(v): v=np.inf
    if v>W[k]: W[k]=v; info[k]=i
def Rof(t): return t.gTM()[:3,:3]
def ang(R): return np.arctan2(np.linalg.norm([R[2,1]-R[1,2],R[0,2]-R[2,0],R[1,0]-R[0,1]])/2,(np.trace(R)-1)/2)
P=[tm([1,2,3,0,0,0]), tm([0.5,-1,2,0.3,-0.2,0.5]), tm([-2,5,1,1,2,-1.5]), tm([3,-1,2,0,0,pi-1e-3]), tm([10,-10,10,0.7,0.7,0]), tm([0,0,5,0,0,0]),tm([1,2,-4,0.1,0,0]), tm([-3,0.5,0.25,-1.2,0.4,0.9]), tm([0.1,0.2,0.3,0,2.5,0]), tm()]
for o,p in itertools.product(P,repeat=2):
    m=fsr.mirror(o.copy(),p.copy()); mm=fsr.mirror(o.copy(),m.copy())
    upd('mirror involution', np.abs(mm.gTAA()[:3]-p.gTAA()[:3]).max())
    To=o.gTM(); loc=np.linalg.inv(To)@np.r_[p.gTAA()[:3,0],1]; locm=np.linalg.inv(To)@np.r_[m.gTAA()[:3,0],1]
    upd('mirror local', max(abs(locm[0]-loc[0]),abs(locm[1]-loc[1]),abs(locm[2]+loc[2])),(o.gTAA().T,p.gTAA().T))
    upd('mirror rot zero', np.abs(m.gTAA()[3:]).max())
    mid=fsr.tmInterpMidpoint(o.copy(),p.copy())
    upd('mid pos', np.abs(mid.gTAA()[:3]-(o.gTAA()[:3]+p.gTAA()[:3])/2).max())
    R1,R2,Rm=Rof(o),Rof(p),Rof(mid); rel=R2@R1.T; a=ang(rel)
    if pi-a>1e-3:
        half=Rm@R1.T; upd('mid geodesic', np.abs(half@half-rel).max(),(o.gTAA().T,p.gTAA().T)); upd('mid angle', abs(ang(half)-a/2))
    else: upd('mid skipped near pi',1)
for k,v in W.items(): print(f'{k:20s} {v:.3e}', info.get(k) if v>1e-6 else '')
# tm.angleMod / fsr.angleMod(tm)
Wm=0
for x in np.r_[np.arange(-50,50.01,0.37), [2*pi*k+d for k in range(-7,8) for d in (-1e-9,0,1e-9)]]:
    for i in range(3,6):
        v=[1,2,3,0,0,0]; v[i]=x; t=tm(v); R0=t.gTM().copy(); t.angleMod(); Wm=max(Wm,np.abs(t.gTM()-R0).max(), abs(np.sin(t[i])-np.sin(x))+abs(np.cos(t[i])-np.cos(x)))
        t2=tm(v); r=fsr.angleMod(t2); Wm=max(Wm,np.abs(r.gTM()-R0).max())
print('tm.angleMod preserves pose/angle mod 2pi', Wm)
