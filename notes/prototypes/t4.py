import sys; sys.path.insert(0, "/tmp/scratch/repo")
import numpy as np, warnings, inspect, traceback
warnings.filterwarnings('ignore')
import matplotlib; matplotlib.use('agg')
from basic_robotics.modern_robotics_numba import mr as port
import modern_robotics as ref
rng = np.random.default_rng(1)
def rot(w): return ref.MatrixExp3(ref.VecToso3(np.asarray(w,float)))
def se3(w,p): return ref.RpToTrans(rot(w), np.asarray(p,float))
def chain(n):
    S = np.zeros((6,n))
    for i in range(n):
        w = rng.normal(size=3); w/=np.linalg.norm(w); q = rng.normal(size=3)
        S[:,i] = np.r_[w, np.cross(q,w)]
    M = se3(rng.normal(size=3)*0.5, rng.normal(size=3))
    return S, M
def dyn(n):
    S,M = chain(n)
    Mlist = np.array([se3(rng.normal(size=3)*0.3, rng.normal(size=3)*0.3) for _ in range(n+1)])
    Glist=[]
    for i in range(n):
        A = rng.normal(size=(3,3)); I = A@A.T + np.eye(3)*0.1; m = rng.uniform(0.5,5)
        G = np.zeros((6,6)); G[:3,:3]=I; G[3:,3:]=m*np.eye(3); Glist.append(G)
    return S, Mlist, np.array(Glist)
n=3
S,M = chain(n); th = rng.normal(size=n); dth = rng.normal(size=n); ddth=rng.normal(size=n)
Sd,Ml,Gl = dyn(n); g = np.array([0,0,-9.8]); F = rng.normal(size=6); tau = rng.normal(size=n)
T = se3([0.3,-0.2,0.5],[1,2,3]); T2 = se3([-0.1,0.4,0.2],[0.5,-1,2]); R = T[:3,:3].copy(); p=T[:3,3].copy()
w3 = np.array([0.3,-0.2,0.5]); V6 = np.array([0.3,-0.2,0.5,1,2,3.])
N=5
thm = rng.normal(size=(N,n)); dthm = rng.normal(size=(N,n)); ddthm = rng.normal(size=(N,n)); Fm = rng.normal(size=(N,6)); taum = rng.normal(size=(N,n))
B = np.array([ref.Adjoint(ref.TransInv(M))@S[:,i] for i in range(n)]).T
Tgoal = ref.FKinSpace(M,S,th+0.05)
cases = {
 'Adjoint':(T,), 'AxisAng3':(w3,), 'AxisAng6':(V6,), 'CartesianTrajectory':(T,T2,2.0,N,3), 'ScrewTrajectory':(T,T2,2.0,N,5),
 'ComputedTorque':(th,dth,rng.normal(size=n),g,Ml,Gl,Sd,th+0.1,dth,ddth,1.3,1.2,1.1),
 'CubicTimeScaling':(2.0,0.6),'QuinticTimeScaling':(2.0,0.6),'DistanceToSE3':(T+0.01,),'DistanceToSO3':(R+0.01,),
 'EndEffectorForces':(th,F,Ml,Gl,Sd),'EulerStep':(th,dth,ddth,0.1),'FKinBody':(M,B,th),'FKinSpace':(M,S,th),
 'ForwardDynamics':(th,dth,tau,g,F,Ml,Gl,Sd),'ForwardDynamicsTrajectory':(th,dth,taum,g,Fm,Ml,Gl,Sd,0.01,2),
 'GravityForces':(th,g,Ml,Gl,Sd),'IKinBody':(B,M,Tgoal,th,1e-3,1e-4),'IKinSpace':(S,M,Tgoal,th,1e-3,1e-4),
 'InverseDynamics':(th,dth,ddth,g,F,Ml,Gl,Sd),'InverseDynamicsTrajectory':(thm,dthm,ddthm,g,Fm,Ml,Gl,Sd),
 'JacobianBody':(B,th),'JacobianSpace':(S,th),'JointTrajectory':(th,th+1,2.0,N,3),'MassMatrix':(th,Ml,Gl,Sd),
 'MatrixExp3':(ref.VecToso3(w3),),'MatrixExp6':(ref.VecTose3(V6),),'MatrixLog3':(R,),'MatrixLog6':(T,),'NearZero':(1e-7,),
 'Normalize':(w3,),'ProjectToSE3':(T+0.01,),'ProjectToSO3':(R+0.01,),'RotInv':(R,),'RpToTrans':(R,p),'ScrewToAxis':(p,w3/np.linalg.norm(w3),0.3),
 'SimulateControl':(th,dth,g,Fm,Ml,Gl,Sd,thm,dthm,ddthm,g,Ml,Gl,20.,10.,18.,0.01,2),
 'TestIfSE3':(T,),'TestIfSO3':(R,),'TransInv':(T,),'TransToRp':(T,),'VecTose3':(V6,),'VecToso3':(w3,),'VelQuadraticForces':(th,dth,Ml,Gl,Sd),
 'ad':(V6,),'se3ToVec':(ref.VecTose3(V6),),'so3ToVec':(ref.VecToso3(w3),)}
def flat(x):
    if isinstance(x,(tuple,list)): return np.concatenate([flat(y) for y in x]) if len(x) else np.zeros(0)
    return np.asarray(x,float).ravel()
import copy
for name,args in sorted(cases.items()):
    try: r = getattr(ref,name)(*copy.deepcopy(args))
    except Exception as e: print(name,'REF EXC',e); continue
    try: q = getattr(port,name)(*copy.deepcopy(args))
    except Exception as e: print(f"{name:28s} PORT EXC {type(e).__name__}: {str(e)[:100]}"); continue
    a,b = flat(r),flat(q)
    if a.shape!=b.shape: print(f"{name:28s} SHAPE {a.shape} {b.shape}"); continue
    d = np.abs(a-b).max() if a.size else 0
    print(f"{name:28s} maxdiff {d:.2e}" + ("   <<<<" if d>1e-9 else ""))
