import sys; sys.path.insert(0, "/tmp/scratch/repo")
import numpy as np, warnings, time, copy
warnings.filterwarnings('ignore')
from basic_robotics.general import tm, fsr, fmr, Wrench
from basic_robotics.kinematics import Arm, loadArmFromURDF
import modern_robotics as ref
np.set_printoptions(precision=5, suppress=True, linewidth=200)
def mkarm(base):
    L1=4.5;L2=3.75;L3=3.75;W=0.1
    ee = fsr.TAAtoTM(np.array([[L2+L3+W+W+W],[0],[L1],[0],[0],[0]]))
    axes = np.array([[0, 0, 1],[0, 1, 0],[0, 1, 0],[1, 0, 0],[0, 1, 0],[1, 0, 0]]).T
    homes = np.array([[0, 0, 0],[0, 0, L1],[L2, 0, L1],[L2+L3, 0, L1],[L2+L3+W, 0, L1],[L2+L3+2*W, 0, L1]]).T
    S = np.zeros((6,6))
    for i in range(6): S[:,i] = np.hstack((axes[:,i], np.cross(homes[:,i], axes[:,i])))
    Tspace = [tm(np.array([[0],[0],[L1/2],[0],[0],[0]])), tm(np.array([[L2/2],[0],[L1],[0],[0],[0]])), tm(np.array([[L2+(L3/2)],[0],[L1],[0],[0],[0]])),
            tm(np.array([[L2+L3+(W/2)],[0],[L1],[0],[0],[0]])), tm(np.array([[L2+L3+W+(W/2)],[0],[L1],[0],[0],[0]])), tm(np.array([[L2+L3+W+W+(W/2)],[0],[L1],[0],[0],[0]]))]
    dims = np.array([[W, W, L1],[L2, W, W],[L3, W, W],[W, W, W],[W, W, W],[W, W, W]]).T
    Mt=[None]*7; Mt[0]=Tspace[0]
    for i in range(1,6): Mt[i]=Tspace[i-1].inv()@Tspace[i]
    Mt[6]=Tspace[5].inv()@ee
    masses=np.array([20,20,20,1,1,1.]); G=np.zeros((6,6,6))
    for i in range(6): G[i]=fsr.boxSpatialInertia(masses[i],dims[0,i],dims[1,i],dims[2,i])
    arm = Arm(base, S.copy(), ee, homes, axes)
    arm.setJointProperties(np.ones(6)*-2*np.pi, np.ones(6)*2*np.pi)
    arm.setOrigins(link_homes_global=Tspace); arm.setMassProperties(masses, Mt, G); arm.setVisColProperties(link_dimensions=dims)
    return arm
def numJs(arm, th, h=1e-4):
    n=len(th); J=np.zeros((6,n)); T0=arm.FK(th.copy()).gTM()
    for i in range(n):
        def f(s):
            t=th.copy(); t[i]+=s; return arm.FK(t).gTM()
        d1=(f(h)-f(-h))/(2*h); d2=(f(2*h)-f(-2*h))/(4*h); dT=(4*d1-d2)/3
        J[:,i]=ref.se3ToVec(dT@ref.TransInv(T0))
    arm.FK(th.copy()); return J
arm=mkarm(tm()); th=np.array([0.3,-0.4,0.5,0.2,-0.1,0.7])
Js=arm.jacobian(th.copy()); Jn=numJs(arm,th); print('space J vs dFK', np.abs(Js-Jn).max())
T=arm.FK(th.copy()).gTM(); Jb=arm.jacobianBody(th.copy()); print('body vs Ad(inv T)Js', np.abs(Jb-ref.Adjoint(ref.TransInv(T))@Js).max())
print('robot_model.jacobianBody? Arm overrides. numericalJacobian:', np.abs(arm.numericalJacobian(th.copy())-Jb).max(), np.abs(arm.numericalJacobian(th.copy())-Js).max())
print('jacobianEETrans', np.abs(arm.jacobianEETrans(th.copy()) - ref.Adjoint(ref.TransInv(ref.RpToTrans(np.eye(3),T[:3,3])))@Js).max())
for i in range(6):
    Tl=arm.FKLink(th.copy(),i).gTM(); Jl=arm.jacobianLink(i,th.copy()); Jfull=Js.copy(); Jfull[:,i+1:]=0
    print(' link',i, np.abs(Jl-ref.Adjoint(ref.TransInv(Tl))@Jfull).max(), end='')
print()
print('--- after setArbitraryHome')
arm.setArbitraryHome(arm.FK(th.copy())@tm([0.1,0.2,0.3,0.2,0.1,-0.3]), th.copy())
Js=arm.jacobian(th.copy()); Jn=numJs(arm,th); print('space J vs dFK', np.abs(Js-Jn).max())
T=arm.FK(th.copy()).gTM(); Jb=arm.jacobianBody(th.copy()); print('body vs Ad(inv T)Js', np.abs(Jb-ref.Adjoint(ref.TransInv(T))@Js).max())
arm.restoreOriginalEE()
T=arm.FK(th.copy()).gTM(); Jb=arm.jacobianBody(th.copy()); Js=arm.jacobian(th.copy()); print('restored: body vs Ad(inv T)Js', np.abs(Jb-ref.Adjoint(ref.TransInv(T))@Js).max())
print('--- statics')
w=Wrench(np.array([1.,2,3,4,5,6])); tau=arm.staticForces(w, th.copy()); print(tau.T, (Js.T@w.getData()).T)
w2=arm.staticForcesInv(tau, th.copy()); print(w2.getData().T)
try:
    print(arm.staticForcesWithLinkMasses(Wrench(np.zeros(6)), th.copy()).T)
except Exception as e: print('EXC', type(e).__name__, e)
print('--- C07 tolerances')
arm=mkarm(tm()); goal=arm.FK(np.array([0.5,0.4,-0.3,0.2,0.6,-0.2]))
arm.pos_tolerance=1e-2; arm.rot_tolerance=1e-6
th1,ok=arm.IK(goal.copy(), np.array([0.45,0.45,-0.25,0.25,0.55,-0.25]))
E=ref.se3ToVec(ref.MatrixLog6(ref.TransInv(arm.FK(th1.copy()).gTM())@goal.gTM())); print(ok, 'ang err', np.linalg.norm(E[:3]), 'lin err', np.linalg.norm(E[3:]))
arm.pos_tolerance=1e-6; arm.rot_tolerance=1e-2
th1,ok=arm.IK(goal.copy(), np.array([0.45,0.45,-0.25,0.25,0.55,-0.25]))
E=ref.se3ToVec(ref.MatrixLog6(ref.TransInv(arm.FK(th1.copy()).gTM())@goal.gTM())); print(ok, 'ang err', np.linalg.norm(E[:3]), 'lin err', np.linalg.norm(E[3:]))
print('--- unreachable')
arm=mkarm(tm()); g=tm([50,0,0,0,0,0]); th2,ok=arm.IK(g); print(ok, np.abs(arm.getEEPos().gTM()-arm.FK(arm._theta.copy()).gTM()).max())
th2,ok=arm.IK(g, protect=True); print('free', ok, th2, np.abs(arm.getEEPos().gTM()-ref.FKinSpace(arm._end_effector_home.gTM(), arm.screw_list, arm._theta)).max())
