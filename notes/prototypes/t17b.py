import sys; sys.path.insert(0, "/tmp/scratch/repo")
import numpy as np, warnings, time, copy, itertools, collections
warnings.filterwarnings('ignore')
from basic_robotics.general import tm, fsr
from scipy.spatial.transform import Rotation as Rsc
from scipy.linalg import expm
pi=np.pi
ANG=[0,1e-7,1,pi-1e-3,2*pi+0.5]
def rotvecs():
    out=[]
    for a in ANG:
        for ax in ([1,0,0],[0,0,1],[0.6,0,0.8],[1/3**.5]*3):
            out.append(tuple(np.array(ax)*a))
    return sorted(set(out))
RV=rotvecs(); POS=[(0,0,0),(1,-2,3)]
def skew(w): return np.array([[0,-w[2],w[1]],[w[2],0,-w[0]],[-w[1],w[0],0]])
def Rexp(w):
    w=np.asarray(w,float); th=np.linalg.norm(w)
    if th<1e-12: return np.eye(3)+skew(w)
    K=skew(w/th); return np.eye(3)+np.sin(th)*K+(1-np.cos(th))*K@K
def check(t, hist):
    TM=t.TM; TAA=t.TAA
    if not (isinstance(TM,np.ndarray) and TM.shape==(4,4)): return 'TMshape %s'%(getattr(TM,'shape',None),)
    if not (isinstance(TAA,np.ndarray) and TAA.shape==(6,1)): return 'TAAshape %s'%(getattr(TAA,'shape',None),)
    if not np.all(np.isfinite(TM)) or not np.all(np.isfinite(TAA)): return 'nonfinite'
    E=np.eye(4); E[:3,:3]=Rexp(TAA[3:6,0]); E[:3,3]=TAA[:3,0]
    d=np.abs(E-TM).max()
    if d>5e-6:
        R=TM[:3,:3]; ang=np.arctan2(np.linalg.norm([R[2,1]-R[1,2],R[0,2]-R[2,0],R[1,0]-R[0,1]])/2,(np.trace(R)-1)/2)
        return ('KFband' if pi-ang<3e-5 else 'incoherent')+' %.3g ang=pi-%.3g'%(d,pi-ang)
    if np.abs(TM[3]-[0,0,0,1]).max()>1e-12: return 'lastrow'
    R=TM[:3,:3]
    if np.abs(R@R.T-np.eye(3)).max()>5e-6 or abs(np.linalg.det(R)-1)>5e-6: return 'notSO3'
    return None
# operand palette (fresh each use)
def operands(): return [tm(list(p)+list(w)) for p in POS for w in RV[::3]]
OPS=[]
for p in POS:
    for w in RV:
        v=list(p)+list(w)
        OPS.append(('ctor6list',v, lambda t,v=v: tm(list(v))))
        OPS.append(('ctor6arr',v, lambda t,v=v: tm(np.array(v,float))))
        OPS.append(('ctor6col',v, lambda t,v=v: tm(np.array(v,float).reshape(6,1))))
        OPS.append(('ctor6rpy',v, lambda t,v=v: tm(list(v),True)))
        OPS.append(('sTAA',v, lambda t,v=v: (t.sTAA(np.array(v,float).reshape(6,1)),t)[1]))
        OPS.append(('sTAAflat',v, lambda t,v=v: (t.sTAA(np.array(v,float)),t)[1]))
        OPS.append(('sTM',v, lambda t,v=v: (t.sTM(tm(list(v)).gTM()),t)[1]))
        OPS.append(('ctor4x4',v, lambda t,v=v: tm(tm(list(v)).gTM())))
        OPS.append(('ctor7',v, lambda t,v=v: tm(list(p)+list(Rsc.from_rotvec(w).as_quat()))))
        OPS.append(('ctor7arr',v, lambda t,v=v: tm(np.array(list(p)+list(Rsc.from_rotvec(w).as_quat())))))
        OPS.append(('ctorpair',v, lambda t,v=v: tm([list(v[:3]),list(v[3:])])))
for w in RV:
    OPS.append(('ctor3list',w, lambda t,w=w: tm(list(w))))
    OPS.append(('ctor3arr',w, lambda t,w=w: tm(np.array(w))))
    OPS.append(('ctor3rpy',w, lambda t,w=w: tm(list(w),True)))
    OPS.append(('setslice_rot',w, lambda t,w=w: (t.__setitem__(slice(3,6), np.array(w).reshape(3,1)),t)[1]))
    OPS.append(('setslice_rot_list',w, lambda t,w=w: (t.__setitem__(slice(3,6), list(w)),t)[1]))
    OPS.append(('setQuat',w, lambda t,w=w: (t.setQuat(Rsc.from_rotvec(w).as_quat()),t)[1]))
for a in ANG:
    for i in range(6):
        OPS.append(('setitem',(i,a), lambda t,i=i,a=a: (t.__setitem__(i,a),t)[1]))
        OPS.append(('set',(i,a), lambda t,i=i,a=a: t.set(i,a)))
OPS.append(('setslice_pos',(1,2,3), lambda t: (t.__setitem__(slice(0,3), np.array([1.,2,3]).reshape(3,1)),t)[1]))
OPS.append(('angleMod',None, lambda t: (t.angleMod(),t)[1]))
OPS.append(('copy',None, lambda t: t.copy())); OPS.append(('ctor_tm',None, lambda t: tm(t))); OPS.append(('ctor_arr_tm',None, lambda t: tm(np.array([t]))))
OPS.append(('inv',None, lambda t: t.inv())); OPS.append(('abs',None, lambda t: abs(t)))
for k in (2.0,-0.5,3): 
    OPS.append(('mul',k, lambda t,k=k: t*k)); OPS.append(('rmul',k, lambda t,k=k: k*t)); OPS.append(('div',k, lambda t,k=k: t/k))
nop=len(operands())
for j in range(nop):
    OPS.append(('matmul',j, lambda t,j=j: t@operands()[j])); OPS.append(('rmatmul',j, lambda t,j=j: operands()[j]@t))
    OPS.append(('matmul_arr',j, lambda t,j=j: t@operands()[j].gTM())); OPS.append(('rmatmul_arr',j, lambda t,j=j: operands()[j].gTM()@t))
    OPS.append(('add',j, lambda t,j=j: t+operands()[j])); OPS.append(('sub',j, lambda t,j=j: t-operands()[j]))
    OPS.append(('add_arr',j, lambda t,j=j: t+operands()[j].gTAA())); OPS.append(('sub_arr',j, lambda t,j=j: t-operands()[j].gTAA().flatten()))
    OPS.append(('floordiv',j, lambda t,j=j: t//operands()[j])); OPS.append(('floordiv_arr',j, lambda t,j=j: t//operands()[j].gTM()))
    OPS.append(('l2g',j, lambda t,j=j: fsr.localToGlobal(t,operands()[j]))); OPS.append(('g2l',j, lambda t,j=j: fsr.globalToLocal(t,operands()[j])))
    OPS.append(('l2g_r',j, lambda t,j=j: fsr.localToGlobal(operands()[j],t))); OPS.append(('g2l_r',j, lambda t,j=j: fsr.globalToLocal(operands()[j],t)))
print('ops',len(OPS))
def canon(t): return (np.round(t.TM,7)+0.0).tobytes()+(np.round(t.TAA,7)+0.0).tobytes()
seen={canon(tm()):[]}; frontier=[(tm(),[])]; bad=collections.OrderedDict(); trans=0; t0=time.time()
for depth in range(2):
    nxt=[]
    for (s,h) in frontier:
        for (name,arg,f) in OPS:
            t=copy.deepcopy(s); trans+=1
            try: r=f(t)
            except Exception as e:
                bad.setdefault((name,'EXC',type(e).__name__),(h+[(name,arg)],str(e)[:80])); continue
            if not isinstance(r,tm): bad.setdefault((name,'nottm'),(h+[(name,arg)],type(r).__name__)); continue
            for obj,lab in ((r,'res'),(t,'recv')):
                c=check(obj,h)
                if c: bad.setdefault((name,lab,c.split()[0]),(h+[(name,arg)],c))
            if check(r,h) is None:
                k=canon(r)
                if k not in seen: seen[k]=h+[(name,arg)]; nxt.append((r,h+[(name,arg)]))
    frontier=nxt; print('depth',depth+1,'states',len(seen),'trans',trans,'t',round(time.time()-t0,1))
for k,v in bad.items(): print(k, v)
