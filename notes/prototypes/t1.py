import sys; sys.path.insert(0, "/tmp/scratch/repo")
import numpy as np, warnings
warnings.filterwarnings('ignore')
from basic_robotics.general import tm, fsr, Screw, Wrench
from basic_robotics.modern_robotics_numba import mr
np.set_printoptions(precision=6, suppress=True)

print("--- C04 nested pair")
a = tm([[1,2,3],[0.1,0.2,0.3]])
b = tm([1,2,3,0.1,0.2,0.3])
print(a.gTAA().T, b.gTAA().T)

print("--- C14 gPos alias")
t = tm([1,2,3,0,0,0]); p = t.gPos(); p[0]=99; print(t.gTAA().T)

print("--- C14 Screw default")
s = Screw(); s[0] = 5; print(Screw().getData().T)
w = Wrench(); w[0]=7; print(Wrench().getData().T)
t0 = tm(); t0[0] = 4; print(tm().gTAA().T)

print("--- C12 sub scalar")
s = Screw(np.array([1.,2,3,4,5,6]))
print((s-1).T if isinstance(s-1,np.ndarray) else (s-1).getData().T)
print((1-s).T if isinstance(1-s,np.ndarray) else (1-s).getData().T)

print("--- C18 mirror")
origin = tm([0,0,1,0,0,0])
pt = tm([0,0,3,0,0,0])
print(fsr.mirror(origin, pt).gTAA().T, "expected z=-1")
origin = tm([1,2,1,0.3,0.2,0.1])
m = fsr.mirror(origin, pt); mm = fsr.mirror(origin, m)
print(m.gTAA().T, mm.gTAA().T)

print("--- C18 tmInterpMidpoint")
A = tm([0,0,0,0,0,0]); B = tm([2,0,0,0,0,1.0])
print(fsr.tmInterpMidpoint(A,B).gTAA().T, "expected rot z 0.5")

print("--- C18 tm.angleMod")
t = tm([0,0,0,0,0,10.0]); R0 = t.gTM().copy(); t.angleMod(); print(t.gTAA().T, np.abs(t.gTM()-R0).max())

print("--- lookAt vertical")
try:
    print(fsr.lookAt(tm([0,0,0,0,0,0]), tm([0,0,5,0,0,0])).gTM())
except Exception as e: print("EXC", e)
