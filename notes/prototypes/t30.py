import sys; sys.path.insert(0, "/tmp/scratch/repo")
import numpy as np, warnings, time, itertools, io, contextlib, collections, random
warnings.filterwarnings('ignore')
from basic_robotics.general import tm, fsr
from basic_robotics.path_planning.pathplanner import RRTStar, PathNode
def key(n): return tuple(np.round(n.getPosition().gTAA().flatten(),9))
res=collections.Counter(); t0=time.time()
for seed in range(4):
  for iters in (2,5,40):
    for nobs in (0,3,12,'terrain'):
      for dmode in (0,1):
        for nnl in (1,3,20):
            random.seed(seed*1000+iters); 
            start=tm([random.uniform(-2,2),random.uniform(-2,2),random.uniform(0,2),0,0,0])
            r=RRTStar(start.copy()); r.iterations=iters; r.dmode=dmode; r.nearest_neighbors_limit=nnl; r.maximum_distance=6; r.minimum_distance=0.2
            r.bounds=[[-6,6],[-6,6],[-1,6],[-1,1],[-1,1],[-1,1]]
            if nobs=='terrain': r.generateTerrain(6,6,2,2,2.0,-3,-3)
            else:
                for k in range(nobs):
                    c=[random.uniform(-5,5) for _ in range(3)]; r.addObstruction([c[0]-.5,c[1]-.5,c[2]-.5],[c[0]+.5,c[1]+.5,c[2]+.5])
            examined=[]
            def dist(a,b): return r.distance(a,b)
            def coll(a,b): x=r.obstruction(a,b); examined.append((key(a),key(b),x)); return x
            order=[]
            draws=[0]
            class Horizon(Exception): pass
            def gen():
                draws[0]+=1
                if draws[0]>iters*200+2000: raise Horizon()
                return r.randomPos()
            goal=tm([4,4,3,0,0,0])
            try:
                with contextlib.redirect_stdout(io.StringIO()):
                    path=r.findPathGeneral(lambda: r.generalGenerateTree(gen,dist,coll), goal)
            except Exception as e:
                res['EXC '+type(e).__name__]+=1; continue
            nodes=[x.object for x in r.r6_tree_graph.getAll()]
            ok=True
            if not (len(nodes)==iters+1==r.r6_tree_graph.getCount()): ok=False; res['count']+=1
            roots=[n for n in nodes if n.getParent() is None]
            if len(roots)!=1 or key(roots[0])!=key(PathNode(start)): ok=False; res['root']+=1
            bykey={key(n):n for n in nodes}
            if len(bykey)!=len(nodes): res['dupnodes']+=1
            for n in nodes:
                m=n; steps=0
                while m.getParent() is not None and steps<=iters+1: m=m.getParent(); steps+=1
                if m.getParent() is not None or key(m)!=key(roots[0]): ok=False; res['chain']+=1
                p=n.getParent()
                if p is not None:
                    if abs(n.getCost()-(p.getCost()+r.distance(n.getPosition(),p.getPosition())))>1e-9: ok=False; res['cost']+=1
                    if abs(p.getCost()-bykey[key(p)].getCost())>1e-9: ok=False; res['parentcoststale']+=1
                    if r.obstruction(n,p): ok=False; res['edge']+=1
            # path
            if key(PathNode(path[0]))!=key(roots[0]) or key(PathNode(path[-1]))!=key(PathNode(goal)): ok=False; res['pathends']+=1
            for a,b in zip(path[:-2],path[1:-1]):
                nb=bykey.get(key(PathNode(b)))
                if nb is None or nb.getParent() is None or key(nb.getParent())!=key(PathNode(a)): ok=False; res['pathlinks']+=1
            res['ok' if ok else 'BAD']+=1
print(res, round(time.time()-t0,1))
