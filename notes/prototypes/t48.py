import sys; sys.path.insert(0, "/tmp/scratch/repo")
import numpy as np, warnings, itertools, collections, copy, time
warnings.filterwarnings('ignore')
from basic_robotics.interfaces import Comms, CommsObject
class Dbl(CommsObject):
    def __init__(s,n): super().__init__(n,'dbl'); s.inbox=[]; s.sent=[]
    def sendData(s,d): s.sent.append(d); return True
    def getData(s): return s.inbox.pop(0) if (s.inbox and s.open) else None
    def openCom(s): 
        if not s.open: s.open=True; return True
        return False
    def closeCom(s):
        if s.open: s.open=False; return True
        return False
class Sink:
    def __init__(s,n): s.n=n; s.got=[]
    def __call__(s,d): s.got.append(d)
    def __deepcopy__(s,memo): c=Sink(s.n); c.got=list(s.got); memo[id(s)]=c; return c
class Src:
    def __init__(s,n): s.n=n; s.calls=0
    def __call__(s): s.calls+=1; return 'src_'+s.n
    def __deepcopy__(s,memo): c=Src(s.n); c.calls=s.calls; memo[id(s)]=c; return c
E=['a','b']
def fresh():
    c=Comms(); eps={e:Dbl(e) for e in E}
    for e in E: c.endpoints[e]=eps[e]
    sinks={'k1':Sink('k1'),'k2':Sink('k2')}; srcs={'s1':Src('s1')}
    for e in E: eps[e].open=True
    return dict(c=c,eps=eps,sinks=sinks,srcs=srcs)
class Model:
    def __init__(s): s.fwd={e:[] for e in E}; s.sink={e:[] for e in E}; s.src={e:[] for e in E}; s.open={e:True for e in E}
OPS=[]
for i in E+['zz']:
    for o in E+['zz']:
        OPS.append(('fwd',i,o)); OPS.append(('del',i,o))
    for k in ('k1','k2'): OPS.append(('sink',i,k))
    OPS.append(('src',i,'s1'))
    for msg in ('m',None): OPS.append(('recv',i,msg))
    OPS.append(('send',i,'x')); OPS.append(('open',i)); OPS.append(('close',i))
OPS.append(('spin1',('m','m'))); OPS.append(('spin1',(None,'m'))); OPS.append(('spin1',(None,None)))
def step(w,m,op):
    c=w['c']; eps=w['eps']; exp_sent=collections.Counter(); exp_sunk=collections.Counter(); viol=[]
    for e in E: eps[e].sent=[]; eps[e].inbox=[]
    for k in w['sinks'].values(): k.got=[]
    kind=op[0]
    try:
        if kind=='fwd':
            r=c.setForwardData(op[1],op[2]); exp=(op[1] in E and op[2] in E and op[2] not in m.fwd[op[1]])
            if exp: m.fwd[op[1]].append(op[2])
            if bool(r)!=exp: viol.append(('ret',op,r,exp))
        elif kind=='del':
            r=c.deleteForwardingRule(op[1],op[2]); exp=(op[1] in E and op[2] in E and op[2] in m.fwd[op[1]])
            if exp: m.fwd[op[1]].remove(op[2])
            if bool(r)!=exp: viol.append(('ret',op,r,exp))
        elif kind=='sink':
            r=c.setDataSink(op[1],w['sinks'][op[2]]); exp=(op[1] in E and op[2] not in m.sink[op[1]])
            if exp: m.sink[op[1]].append(op[2])
            if bool(r)!=exp: viol.append(('ret',op,r,exp))
        elif kind=='src':
            r=c.setDataSource(op[1],w['srcs'][op[2]]); exp=(op[1] in E and op[2] not in m.src[op[1]])
            if exp: m.src[op[1]].append(op[2])
            if bool(r)!=exp: viol.append(('ret',op,r,exp))
        elif kind=='recv':
            if op[1] in E and op[2] is not None: eps[op[1]].inbox.append(op[2])
            r=c.getData(op[1]); got = op[2] if (op[1] in E and m.open[op[1]]) else None
            if r!=got: viol.append(('recvret',op,r,got))
            if got is not None:
                for d in m.fwd[op[1]]: exp_sent[(d,got)]+=1
                for k in m.sink[op[1]]: exp_sunk[(k,got)]+=1
        elif kind=='send':
            r=c.sendData(op[1],op[2]); 
            if op[1] in E: exp_sent[(op[1],op[2])]+=1
        elif kind=='open':
            r=c.openCom(op[1]); 
            if op[1] in E: m.open[op[1]]=True
        elif kind=='close':
            r=c.closeCom(op[1]);
            if op[1] in E: m.open[op[1]]=False
        elif kind=='spin1':
            for e,msg in zip(E,op[1]):
                if msg is not None: eps[e].inbox.append(msg)
            c.spin(1)
            # model: endpoints in order; sources send; then getData if sinks or fwd registered (keys exist once registered)
            # deliveries to an endpoint processed later in the same spin are not re-received (inbox only from script)
            for e,msg in zip(E,op[1]):
                for s_ in m.src[e]: exp_sent[(e,'src_'+s_)]+=1
                polled = (e in c.output_functions) or (e in c.forwarding)
                got = msg if (polled and m.open[e]) else None
                if got is not None:
                    for d in m.fwd[e]: exp_sent[(d,got)]+=1
                    for k in m.sink[e]: exp_sunk[(k,got)]+=1
    except Exception as ex:
        viol.append(('EXC',op,type(ex).__name__,str(ex)[:60])); return viol
    sent=collections.Counter((e,x) for e in E for x in eps[e].sent); sunk=collections.Counter((k,x) for k,s in w['sinks'].items() for x in s.got)
    if sent!=exp_sent: viol.append(('sent',op,dict(sent),dict(exp_sent)))
    if sunk!=exp_sunk: viol.append(('sunk',op,dict(sunk),dict(exp_sunk)))
    return viol
def canon(m): return (tuple((e,tuple(m.fwd[e]),tuple(m.sink[e]),tuple(m.src[e]),m.open[e]) for e in E))
w0=fresh(); m0=Model(); seen={canon(m0)}; frontier=[(w0,m0,[])]; allv=collections.OrderedDict(); trans=0; t0=time.time()
for depth in range(4):
    nxt=[]
    for w,m,h in frontier:
        for op in OPS:
            w2=copy.deepcopy(w); m2=copy.deepcopy(m); trans+=1
            v=step(w2,m2,op)
            for x in v: allv.setdefault((x[0],x[1][0]),(h+[op],x))
            k=canon(m2)
            if k not in seen and not v: seen.add(k); nxt.append((w2,m2,h+[op]))
    frontier=nxt; print('depth',depth+1,'states',len(seen),'transitions',trans,'viol kinds',len(allv),round(time.time()-t0,1))
for k,v in allv.items(): print(k,v)
