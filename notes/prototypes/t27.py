import sys; sys.path.insert(0, "/tmp/scratch/repo")
import os
os.environ['NUMBA_NUM_THREADS']='1'; os.environ['OMP_NUM_THREADS']='1'; os.environ['OPENBLAS_NUM_THREADS']='1'
import numpy as np, warnings, time, itertools, collections, copy, json, multiprocessing as mp
warnings.filterwarnings('ignore')
def geos():
    out=[]
    for r in (0.2,0.9,2.0):
      for ratio in (0.3,0.6,1.0):
        for (bs,ts) in ((5,5),(9,25),(40,40)):
          for thick in (0.0,0.1):
            for lmin in (0.8,1.5):
              for stroke in (1.5,2.0):
                for rot in (1,-1):
                  out.append((r,ratio,bs,ts,thick,lmin,stroke,rot))
    return out
def work(g):
    from basic_robotics.general import tm, fsr
    from basic_robotics.kinematics.sp_model import newSP
    r,ratio,bs,ts,thick,lmin,stroke,rot=g
    out=[]
    sp=newSP(r,r*ratio,bs,ts,thick*r,thick*r,0.9,0.5,1,6,0.2,0.2,lmin*r,lmin*r*stroke,tm(),'sp',rot)
    h=sp._nominal_height; L0=sp.getLens().flatten().tolist()
    neutral_ok=bool(sp.validate(True))
    for dx,dz,rx,rz in itertools.product((-0.2,0,0.2),(-0.15,0,0.15),(-0.3,0,0.3),(-0.3,0,0.3)):
        rel=tm([dx*h,0.1*dx*h,h*(1+dz),rx,0.5*rx,rz])
        s=copy.deepcopy(sp); L,v=s.IK(rel.copy(), protect=True); ok=bool(s.validate(True))
        if not ok: out.append((g,None,(dx,dz,rx,rz),None,None,None,None)); continue
        try: cond=float(np.linalg.cond(s.inverseJacobian()))
        except Exception: cond=float('inf')
        for mode in (1,0):
            s2=copy.deepcopy(sp); s2.fk_mode=mode
            top,v2=s2.FK(L.copy().flatten())
            e=float(np.abs(top.gTM()-rel.gTM()).max()/h); el=float(np.abs(s2.getLens().flatten()-L.flatten()).max()/h)
            out.append((g,mode,(dx,dz,rx,rz),e,el,cond,bool(v2)))
    return dict(g=g,h=float(h),L0=L0,neutral_ok=neutral_ok,rows=out)
if __name__=='__main__':
    mp.set_start_method('spawn')
    t0=time.time()
    with mp.Pool(16) as p: res=p.map(work, geos(), chunksize=4)
    json.dump(res, open('/tmp/scratch/sp_sweep_fix1.json','w'))
    print('done', time.time()-t0)
